(* C18  The round trip THROUGH TEXT: parsing the text that the serialiser of the statement writes gives back exactly the (name, value)
   pairs and the body that Email/EmailRound.v starts from.  With C18_roundtrip this is: serialise a RawMetadata to text, cut the text
   into header lines and body ([parse_lines]), run parse_email's post-processing - the same dict comes back, unparsed is empty.
   The remaining oracle assumption is that the `email` package agrees with [parse_lines] on documents of this shape (command e.lines). *)
From Coq Require Import String List NArith Bool Lia Arith Permutation.
Import ListNotations.
Require Import Show VParse MetaTable MetaBase MetaBaseFacts EmailModel EmailFacts EmailRound EmailText.
Open Scope N_scope.
Arguments N.eqb : simpl never.
Arguments N.leb : simpl never.

(* a value that survives the trip through one header line: no line-break character, no leading blank (the parser strips those) *)
Definition clean (s : list N) : Prop := (forall c, In c s -> is_break c = false) /\ lstrip_blank s = s.
Definition simple_item (i : item) : Prop :=
  header_name_ok (i_name i) = true /\ lower_name (i_name i) <> k_content_type /\ clean (i_val i) /\ i_valid i = true.

Lemma name_ok_chars n c : header_name_ok n = true -> In c n -> name_char c = true.
Proof. destruct n as [|x t]; [discriminate|]. unfold header_name_ok. rewrite forallb_forall. auto. Qed.
Lemma name_char_facts c : name_char c = true -> c <> 58 /\ c <> 10.
Proof.
  unfold name_char. intros H. apply andb_prop in H as [H H3]. apply andb_prop in H as [H1 H2]. apply N.leb_le in H1, H2.
  apply negb_true_iff, N.eqb_neq in H3. split; [auto | lia].
Qed.
Lemma existsb_false {A} (p : A -> bool) l : (forall x, In x l -> p x = false) -> existsb p l = false.
Proof. induction l as [|x t IH]; intros H; cbn [existsb]; auto. rewrite (H x) by now left. apply IH. intros y I. apply H. now right. Qed.

Lemma header_of_line_ok i : simple_item i -> header_of_line (i_name i ++ 58 :: 32 :: i_val i) = Some i.
Proof.
  intros (NO & NC & [NB LS] & V). unfold header_of_line. rewrite split_first_app.
  2:{ intros I. apply (name_ok_chars _ _ NO) in I. apply name_char_facts in I. tauto. }
  rewrite NO. cbn [andb existsb]. change (is_break 32) with false. cbn [orb]. rewrite existsb_false by auto. cbn [negb andb].
  apply seqb_neq in NC. rewrite NC. cbn [negb]. cbn [lstrip_blank]. change ((32 =? 32) || (32 =? 9)) with true. cbn iota. rewrite LS.
  destruct i as [n v b]. cbn [i_valid] in V. subst b. reflexivity.
Qed.
Lemma line_no_lf i : simple_item i -> ~ In 10 (i_name i ++ 58 :: 32 :: i_val i).
Proof.
  intros (NO & _ & [NB _] & _) I. apply in_app_iff in I as [I|[I|[I|I]]]; try discriminate.
  - apply (name_ok_chars _ _ NO) in I. apply name_char_facts in I. tauto.
  - apply NB in I. discriminate.
Qed.

Lemma plf_step f doc acc : doc <> [] ->
  parse_lines_f (S f) doc acc =
  (let '(line, rest) := split_first 10 doc in
   match line with
   | [] => Some (acc, POk (match rest with Some body => body | None => [] end))
   | _ => match header_of_line line with
          | None => None
          | Some i => match rest with Some r => parse_lines_f f r (acc ++ [i]) | None => Some (acc ++ [i], POk []) end
          end
   end).
Proof. destruct doc; [congruence | reflexivity]. Qed.

Definition body_of (tail : list N) : list N := match tail with _ :: body => body | [] => [] end.
Lemma parse_items items : forall acc tail fuel, (forall i, In i items -> simple_item i) -> (tail = [] \/ exists body, tail = 10 :: body) ->
  (List.length (text_of_items items ++ tail) < fuel)%nat ->
  parse_lines_f fuel (text_of_items items ++ tail) acc = Some (acc ++ items, POk (body_of tail)).
Proof.
  induction items as [|i t IH]; intros acc tail fuel S T F.
  - cbn [text_of_items flat_map app] in *. rewrite app_nil_r. destruct fuel as [|f]; [lia|]. cbn [parse_lines_f].
    destruct T as [->|[body ->]]; [reflexivity|]. cbn [split_first]. change (10 =? 10) with true. reflexivity.
  - destruct fuel as [|f]; [lia|].
    assert (Si : simple_item i) by (apply S; now left).
    assert (E : text_of_items (i :: t) ++ tail = (i_name i ++ 58 :: 32 :: i_val i) ++ 10 :: (text_of_items t ++ tail)).
    { cbn [text_of_items flat_map]. unfold line_of. now rewrite <- !app_assoc. }
    rewrite E in *.
    assert (NE : i_name i ++ 58 :: 32 :: i_val i <> []) by (destruct (i_name i); discriminate).
    rewrite plf_step by (destruct (i_name i ++ 58 :: 32 :: i_val i); [congruence | discriminate]).
    rewrite split_first_app by now apply line_no_lf.
    destruct (i_name i ++ 58 :: 32 :: i_val i) as [|c l] eqn:EL; [congruence|]. rewrite <- EL.
    rewrite header_of_line_ok by auto.
    rewrite IH; auto.
    + now rewrite <- app_assoc.
    + intros j I. apply S. now right.
    + rewrite app_length in F. cbn [List.length] in F. lia.
Qed.

(* parsing the text of simple items and a body gives back the items and the body *)
Theorem parse_text_of items p : (forall i, In i items -> simple_item i) -> (exists b, p = POk b) ->
  parse_lines (text_of items p) = Some (items, p).
Proof.
  intros S [b ->]. unfold parse_lines, text_of. destruct b as [|c body].
  - rewrite parse_items; auto.
  - rewrite parse_items; auto. right. eauto.
Qed.

(* ------------------------------------------------------------------ the serialiser of the statement, to text *)
Section SerText.
Variable spell : list N -> list N.
Hypothesis spell_ok : forall n, lower_name (spell n) = lower_name n.
Hypothesis spell_name : forall n, header_name_ok n = true -> header_name_ok (spell n) = true.

Definition ser_text (r : list (list N * rawval)) : list N := text_of (ser_items spell r) (ser_payload r).

Definition no_break (s : list N) : Prop := forall c, In c s -> is_break c = false.
(* what the values must look like on top of [wf]: no line-break character anywhere (the description, which travels as the body, is
   exempt), string values and list items without leading blank *)
Definition wf_text_entry (kv : list N * rawval) : Prop :=
  fst kv = k_description \/
  match snd kv with
  | RStr s => clean s
  | RList l => forall x, In x l -> clean x
  | RDict d => forall p, In p d -> no_break (fst p) /\ no_break (snd p)
  end.
(* a str that is text: no surrogate code point (U+D800..DFFF).  The e-mail package reads U+DC80..DCFF in a str as smuggled bytes: it
   re-decodes them as UTF-8 in a header, replaces them by U+FFFD in a body, and raises UnicodeEncodeError on the other surrogates - so a
   value containing one does not come back, although the line-level theorem below would not notice (code points are arbitrary numbers
   there).  The condition is not used by the proofs; it restricts the domain to where the round trip of the real code holds. *)
Definition text_str (s : list N) : Prop := forall c, In c s -> c < 55296 \/ 57343 < c.
Definition text_entry (kv : list N * rawval) : Prop :=
  match snd kv with
  | RStr s => text_str s
  | RList l => forall x, In x l -> text_str x
  | RDict d => forall p, In p d -> text_str (fst p) /\ text_str (snd p)
  end.
Definition wf_text (r : list (list N * rawval)) : Prop :=
  wf r /\ (forall kv, In kv r -> wf_text_entry kv) /\ (forall kv, In kv r -> text_entry kv).

Lemma table_names_ok : forallb (fun row => header_name_ok (fst (snd row)) && negb (seqb (fst (snd row)) k_content_type)) gen_fields = true.
Proof. vm_compute. reflexivity. Qed.
Lemma lstrip_blank_len s : (List.length (lstrip_blank s) <= List.length s)%nat.
Proof. induction s as [|c t IH]; cbn [lstrip_blank List.length]; auto. destruct ((c =? 32) || (c =? 9)); cbn [List.length]; lia. Qed.
Lemma lstrip_blank_app x y : lstrip_blank x = x -> x <> [] -> lstrip_blank (x ++ y) = x ++ y.
Proof.
  destruct x as [|c t]; [congruence|]. intros H _. cbn [app lstrip_blank] in *. destruct ((c =? 32) || (c =? 9)); auto.
  exfalso. pose proof (lstrip_blank_len t) as L. rewrite H in L. cbn [List.length] in L. lia.
Qed.
Lemma stripped_lstrip x : stripped x -> lstrip_blank x = x.
Proof.
  unfold stripped, strip. intros H. destruct x as [|c t]; auto. cbn [lstrip_blank].
  destruct ((c =? 32) || (c =? 9)) eqn:B; auto. exfalso.
  assert (W : is_ws c = true). { apply orb_prop in B as [B|B]; apply N.eqb_eq in B; subst; reflexivity. }
  cbn [lstrip] in H. rewrite W in H.
  assert (L : forall s, (List.length (lstrip s) <= List.length s)%nat).
  { clear. induction s as [|a s IH]; cbn [lstrip List.length]; auto. destruct (is_ws a); cbn [List.length]; lia. }
  pose proof (f_equal (@List.length N) H) as E. rewrite rev_length in E. pose proof (L (rev (lstrip t))) as L1. rewrite rev_length in L1. pose proof (L t) as L2.
  cbn [List.length] in E. lia.
Qed.
Lemma no_break_join l : (forall x, In x l -> no_break x) -> no_break (join [44] l).
Proof.
  induction l as [|x t IH]; intros H; [intros c []|]. destruct t as [|y t].
  - cbn [join]. apply H. now left.
  - change (join [44] (x :: y :: t)) with (x ++ [44] ++ join [44] (y :: t)). intros c I. apply in_app_iff in I as [I|I]; [eapply H; eauto; now left|].
    apply in_app_iff in I as [[<-|[]]|I]; [reflexivity|]. apply IH; auto. intros z Iz. apply H. now right.
Qed.

Lemma ser_items_simple r : wf_text r -> forall i, In i (ser_items spell r) -> simple_item i.
Proof.
  intros [[ND W] [T _]] i Hi. unfold ser_items in Hi. apply in_flat_map in Hi as [kv [Ikv Hi]].
  destruct (W _ Ikv) as [e [kind [E WF]]]. pose proof (ser_entry_items spell kv e kind i E Hi) as [Hn Hv].
  assert (TE : header_name_ok e = true /\ e <> k_content_type).
  { unfold email_of_key in E. destruct (lookup (fst kv) gen_fields) as [[e' [a kd]]|] eqn:L; [|discriminate]. inversion E; subst.
    pose proof table_names_ok as TB. rewrite forallb_forall in TB. specialize (TB _ (lookup_In _ _ _ L)). cbn [fst snd] in TB.
    apply andb_prop in TB as [T1 T2]. apply negb_true_iff, seqb_neq in T2. auto. }
  destruct TE as [TE1 TE2]. destruct (email_of_key_facts _ _ _ E) as [LE _].
  split; [rewrite Hn; now apply spell_name|]. split; [rewrite Hn, spell_ok, LE; exact TE2|]. split; [|exact Hv].
  unfold ser_entry in Hi. rewrite E in Hi. destruct (seqb_spec (fst kv) k_description) as [D|ND']; [contradiction|].
  destruct (T _ Ikv) as [D|TX]; [contradiction|]. destruct (snd kv) as [s|l|d].
  - destruct Hi as [<-|[]]. exact TX.
  - destruct (kind =? 2) eqn:K2.
    + destruct Hi as [<-|[]]. cbn [i_val mk]. apply N.eqb_eq in K2. subst kind. destruct WF as [NE [C|[_ KW]]]; [discriminate|]. split.
      * apply no_break_join. intros x Ix. exact (proj1 (TX x Ix)).
      * destruct l as [|x t]; [congruence|]. destruct t as [|y t]; [cbn [join]; apply TX; now left|].
        change (join [44] (x :: y :: t)) with (x ++ [44] ++ join [44] (y :: t)).
        destruct x as [|c x']; [reflexivity|]. apply lstrip_blank_app; [|discriminate]. apply TX. now left.
    + apply in_map_iff in Hi as [x [<- Ix]]. cbn [i_val mk]. now apply TX.
  - apply in_map_iff in Hi as [[lb url] [<- Ip]]. cbn [i_val mk fst snd]. destruct (TX _ Ip) as [B1 B2]. cbn [fst snd] in *.
    destruct WF as [_ [_ [_ WF]]]. destruct (WF _ Ip) as [S1 _]. cbn [fst] in S1. split.
    + intros c I. apply in_app_iff in I as [I|[<-|[<-|I]]]; auto.
    + destruct lb as [|c lb']; [reflexivity|]. apply lstrip_blank_app; [now apply stripped_lstrip | discriminate].
Qed.

(* TEXT ROUND TRIP, first half: the text the serialiser writes is cut back into exactly the header list and body it was written from *)
Theorem parse_ser_text r : wf_text r -> parse_lines (ser_text r) = Some (ser_items spell r, ser_payload r).
Proof.
  intros WT. unfold ser_text. apply parse_text_of; [now apply ser_items_simple|]. unfold ser_payload. eauto.
Qed.
(* ... and both halves: text -> lines -> parse_email's post-processing gives the dict back, nothing unparsed *)
Theorem text_roundtrip r : wf_text r ->
  exists items p, parse_lines (ser_text r) = Some (items, p) /\ snd (post_email items p) = [] /\ forall k, lookup k (fst (post_email items p)) = lookup k r.
Proof.
  intros WT. exists (ser_items spell r), (ser_payload r). split; [now apply parse_ser_text|]. apply roundtrip; [exact spell_ok | apply WT].
Qed.
End SerText.
