(* C18 lemmas about EmailModel.v: what the loop over header names leaves in the two dicts, the partition, no loss / no invention,
   typing, the description rule. *)
From Coq Require Import String List NArith Bool Lia Arith Permutation.
Import ListNotations.
Require Import Show VParse MetaTable MetaBase MetaBaseFacts EmailModel.
Open Scope N_scope.
Arguments N.eqb : simpl never.
Arguments N.leb : simpl never.

(* ------------------------------------------------------------------ the table: header name <-> raw key is one-to-one *)
Lemma table_keys_inj :
  forallb (fun r1 => forallb (fun r2 => implb (seqb (fst r1) (fst r2)) (seqb (fst (snd r1)) (fst (snd r2)))) gen_fields) gen_fields = true.
Proof. vm_compute. reflexivity. Qed.

Lemma raw_of_email_row n k kind : raw_of_email n = Some (k, kind) -> exists a, In (k, (n, (a, kind))) gen_fields.
Proof.
  unfold raw_of_email. destruct (find _ gen_fields) as [[k' [e [a kd]]]|] eqn:F; [|discriminate].
  intros H. inversion H; subst. apply find_some in F as [I E]. cbn [fst snd] in E. apply seqb_eq in E. subst. eauto.
Qed.
Lemma raw_of_email_inj n n' k kind kind' : raw_of_email n = Some (k, kind) -> raw_of_email n' = Some (k, kind') -> n = n'.
Proof.
  intros H1 H2. apply raw_of_email_row in H1 as [a1 I1]. apply raw_of_email_row in H2 as [a2 I2].
  pose proof table_keys_inj as T. rewrite forallb_forall in T. specialize (T _ I1). rewrite forallb_forall in T. specialize (T _ I2).
  cbn [fst snd] in T. rewrite seqb_refl in T. cbn [implb] in T. now apply seqb_eq in T.
Qed.

(* ------------------------------------------------------------------ classify: typing, no loss, no invention *)
Section Doc.
Variable items : list item.

(* _parse_project_urls: the (label, url) pairs in order, provided the labels are pairwise distinct *)
Lemma parse_project_urls_spec data : forall acc d,
  parse_project_urls acc data = Some d <-> (d = acc ++ map split_url data /\ forall pre p post, map split_url data = pre ++ p :: post -> lookup (fst p) (acc ++ pre) = None).
Proof.
  induction data as [|x t IH]; intros acc d; cbn [parse_project_urls map].
  - rewrite app_nil_r. split.
    + intros H. inversion H. split; auto. intros pre p post E. destruct pre; discriminate.
    + intros [-> _]. reflexivity.
  - destruct (split_url x) as [label url] eqn:S. destruct (lookup label acc) eqn:L; cbn [is_some].
    + split; [discriminate|]. intros [_ H]. specialize (H [] (label, url) (map split_url t) eq_refl). rewrite app_nil_r in H. cbn in H. congruence.
    + rewrite IH. rewrite <- app_assoc. cbn [app]. split; intros [E H]; split; auto.
      * intros pre p post E'. destruct pre as [|q pre]; cbn [app] in E'; inversion E'; subst.
        -- rewrite app_nil_r. exact L.
        -- specialize (H pre p post H2). rewrite <- app_assoc in H. exact H.
      * intros pre p post E'. specialize (H ((label, url) :: pre) p post). cbn [app] in H. rewrite E' in H. specialize (H eq_refl).
        rewrite <- app_assoc. exact H.
Qed.

Definition valid_name_enc (n : list N) : bool := forallb i_valid (get_all items n).
(* the complete description of the decision for one lower-cased name: typing by kind, value(s) taken over verbatim *)
Theorem classify_spec n k v : classify items n = CRaw k v <->
  valid_name_enc n = true /\ exists kind, raw_of_email n = Some (k, kind) /\
    ((kind = 0 /\ exists x, values items n = [x] /\ v = RStr x) \/
     (kind = 1 /\ v = RList (values items n)) \/
     (kind = 2 /\ exists x, values items n = [x] /\ v = RList (parse_keywords x)) \/
     (kind = 3 /\ exists d, parse_project_urls [] (values items n) = Some d /\ v = RDict d)).
Proof.
  unfold classify, valid_name_enc. destruct (forallb i_valid (get_all items n)); cbn [negb].
  2:{ split; [discriminate | intros [H _]; discriminate]. }
  destruct (raw_of_email n) as [[rk kind]|].
  2:{ split; [discriminate | intros [_ [kd [H _]]]; discriminate]. }
  assert (SG : forall x, single (values items n) = Some x <-> values items n = [x]).
  { intros x. unfold single. destruct (values items n) as [|a [|b t]]; split; intros H; inversion H; auto. }
  destruct (N.eqb_spec kind 0) as [->|K0].
  { destruct (single (values items n)) as [x|] eqn:S.
    - assert (S' : values items n = [x]) by (apply SG; reflexivity). split.
      + intros H. inversion H; subst. split; auto. exists 0. split; auto. left. eauto.
      + intros [_ [kd [E H]]]. inversion E; subst. destruct H as [[_ [x' [V ->]]]|[[C _]|[[C _]|[C _]]]]; try discriminate. congruence.
    - split; [discriminate|]. intros [_ [kd [E H]]]. inversion E; subst.
      destruct H as [[_ [x' [V ->]]]|[[C _]|[[C _]|[C _]]]]; try discriminate. apply SG in V. discriminate. }
  destruct (N.eqb_spec kind 1) as [->|K1].
  { split.
    - intros H. inversion H; subst. split; auto. exists 1. split; auto.
    - intros [_ [kd [E H]]]. inversion E; subst. destruct H as [[C _]|[[_ ->]|[[C _]|[C _]]]]; try discriminate. reflexivity. }
  destruct (N.eqb_spec kind 2) as [->|K2].
  { destruct (single (values items n)) as [x|] eqn:S.
    - assert (S' : values items n = [x]) by (apply SG; reflexivity). split.
      + intros H. inversion H; subst. split; auto. exists 2. split; auto. right; right; left. eauto.
      + intros [_ [kd [E H]]]. inversion E; subst. destruct H as [[C _]|[[C _]|[[_ [x' [V ->]]]|[C _]]]]; try discriminate. congruence.
    - split; [discriminate|]. intros [_ [kd [E H]]]. inversion E; subst.
      destruct H as [[C _]|[[C _]|[[_ [x' [V ->]]]|[C _]]]]; try discriminate. apply SG in V. discriminate. }
  destruct (N.eqb_spec kind 3) as [->|K3].
  { destruct (parse_project_urls [] (values items n)) as [d|] eqn:P.
    - split.
      + intros H. inversion H; subst. split; auto. exists 3. split; auto. right; right; right. eauto.
      + intros [_ [kd [E H]]]. inversion E; subst. destruct H as [[C _]|[[C _]|[[C _]|[_ [d' [V ->]]]]]]; try discriminate. congruence.
    - split; [discriminate|]. intros [_ [kd [E H]]]. inversion E; subst.
      destruct H as [[C _]|[[C _]|[[C _]|[_ [d' [V ->]]]]]]; try discriminate. }
  split; [discriminate|]. intros [_ [kd [E H]]]. inversion E; subst. destruct H as [[C _]|[[C _]|[[C _]|[C _]]]]; congruence.
Qed.

Lemma classify_raw_key n k v : classify items n = CRaw k v -> exists kind, raw_of_email n = Some (k, kind).
Proof. intros H. apply classify_spec in H as [_ [kind [H _]]]. eauto. Qed.
Lemma classify_inj n n' k v v' : classify items n = CRaw k v -> classify items n' = CRaw k v' -> n = n'.
Proof. intros H1 H2. apply classify_raw_key in H1 as [k1 H1]. apply classify_raw_key in H2 as [k2 H2]. eapply raw_of_email_inj; eauto. Qed.

(* ------------------------------------------------------------------ the loop *)
Definition uvalues (n : list N) : list uval := map UStr (values items n).
Definition stepl (st : dicts) (n : list N) : dicts :=
  match classify items n with CRaw k v => (dset k v (fst st), snd st) | CUnp => (fst st, dset n (uvalues n) (snd st)) end.
Lemma step_stepl st n0 : step items st n0 = stepl st (lower_name n0).
Proof. unfold step, stepl, uvalues. destruct st as [r u]. cbn [fst snd]. destruct (classify items (lower_name n0)); reflexivity. Qed.
Lemma fold_step_stepl ns : forall st, fold_left (step items) ns st = fold_left stepl (map lower_name ns) st.
Proof. induction ns as [|n t IH]; intros st; cbn [fold_left map]; auto. now rewrite step_stepl, IH. Qed.

Definition writes_raw (k : list N) (n : list N) : bool := match classify items n with CRaw k' _ => seqb k' k | CUnp => false end.
Definition writes_unp (m : list N) (n : list N) : bool := match classify items n with CRaw _ _ => false | CUnp => seqb n m end.

Lemma fold_raw ns : forall st k v,
  lookup k (fst (fold_left stepl ns st)) = Some v <->
  (exists n, In n ns /\ classify items n = CRaw k v) \/ (existsb (writes_raw k) ns = false /\ lookup k (fst st) = Some v).
Proof.
  induction ns as [|n t IH]; intros st k v; cbn [fold_left existsb].
  - split; [auto | intros [[n [[] _]]|[_ H]]; auto].
  - rewrite IH. unfold stepl. assert (W : writes_raw k n = match classify items n with CRaw k' _ => seqb k' k | CUnp => false end) by reflexivity.
    rewrite W. clear W. destruct (classify items n) as [k0 v0|] eqn:C; cbn [fst snd].
    + destruct (seqb_spec k0 k) as [->|NK]; cbn [orb].
      * rewrite lookup_dset_same. split.
        -- intros [[n' [I C']]|[E H]]; [left; exists n'; split; auto; now right|]. inversion H; subst. left. exists n. split; auto. now left.
        -- intros [[n' [[<-|I] C']]|[C' _]]; [|left; eauto|discriminate].
           rewrite C in C'. inversion C'; subst. destruct (existsb (writes_raw k) t) eqn:E; [|right; auto].
           apply existsb_exists in E as [n2 [I2 W2]]. unfold writes_raw in W2. destruct (classify items n2) as [k2 v2|] eqn:C2; [|discriminate].
           apply seqb_eq in W2. subst k2. assert (n2 = n) by (eapply classify_inj; eauto). subst n2. left. exists n. split; auto.
      * rewrite lookup_dset_other by congruence. split.
        -- intros [[n' [I C']]|[E H]]; [left; exists n'; split; auto; now right | right; auto].
        -- intros [[n' [[<-|I] C']]|[E H]]; [rewrite C in C'; inversion C'; congruence | left; eauto | right; auto].
    + cbn [orb]. split.
      * intros [[n' [I C']]|[E H]]; [left; exists n'; split; auto; now right | right; auto].
      * intros [[n' [[<-|I] C']]|[E H]]; [congruence | left; eauto | right; auto].
Qed.

Lemma fold_unp ns : forall st m vs,
  lookup m (snd (fold_left stepl ns st)) = Some vs <->
  (In m ns /\ classify items m = CUnp /\ vs = uvalues m) \/ (existsb (writes_unp m) ns = false /\ lookup m (snd st) = Some vs).
Proof.
  induction ns as [|n t IH]; intros st m vs; cbn [fold_left existsb].
  - split; [auto | intros [[[] _]|[_ H]]; auto].
  - rewrite IH. unfold stepl. assert (W : writes_unp m n = match classify items n with CRaw _ _ => false | CUnp => seqb n m end) by reflexivity.
    rewrite W. clear W. destruct (classify items n) as [k0 v0|] eqn:C; cbn [fst snd orb].
    + split.
      * intros [[I H]|[E H]]; [left; split; auto; now right | right; auto].
      * intros [[[<-|I] [C' H]]|[E H]]; [congruence | left; auto | right; auto].
    + destruct (seqb_spec n m) as [->|NK]; cbn [orb].
      * rewrite lookup_dset_same. split.
        -- intros [[I H]|[E H]]; [left; split; auto; now right|]. inversion H; subst. left. split; [now left | auto].
        -- intros [[_ [C' ->]]|[C' _]]; [|discriminate]. destruct (existsb (writes_unp m) t) eqn:E; [|right; auto].
           apply existsb_exists in E as [n2 [I2 W2]]. unfold writes_unp in W2. destruct (classify items n2) eqn:C2; [discriminate|].
           apply seqb_eq in W2. subst n2. left. auto.
      * rewrite lookup_dset_other by congruence. split.
        -- intros [[I H]|[E H]]; [left; split; auto; now right | right; auto].
        -- intros [[[->|I] H]|[E H]]; [congruence | left; auto | right; auto].
Qed.

(* frozenset(parsed.keys()), lower-cased: exactly the lower-cased names that occur *)
Lemma In_dedup x l : In x (dedup l) <-> In x l.
Proof.
  induction l as [|y t IH]; cbn [dedup In]; [tauto|]. rewrite filter_In, IH. destruct (seqb_spec x y) as [->|N]; cbn [negb]; [tauto|].
  split; [tauto|]. intros [->|H]; [congruence|auto].
Qed.
Definition lnames : list (list N) := map lower_name (key_set items).
Lemma In_lnames n : In n lnames <-> exists i, In i items /\ lower_name (i_name i) = n.
Proof.
  unfold lnames, key_set. rewrite in_map_iff. split.
  - intros [x [E I]]. apply In_dedup, in_map_iff in I as [i [E' I]]. exists i. split; auto. congruence.
  - intros [i [I E]]. exists (i_name i). split; auto. apply In_dedup. now apply in_map.
Qed.

(* the two dicts after the loop, before the body is looked at *)
Definition loop_result : dicts := fold_left (step items) (key_set items) ([], []).
Theorem loop_raw k v : lookup k (fst loop_result) = Some v <-> exists n, In n lnames /\ classify items n = CRaw k v.
Proof.
  unfold loop_result. rewrite fold_step_stepl. fold lnames. rewrite fold_raw. cbn [fst lookup]. split; [intros [H|[_ H]]; [auto|discriminate] | auto].
Qed.
Theorem loop_unp m vs : lookup m (snd loop_result) = Some vs <-> In m lnames /\ classify items m = CUnp /\ vs = uvalues m.
Proof.
  unfold loop_result. rewrite fold_step_stepl. fold lnames. rewrite fold_unp. cbn [snd lookup]. split; [intros [H|[_ H]]; [auto|discriminate] | auto].
Qed.

(* PARTITION: each lower-cased header name present lands in exactly one of the two dicts *)
Theorem loop_partition n : In n lnames ->
  (exists k v, classify items n = CRaw k v /\ lookup k (fst loop_result) = Some v /\ lookup n (snd loop_result) = None) \/
  (classify items n = CUnp /\ lookup n (snd loop_result) = Some (uvalues n) /\
   forall k kind, raw_of_email n = Some (k, kind) -> lookup k (fst loop_result) = None).
Proof.
  intros I. destruct (classify items n) as [k v|] eqn:C.
  - left. exists k, v. split; auto. split; [apply loop_raw; eauto|].
    destruct (lookup n (snd loop_result)) as [vs|] eqn:L; auto. apply loop_unp in L as [_ [C' _]]. congruence.
  - right. split; auto. split; [apply loop_unp; auto|]. intros k kind R.
    destruct (lookup k (fst loop_result)) as [v|] eqn:L; auto. apply loop_raw in L as [n' [I' C']].
    apply classify_raw_key in C' as C''. destruct C'' as [kd R']. assert (n' = n) by (eapply raw_of_email_inj; eauto). subst. congruence.
Qed.
(* NO INVENTION: every entry of either dict comes from a header name that is present *)
Theorem loop_no_invention :
  (forall k v, lookup k (fst loop_result) = Some v -> exists n, In n lnames /\ classify items n = CRaw k v) /\
  (forall m vs, lookup m (snd loop_result) = Some vs -> In m lnames /\ vs = uvalues m).
Proof. split; [intros k v H; now apply loop_raw | intros m vs H; apply loop_unp in H; tauto]. Qed.

(* ------------------------------------------------------------------ the body: description rule *)
Definition odef {A} (o : option (list A)) : list A := match o with Some l => l | None => [] end.
Lemma lookup_dextend_same k xs d : lookup k (dextend k xs d) = Some (odef (lookup k d) ++ xs).
Proof.
  unfold dextend. destruct (lookup k d) as [l|] eqn:L; cbn [odef].
  - apply lookup_dset_same.
  - rewrite lookup_app, L. cbn [lookup]. now rewrite seqb_refl.
Qed.
Lemma lookup_dextend_other k g xs d : g <> k -> lookup g (dextend k xs d) = lookup g d.
Proof.
  intros N. unfold dextend. destruct (lookup k d) as [l|] eqn:L.
  - now apply lookup_dset_other.
  - rewrite lookup_app. destruct (lookup g d); auto. cbn [lookup]. destruct (seqb_spec k g); [congruence|reflexivity].
Qed.

(* the body never touches any other key *)
Theorem merge_other_keys st p k : k <> k_description ->
  lookup k (fst (merge_payload st p)) = lookup k (fst st) /\ lookup k (snd (merge_payload st p)) = lookup k (snd st).
Proof.
  intros N. destruct st as [raw unp]. unfold merge_payload. cbn [fst snd].
  destruct p as [[|c body]|obj]; [auto| |]; destruct (lookup k_description raw) as [h|]; cbn [fst snd];
    rewrite ?lookup_remove_other, ?lookup_dextend_other by auto; auto.
  destruct (is_some (lookup k_description unp)); cbn [fst snd]; rewrite ?lookup_dextend_other, ?lookup_dset_other by auto; auto.
Qed.
(* what happens to 'description' *)
Theorem merge_description st p :
  let raw := fst st in let unp := snd st in let fin := merge_payload st p in
  match p with
  | POk [] => fin = st
  | POk body =>
      match lookup k_description raw with
      | Some h => lookup k_description (fst fin) = None /\ lookup k_description (snd fin) = Some (odef (lookup k_description unp) ++ [ustr_of h; UStr body])
      | None => match lookup k_description unp with
                | Some old => lookup k_description (fst fin) = None /\ lookup k_description (snd fin) = Some (old ++ [UStr body])
                | None => lookup k_description (fst fin) = Some (RStr body) /\ lookup k_description (snd fin) = None
                end
      end
  | PErr obj =>
      match lookup k_description raw with
      | Some h => lookup k_description (fst fin) = None /\ lookup k_description (snd fin) = Some (odef (lookup k_description unp) ++ [ustr_of h; UOpaque obj])
      | None => lookup k_description (fst fin) = None /\ lookup k_description (snd fin) = Some (odef (lookup k_description unp) ++ [UOpaque obj])
      end
  end.
Proof.
  destruct st as [raw unp]. cbn [fst snd]. unfold merge_payload. destruct p as [[|c body]|obj]; [reflexivity| |].
  - destruct (lookup k_description raw) as [h|] eqn:L; cbn [fst snd].
    + split; [apply lookup_remove_same | apply lookup_dextend_same].
    + destruct (lookup k_description unp) as [old|] eqn:U; cbn [is_some fst snd].
      * split; auto. rewrite lookup_dextend_same, U. reflexivity.
      * split; auto. apply lookup_dset_same.
  - destruct (lookup k_description raw) as [h|] eqn:L; cbn [fst snd].
    + split; [apply lookup_remove_same|]. rewrite lookup_dextend_same, lookup_dextend_same. cbn [odef]. now rewrite <- app_assoc.
    + split; auto. apply lookup_dextend_same.
Qed.

(* in the loop result a 'description' raw entry is the single Description header, and then 'description' is not in unparsed *)
Lemma raw_description : raw_of_email k_description = Some (k_description, 0).
Proof. vm_compute. reflexivity. Qed.
Lemma loop_description_raw v : lookup k_description (fst loop_result) = Some v ->
  (exists x, values items k_description = [x] /\ v = RStr x) /\ lookup k_description (snd loop_result) = None.
Proof.
  intros L. apply loop_raw in L as [n [I C]]. apply classify_raw_key in C as C'. destruct C' as [kind R].
  assert (n = k_description) by (eapply raw_of_email_inj; [exact R | exact raw_description]). subst n.
  split.
  - apply classify_spec in C as [_ [kd [R' H]]]. rewrite raw_description in R'. inversion R'; subst kd.
    destruct H as [[_ H]|[[H _]|[[H _]|[H _]]]]; try discriminate. exact H.
  - destruct (lookup k_description (snd loop_result)) eqn:U; auto. apply loop_unp in U as [_ [C' _]]. congruence.
Qed.
End Doc.

(* ------------------------------------------------------------------ keywords: split on commas loses nothing *)
Lemma split_on_nonempty c0 s : split_on c0 s <> [].
Proof. destruct s as [|c t]; cbn [split_on]; [discriminate|]. destruct (c =? c0); [discriminate|]. destruct (split_on c0 t); discriminate. Qed.
Lemma join_split c0 s : join [c0] (split_on c0 s) = s.
Proof.
  induction s as [|c t IH]; cbn [split_on]; [reflexivity|].
  destruct (N.eqb_spec c c0) as [->|N].
  - pose proof (split_on_nonempty c0 t) as NE. destruct (split_on c0 t) as [|h r] eqn:E; [congruence|].
    change (join [c0] ([] :: h :: r)) with ([] ++ [c0] ++ join [c0] (h :: r)). rewrite IH. reflexivity.
  - destruct (split_on c0 t) as [|h r] eqn:E; [exfalso; eapply split_on_nonempty; eauto|].
    destruct r as [|h2 r]; cbn [join] in *; [now rewrite IH | rewrite <- IH; reflexivity].
Qed.
Lemma split_on_no_sep c0 s x : In x (split_on c0 s) -> ~ In c0 x.
Proof.
  revert x. induction s as [|c t IH]; intros x; cbn [split_on].
  - intros [<-|[]]. auto.
  - destruct (N.eqb_spec c c0) as [->|N].
    + intros [<-|I]; auto.
    + destruct (split_on c0 t) as [|h r] eqn:E.
      * intros [<-|[]]. intros [H|[]]. congruence.
      * intros [<-|I]; [|apply IH; now right]. intros [H|H]; [congruence|]. eapply IH; [left; reflexivity|exact H].
Qed.
(* the keywords list is the comma-separated pieces of the header value, each stripped of surrounding white space *)
Theorem keywords_split s : exists pieces, parse_keywords s = map strip pieces /\ join [44] pieces = s /\ forall x, In x pieces -> ~ In 44 x.
Proof. exists (split_on 44 s). split; [reflexivity|]. split; [apply join_split | intros x; apply split_on_no_sep]. Qed.

(* Message.get_all: all headers with that name, case-insensitively, in document order *)
Lemma lower_ascii_idem c : lower_ascii (lower_ascii c) = lower_ascii c.
Proof.
  unfold lower_ascii. destruct ((65 <=? c) && (c <=? 90)) eqn:E; [|now rewrite E].
  apply andb_prop in E as [E1 E2]. apply N.leb_le in E1, E2.
  assert (H : (c + 32 <=? 90) = false) by (apply N.leb_gt; lia). rewrite H, andb_false_r. reflexivity.
Qed.
Lemma lower_name_idem s : lower_name (lower_name s) = lower_name s.
Proof. unfold lower_name. rewrite map_map. apply map_ext. apply lower_ascii_idem. Qed.
Lemma get_all_spec items n i : In i (get_all items n) <-> In i items /\ lower_name (i_name i) = lower_name n.
Proof. unfold get_all. rewrite filter_In. now rewrite seqb_eq. Qed.

(* NO LOSS, per header: the value of every header of the document is held by whichever dict its name went to *)
Theorem every_value_kept items i : In i items ->
  let n := lower_name (i_name i) in
  (exists vs, lookup n (snd (loop_result items)) = Some vs /\ In (UStr (i_val i)) vs) \/
  (exists k v, lookup k (fst (loop_result items)) = Some v /\
     (v = RStr (i_val i) \/ (exists l, v = RList l /\ (In (i_val i) l \/ l = parse_keywords (i_val i))) \/
      (exists d, v = RDict d /\ In (split_url (i_val i)) d))).
Proof.
  intros Hi n. assert (Ln : In n (lnames items)) by (apply In_lnames; eauto).
  assert (G : In i (get_all items n)) by (apply get_all_spec; split; auto; unfold n; now rewrite lower_name_idem).
  assert (V : In (i_val i) (values items n)) by (unfold values; now apply in_map).
  destruct (loop_partition items n Ln) as [[k [v [C [L _]]]]|[C [L _]]].
  - right. exists k, v. split; auto. apply classify_spec in C as [_ [kind [_ H]]].
    destruct H as [[_ [x [E ->]]]|[[_ ->]|[[_ [x [E ->]]]|[_ [d [P ->]]]]]].
    + left. rewrite E in V. destruct V as [->|[]]. reflexivity.
    + right; left. eauto.
    + right; left. rewrite E in V. destruct V as [->|[]]. eauto.
    + right; right. exists d. split; auto. apply parse_project_urls_spec in P as [-> _]. cbn [app]. now apply in_map.
  - left. exists (uvalues items n). split; auto. unfold uvalues. now apply in_map.
Qed.

(* the iteration order of frozenset(parsed.keys()) - and how often a name occurs in it - is irrelevant: any list with the same
   elements as the set of header names leaves the same two dicts (same lookups) *)
Theorem loop_order_irrelevant items ns : (forall n, In n ns <-> In n (key_set items)) ->
  let st := fold_left (step items) ns ([], []) in
  (forall k, lookup k (fst st) = lookup k (fst (loop_result items))) /\ (forall m, lookup m (snd st) = lookup m (snd (loop_result items))).
Proof.
  intros H. cbn zeta. rewrite fold_step_stepl.
  assert (HL : forall n, In n (map lower_name ns) <-> In n (lnames items)).
  { intros n. unfold lnames. rewrite !in_map_iff. split; intros [x [E I]]; exists x; split; auto; now apply H. }
  split.
  - intros k. destruct (lookup k (fst (loop_result items))) as [v|] eqn:L.
    + apply loop_raw in L as [n [I C]]. apply fold_raw. left. exists n. split; auto. now apply HL.
    + destruct (lookup k (fst (fold_left (stepl items) (map lower_name ns) ([], [])))) as [v|] eqn:L'; auto.
      apply fold_raw in L' as [[n [I C]]|[_ L']]; [|discriminate]. apply HL in I.
      assert (lookup k (fst (loop_result items)) = Some v) by (apply loop_raw; eauto). congruence.
  - intros m. destruct (lookup m (snd (loop_result items))) as [vs|] eqn:L.
    + apply loop_unp in L as [I [C ->]]. apply fold_unp. left. split; auto. now apply HL.
    + destruct (lookup m (snd (fold_left (stepl items) (map lower_name ns) ([], [])))) as [vs|] eqn:L'; auto.
      apply fold_unp in L' as [[I [C ->]]|[_ L']]; [|discriminate]. apply HL in I.
      assert (lookup m (snd (loop_result items)) = Some (uvalues items m)) by (apply loop_unp; auto). congruence.
Qed.
