(* C18  Header names are case-insensitive PER HEADER LINE: two header lists that agree line by line up to the capitalisation of the names
   leave the same two dicts (same lookups).  C18_roundtrip spells every occurrence of one header name alike ([spell] is a function of the
   name); with this lemma the round trip holds for a document in which every line has its own capitalisation. *)
From Coq Require Import String List NArith Bool Lia Arith Permutation.
Import ListNotations.
Require Import Show VParse MetaTable MetaBase MetaBaseFacts EmailModel EmailFacts EmailRound.
Open Scope N_scope.
Arguments N.eqb : simpl never.
Arguments N.leb : simpl never.

Definition same_line (i j : item) : Prop := lower_name (i_name i) = lower_name (i_name j) /\ i_val i = i_val j /\ i_valid i = i_valid j.
Definition same_doc (a b : list item) : Prop := Forall2 same_line a b.
Definition deq (st st' : dicts) : Prop :=
  (forall k, lookup k (fst st) = lookup k (fst st')) /\ (forall m, lookup m (snd st) = lookup m (snd st')).

Lemma get_all_same a b n : same_doc a b -> same_doc (get_all a n) (get_all b n).
Proof.
  induction 1 as [|i j a b [H1 [H2 H3]] F IH]; [constructor|]. unfold get_all in *. cbn [filter]. rewrite H1.
  destruct (seqb (lower_name (i_name j)) (lower_name n)); auto. constructor; auto. repeat split; auto.
Qed.
Lemma same_values a b : same_doc a b -> map i_val a = map i_val b /\ forallb i_valid a = forallb i_valid b.
Proof.
  induction 1 as [|i j a b [H1 [H2 H3]] F [IH1 IH2]]; [auto|]. cbn [map forallb]. rewrite H2, H3, IH1, IH2. auto.
Qed.
Lemma classify_same a b n : same_doc a b -> classify a n = classify b n.
Proof.
  intros S. unfold classify, values. destruct (same_values _ _ (get_all_same a b n S)) as [V F]. now rewrite V, F.
Qed.
Lemma values_same a b n : same_doc a b -> values a n = values b n.
Proof. intros S. unfold values. now destruct (same_values _ _ (get_all_same a b n S)). Qed.
Lemma lnames_same a b n : same_doc a b -> In n (lnames a) -> In n (lnames b).
Proof.
  intros S. rewrite !In_lnames. induction S as [|i j a b [H1 _] F IH]; intros [x [I E]]; [contradiction|].
  destruct I as [<-|I]; [exists j; split; [now left | congruence]|]. destruct IH as [y [Iy Ey]]; eauto. exists y. split; auto. now right.
Qed.
Lemma same_doc_sym a b : same_doc a b -> same_doc b a.
Proof. induction 1 as [|i j a b [H1 [H2 H3]] F IH]; constructor; auto. repeat split; auto. Qed.

Lemma opt_ext {A} (x y : option A) : (forall v, x = Some v <-> y = Some v) -> x = y.
Proof. intros H. destruct x as [a|]; [symmetry; now apply H|]. destruct y as [b|]; auto. now apply H. Qed.

Lemma loop_same a b : same_doc a b -> deq (loop_result a) (loop_result b).
Proof.
  intros S. pose proof (same_doc_sym _ _ S) as S'. split.
  - intros k. apply opt_ext. intros v. rewrite !loop_raw. split; intros [n [I C]]; exists n.
    + split; [eapply lnames_same; eauto | now rewrite <- (classify_same a b n S)].
    + split; [eapply lnames_same; eauto | now rewrite (classify_same a b n S)].
  - intros m. apply opt_ext. intros vs. rewrite !loop_unp. unfold uvalues. rewrite (classify_same a b m S), (values_same a b m S).
    split; intros [I H]; (split; [eapply lnames_same; eauto | exact H]).
Qed.

(* the body merge looks at its input only through lookups *)
Lemma merge_deq st st' p : deq st st' -> deq (merge_payload st p) (merge_payload st' p).
Proof.
  intros [D1 D2]. split.
  - intros k. destruct (seqb_spec k k_description) as [->|N].
    + pose proof (merge_description st p) as H. pose proof (merge_description st' p) as H'. cbn zeta in H, H'.
      destruct p as [[|c body]|obj].
      * rewrite H, H'. apply D1.
      * rewrite <- D1, <- D2 in H'. destruct (lookup k_description (fst st)); [destruct H as [-> _], H' as [-> _]; auto|].
        destruct (lookup k_description (snd st)); destruct H as [-> _], H' as [-> _]; auto.
      * rewrite <- D1, <- D2 in H'. destruct (lookup k_description (fst st)); destruct H as [-> _], H' as [-> _]; auto.
    + destruct (merge_other_keys st p k N) as [-> _]. destruct (merge_other_keys st' p k N) as [-> _]. apply D1.
  - intros m. destruct (seqb_spec m k_description) as [->|N].
    + pose proof (merge_description st p) as H. pose proof (merge_description st' p) as H'. cbn zeta in H, H'.
      destruct p as [[|c body]|obj].
      * rewrite H, H'. apply D2.
      * rewrite <- D1, <- D2 in H'. destruct (lookup k_description (fst st)); [destruct H as [_ ->], H' as [_ ->]; auto|].
        destruct (lookup k_description (snd st)); destruct H as [_ ->], H' as [_ ->]; auto.
      * rewrite <- D1, <- D2 in H'. destruct (lookup k_description (fst st)); destruct H as [_ ->], H' as [_ ->]; auto.
    + destruct (merge_other_keys st p m N) as [_ ->]. destruct (merge_other_keys st' p m N) as [_ ->]. apply D2.
Qed.

(* CAPITALISATION PER LINE IS IRRELEVANT *)
Theorem respell_irrelevant a b p : same_doc a b -> deq (post_email a p) (post_email b p).
Proof. intros S. unfold post_email. fold (loop_result a) (loop_result b). now apply merge_deq, loop_same. Qed.

(* the round trip for ANY capitalisation of every single header line *)
Theorem roundtrip_any_spelling r items : wf r -> same_doc (ser_items (fun n => n) r) items ->
  snd (post_email items (ser_payload r)) = [] /\ forall k, lookup k (fst (post_email items (ser_payload r))) = lookup k r.
Proof.
  intros W S. destruct (respell_irrelevant _ _ (ser_payload r) S) as [D1 D2].
  destruct (roundtrip (fun n => n) (fun n => eq_refl) r W) as [U R]. split.
  - apply all_none_nil. intros m. rewrite <- D2, U. reflexivity.
  - intros k. now rewrite <- D1.
Qed.
