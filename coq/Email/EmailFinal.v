(* C18  The partition, no-loss and no-invention statements on the FINAL state  post_email items p  (loop over the header names AND the
   body merge), so that nothing has to be assembled by hand from the loop theorems and the description rule. *)
From Coq Require Import String List NArith Bool Lia Arith Permutation.
Import ListNotations.
Require Import Show VParse MetaTable MetaBase MetaBaseFacts EmailModel EmailFacts.
Open Scope N_scope.
Arguments N.eqb : simpl never.
Arguments N.leb : simpl never.

Section Final.
Variable items : list item.
Variable p : payload.
Local Notation st := (loop_result items).
Local Notation fin := (post_email items p).

(* a body that parse_email looks at: non-empty, or not decodable *)
Definition has_body : Prop := p <> POk [].
(* the names that end up somewhere: the header names, and 'description' when there is a body *)
Definition present (n : list N) : Prop := In n (lnames items) \/ (n = k_description /\ has_body).

Lemma raw_key_description n kind : raw_of_email n = Some (k_description, kind) -> n = k_description.
Proof. intros H. eapply raw_of_email_inj; [exact H | exact raw_description]. Qed.
Lemma fin_other n : n <> k_description -> forall k kind, raw_of_email n = Some (k, kind) ->
  lookup k (fst fin) = lookup k (fst st) /\ lookup n (snd fin) = lookup n (snd st).
Proof.
  intros N k kind R. assert (NK : k <> k_description) by (intros ->; apply N; eapply raw_key_description; eauto).
  unfold post_email. fold (loop_result items). split; now apply merge_other_keys.
Qed.
Lemma fin_other_unp n : n <> k_description -> lookup n (snd fin) = lookup n (snd st).
Proof. intros N. unfold post_email. fold (loop_result items). now apply merge_other_keys. Qed.

(* what the body merge leaves under 'description', in both dicts *)
Lemma fin_description :
  match p with
  | POk [] => lookup k_description (fst fin) = lookup k_description (fst st) /\ lookup k_description (snd fin) = lookup k_description (snd st)
  | _ => (lookup k_description (fst st) = None /\ lookup k_description (snd st) = None /\ (exists body, p = POk body) /\
          (exists body, lookup k_description (fst fin) = Some (RStr body) /\ p = POk body) /\ lookup k_description (snd fin) = None) \/
         (lookup k_description (fst fin) = None /\
          exists rest, lookup k_description (snd fin) = Some (map UStr (values items k_description) ++ rest) /\ rest <> [] /\
                       (lookup k_description (fst st) = None -> lookup k_description (snd st) = None -> values items k_description = []))
  end.
Proof.
  pose proof (merge_description st p) as H. cbn zeta in H. unfold post_email. fold (loop_result items).
  assert (RAW : forall h, lookup k_description (fst st) = Some h -> ustr_of h :: nil = map UStr (values items k_description) /\ lookup k_description (snd st) = None).
  { intros h L. destruct (loop_description_raw items h L) as [[x [V ->]] U]. rewrite V. auto. }
  assert (UNP : forall old, lookup k_description (snd st) = Some old -> old = map UStr (values items k_description)).
  { intros old L. apply loop_unp in L. tauto. }
  assert (NONE : lookup k_description (fst st) = None -> lookup k_description (snd st) = None -> In k_description (lnames items) -> False).
  { intros L1 L2 I. destruct (loop_partition items k_description I) as [[k [v [C [L _]]]]|[_ [L _]]]; [|fold st in L; congruence].
    apply classify_raw_key in C as [kind R]. rewrite raw_description in R. inversion R; subst. fold st in L. congruence. }
  destruct p as [[|c body]|obj].
  - rewrite H. auto.
  - destruct (lookup k_description (fst st)) as [h|] eqn:L.
    + right. destruct H as [H1 H2]. split; auto. destruct (RAW h eq_refl) as [E U]. rewrite U in H2. cbn [odef app] in H2.
      exists [UStr (c :: body)]. rewrite <- E. split; [exact H2|]. split; [discriminate|]. discriminate.
    + destruct (lookup k_description (snd st)) as [old|] eqn:U.
      * right. destruct H as [H1 H2]. split; auto. exists [UStr (c :: body)]. rewrite <- (UNP old eq_refl). split; auto. split; discriminate.
      * left. destruct H as [H1 H2]. repeat split; eauto.
  - right. destruct (lookup k_description (fst st)) as [h|] eqn:L.
    + destruct H as [H1 H2]. split; auto. destruct (RAW h eq_refl) as [E U]. rewrite U in H2. cbn [odef app] in H2.
      exists [UOpaque obj]. rewrite <- E. split; [exact H2|]. split; discriminate.
    + destruct H as [H1 H2]. split; auto. destruct (lookup k_description (snd st)) as [old|] eqn:U; cbn [odef] in H2.
      * exists [UOpaque obj]. rewrite <- (UNP old eq_refl). split; auto. split; discriminate.
      * exists [UOpaque obj]. assert (V : values items k_description = []).
        { destruct (values items k_description) as [|x t] eqn:V; auto. exfalso. apply (NONE eq_refl eq_refl).
          unfold values in V. destruct (get_all items k_description) as [|i t'] eqn:G; [discriminate|].
          assert (I : In i (get_all items k_description)) by (rewrite G; now left). apply get_all_spec in I as [I E].
          apply In_lnames. exists i. split; auto. }
        rewrite V. cbn [map app]. split; auto. split; [discriminate | auto].
Qed.

(* FINAL-STATE PARTITION: every name present - a header name, or 'description' when there is a body - is under exactly one of the two
   returned dicts: under its RawMetadata key in raw and not in unparsed, or in unparsed and its RawMetadata key (if any) not in raw *)
Theorem post_partition n : present n ->
  (exists k kind, raw_of_email n = Some (k, kind) /\ lookup k (fst fin) <> None /\ lookup n (snd fin) = None) \/
  (lookup n (snd fin) <> None /\ forall k kind, raw_of_email n = Some (k, kind) -> lookup k (fst fin) = None).
Proof.
  intros P. destruct (seqb_spec n k_description) as [->|N].
  - pose proof fin_description as H. destruct p as [[|c body]|obj] eqn:EP.
    + destruct H as [H1 H2]. destruct P as [I|[_ B]]; [|exfalso; now apply B].
      destruct (loop_partition items k_description I) as [[k [v [C [L U]]]]|[C [L A]]].
      * left. apply classify_raw_key in C as [kind R]. exists k, kind. split; auto. rewrite raw_description in R. inversion R; subst k kind.
        split; [rewrite H1, L; discriminate | now rewrite H2].
      * right. split; [rewrite H2, L; discriminate|]. intros k kind R. rewrite raw_description in R. inversion R; subst. rewrite H1. eapply A, raw_description.
    + destruct H as [(_ & _ & _ & [b [H1 _]] & H2)|[H1 [rest [H2 _]]]].
      * left. exists k_description, 0. split; [exact raw_description|]. split; [rewrite H1; discriminate | exact H2].
      * right. split; [rewrite H2; discriminate|]. intros k kind R. rewrite raw_description in R. inversion R; subst. exact H1.
    + destruct H as [(_ & _ & [b E] & _)|[H1 [rest [H2 _]]]]; [discriminate|].
      right. split; [rewrite H2; discriminate|]. intros k kind R. rewrite raw_description in R. inversion R; subst. exact H1.
  - destruct P as [I|[E _]]; [|contradiction].
    destruct (loop_partition items n I) as [[k [v [C [L U]]]]|[C [L A]]].
    + left. apply classify_raw_key in C as [kind R]. exists k, kind. split; auto. destruct (fin_other n N k kind R) as [F1 F2].
      split; [rewrite F1, L; discriminate | now rewrite F2].
    + right. split; [rewrite (fin_other_unp n N), L; discriminate|]. intros k kind R. destruct (fin_other n N k kind R) as [F1 _]. rewrite F1. eapply A; eauto.
Qed.

(* NO INVENTION on the final state: every key of either returned dict stems from a name that is present *)
Theorem post_no_invention :
  (forall k v, lookup k (fst fin) = Some v -> exists n kind, raw_of_email n = Some (k, kind) /\ present n) /\
  (forall m vs, lookup m (snd fin) = Some vs -> present m).
Proof.
  pose proof fin_description as H. split.
  - intros k v L. destruct (seqb_spec k k_description) as [->|N].
    + exists k_description, 0. split; [exact raw_description|]. destruct p as [[|c body]|obj] eqn:EP.
      * destruct H as [H1 _]. rewrite H1 in L. apply loop_raw in L as [n [I C]]. apply classify_raw_key in C as [kind R].
        apply raw_key_description in R. subst. now left.
      * right. split; auto. unfold has_body. rewrite EP. discriminate.
      * right. split; auto. unfold has_body. rewrite EP. discriminate.
    + assert (L' : lookup k (fst st) = Some v).
      { rewrite <- L. symmetry. unfold post_email. fold (loop_result items). now apply merge_other_keys. }
      apply loop_raw in L' as [n [I C]]. apply classify_raw_key in C as [kind R]. exists n, kind. split; auto. now left.
  - intros m vs L. destruct (seqb_spec m k_description) as [->|N].
    + destruct p as [[|c body]|obj] eqn:EP.
      * destruct H as [_ H2]. rewrite H2 in L. apply loop_unp in L as [I _]. now left.
      * right. split; auto. unfold has_body. rewrite EP. discriminate.
      * right. split; auto. unfold has_body. rewrite EP. discriminate.
    + rewrite (fin_other_unp m N) in L. apply loop_unp in L as [I _]. now left.
Qed.

(* NO VALUE DROPPED, on the final state, with multiplicity: for every header of the document, the dict its (lower-cased) name went to
   holds ALL values of that name, in document order -
     unparsed: the list under the name starts with exactly these values (a description body may follow);
     raw:      under the RawMetadata key OF THAT NAME, the value [classify] builds from exactly these values (C18_typed_no_loss: the
               single value itself, the list of all values, the comma-split of the single value, the (label, url) pairs of all values) *)
Theorem post_every_value_kept i : In i items ->
  let n := lower_name (i_name i) in
  In (i_val i) (values items n) /\
  ((exists rest, lookup n (snd fin) = Some (map UStr (values items n) ++ rest) /\
                 forall k kind, raw_of_email n = Some (k, kind) -> lookup k (fst fin) = None) \/
   (lookup n (snd fin) = None /\ exists k kind v, raw_of_email n = Some (k, kind) /\ classify items n = CRaw k v /\ lookup k (fst fin) = Some v)).
Proof.
  intros Hi n. assert (Ln : In n (lnames items)) by (apply In_lnames; eauto).
  assert (G : In i (get_all items n)) by (apply get_all_spec; split; auto; unfold n; now rewrite lower_name_idem).
  split; [unfold values; now apply in_map|].
  destruct (seqb_spec n k_description) as [E|N].
  - rewrite E in *. pose proof fin_description as H. destruct p as [[|c body]|obj] eqn:EP.
    + destruct H as [H1 H2]. destruct (loop_partition items k_description Ln) as [[k [v [C [L U]]]]|[C [L A]]].
      * right. split; [now rewrite H2|]. apply classify_raw_key in C as C'. destruct C' as [kind R]. exists k, kind, v. split; auto. split; auto.
        rewrite raw_description in R. inversion R; subst. now rewrite H1.
      * left. exists []. rewrite app_nil_r. split; [now rewrite H2|]. intros k kind R. rewrite raw_description in R. inversion R; subst. rewrite H1. eapply A, raw_description.
    + destruct H as [(L1 & L2 & _)|[H1 [rest [H2 _]]]].
      * exfalso. destruct (loop_partition items k_description Ln) as [[k [v [C [L U]]]]|[C [L A]]]; [|congruence].
        apply classify_raw_key in C as [kind R]. rewrite raw_description in R. inversion R; subst. congruence.
      * left. exists rest. split; auto. intros k kind R. rewrite raw_description in R. inversion R; subst. exact H1.
    + destruct H as [(_ & _ & [b X] & _)|[H1 [rest [H2 _]]]]; [discriminate|].
      left. exists rest. split; auto. intros k kind R. rewrite raw_description in R. inversion R; subst. exact H1.
  - destruct (loop_partition items n Ln) as [[k [v [C [L U]]]]|[C [L A]]].
    + right. split; [now rewrite (fin_other_unp n N)|]. apply classify_raw_key in C as C'. destruct C' as [kind R]. exists k, kind, v.
      split; auto. split; auto. destruct (fin_other n N k kind R) as [F1 _]. now rewrite F1.
    + left. exists []. rewrite app_nil_r. split; [now rewrite (fin_other_unp n N)|]. intros k kind R. destruct (fin_other n N k kind R) as [F1 _]. rewrite F1. eapply A; eauto.
Qed.
End Final.
