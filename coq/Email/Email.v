From Coq Require Import List Bool Lia Permutation.
Import ListNotations.

(* parse_email after the email package: input = for each distinct lower-cased header name, the list of its values in
   document order and whether every value decoded as UTF-8; plus the payload.  Output = (raw, unparsed). *)
Section E.
Variable name : Type.                      (* lower-cased header names *)
Variable name_eqb : name -> name -> bool.
Hypothesis name_eqb_spec : forall a b, reflect (a = b) (name_eqb a b).
Variable str : Type.
Inductive kind := KString | KList | KKeywords | KProjectUrls | KUnknown.
Variable kind_of : name -> kind.           (* from _EMAIL_TO_RAW_MAPPING and _STRING_FIELDS/_LIST_FIELDS/_DICT_FIELDS *)
Variable split_keywords : str -> list str. (* [k.strip() for k in data.split(",")] *)
Variable split_url : str -> str * str.     (* label, url *)
Variable label_eqb : str -> str -> bool.

Inductive rawv := RStr (s : str) | RList (l : list str) | RDict (d : list (str * str)).
Record hdr := { h_name : name; h_vals : list str; h_valid : bool }.

Fixpoint dup_label (seen : list str) (ps : list (str * str)) : bool :=
  match ps with [] => false | (l, _) :: t => existsb (label_eqb l) seen || dup_label (l :: seen) t end.

(* one iteration of the loop over header names *)
Definition classify (h : hdr) : (option rawv) + unit :=     (* inl (Some v): goes to raw; inr tt: goes to unparsed *)
  if negb (h_valid h) then inr tt else
  match kind_of (h_name h), h_vals h with
  | KUnknown, _ => inr tt
  | KString, [v] => inl (Some (RStr v))
  | KString, _ => inr tt
  | KList, vs => inl (Some (RList vs))
  | KKeywords, [v] => inl (Some (RList (split_keywords v)))
  | KKeywords, _ => inr tt
  | KProjectUrls, vs => let ps := map split_url vs in if dup_label [] ps then inr tt else inl (Some (RDict ps))
  end.
Definition raw_of (hs : list hdr) : list (name * rawv) :=
  flat_map (fun h => match classify h with inl (Some v) => [(h_name h, v)] | _ => [] end) hs.
Definition unparsed_of (hs : list hdr) : list (name * list str) :=
  flat_map (fun h => match classify h with inr tt => [(h_name h, h_vals h)] | _ => [] end) hs.

Lemma name_unique hs : NoDup (map h_name hs) -> forall h h', In h hs -> In h' hs -> h_name h' = h_name h -> h' = h.
Proof.
  induction hs as [|x l IH]; intros ND h h' Hh Hh' E; [contradiction|]. cbn in ND. inversion ND as [|? ? N1 N2]; subst.
  destruct Hh as [->|Hh], Hh' as [->|Hh']; auto.
  - exfalso. apply N1. rewrite <- E. now apply in_map.
  - exfalso. apply N1. rewrite E. now apply in_map.
Qed.

(* C18 partition: with distinct header names, every name lands in exactly one of the two dicts *)
Theorem C18_partition hs : NoDup (map h_name hs) -> forall h, In h hs ->
  (In (h_name h) (map fst (raw_of hs)) /\ ~ In (h_name h) (map fst (unparsed_of hs))) \/
  (~ In (h_name h) (map fst (raw_of hs)) /\ In (h_name h) (map fst (unparsed_of hs))).
Proof.
  intros ND h Hh.
  assert (R : forall n, In n (map fst (raw_of hs)) <-> exists h', In h' hs /\ h_name h' = n /\ exists v, classify h' = inl (Some v)).
  { intros n. unfold raw_of. rewrite in_map_iff. split.
    - intros [[n' v] [E H]]. cbn in E. subst n'. apply in_flat_map in H as [h' [H1 H2]].
      destruct (classify h') as [[v'|]|[]] eqn:C; cbn in H2; try contradiction. destruct H2 as [E|[]]. inversion E; subst. eauto.
    - intros [h' [H1 [H2 [v C]]]]. exists (n, v). split; auto. apply in_flat_map. exists h'. split; auto. rewrite C. left. now subst. }
  assert (U : forall n, In n (map fst (unparsed_of hs)) <-> exists h', In h' hs /\ h_name h' = n /\ classify h' = inr tt).
  { intros n. unfold unparsed_of. rewrite in_map_iff. split.
    - intros [[n' v] [E H]]. cbn in E. subst n'. apply in_flat_map in H as [h' [H1 H2]].
      destruct (classify h') as [[v'|]|[]] eqn:C; cbn in H2; try contradiction. destruct H2 as [E|[]]. inversion E; subst. eauto.
    - intros [h' [H1 [H2 C]]]. exists (n, h_vals h'). split; auto. apply in_flat_map. exists h'. split; auto. rewrite C. left. now subst. }
  assert (Uniq : forall h', In h' hs -> h_name h' = h_name h -> h' = h) by (intros; eapply name_unique; eauto).
  rewrite R, U.
  assert (Cases : (exists v, classify h = inl (Some v)) \/ classify h = inr tt).
  { unfold classify. destruct (negb (h_valid h)); auto. destruct (kind_of (h_name h)); auto;
    try (destruct (h_vals h) as [|v [|? ?]]); try (destruct (dup_label [] _));
    try (left; eexists; reflexivity); try (right; reflexivity). }
  destruct Cases as [[v C]|C].
  - left. split; [exists h; eauto|]. intros [h' [H1 [H2 C']]]. rewrite (Uniq h' H1 H2) in C'. congruence.
  - right. split; [|exists h; eauto]. intros [h' [H1 [H2 [v C']]]]. rewrite (Uniq h' H1 H2) in C'. congruence.
Qed.

(* no value is dropped or invented: the values of a header are retrievable from whichever dict holds it *)
Definition vals_of (v : rawv) : option (list str) := match v with RList l => Some l | RStr s => Some [s] | RDict _ => None end.
Theorem C18_unparsed_keeps_all hs h : In h hs -> classify h = inr tt -> In (h_name h, h_vals h) (unparsed_of hs).
Proof. intros H C. unfold unparsed_of. apply in_flat_map. exists h. split; auto. rewrite C. now left. Qed.
End E.
Print Assumptions C18_partition.
