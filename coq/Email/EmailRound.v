(* C18 round trip: serialising a well-formed RawMetadata as RFC 822 headers (+ body for the description) and running parse_email's
   post-processing on it gives back that dict and an empty unparsed dict - under the oracle assumption that the e-mail parser returns
   exactly the serialised (name, value) pairs and body. *)
From Coq Require Import String List NArith Bool Lia Arith Permutation.
Import ListNotations.
Require Import Show VParse MetaTable MetaBase MetaBaseFacts EmailModel EmailFacts.
Open Scope N_scope.
Arguments N.eqb : simpl never.
Arguments N.leb : simpl never.

(* ------------------------------------------------------------------ the serialiser of the statement *)
Definition email_of_key (k : list N) : option (list N * N) :=
  match lookup k gen_fields with Some (e, (_, kind)) => Some (e, kind) | None => None end.
Definition mk (n v : list N) : item := {| i_name := n; i_val := v; i_valid := true |}.
Section Ser.
Variable spell : list N -> list N.                      (* how the writer capitalises a header name *)
Hypothesis spell_ok : forall n, lower_name (spell n) = lower_name n.

Definition ser_entry (kv : list N * rawval) : list item :=
  match email_of_key (fst kv) with
  | None => []
  | Some (e, kind) =>
      if seqb (fst kv) k_description then [] else                     (* the description travels as the body *)
      match snd kv with
      | RStr s => [mk (spell e) s]
      | RList l => if kind =? 2 then [mk (spell e) (join [44] l)]       (* Keywords: ",".join *)
                   else map (mk (spell e)) l                           (* one header per item *)
      | RDict d => map (fun p => mk (spell e) (fst p ++ [44; 32] ++ snd p)) d      (* Project-URL: "label, url" *)
      end
  end.
Definition ser_items (r : list (list N * rawval)) : list item := flat_map ser_entry r.
Definition ser_payload (r : list (list N * rawval)) : payload :=
  POk (match lookup k_description r with Some (RStr s) => s | _ => [] end).

(* well-formed values: typed per the table; lists, dicts and the description non-empty (RFC 822 cannot express the empty ones);
   keywords and labels without commas and without surrounding white space, URLs without surrounding white space, labels distinct *)
Definition stripped (x : list N) : Prop := strip x = x.
Definition wf_entry (kv : list N * rawval) : Prop :=
  exists e kind, email_of_key (fst kv) = Some (e, kind) /\
  match snd kv with
  | RStr s => kind = 0 /\ (fst kv = k_description -> s <> [])
  | RList l => l <> [] /\ (kind = 1 \/ (kind = 2 /\ forall x, In x l -> stripped x /\ ~ In 44 x))
  | RDict d => kind = 3 /\ d <> [] /\ NoDup (map fst d) /\ forall p, In p d -> stripped (fst p) /\ ~ In 44 (fst p) /\ stripped (snd p)
  end.
Definition wf (r : list (list N * rawval)) : Prop := NoDup (map fst r) /\ forall kv, In kv r -> wf_entry kv.

(* ------------------------------------------------------------------ table facts *)
Lemma table_emails_lower : forallb (fun row => seqb (lower_name (fst (snd row))) (fst (snd row))) gen_fields = true.
Proof. vm_compute. reflexivity. Qed.
Lemma table_roundtrip : forallb (fun row => match raw_of_email (fst (snd row)) with Some (k, kind) => seqb k (fst row) && (kind =? snd (snd (snd row))) | None => false end) gen_fields = true.
Proof. vm_compute. reflexivity. Qed.
Lemma email_of_key_facts k e kind : email_of_key k = Some (e, kind) -> lower_name e = e /\ raw_of_email e = Some (k, kind).
Proof.
  unfold email_of_key. destruct (lookup k gen_fields) as [[e' [a kd]]|] eqn:L; [|discriminate]. intros H. inversion H; subst.
  apply lookup_In in L. split.
  - pose proof table_emails_lower as T. rewrite forallb_forall in T. specialize (T _ L). cbn [fst snd] in T. now apply seqb_eq in T.
  - pose proof table_roundtrip as T. rewrite forallb_forall in T. specialize (T _ L). cbn [fst snd] in T.
    destruct (raw_of_email e) as [[k' kd']|]; [|discriminate]. apply andb_prop in T as [T1 T2]. apply seqb_eq in T1. apply N.eqb_eq in T2. congruence.
Qed.
Lemma email_of_key_inj k k' e kind kind' : email_of_key k = Some (e, kind) -> email_of_key k' = Some (e, kind') -> k = k'.
Proof. intros H1 H2. apply email_of_key_facts in H1 as [_ H1]. apply email_of_key_facts in H2 as [_ H2]. congruence. Qed.

(* ------------------------------------------------------------------ text lemmas *)
Lemma split_on_join c0 l : l <> [] -> (forall x, In x l -> ~ In c0 x) -> split_on c0 (join [c0] l) = l.
Proof.
  induction l as [|x t IH]; [congruence|]. intros _ H.
  assert (A : forall (x : list N) rest, ~ In c0 x -> split_on c0 (x ++ c0 :: rest) = x :: split_on c0 rest).
  { clear. induction x as [|c x IH]; intros rest H; cbn [app split_on].
    - now rewrite N.eqb_refl.
    - destruct (N.eqb_spec c c0) as [->|N]; [exfalso; apply H; now left|]. rewrite IH by (intros I; apply H; now right). reflexivity. }
  assert (B : forall x : list N, ~ In c0 x -> split_on c0 x = [x]).
  { clear. induction x as [|c x IH]; intros H; cbn [split_on]; auto.
    destruct (N.eqb_spec c c0) as [->|N]; [exfalso; apply H; now left|]. rewrite IH by (intros I; apply H; now right). reflexivity. }
  destruct t as [|y t].
  - cbn [join]. apply B. apply H. now left.
  - change (join [c0] (x :: y :: t)) with (x ++ c0 :: join [c0] (y :: t)). rewrite A by (apply H; now left).
    f_equal. apply IH; [discriminate|]. intros z I. apply H. now right.
Qed.
Lemma split_first_app c0 (x rest : list N) : ~ In c0 x -> split_first c0 (x ++ c0 :: rest) = (x, Some rest).
Proof.
  induction x as [|c x IH]; intros H; cbn [app split_first].
  - now rewrite N.eqb_refl.
  - destruct (N.eqb_spec c c0) as [->|N]; [exfalso; apply H; now left|]. rewrite IH by (intros I; apply H; now right). reflexivity.
Qed.
Lemma strip_space s : strip (32 :: s) = strip s.
Proof. reflexivity. Qed.

(* ------------------------------------------------------------------ what get_all sees in a serialised document *)
Lemma filter_flat_map {A B} (p : B -> bool) (f : A -> list B) l : filter p (flat_map f l) = flat_map (fun x => filter p (f x)) l.
Proof. induction l as [|x t IH]; cbn [flat_map]; auto. now rewrite filter_app, IH. Qed.
Lemma flat_map_nil {A B} (g : A -> list B) l : (forall x, In x l -> g x = []) -> flat_map g l = [].
Proof. induction l as [|x t IH]; intros H; cbn [flat_map]; auto. rewrite (H x) by now left. apply IH. intros y I. apply H. now right. Qed.
Lemma flat_map_single {B} (g : list N * rawval -> list B) r k v :
  NoDup (map fst r) -> In (k, v) r -> (forall kv, In kv r -> fst kv <> k -> g kv = []) -> flat_map g r = g (k, v).
Proof.
  induction r as [|[k' v'] t IH]; intros ND I H; [contradiction|]. cbn [flat_map]. cbn [map fst] in ND. inversion ND as [|? ? N1 N2]; subst.
  destruct I as [E|I].
  - inversion E; subst. rewrite (flat_map_nil g t); [apply app_nil_r|]. intros kv I. apply H; [now right|].
    intros E'. apply N1. rewrite <- E'. now apply in_map.
  - rewrite (H (k', v')); [|now left|]. { cbn [app]. apply IH; auto. intros kv I' N. apply H; auto. now right. }
    cbn [fst]. intros ->. apply N1. change k with (fst (k, v)). now apply in_map.
Qed.
Lemma filter_all {A} (p : A -> bool) l : (forall x, In x l -> p x = true) -> filter p l = l.
Proof. induction l as [|x t IH]; intros H; cbn [filter]; auto. rewrite (H x) by now left. f_equal. apply IH. intros y I. apply H. now right. Qed.
Lemma filter_none {A} (p : A -> bool) l : (forall x, In x l -> p x = false) -> filter p l = [].
Proof. induction l as [|x t IH]; intros H; cbn [filter]; auto. rewrite (H x) by now left. apply IH. intros y I. apply H. now right. Qed.

Lemma ser_entry_items kv e kind i : email_of_key (fst kv) = Some (e, kind) -> In i (ser_entry kv) -> i_name i = spell e /\ i_valid i = true.
Proof.
  unfold ser_entry. intros ->. destruct (seqb (fst kv) k_description); [contradiction|]. destruct (snd kv) as [s|l|d].
  - intros [<-|[]]. auto.
  - destruct (kind =? 2); [intros [<-|[]]; auto | rewrite in_map_iff; intros [x [<- _]]; auto].
  - rewrite in_map_iff. intros [x [<- _]]. auto.
Qed.

Lemma get_all_entry r k v e kind : wf r -> In (k, v) r -> email_of_key k = Some (e, kind) -> get_all (ser_items r) e = ser_entry (k, v).
Proof.
  intros [ND W] I E. unfold get_all, ser_items. rewrite filter_flat_map.
  destruct (email_of_key_facts _ _ _ E) as [LE _].
  rewrite (flat_map_single _ r k v ND I).
  - apply filter_all. intros i Hi. apply (ser_entry_items (k, v) e kind) in Hi as [-> _]; auto. apply seqb_eq. apply spell_ok.
  - intros kv I' N. destruct (email_of_key (fst kv)) as [[e' kind']|] eqn:E'.
    + apply filter_none. intros i Hi. apply (ser_entry_items kv e' kind') in Hi as [-> _]; auto. apply seqb_neq. rewrite spell_ok.
      destruct (email_of_key_facts _ _ _ E') as [LE' _]. rewrite LE', LE. intros ->. apply N. eapply email_of_key_inj; eauto.
    + unfold ser_entry. now rewrite E'.
Qed.

Lemma labels_prefix (d : list (list N * list N)) : NoDup (map fst d) -> forall pre p post, d = pre ++ p :: post -> lookup (fst p) pre = None.
Proof.
  intros ND pre p post ->. apply lookup_None. rewrite map_app in ND. cbn [map] in ND. apply NoDup_remove_2 in ND. intros I. apply ND. apply in_or_app. now left.
Qed.

(* every serialised entry is read back as itself *)
Lemma classify_entry r k v e kind : wf r -> In (k, v) r -> k <> k_description -> email_of_key k = Some (e, kind) ->
  classify (ser_items r) e = CRaw k v.
Proof.
  intros WF I NK E. pose proof WF as [ND W]. destruct (email_of_key_facts _ _ _ E) as [LE RE].
  apply classify_spec. unfold valid_name_enc, values. rewrite (get_all_entry r k v e kind WF I E).
  split.
  - apply forallb_forall. intros i Hi. now apply (ser_entry_items (k, v) e kind) in Hi as [_ ->].
  - exists kind. split; auto. destruct (W _ I) as [e' [kind' [E' H]]]. cbn [fst snd] in *. rewrite E in E'. inversion E'; subst e' kind'.
    unfold ser_entry. cbn [fst snd]. rewrite E. destruct (seqb_spec k k_description) as [->|_]; [congruence|].
    destruct v as [s|l|d].
    + destruct H as [-> _]. left. split; auto. exists s. auto.
    + destruct H as [NE [->|[-> H]]].
      * right; left. split; auto. change (1 =? 2) with false. cbn iota. rewrite map_map. cbn [i_val mk]. now rewrite map_id.
      * right; right; left. split; auto. change (2 =? 2) with true. cbn iota. cbn [map i_val mk]. exists (join [44] l). split; auto.
        unfold parse_keywords. rewrite split_on_join; auto; [|intros x Hx; now apply H]. f_equal.
        rewrite <- (map_id l) at 1. apply map_ext_in. intros x Hx. symmetry. now apply H.
    + destruct H as [-> [NE [NDl H]]]. right; right; right. split; auto. exists d. split; auto. rewrite map_map. cbn [i_val mk].
      apply parse_project_urls_spec. cbn [app].
      assert (M : map split_url (map (fun x : list N * list N => fst x ++ 44 :: 32 :: snd x) d) = d).
      { rewrite map_map. rewrite <- (map_id d) at 2. apply map_ext_in. intros [lb url] Hp. destruct (H _ Hp) as [S1 [NC S2]]. cbn [fst snd] in *.
        unfold split_url. rewrite split_first_app by auto. rewrite strip_space. now rewrite S1, S2. }
      rewrite M. split; auto. now apply labels_prefix.
Qed.

Lemma ser_entry_nonempty kv : wf_entry kv -> fst kv <> k_description -> ser_entry kv <> [].
Proof.
  intros [e [kind [E H]]] N. unfold ser_entry. rewrite E. destruct (seqb_spec (fst kv) k_description); [contradiction|].
  destruct (snd kv) as [s|l|d]; [discriminate| |].
  - destruct H as [NE _]. destruct (kind =? 2); [discriminate|]. destruct l; [congruence|discriminate].
  - destruct H as [_ [NE _]]. destruct d; [congruence|discriminate].
Qed.

Lemma lnames_ser r n : wf r -> (In n (lnames (ser_items r)) <->
  exists k v e kind, In (k, v) r /\ k <> k_description /\ email_of_key k = Some (e, kind) /\ n = e).
Proof.
  intros [ND W]. rewrite In_lnames. unfold ser_items. split.
  - intros [i [Hi <-]]. apply in_flat_map in Hi as [[k v] [I Hi]].
    destruct (email_of_key k) as [[e kind]|] eqn:E; [|unfold ser_entry in Hi; cbn [fst] in Hi; rewrite E in Hi; contradiction].
    exists k, v, e, kind. split; auto. split.
    + intros ->. unfold ser_entry in Hi. cbn [fst] in Hi. rewrite E in Hi. change (seqb k_description k_description) with true in Hi. contradiction.
    + split; auto. pose proof (ser_entry_items (k, v) e kind i E Hi) as [Hn _]. rewrite Hn, spell_ok. now apply email_of_key_facts in E.
  - intros [k [v [e [kind [I [N [E ->]]]]]]]. pose proof (ser_entry_nonempty (k, v) (W _ I) N) as NE.
    destruct (ser_entry (k, v)) as [|i t] eqn:S; [congruence|]. exists i. split.
    + apply in_flat_map. exists (k, v). split; auto. rewrite S. now left.
    + assert (Hi : In i (ser_entry (k, v))) by (rewrite S; now left). pose proof (ser_entry_items (k, v) e kind i E Hi) as [Hn _].
      rewrite Hn, spell_ok. now apply email_of_key_facts in E.
Qed.

Lemma all_none_nil {V} (d : list (list N * V)) : (forall k, lookup k d = None) -> d = [].
Proof. destruct d as [|[k v] t]; auto. intros H. specialize (H k). cbn [lookup] in H. rewrite seqb_refl in H. discriminate. Qed.

(* ROUND TRIP *)
Theorem roundtrip r : wf r ->
  snd (post_email (ser_items r) (ser_payload r)) = [] /\ forall k, lookup k (fst (post_email (ser_items r) (ser_payload r))) = lookup k r.
Proof.
  intros WF. pose proof WF as [ND W].
  (* the loop: raw holds exactly the non-description entries, unparsed is empty *)
  assert (R1 : forall k v, lookup k (fst (loop_result (ser_items r))) = Some v <-> (In (k, v) r /\ k <> k_description)).
  { intros k v. rewrite loop_raw. split.
    - intros [n [I C]]. apply (lnames_ser r n WF) in I as [k' [v' [e [kind [I [N [E ->]]]]]]].
      rewrite (classify_entry r k' v' e kind WF I N E) in C. inversion C; subst. auto.
    - intros [I N]. destruct (W _ I) as [e [kind [E _]]]. cbn [fst] in E. exists e. split; [apply lnames_ser; eauto 10 | now apply classify_entry with (kind := kind)]. }
  assert (U1 : snd (loop_result (ser_items r)) = []).
  { apply all_none_nil. intros m. destruct (lookup m (snd (loop_result (ser_items r)))) as [vs|] eqn:L; auto. apply loop_unp in L as [I [C _]].
    apply (lnames_ser r m WF) in I as [k' [v' [e [kind [I [N [E ->]]]]]]]. rewrite (classify_entry r k' v' e kind WF I N E) in C. discriminate. }
  assert (RD : lookup k_description (fst (loop_result (ser_items r))) = None).
  { destruct (lookup k_description (fst (loop_result (ser_items r)))) eqn:L; auto. apply R1 in L as [_ N]. congruence. }
  assert (LK : forall k v, In (k, v) r <-> lookup k r = Some v).
  { intros k v. split; [|apply lookup_In]. intros I. destruct (In_lookup k r) as [v' L]; [change k with (fst (k, v)); now apply in_map|].
    rewrite L. f_equal. apply lookup_In in L. clear -ND I L. induction r as [|[k0 v0] t IH]; [contradiction|]. cbn [map fst] in ND. inversion ND as [|? ? N1 N2]; subst.
    destruct I as [E|I], L as [E'|L']; try (inversion E; subst); try (inversion E'; subst); auto.
    - exfalso. apply N1. change k with (fst (k, v')). now apply in_map.
    - exfalso. apply N1. change k with (fst (k, v)). now apply in_map. }
  unfold post_email. fold (loop_result (ser_items r)). unfold ser_payload.
  destruct (lookup k_description r) as [vd|] eqn:LD.
  - destruct (W _ (lookup_In _ _ _ LD)) as [e [kind [E H]]]. cbn [fst snd] in E, H. destruct vd as [s|l|d].
    + destruct H as [_ NE]. specialize (NE eq_refl). destruct s as [|c s]; [congruence|].
      unfold merge_payload. destruct (loop_result (ser_items r)) as [raw unp] eqn:LR. cbn [fst snd] in *. rewrite RD, U1. cbn [lookup is_some fst snd]. split; auto.
      intros k. destruct (seqb_spec k k_description) as [->|N].
      * now rewrite lookup_dset_same, LD.
      * rewrite lookup_dset_other by auto. destruct (lookup k r) as [v|] eqn:L.
        -- apply R1. split; auto. now apply LK.
        -- destruct (lookup k raw) as [v|] eqn:L'; auto. apply R1 in L' as [I _]. apply LK in I. congruence.
    + exfalso. assert (raw_of_email e = Some (k_description, kind)) by (now apply email_of_key_facts in E).
      assert (E2 : email_of_key k_description = Some (k_description, 0)) by (vm_compute; reflexivity). rewrite E2 in E. inversion E; subst.
      destruct H as [_ [C|[C _]]]; discriminate.
    + exfalso. assert (E2 : email_of_key k_description = Some (k_description, 0)) by (vm_compute; reflexivity). rewrite E2 in E. inversion E; subst.
      destruct H as [C _]; discriminate.
  - cbn [merge_payload]. destruct (loop_result (ser_items r)) as [raw unp] eqn:LR. cbn [fst snd] in *. split; auto.
    intros k. destruct (lookup k r) as [v|] eqn:L.
    + apply R1. split; [now apply LK | congruence].
    + destruct (lookup k raw) as [v|] eqn:L'; auto. apply R1 in L' as [I _]. apply LK in I. congruence.
Qed.
End Ser.
