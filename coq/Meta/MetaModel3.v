(* C17  The metadata model with THREE-VALUED component oracles.  Definitions only (this file is extracted; it is what RunMeta.v runs).

   MetaModel.v gives every other component (SpecifierSet, Requirement, canonicalize_license_expression, the header parser of
   EmailMessage) the type  string -> option result : the component either returns or raises its one documented exception.  That type
   cannot express what the real components also do: raise something else (RecursionError on a deeply nested marker, the bare
   ValueError of CPython's 4300-digit limit).  Here a component answers

       OAcc r   it returned r            ORej   it raised its documented exception           ORaise e   it raised something else (e)

   and the converters propagate  ORaise e  as  Crash e : metadata.py catches only the documented exception of each component, so
   anything else escapes from the attribute read, from Metadata.from_raw and from Metadata.from_email as it is.

   Two more places where MetaModel.v is coarser than the code are made exact here:
   - reading an attribute that is not a metadata field is an AttributeError (MetaModel.read returns the raw value);
   - from_raw iterates  sorted(fields_to_check)  (the code sorts since b880671); from_raw3_ord keeps the order a parameter, the
     observation layer instantiates it with [sort_s].
   Everything that does not depend on the oracles is shared with MetaModel.v (values, the instance, the gate, p_name, ...).

   NOT oracles, modelled as TOTAL (accept or reject, never another exception): Version (VMeaning.Version, the C01/C12 model),
   canonicalize_name (Names.valid_name) and the pathlib tests (o3_path : bool).  The model's Version has no digit limit: a component of
   more than 4300 digits is a valid version here and an InvalidMetadata in the code (finding D10, harness matcher match_c17_d10). *)
From Coq Require Import List NArith Bool String.
Import ListNotations.
Require Import Show Names SpecModel VMeaning MetaTable MetaBase MetaShow MetaModel.
Open Scope N_scope.

Inductive ores (A : Type) := OAcc (a : A) | ORej | ORaise (e : list N).
Arguments OAcc {A} a.
Arguments ORej {A}.
Arguments ORaise {A} e.

Record oracles3 := {
  o3_specset : list N -> ores (list N);      (* SpecifierSet(v): OAcc t, t = str(result); ORej = InvalidSpecifier *)
  o3_req : list N -> ores (list N);          (* Requirement(v): OAcc t, t = str(result); ORej = InvalidRequirement *)
  o3_lic : list N -> ores (list N);          (* canonicalize_license_expression(v): OAcc t = result; ORej = ValueError (InvalidLicenseExpression) *)
  (* EmailMessage: m["content-type"] = v; ORej = ValueError or IndexError (both caught since 23f1ee9);
     OAcc (m.get_content_type(), params.get("charset"), params.get("variant")) *)
  o3_ctype : list N -> ores (list N * (option (list N) * option (list N)));
  (* pathlib: PurePosixPath(p).is_absolute() or PureWindowsPath(p).is_absolute() or PureWindowsPath(p).as_posix() != p *)
  o3_path : list N -> bool
}.

(* the two-valued reading of a three-valued table: what MetaModel.v sees (a raise is read as a rejection; the theorems only use it
   where nothing raises) *)
Definition two_res {A} (r : ores A) : option A := match r with OAcc a => Some a | _ => None end.
Definition two (O : oracles3) : oracles :=
  {| o_specset := fun s => two_res (o3_specset O s); o_req := fun s => two_res (o3_req O s); o_lic := fun s => two_res (o3_lic O s);
     o_ctype := fun s => two_res (o3_ctype O s); o_path := o3_path O |}.

(* ---------------------------------------------------------------- _process_* of the fields whose converter calls a component *)
Definition p3_description_content_type (O : oracles3) (v : option rawv) : res :=
  match v with
  | Some (VStr s) =>
      match o3_ctype O s with
      | ORaise e => Crash e
      | ORej => inv k_dct
      | OAcc (ct0, (charset, variant)) =>
          let ct := lower_str ct0 in
          if negb (mem ct content_types) || negb (infixb ct (lower_str s)) then inv k_dct
          else if negb (seqb (opt_default charset (asc "UTF-8")) (asc "UTF-8")) then inv k_dct
          else if seqb ct (asc "text/markdown") && negb (mem (opt_default variant (asc "GFM")) [asc "GFM"; asc "CommonMark"]) then inv k_dct
          else Ok (EStr s)
      end
  | _ => ill_typed
  end.
Definition p3_requires_python (O : oracles3) (v : option rawv) : res :=
  match v with
  | Some (VStr s) => match o3_specset O s with OAcc t => Ok (EStr t) | ORej => inv k_requires_python | ORaise e => Crash e end
  | _ => ill_typed
  end.
(* for req in value: reqs.append(Requirement(req)) - the first entry that does not parse decides: InvalidRequirement -> InvalidMetadata,
   anything else escapes; entries after it are never looked at *)
Fixpoint req_all (O : oracles3) (l : list (list N)) : ores (list (list N)) :=
  match l with
  | [] => OAcc []
  | x :: t => match o3_req O x with
              | OAcc a => match req_all O t with OAcc r => OAcc (a :: r) | ORej => ORej | ORaise e => ORaise e end
              | ORej => ORej
              | ORaise e => ORaise e
              end
  end.
Definition p3_requires_dist (O : oracles3) (v : option rawv) : res :=
  match v with
  | Some (VList l) => match req_all O l with OAcc ts => Ok (EList ts) | ORej => inv k_requires_dist | ORaise e => Crash e end
  | _ => ill_typed
  end.
Definition p3_license_expression (O : oracles3) (v : option rawv) : res :=
  match v with
  | Some (VStr s) => match o3_lic O s with OAcc t => Ok (EStr t) | ORej => inv k_license_expression | ORaise e => Crash e end
  | _ => ill_typed
  end.

(* getattr(self, f"_process_{self.name}") *)
Definition process3 (O : oracles3) (k : list N) : option (option rawv -> res) :=
  if seqb k k_mv then Some p_metadata_version
  else if seqb k k_name then Some p_name
  else if seqb k k_version then Some p_version
  else if seqb k k_summary then Some p_summary
  else if seqb k k_dct then Some (p3_description_content_type O)
  else if seqb k k_dynamic then Some p_dynamic
  else if seqb k k_provides_extra then Some p_provides_extra
  else if seqb k k_requires_python then Some (p3_requires_python O)
  else if seqb k k_requires_dist then Some (p3_requires_dist O)
  else if seqb k k_license_expression then Some (p3_license_expression O)
  else if seqb k k_license_files then Some (p_license_files (two O))
  else None.

(* what one evaluation of _Validator.__get__ computes from the raw value *)
Definition compute3 (O : oracles3) (k : list N) (v : option rawv) : res :=
  if required k || is_some v then match process3 O k with Some p => p v | None => Ok (plain v) end else Ok (plain v).

(* getattr(ins, k): a _Validator descriptor exists only for the fields; any other name is an AttributeError
   (names of methods and private attributes of the class - from_raw, _raw, __dict__ ... - are not attribute READS of the property) *)
Definition k_attribute_error := asc "AttributeError".
Definition getattr3 (O : oracles3) (k : list N) (v : option rawv) : res :=
  if is_field k then compute3 O k v else Crash k_attribute_error.

(* attribute read: instance __dict__ wins (non-data descriptor); else __get__: convert, cache, delete from _raw;
   nothing changes when the converter raises *)
Definition read3 (O : oracles3) (s : inst) (k : list N) : inst * res :=
  match lookup k (cache s) with
  | Some e => (s, Ok e)
  | None =>
      match getattr3 O k (lookup k (raw s)) with
      | Ok e => ({| raw := remove k (raw s); cache := (k, e) :: cache s |}, Ok e)
      | r => (s, r)
      end
  end.
Fixpoint reads3 (O : oracles3) (s : inst) (ks : list (list N)) : list res :=
  match ks with [] => [] | k :: t => let '(s', r) := read3 O s k in r :: reads3 O s' t end.

(* ---------------------------------------------------------------- from_raw *)
Fixpoint check_loop3 (O : oracles3) (mv : option nat) (keys : list (list N)) (s : inst) (errs : list (list N)) : (inst * list (list N)) + list N :=
  match keys with
  | [] => inl (s, errs)
  | k :: t =>
      if negb (is_field k) then check_loop3 O mv t s (errs ++ [k])                 (* unrecognized field: InvalidMetadata(key, ...) *)
      else match gate_of mv k with
           | GCrash => inr (asc "ValueError")
           | GNewer => check_loop3 O mv t s (errs ++ [email_name k])              (* introduced in a later metadata version *)
           | GOk => match read3 O s k with                                        (* getattr(ins, key) *)
                    | (s', Ok _) => check_loop3 O mv t s' errs
                    | (s', Invalid f) => check_loop3 O mv t s' (errs ++ [f])
                    | (_, Crash c) => inr c                                        (* not an InvalidMetadata: escapes from from_raw *)
                    end
           end
  end.

(* [ord] = the order in which fields_to_check is iterated *)
Definition from_raw3_ord (ord : list (list N) -> list (list N)) (O : oracles3) (validate : bool) (data : list (list N * rawv)) : frres :=
  let s0 := init data in
  if negb validate then FOk s0 else
  match read3 O s0 k_mv with                                                          (* ins.metadata_version *)
  | (_, Crash c) => FCrash c
  | (s1, r) =>
      let mv := match r with Ok (EStr v) => index_of v gen_valid_versions | _ => None end in
      let errs0 := match r with Invalid f => [f] | _ => [] end in
      match check_loop3 O mv (ord (fields_to_check (map fst (raw s1)))) s1 errs0 with
      | inr c => FCrash c
      | inl (s2, []) => FOk s2
      | inl (_, errs) => FGroup errs
      end
  end.
(* the code: for key in sorted(fields_to_check) *)
Definition from_raw3 := from_raw3_ord sort_s.

(* from_email after parse_email returned (raw, unparsed): one InvalidMetadata per unparsed key (only when validating; [unparsed] = the
   keys in the dict's iteration order), then from_raw on the parsed fields in any case; ONE group: unparsed keys, then from_raw's errors;
   an exception escaping from from_raw escapes from from_email *)
Definition from_email3_ord (ord : list (list N) -> list (list N)) (O : oracles3) (validate : bool) (data : list (list N * rawv)) (unparsed : list (list N)) : frres :=
  let exceptions := if validate then unparsed else [] in
  match from_raw3_ord ord O validate data with
  | FOk s => match exceptions with [] => FOk s | _ => FGroup exceptions end
  | FGroup es => FGroup (exceptions ++ es)
  | FCrash c => FCrash c
  end.
Definition from_email3 := from_email3_ord sort_s.
