(* C17  "never modifies the caller's raw dict" - a model in which that can be FALSE.

   MetaModel(3).v model  ins._raw = data.copy()  as  init data : in a functional model the caller's dict cannot be touched, whatever the
   code does, so the clause is not expressible there.  Here dicts and their values are OBJECTS in a heap:
     w_vals   value objects (the str / list / dict a raw-dict entry refers to), by location
     w_dicts  dict objects (key -> location of the value object), by location
   The caller's dict is a dict object [dl].  Metadata.from_raw allocates a NEW dict object with the same entries - a SHALLOW copy: the
   value objects are shared with the caller - and the instance only holds a reference to it ([hi_raw]).  The descriptor's
   `del instance._raw[name]` mutates the dict object behind that reference.  What an attribute read returns is
     COwn e   a new object built by the converter (Version, SpecifierSet, the new lists of _process_dynamic / _process_license_files ...)
     CRef l   the very value object of the raw dict - for every field without a converter: the caller's own list / dict
   so a later in-place change of a shared list is seen through the Metadata object, and the other way round (that is what the code does).
   Definitions only (extracted; run by the command m.heap of RunMeta.v). *)
From Coq Require Import List NArith Bool Arith.
Import ListNotations.
Require Import Show MetaTable MetaBase MetaShow MetaModel MetaModel3.
Open Scope N_scope.

Record world := { w_vals : list (list N * rawv); w_dicts : list (list N * list (list N * list N)) }.
(* a location no entry of the table uses: longer than all of them *)
Definition fresh {X} (d : list (list N * X)) : list N := repeat 0 (S (fold_right Nat.max O (map (fun e => length (fst e)) d))).

Inductive cval := CRef (l : list N) | COwn (e : enr).
Record hinst := { hi_raw : list N; hi_cache : list (list N * cval) }.

(* the fields that have a _process_* converter *)
Definition converted (k : list N) : bool :=
  mem k [k_mv; k_name; k_version; k_summary; k_dct; k_dynamic; k_provides_extra; k_requires_python; k_requires_dist; k_license_expression; k_license_files].
Definition odict {X} (o : option (list X)) : list X := match o with Some d => d | None => [] end.
Definition deref_c (w : world) (c : cval) : enr := match c with COwn e => e | CRef l => plain (lookup l (w_vals w)) end.

(* ins = cls(); ins._raw = data.copy() *)
Definition from_raw_h (w : world) (dl : list N) : world * hinst :=
  let nl := fresh (w_dicts w) in
  ({| w_vals := w_vals w; w_dicts := (nl, odict (lookup dl (w_dicts w))) :: w_dicts w |}, {| hi_raw := nl; hi_cache := [] |}).
(* what the code would be WITHOUT the copy:  ins._raw = data *)
Definition from_raw_nocopy (w : world) (dl : list N) : world * hinst := (w, {| hi_raw := dl; hi_cache := [] |}).

(* getattr(ins, k) *)
Definition hread (O : oracles3) (w : world) (hi : hinst) (k : list N) : world * hinst * res :=
  match lookup k (hi_cache hi) with
  | Some c => (w, hi, Ok (deref_c w c))                                       (* instance __dict__: the cached OBJECT, as it is now *)
  | None =>
      if negb (is_field k) then (w, hi, Crash k_attribute_error) else
      let d := odict (lookup (hi_raw hi) (w_dicts w)) in
      let ol := lookup k d in
      let v := match ol with Some l => lookup l (w_vals w) | None => None end in       (* instance._raw.get(self.name) *)
      match compute3 O k v with
      | Ok e =>
          let c := match ol with Some l => if converted k then COwn e else CRef l | None => COwn e end in
          ({| w_vals := w_vals w; w_dicts := dset (hi_raw hi) (remove k d) (w_dicts w) |},        (* del instance._raw[self.name] *)
           {| hi_raw := hi_raw hi; hi_cache := (k, c) :: hi_cache hi |}, Ok e)
      | r => (w, hi, r)
      end
  end.
Fixpoint hreads (O : oracles3) (w : world) (hi : hinst) (ks : list (list N)) : world * hinst * list res :=
  match ks with
  | [] => (w, hi, [])
  | k :: t => let '(w1, hi1, r) := hread O w hi k in let '(w2, hi2, rs) := hreads O w1 hi1 t in (w2, hi2, r :: rs)
  end.

(* ---------------------------------------------------------------- what the environment can do meanwhile *)
Definition set_val (w : world) (l : list N) (v : rawv) : world := {| w_vals := dset l v (w_vals w); w_dicts := w_dicts w |}.
(* an in-place change keeps the type of the object: list[:] = [..]  /  dict.clear(); dict.update(..) *)
Definition same_shape (o : option rawv) (v : rawv) : bool :=
  match o, v with Some (VList _), VList _ => true | Some (VDict _), VDict _ => true | _, _ => false end.
Inductive hop :=
  | HRead (k : list N)
  | HSet (k : list N) (l : list (list N))          (* caller:  d[k] = [..]            a new list object *)
  | HDel (k : list N)                              (* caller:  del d[k] *)
  | HMutCaller (k : list N) (v : rawv)             (* caller:  d[k] changed in place to the content v, when d[k] is a list / dict like v *)
  | HMutResult (k : list N) (v : rawv).            (* holder:  the object getattr(m, k) returned, changed in place, when k was read and
                                                      returned a list / dict like v *)

Definition hstep (O : oracles3) (dl : list N) (st : world * hinst) (o : hop) : world * hinst * option res :=
  let '(w, hi) := st in
  match o with
  | HRead k => let '(w', hi', r) := hread O w hi k in (w', hi', Some r)
  | HSet k l =>
      let nl := fresh (w_vals w) in
      ({| w_vals := (nl, VList l) :: w_vals w; w_dicts := dset dl (dset k nl (odict (lookup dl (w_dicts w)))) (w_dicts w) |}, hi, None)
  | HDel k => ({| w_vals := w_vals w; w_dicts := dset dl (remove k (odict (lookup dl (w_dicts w)))) (w_dicts w) |}, hi, None)
  | HMutCaller k v =>
      match lookup k (odict (lookup dl (w_dicts w))) with
      | Some loc => if same_shape (lookup loc (w_vals w)) v then (set_val w loc v, hi, None) else (w, hi, None)
      | None => (w, hi, None)
      end
  | HMutResult k v =>
      match lookup k (hi_cache hi), v with
      | Some (CRef loc), _ => if same_shape (lookup loc (w_vals w)) v then (set_val w loc v, hi, None) else (w, hi, None)
      | Some (COwn (EList _)), VList l => (w, {| hi_raw := hi_raw hi; hi_cache := (k, COwn (EList l)) :: hi_cache hi |}, None)
      | _, _ => (w, hi, None)
      end
  end.
Fixpoint hrun (O : oracles3) (dl : list N) (st : world * hinst) (ops : list hop) : world * hinst * list res :=
  match ops with
  | [] => (fst st, snd st, [])
  | o :: t => let '(w1, hi1, r) := hstep O dl st o in
              let '(w2, hi2, rs) := hrun O dl (w1, hi1) t in
              (w2, hi2, match r with Some x => x :: rs | None => rs end)
  end.

(* ---------------------------------------------------------------- from_raw(validate=True) on the heap *)
(* the attribute reads the validation performs: metadata_version, then every present or required key that is a field not newer than
   the declared version, in sorted order (MetaModel3.check_loop3 calls read3 for exactly these) *)
Definition validation_reads (O : oracles3) (data : list (list N * rawv)) : list (list N) :=
  let mv := match compute3 O k_mv (lookup k_mv data) with Ok (EStr v) => index_of v gen_valid_versions | _ => None end in
  k_mv :: filter (fun k => is_field k && match gate_of mv k with GOk => true | _ => false end) (sort_s (fields_to_check (map fst data))).

(* the caller's dict as a RawMetadata value *)
Definition deref (w : world) (d : list (list N * list N)) : list (list N * rawv) :=
  flat_map (fun kl => match lookup (snd kl) (w_vals w) with Some v => [(fst kl, v)] | None => [] end) d.
(* Metadata.from_raw(data, validate=...): the verdict is the functional model's ([from_raw3] on the content of the caller's dict), the effect
   on the heap is that of the reads the validation performs *)
Definition hfrom_raw (O : oracles3) (validate : bool) (w : world) (dl : list N) : (world * hinst) + frres :=
  let data := deref w (odict (lookup dl (w_dicts w))) in
  let '(w1, hi) := from_raw_h w dl in
  if validate then
    match from_raw3 O true data with
    | FOk _ => let '(w2, hi2, _) := hreads O w1 hi (validation_reads O data) in inl (w2, hi2)
    | r => inr r
    end
  else inl (w1, hi).

(* a world holding exactly one dict object, the caller's, built from a RawMetadata value: entry number i lives at location [i] *)
Fixpoint alloc (i : N) (data : list (list N * rawv)) : list (list N * rawv) * list (list N * list N) :=
  match data with
  | [] => ([], [])
  | (k, v) :: t => let '(vs, d) := alloc (i + 1) t in (([i], v) :: vs, (k, [i]) :: d)
  end.
Definition caller_loc : list N := [].
Definition world_of (data : list (list N * rawv)) : world :=
  let '(vs, d) := alloc 1 data in {| w_vals := vs; w_dicts := [(caller_loc, d)] |}.
