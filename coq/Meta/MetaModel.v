(* C17  Executable model of packaging/metadata.py: the _Validator descriptor (lazy conversion, per-instance cache, removal from
   _raw), the _process_* validators, Metadata.from_raw and the part of Metadata.from_email that follows parse_email.
   Definitions only (this file is extracted).  The field table (added-in version, e-mail header name, valid metadata versions) is
   Gen/MetaTable.v, regenerated from the working tree on every run.

   Other components are oracles (record [oracles]): SpecifierSet, Requirement, canonicalize_license_expression, the header parser of
   email.message.EmailMessage, pathlib.  The model owns only the logic that lives in metadata.py. *)
From Coq Require Import List NArith Bool String.
Import ListNotations.
Require Import Show Names SpecModel VMeaning MetaTable MetaBase.
Open Scope N_scope.

(* ---------------------------------------------------------------- values *)
Inductive rawv := VStr (s : list N) | VList (l : list (list N)) | VDict (d : list (list N * list N)).
Inductive enr := ENone | EStr (s : list N) | EList (l : list (list N)) | EDict (d : list (list N * list N)).
(* result of one attribute read: a value, InvalidMetadata(field, ...), or a Python-level failure outside the documented contract *)
Inductive res := Ok (e : enr) | Invalid (field : list N) | Crash (what : list N).

(* ---------------------------------------------------------------- the field table (Gen/MetaTable.v) *)
Definition k_mv := asc "metadata_version".
Definition k_name := asc "name".
Definition k_version := asc "version".
Definition required (k : list N) : bool := seqb k k_mv || seqb k k_name || seqb k k_version.     (* _REQUIRED_ATTRS *)
(* cls.__dict__.get(key) is a _Validator *)
Definition is_field (k : list N) : bool := is_some (lookup k gen_fields).
(* _RAW_TO_EMAIL_MAPPING[key]; only ever used on fields *)
Definition email_name (k : list N) : list N := match lookup k gen_fields with Some (e, _) => e | None => k end.
(* _VALID_METADATA_VERSIONS.index(validator.added) *)
Definition added_age (k : list N) : option nat :=
  match lookup k gen_fields with Some (_, (a, _)) => index_of a gen_valid_versions | None => None end.
(* name.lower() in _EMAIL_TO_RAW_MAPPING *)
Definition is_email_name (d : list N) : bool := existsb (fun row => seqb (fst (snd row)) d) gen_fields.

(* ---------------------------------------------------------------- text helpers *)
(* str.lower(): ASCII exact; U+212A -> k, U+0130 -> i + U+0307; every other non-ASCII code point stays non-ASCII (validated over
   all code points by the harness).  Only ever compared against ASCII needles, for which this is exact. *)
Definition lower_char (c : N) : list N :=
  if (65 <=? c) && (c <=? 90) then [c + 32] else if c =? 8490 then [107] else if c =? 304 then [105; 775] else [c].
Definition lower_str (s : list N) : list N := flat_map lower_char s.
Fixpoint prefixb (p s : list N) : bool :=
  match p, s with [], _ => true | x :: p', y :: s' => (x =? y) && prefixb p' s' | _ :: _, [] => false end.
Fixpoint infixb (p s : list N) : bool :=             (* Python: p in s *)
  match s with [] => match p with [] => true | _ => false end | _ :: t => prefixb p s || infixb p t end.
Definition has_char (c : N) (s : list N) : bool := existsb (N.eqb c) s.

(* ---------------------------------------------------------------- oracles: the other components *)
Record oracles := {
  o_specset : list N -> option (list N);     (* SpecifierSet(v): None = InvalidSpecifier; Some t: t = str(result) *)
  o_req : list N -> option (list N);         (* Requirement(v): None = InvalidRequirement; Some t: t = str(result) *)
  o_lic : list N -> option (list N);         (* canonicalize_license_expression(v): None = ValueError; Some t = result *)
  (* EmailMessage: m["content-type"] = v; None = the e-mail package refuses the value (ValueError);
     Some (m.get_content_type(), params.get("charset"), params.get("variant")) *)
  o_ctype : list N -> option (list N * (option (list N) * option (list N)));
  (* pathlib: PurePosixPath(p).is_absolute() or PureWindowsPath(p).is_absolute() or PureWindowsPath(p).as_posix() != p *)
  o_path : list N -> bool
}.

(* ---------------------------------------------------------------- _process_* *)
Definition inv (k : list N) : res := Invalid (email_name k).          (* self._invalid_metadata: .field = self.raw_name *)
Definition ill_typed : res := Crash (asc "ill-typed").                 (* value outside the RawMetadata TypedDict: not modelled *)

Definition p_metadata_version (v : option rawv) : res :=
  match v with
  | None => inv k_mv                                                   (* None not in _VALID_METADATA_VERSIONS *)
  | Some (VStr s) => if mem s gen_valid_versions then Ok (EStr s) else inv k_mv
  | Some _ => ill_typed
  end.
Definition p_name (v : option rawv) : res :=
  match v with
  | None => inv k_name                                                 (* not value *)
  | Some (VStr []) => inv k_name
  | Some (VStr s) => if valid_name s then Ok (EStr s) else inv k_name  (* canonicalize_name(value, validate=True); raw value returned *)
  | Some _ => ill_typed
  end.
Definition p_version (v : option rawv) : res :=
  match v with
  | None => inv k_version
  | Some (VStr []) => inv k_version
  | Some (VStr s) => match Version s with Some x => Ok (EStr (vstr x)) | None => inv k_version end
  | Some _ => ill_typed
  end.
Definition k_summary := asc "summary".
Definition p_summary (v : option rawv) : res :=
  match v with Some (VStr s) => if has_char 10 s then inv k_summary else Ok (EStr s) | _ => ill_typed end.

Definition k_dct := asc "description_content_type".
Definition content_types := [asc "text/plain"; asc "text/x-rst"; asc "text/markdown"].
Definition opt_default (o : option (list N)) (d : list N) : list N := match o with Some x => x | None => d end.
Definition p_description_content_type (O : oracles) (v : option rawv) : res :=
  match v with
  | Some (VStr s) =>
      match o_ctype O s with
      | None => inv k_dct
      | Some (ct0, (charset, variant)) =>
          let ct := lower_str ct0 in
          if negb (mem ct content_types) || negb (infixb ct (lower_str s)) then inv k_dct
          else if negb (seqb (opt_default charset (asc "UTF-8")) (asc "UTF-8")) then inv k_dct
          else if seqb ct (asc "text/markdown") && negb (mem (opt_default variant (asc "GFM")) [asc "GFM"; asc "CommonMark"]) then inv k_dct
          else Ok (EStr s)
      end
  | _ => ill_typed
  end.

Definition k_dynamic := asc "dynamic".
Definition dynamic_ok (x : list N) : bool :=
  let d := lower_str x in negb (mem d [asc "name"; asc "version"; asc "metadata-version"]) && is_email_name d.
Definition p_dynamic (v : option rawv) : res :=
  match v with Some (VList l) => if forallb dynamic_ok l then Ok (EList (map lower_str l)) else inv k_dynamic | _ => ill_typed end.

Definition k_provides_extra := asc "provides_extra".
Definition p_provides_extra (v : option rawv) : res :=
  match v with Some (VList l) => if forallb valid_name l then Ok (EList (map canon_name l)) else inv k_provides_extra | _ => ill_typed end.

Definition k_requires_python := asc "requires_python".
Definition p_requires_python (O : oracles) (v : option rawv) : res :=
  match v with Some (VStr s) => match o_specset O s with Some t => Ok (EStr t) | None => inv k_requires_python end | _ => ill_typed end.
Definition k_requires_dist := asc "requires_dist".
Definition p_requires_dist (O : oracles) (v : option rawv) : res :=
  match v with Some (VList l) => match opt_all (map (o_req O) l) with Some ts => Ok (EList ts) | None => inv k_requires_dist end | _ => ill_typed end.
Definition k_license_expression := asc "license_expression".
Definition p_license_expression (O : oracles) (v : option rawv) : res :=
  match v with Some (VStr s) => match o_lic O s with Some t => Ok (EStr t) | None => inv k_license_expression end | _ => ill_typed end.
Definition k_license_files := asc "license_files".
Definition path_ok (O : oracles) (p : list N) : bool := negb (infixb [46; 46] p) && negb (has_char 42 p) && negb (o_path O p).
Definition p_license_files (O : oracles) (v : option rawv) : res :=
  match v with Some (VList l) => if forallb (path_ok O) l then Ok (EList l) else inv k_license_files | _ => ill_typed end.

(* getattr(self, f"_process_{self.name}") *)
Definition process (O : oracles) (k : list N) : option (option rawv -> res) :=
  if seqb k k_mv then Some p_metadata_version
  else if seqb k k_name then Some p_name
  else if seqb k k_version then Some p_version
  else if seqb k k_summary then Some p_summary
  else if seqb k k_dct then Some (p_description_content_type O)
  else if seqb k k_dynamic then Some p_dynamic
  else if seqb k k_provides_extra then Some p_provides_extra
  else if seqb k k_requires_python then Some (p_requires_python O)
  else if seqb k k_requires_dist then Some (p_requires_dist O)
  else if seqb k k_license_expression then Some (p_license_expression O)
  else if seqb k k_license_files then Some (p_license_files O)
  else None.

Definition plain (v : option rawv) : enr :=
  match v with None => ENone | Some (VStr s) => EStr s | Some (VList l) => EList l | Some (VDict d) => EDict d end.

(* what one evaluation of _Validator.__get__ computes from the raw value *)
Definition compute (O : oracles) (k : list N) (v : option rawv) : res :=
  if required k || is_some v then match process O k with Some p => p v | None => Ok (plain v) end else Ok (plain v).

(* ---------------------------------------------------------------- the instance: _raw + __dict__ cache *)
Record inst := { raw : list (list N * rawv); cache : list (list N * enr) }.
Definition init (data : list (list N * rawv)) : inst := {| raw := data; cache := [] |}.      (* ins._raw = data.copy() *)

(* attribute read of a field: instance __dict__ wins (non-data descriptor); else __get__: convert, cache, delete from _raw;
   nothing changes when the converter raises *)
Definition read (O : oracles) (s : inst) (k : list N) : inst * res :=
  match lookup k (cache s) with
  | Some e => (s, Ok e)
  | None =>
      match compute O k (lookup k (raw s)) with
      | Ok e => ({| raw := remove k (raw s); cache := (k, e) :: cache s |}, Ok e)
      | r => (s, r)
      end
  end.

Fixpoint reads (O : oracles) (s : inst) (ks : list (list N)) : list res :=
  match ks with [] => [] | k :: t => let '(s', r) := read O s k in r :: reads O s' t end.

(* ---------------------------------------------------------------- from_raw *)
Inductive frres := FOk (s : inst) | FGroup (fields : list (list N)) | FCrash (what : list N).

(* frozenset(ins._raw) | _REQUIRED_ATTRS - {"metadata_version"}; the iteration order of a frozenset is arbitrary: here the dict's
   order followed by the missing required fields (the theorems show the error multiset is the same for every order) *)
Definition fields_to_check (keys : list (list N)) : list (list N) :=
  let ks := filter (fun k => negb (seqb k k_mv)) keys in
  ks ++ filter (fun r => negb (mem r ks)) [k_name; k_version].

Inductive gate := GOk | GNewer | GCrash.
Definition gate_of (mv : option nat) (k : list N) : gate :=
  match mv with
  | None => GOk                                   (* if metadata_version: *)
  | Some age => match added_age k with
                | None => GCrash                  (* .index() of a version that is not in the list: ValueError *)
                | Some fa => if Nat.ltb age fa then GNewer else GOk
                end
  end.

Fixpoint check_loop (O : oracles) (mv : option nat) (keys : list (list N)) (s : inst) (errs : list (list N)) : (inst * list (list N)) + list N :=
  match keys with
  | [] => inl (s, errs)
  | k :: t =>
      if negb (is_field k) then check_loop O mv t s (errs ++ [k])                  (* unrecognized field: InvalidMetadata(key, ...) *)
      else match gate_of mv k with
           | GCrash => inr (asc "ValueError")
           | GNewer => check_loop O mv t s (errs ++ [email_name k])               (* introduced in a later metadata version *)
           | GOk => match read O s k with                                         (* getattr(ins, key) *)
                    | (s', Ok _) => check_loop O mv t s' errs
                    | (s', Invalid f) => check_loop O mv t s' (errs ++ [f])
                    | (_, Crash c) => inr c
                    end
           end
  end.

(* [ord] = the order in which the frozenset happens to be iterated (any permutation) *)
Definition from_raw_ord (ord : list (list N) -> list (list N)) (O : oracles) (validate : bool) (data : list (list N * rawv)) : frres :=
  let s0 := init data in
  if negb validate then FOk s0 else
  match read O s0 k_mv with                                                           (* ins.metadata_version *)
  | (_, Crash c) => FCrash c
  | (s1, r) =>
      let mv := match r with Ok (EStr v) => index_of v gen_valid_versions | _ => None end in      (* metadata_age *)
      let errs0 := match r with Invalid f => [f] | _ => [] end in
      match check_loop O mv (ord (fields_to_check (map fst (raw s1)))) s1 errs0 with
      | inr c => FCrash c
      | inl (s2, []) => FOk s2
      | inl (_, errs) => FGroup errs                                                   (* ExceptionGroup("invalid metadata", exceptions) *)
      end
  end.
Definition from_raw := from_raw_ord (fun l => l).

(* from_email after parse_email returned (raw, unparsed): one InvalidMetadata per unparsed key (only when validating), then from_raw
   on the parsed fields in any case; ONE group holding the unparsed keys followed by from_raw's errors *)
Definition from_email (O : oracles) (validate : bool) (data : list (list N * rawv)) (unparsed : list (list N)) : frres :=
  let exceptions := if validate then unparsed else [] in
  match from_raw O validate data with
  | FOk s => match exceptions with [] => FOk s | _ => FGroup exceptions end
  | FGroup es => FGroup (exceptions ++ es)
  | FCrash c => FCrash c
  end.
