(* C17  Facts about the heap model (Meta/MetaHeap.v): the caller's dict is never modified; the copy is shallow; the heap model refines
   the functional one. *)
From Coq Require Import String List NArith Bool Lia Arith Permutation.
Import ListNotations.
Require Import Show MetaTable MetaBase MetaBaseFacts MetaShow MetaModel MetaFacts MetaModel3 MetaFacts3 MetaModels MetaFinal3 MetaHeap.
Open Scope N_scope.
Arguments N.eqb : simpl never.
Arguments N.leb : simpl never.

(* ------------------------------------------------------------------ allocation *)
Lemma fold_max_ge {X} (d : list (list N * X)) k : In k (map fst d) -> (length k <= fold_right Nat.max O (map (fun e => length (fst e)) d))%nat.
Proof.
  induction d as [|[k' x] t IH]; cbn [map fst fold_right In]; [contradiction|]. intros [<-|I]; [lia|]. specialize (IH I). lia.
Qed.
Lemma fresh_not_in {X} (d : list (list N * X)) : lookup (fresh d) d = None.
Proof.
  apply lookup_None. intros I. apply fold_max_ge in I. unfold fresh in I. rewrite repeat_length in I. lia.
Qed.

Section Heap.
Variable O : oracles3.

(* ------------------------------------------------------------------ frame: an attribute read touches one dict object only *)
Lemma hread_frame w hi k :
  let '(w', hi', _) := hread O w hi k in
  w_vals w' = w_vals w /\ hi_raw hi' = hi_raw hi /\ forall dl, dl <> hi_raw hi -> lookup dl (w_dicts w') = lookup dl (w_dicts w).
Proof.
  unfold hread. destruct (lookup k (hi_cache hi)); [auto|]. destruct (negb (is_field k)); [auto|].
  destruct (compute3 O k _); cbn [w_vals w_dicts hi_raw]; auto.
  split; auto. split; auto. intros dl N. now apply lookup_dset_other.
Qed.
Lemma hreads_frame ks : forall w hi,
  let '(w', hi', _) := hreads O w hi ks in
  w_vals w' = w_vals w /\ hi_raw hi' = hi_raw hi /\ forall dl, dl <> hi_raw hi -> lookup dl (w_dicts w') = lookup dl (w_dicts w).
Proof.
  induction ks as [|k t IH]; intros w hi; cbn [hreads]; [auto|].
  pose proof (hread_frame w hi k) as H. destruct (hread O w hi k) as [[w1 hi1] r]. destruct H as [H1 [H2 H3]].
  specialize (IH w1 hi1). destruct (hreads O w1 hi1 t) as [[w2 hi2] rs]. destruct IH as [I1 [I2 I3]].
  split; [congruence|]. split; [congruence|]. intros dl N. rewrite I3 by congruence. now apply H3.
Qed.

(* CALLER'S DICT UNTOUCHED: after from_raw and ANY sequence of attribute reads (the validation of from_raw(validate=True) is such a
   sequence) the caller's dict object holds the same entries, and every value object of the heap - so also everything the caller's dict
   refers to - has the same content *)
Theorem caller_dict_untouched w dl d ks : lookup dl (w_dicts w) = Some d ->
  let '(w1, hi) := from_raw_h w dl in
  let '(w', _, _) := hreads O w1 hi ks in
  lookup dl (w_dicts w') = Some d /\ w_vals w' = w_vals w.
Proof.
  intros L. unfold from_raw_h. set (nl := fresh (w_dicts w)).
  pose proof (hreads_frame ks {| w_vals := w_vals w; w_dicts := (nl, odict (lookup dl (w_dicts w))) :: w_dicts w |} {| hi_raw := nl; hi_cache := [] |}) as H.
  destruct (hreads O _ _ ks) as [[w' hi'] rs]. cbn [w_vals w_dicts hi_raw] in H. destruct H as [H1 [_ H3]]. split; auto.
  assert (N : dl <> nl). { intros E. pose proof (fresh_not_in (w_dicts w)) as F. fold nl in F. rewrite <- E in F. congruence. }
  rewrite H3 by auto. cbn [lookup]. destruct (seqb_spec nl dl); [congruence|auto].
Qed.

(* ------------------------------------------------------------------ the copy is shallow *)
Lemma converted_process k : converted k = false -> process3 O k = None.
Proof.
  unfold converted, mem, existsb, process3.
  repeat match goal with |- context [seqb k ?c] => destruct (seqb k c); cbn [orb]; try discriminate end. reflexivity.
Qed.
Lemma unconverted_compute k v : converted k = false -> compute3 O k v = Ok (plain v).
Proof. intros C. unfold compute3. rewrite converted_process by auto. now destruct (required k || is_some v). Qed.

(* the first read of a present field without converter hands out the caller's own value object; one with a converter a new object *)
Theorem first_read_object w hi k d l v : lookup k (hi_cache hi) = None -> is_field k = true ->
  lookup (hi_raw hi) (w_dicts w) = Some d -> lookup k d = Some l -> lookup l (w_vals w) = Some v ->
  let '(_, hi', r) := hread O w hi k in
  (converted k = false -> r = Ok (plain (Some v)) /\ lookup k (hi_cache hi') = Some (CRef l)) /\
  (converted k = true -> forall e, r = Ok e -> lookup k (hi_cache hi') = Some (COwn e)).
Proof.
  intros C F D L V. unfold hread. rewrite C, F, D. cbn [negb odict]. rewrite L, V.
  destruct (converted k) eqn:CV.
  - destruct (compute3 O k (Some v)) as [e|f|c]; (split; [discriminate|]); intros _ e' E; inversion E; subst.
    cbn [hi_cache lookup]. now rewrite seqb_refl.
  - rewrite unconverted_compute by auto. split; [|discriminate]. intros _. cbn [hi_cache lookup]. rewrite seqb_refl. auto.
Qed.
(* a shared object: whoever changes it in place, the next read through the Metadata object shows the new content ... *)
Theorem shared_object_visible w hi k l v' : lookup k (hi_cache hi) = Some (CRef l) ->
  hread O (set_val w l v') hi k = (set_val w l v', hi, Ok (plain (Some v'))).
Proof. intros C. unfold hread. rewrite C. cbn [deref_c set_val w_vals]. now rewrite lookup_dset_same. Qed.
(* ... an own object: no change of the heap is seen *)
Theorem own_object_stable w w' hi k e : lookup k (hi_cache hi) = Some (COwn e) -> hread O w' hi k = (w', hi, Ok e) /\ hread O w hi k = (w, hi, Ok e).
Proof. intros C. unfold hread. rewrite C. auto. Qed.

(* ------------------------------------------------------------------ refinement: without interference the heap model IS the functional one *)
Variable w0 : world.
Variable d0 : list (list N * list N).
(* no dangling reference in the caller's dict *)
Hypothesis closed : forall kl, In kl d0 -> exists v, lookup (snd kl) (w_vals w0) = Some v.

Lemma lookup_deref_gen d : (forall kl, In kl d -> exists v, lookup (snd kl) (w_vals w0) = Some v) -> forall k,
  lookup k (deref w0 d) = match lookup k d with Some l => lookup l (w_vals w0) | None => None end.
Proof.
  induction d as [|[k' l'] t IH]; intros CL k; cbn [deref flat_map lookup fst snd]; auto.
  destruct (CL (k', l') (or_introl eq_refl)) as [v V]. cbn [snd] in V. rewrite V. cbn [app lookup].
  destruct (seqb_spec k' k) as [->|N]; auto. apply IH. intros kl I. apply CL. now right.
Qed.
Lemma lookup_deref k : lookup k (deref w0 d0) = match lookup k d0 with Some l => lookup l (w_vals w0) | None => None end.
Proof. now apply lookup_deref_gen. Qed.

Definition data0 : list (list N * rawv) := deref w0 d0.
(* the instance and the heap, against the ORIGINAL caller's dict *)
Definition HInv (w : world) (hi : hinst) : Prop :=
  w_vals w = w_vals w0 /\
  forall k, (lookup k (hi_cache hi) = None /\ lookup k (odict (lookup (hi_raw hi) (w_dicts w))) = lookup k d0) \/
            (exists c, lookup k (hi_cache hi) = Some c /\ attr3 O data0 k = Ok (deref_c w0 c)).

Lemma hread_inv w hi k : HInv w hi ->
  let '(w', hi', r) := hread O w hi k in HInv w' hi' /\ r = attr3 O data0 k.
Proof.
  intros [HV I]. unfold hread. destruct (I k) as [[C R]|[c [C E]]].
  - rewrite C. destruct (is_field k) eqn:F; cbn [negb].
    2:{ split; [split; auto|]. now rewrite attr3_nonfield. }
    rewrite R, HV. rewrite (attr3_field O data0 k F). unfold data0. rewrite lookup_deref.
    set (v := match lookup k d0 with Some l => lookup l (w_vals w0) | None => None end).
    destruct (compute3 O k v) as [e|f|c] eqn:E; [|split; [split; auto | reflexivity] ..].
    split; [|reflexivity]. split; [reflexivity|]. cbn [w_vals w_dicts hi_raw hi_cache]. intros g.
    destruct (seqb_spec k g) as [<-|N].
    + right. cbn [lookup]. rewrite seqb_refl. eexists. split; [reflexivity|]. rewrite (attr3_field O data0 k F). unfold data0. rewrite lookup_deref. fold v.
      destruct (lookup k d0) as [l|] eqn:L; [|exact E]. destruct (converted k) eqn:CV; [exact E|].
      cbn [deref_c]. subst v. now apply unconverted_compute.
    + cbn [lookup]. apply seqb_neq in N as N'. rewrite N'. rewrite lookup_dset_same. cbn [odict]. rewrite lookup_remove_other by congruence.
      destruct (I g) as [[C' R']|[c [C' E']]]; [left; auto | right; eauto].
  - rewrite C. split; [split; auto|]. rewrite E. f_equal. destruct c as [l|e]; cbn [deref_c]; [now rewrite HV | reflexivity].
Qed.
Lemma hreads_inv ks : forall w hi, HInv w hi -> let '(w', hi', rs) := hreads O w hi ks in HInv w' hi' /\ rs = map (attr3 O data0) ks.
Proof.
  induction ks as [|k t IH]; intros w hi H; cbn [hreads map]; auto.
  pose proof (hread_inv w hi k H) as H1. destruct (hread O w hi k) as [[w1 hi1] r]. destruct H1 as [H1 ->].
  specialize (IH w1 hi1 H1). destruct (hreads O w1 hi1 t) as [[w2 hi2] rs]. destruct IH as [IH ->]. auto.
Qed.
Lemma hinv_from_raw dl : lookup dl (w_dicts w0) = Some d0 -> let '(w1, hi) := from_raw_h w0 dl in HInv w1 hi.
Proof.
  intros L. unfold from_raw_h. split; [reflexivity|]. intros k. left. split; [reflexivity|].
  cbn [hi_raw w_dicts lookup]. rewrite seqb_refl. cbn [odict]. now rewrite L.
Qed.

(* REFINEMENT: on the heap, reading attributes of the object built by from_raw gives exactly what the functional model [reads3] gives on
   the content of the caller's dict at construction time *)
Theorem heap_refines_reads3 dl ks : lookup dl (w_dicts w0) = Some d0 ->
  let '(w1, hi) := from_raw_h w0 dl in let '(_, _, rs) := hreads O w1 hi ks in rs = reads3 O (init data0) ks.
Proof.
  intros L. pose proof (hinv_from_raw dl L) as H. destruct (from_raw_h w0 dl) as [w1 hi]. rewrite reads3_history_independent.
  pose proof (hreads_inv ks w1 hi H) as H2. destruct (hreads O w1 hi ks) as [[w2 hi2] rs]. tauto.
Qed.

(* THE VALIDATED OBJECT ON THE HEAP.  Whatever reads [vks] the construction performs (from_raw(validate=True): [validation_reads]), the
   caller's dict object and every value object are as before, and the object then answers every read sequence exactly like the object
   [s] that the functional model's from_raw returns *)
Theorem validated_object_on_heap dl ord s vks ks : lookup dl (w_dicts w0) = Some d0 -> from_raw3_ord ord O true data0 = FOk s ->
  let '(w1, hi) := from_raw_h w0 dl in
  let '(w2, hi2, _) := hreads O w1 hi vks in
  (lookup dl (w_dicts w2) = Some d0 /\ w_vals w2 = w_vals w0) /\
  let '(_, _, rs) := hreads O w2 hi2 ks in rs = reads3 O s ks.
Proof.
  intros L A. pose proof (caller_dict_untouched w0 dl d0 vks L) as C. pose proof (hinv_from_raw dl L) as H.
  destruct (from_raw_h w0 dl) as [w1 hi]. pose proof (hreads_inv vks w1 hi H) as H2.
  destruct (hreads O w1 hi vks) as [[w2 hi2] rs0]. destruct H2 as [H2 _]. split; [exact C|].
  pose proof (hreads_inv ks w2 hi2 H2) as H3. destruct (hreads O w2 hi2 ks) as [[w3 hi3] rs]. destruct H3 as [_ ->].
  symmetry. eapply MetaFinal3.accepted3_reads; eauto.
Qed.
End Heap.

(* ------------------------------------------------------------------ what the copy is for: without it a read deletes the caller's key *)
Definition O_id : oracles3 :=
  {| o3_specset := fun s => OAcc s; o3_req := fun s => OAcc s; o3_lic := fun s => OAcc s; o3_ctype := fun s => OAcc (s, (None, None)); o3_path := fun _ => false |}.
Definition heap_ex : list (list N * rawv) := [(asc "name", VStr (asc "a")); (asc "keywords", VList [asc "k"]); (asc "dynamic", VList [asc "Summary"])].
Definition caller_keys (w : world) : list (list N) := map fst (odict (lookup caller_loc (w_dicts w))).
Definition heap_check : bool :=
  let w := world_of heap_ex in
  (* with the copy: three reads later the caller still has its three keys; without it the read keys are gone *)
  let '(w1, hi1) := from_raw_h w caller_loc in
  let '(wa, _, _) := hreads O_id w1 hi1 [asc "keywords"; asc "name"] in
  let '(w2, hi2) := from_raw_nocopy w caller_loc in
  let '(wb, _, _) := hreads O_id w2 hi2 [asc "keywords"; asc "name"] in
  (length (caller_keys wa) =? 3)%nat && (length (caller_keys wb) =? 1)%nat &&
  (* shallow: the caller changes its keywords list in place AFTER the first read - the Metadata object shows the change;
     the same on dynamic (converted: a new list) is not seen; rebinding the key is not seen either *)
  let '(_, _, rs) := hrun O_id caller_loc (w1, hi1)
       [HRead (asc "keywords"); HRead (asc "dynamic"); HMutCaller (asc "keywords") (VList [asc "k"; asc "x"]); HMutCaller (asc "dynamic") (VList [asc "Name"]);
        HRead (asc "keywords"); HRead (asc "dynamic"); HSet (asc "keywords") []; HRead (asc "keywords")] in
  match rs with
  | [Ok (EList [_]); Ok (EList [_]); Ok (EList [_; _]); Ok (EList [_]); Ok (EList [_; _])] => true
  | _ => false
  end.
Example heap_check_ok : heap_check = true.
Proof. vm_compute. reflexivity. Qed.
