(* C17  from_email: for every iteration order of fields_to_check and of the unparsed dict, and composed with the parse_email model. *)
From Coq Require Import String List NArith Bool Lia Arith Permutation.
Import ListNotations.
Require Import Show Names SpecModel VMeaning VParse MetaTable MetaBase MetaBaseFacts MetaShow MetaModel MetaFacts MetaModel3 MetaFacts3.
Require Import EmailModel EmailFacts MetaEmailModel.
Open Scope N_scope.
Arguments N.eqb : simpl never.
Arguments N.leb : simpl never.

(* ------------------------------------------------------------------ from_email3_ord on any (raw, unparsed) *)
Section FE.
Variable O : oracles3.
Variable data : list (list N * rawv).
Variable ord : list (list N) -> list (list N).
Hypothesis ord_perm : forall l, Permutation (ord l) l.

Lemma from_email3_lazy us : from_email3_ord ord O false data us = FOk (init data).
Proof. reflexivity. Qed.

(* nothing escapes: success iff nothing was left unparsed and from_raw has no objection; otherwise ONE group holding one member per
   unparsed key and from_raw's members, whatever the two iteration orders *)
Theorem from_email3_no_escape us : well_typed data -> escapes3 O data = false ->
  ((exists s, from_email3_ord ord O true data us = FOk s) <-> us = [] /\ errors (two O) data = []) /\
  (us ++ errors (two O) data <> [] ->
     exists es, from_email3_ord ord O true data us = FGroup es /\ Permutation es (us ++ errors (two O) data)).
Proof.
  intros W E. pose proof (from_raw3_ord_spec O data ord ord_perm) as B. rewrite E in B.
  pose proof (from_raw_ord_spec (two O) data ord (well_typed_safe _ _ W)) as H.
  pose proof (errors_ord_perm (two O) data ord ord_perm) as PE.
  unfold from_email3_ord. rewrite B.
  destruct (errors_ord (two O) data ord) as [|f l] eqn:EO.
  - apply Permutation_nil in PE. destruct H as [s [H _]]. rewrite H, PE. split.
    + destruct us; split; [eauto | eauto | intros [s' X]; discriminate | intros [X _]; discriminate].
    + rewrite app_nil_r. intros NE. destruct us as [|u us]; [congruence|]. exists (u :: us). split; auto.
  - rewrite H. split.
    + split; [intros [s X]; discriminate|]. intros [_ X]. rewrite X in PE. apply Permutation_sym, Permutation_nil in PE. discriminate.
    + intros _. exists (us ++ f :: l). split; auto. now apply Permutation_app_head.
Qed.
(* something escapes from from_raw: the same exception escapes from from_email *)
Theorem from_email3_escape us : escapes3 O data = true ->
  exists c k, from_email3_ord ord O true data us = FCrash c /\ reached O data k /\ attr3 O data k = Crash c.
Proof.
  intros E. pose proof (from_raw3_ord_spec O data ord ord_perm) as B. rewrite E in B. destruct B as [c [k [B R]]].
  exists c, k. split; auto. unfold from_email3_ord. now rewrite B.
Qed.
End FE.

(* ------------------------------------------------------------------ parse_email's raw dict is always a well-typed RawMetadata *)
Lemma table_keys_unique : forallb (fun row => match lookup (fst row) gen_fields with Some r => seqb (fst r) (fst (snd row)) && (snd (snd r) =? snd (snd (snd row))) | None => false end) gen_fields = true.
Proof. vm_compute. reflexivity. Qed.
Lemma raw_of_email_kind n k kind e a kind' : raw_of_email n = Some (k, kind) -> lookup k gen_fields = Some (e, (a, kind')) -> kind' = kind.
Proof.
  intros R L. apply raw_of_email_row in R as [a0 I]. pose proof table_keys_unique as T. rewrite forallb_forall in T. specialize (T _ I).
  cbn [fst snd] in T. rewrite L in T. cbn [fst snd] in T. apply andb_prop in T as [_ T]. now apply N.eqb_eq in T.
Qed.

Lemma lookup_conv_dict k raw : lookup k (conv_dict raw) = option_map conv (lookup k raw).
Proof. induction raw as [|[k' v'] t IH]; cbn [conv_dict map lookup fst snd option_map]; auto. destruct (seqb k' k); auto. Qed.
Lemma map_fst_conv_dict raw : map fst (conv_dict raw) = map fst raw.
Proof. unfold conv_dict. rewrite map_map. reflexivity. Qed.

Lemma merge_raw_description st p v : lookup k_description (fst (merge_payload st p)) = Some v ->
  (exists body, v = RStr body) \/ lookup k_description (fst st) = Some v.
Proof.
  destruct st as [raw unp]. unfold merge_payload. destruct p as [[|c body]|obj]; cbn [fst]; auto.
  - destruct (lookup k_description raw) as [h|] eqn:L; cbn [fst].
    + rewrite lookup_remove_same. discriminate.
    + destruct (is_some (lookup k_description unp)); cbn [fst]; [rewrite L; discriminate|].
      rewrite lookup_dset_same. intros H. inversion H. eauto.
  - destruct (lookup k_description raw) as [h|] eqn:L; cbn [fst]; [rewrite lookup_remove_same | rewrite L]; discriminate.
Qed.

Theorem parse_email_raw_well_typed items p : well_typed (conv_dict (fst (post_email items p))).
Proof.
  intros k v e a kind L T. rewrite lookup_conv_dict in L.
  destruct (lookup k (fst (post_email items p))) as [rv|] eqn:LR; [|discriminate]. cbn [option_map] in L. inversion L; subst v. clear L.
  assert (LOOP : lookup k (fst (loop_result items)) = Some rv -> kind_ok kind (conv rv) = true).
  { intros H. apply loop_raw in H as [n [_ C]]. apply classify_spec in C as [_ [kd [R H]]].
    assert (kind = kd) by (eapply raw_of_email_kind; eauto). subst kd.
    destruct H as [[-> [x [_ ->]]]|[[-> ->]|[[-> [x [_ ->]]]|[-> [d [_ ->]]]]]]; reflexivity. }
  destruct (seqb_spec k k_description) as [->|NK].
  - unfold post_email in LR. fold (loop_result items) in LR. apply merge_raw_description in LR as [[body ->]|LR]; [|auto].
    assert (T' : lookup k_description gen_fields = Some (k_description, (asc "1.0", 0))) by (vm_compute; reflexivity).
    rewrite T' in T. inversion T; subst. reflexivity.
  - apply LOOP. rewrite <- LR. symmetry. now apply merge_other_keys.
Qed.

(* ------------------------------------------------------------------ Metadata.from_email on a document *)
Section Doc.
Variable O : oracles3.
Variable items : list item.
Variable p : payload.
Variable ord : list (list N) -> list (list N).
Hypothesis ord_perm : forall l, Permutation (ord l) l.

Definition doc_data : list (list N * rawv) := conv_dict (fst (post_email items p)).
Definition doc_unparsed : list (list N) := map fst (snd (post_email items p)).

(* for EVERY document: success, or one non-empty group, or an exception raised by a component that the validation reaches - nothing else *)
Theorem from_email_doc_outcome :
  (exists s, from_email_doc_ord ord O true items p = FOk s) \/
  (exists es, es <> [] /\ from_email_doc_ord ord O true items p = FGroup es) \/
  (exists c k, from_email_doc_ord ord O true items p = FCrash c /\ reached O doc_data k /\ is_field k = true /\ raised_in O k (lookup k doc_data) c).
Proof.
  unfold from_email_doc_ord. fold doc_data doc_unparsed. pose proof (parse_email_raw_well_typed items p) as W. fold doc_data in W.
  destruct (escapes3 O doc_data) eqn:E.
  - right; right. destruct (from_email3_escape O doc_data ord ord_perm doc_unparsed E) as [c [k [H [R A]]]]. exists c, k. split; auto. split; auto.
    assert (F : is_field k = true) by (destruct R as [->|[_ [F _]]]; auto; reflexivity). split; auto. now apply well_typed_crash_is_raise.
  - destruct (from_email3_no_escape O doc_data ord ord_perm doc_unparsed W E) as [A G].
    destruct (doc_unparsed ++ errors (two O) doc_data) as [|f l] eqn:X.
    + left. apply A. apply app_eq_nil in X. exact X.
    + right; left. destruct G as [es [G PE]]; [discriminate|]. exists es. split; auto. intros ->. apply Permutation_nil in PE. discriminate.
Qed.
End Doc.
