From Coq Require Import List Bool Lia.
Import ListNotations.

(* Metadata instance: _raw dict + instance __dict__ cache, read through the _Validator descriptor *)
Section M.
Variable field : Type.
Variable field_eqb : field -> field -> bool.
Hypothesis field_eqb_spec : forall a b, reflect (a = b) (field_eqb a b).
Variable rawv enriched err : Type.
Variable required : field -> bool.                       (* _REQUIRED_ATTRS *)
Variable has_converter : field -> bool.                  (* getattr(self, "_process_<name>") exists *)
Variable convert : field -> option rawv -> enriched + err.     (* the _process_* method; None only reaches it for required fields *)
Variable plain : option rawv -> enriched.                (* value passed through unchanged (None for absent optional) *)

Definition dict (V : Type) := field -> option V.
Definition upd {V} (d : dict V) (f : field) (v : option V) : dict V := fun g => if field_eqb g f then v else d g.
Record inst := { raw : dict rawv; cache : dict enriched }.

(* what one evaluation of the descriptor computes from the raw value *)
Definition compute (f : field) (v : option rawv) : enriched + err :=
  if (required f || match v with Some _ => true | None => false end) && has_converter f
  then convert f v else inl (plain v).

(* attribute read: instance __dict__ wins; else descriptor __get__: convert, cache, delete from _raw; nothing changes on error *)
Definition read (s : inst) (f : field) : inst * (enriched + err) :=
  match cache s f with
  | Some e => (s, inl e)
  | None =>
      match compute f (raw s f) with
      | inl e => ({| raw := upd (raw s) f None; cache := upd (cache s) f (Some e) |}, inl e)
      | inr x => (s, inr x)
      end
  end.

Definition init (data : dict rawv) : inst := {| raw := data; cache := fun _ => None |}.

(* invariant: every field is either still raw with its original value, or cached with the value computed from the original *)
Definition Inv (data : dict rawv) (s : inst) : Prop :=
  forall f, (cache s f = None /\ raw s f = data f) \/
            (exists e, cache s f = Some e /\ compute f (data f) = inl e).

Lemma inv_init data : Inv data (init data).
Proof. intros f. left. auto. Qed.

Lemma upd_same {V} (d : dict V) f v : upd d f v f = v.
Proof. unfold upd. destruct (field_eqb_spec f f); congruence. Qed.
Lemma upd_other {V} (d : dict V) f g v : g <> f -> upd d f v g = d g.
Proof. unfold upd. destruct (field_eqb_spec g f); congruence. Qed.

Lemma read_inv data s f : Inv data s -> Inv data (fst (read s f)) /\ snd (read s f) = compute f (data f).
Proof.
  intros I. unfold read. destruct (I f) as [[C R]|[e [C E]]].
  - rewrite C, R. destruct (compute f (data f)) as [e|x] eqn:E; cbn [fst snd]; split; auto.
    intros g. destruct (field_eqb_spec g f) as [->|N].
    + right. exists e. cbn. now rewrite upd_same.
    + cbn. rewrite !upd_other by assumption. apply I.
  - rewrite C. cbn [fst snd]. split; auto.
Qed.

(* any sequence of reads: every read of f returns compute f (data f), whatever was read before and how often *)
Fixpoint run (s : inst) (fs : list field) : list (enriched + err) :=
  match fs with [] => [] | f :: t => let '(s', o) := read s f in o :: run s' t end.
Theorem C17_reads_history_independent data fs :
  run (init data) fs = map (fun f => compute f (data f)) fs.
Proof.
  assert (G : forall s, Inv data s -> run s fs = map (fun f => compute f (data f)) fs).
  { induction fs as [|f t IH]; intros s I; cbn [run map]; auto.
    destruct (read_inv data s f I) as [I' O]. destruct (read s f) as [s' o]. cbn [fst snd] in *. rewrite O. f_equal. now apply IH. }
  apply G, inv_init.
Qed.
(* the caller's dict [data] is a value that [read] never receives: from_raw works on a copy; what the model can say is that
   results never depend on the evolving [raw s] except through [data] - the theorem above. *)
End M.
Print Assumptions C17_reads_history_independent.
