(* Dictionaries as association lists keyed by strings (lists of code points): the helpers shared by the C17 and C18 models.
   Definitions only. *)
From Coq Require Import List NArith Bool.
Import ListNotations.
Require Import Show.
Open Scope N_scope.

Fixpoint lookup {V} (k : list N) (d : list (list N * V)) : option V :=
  match d with [] => None | (k', v) :: t => if seqb k' k then Some v else lookup k t end.
(* del d[k] *)
Fixpoint remove {V} (k : list N) (d : list (list N * V)) : list (list N * V) :=
  match d with [] => [] | (k', v) :: t => if seqb k' k then remove k t else (k', v) :: remove k t end.
(* d[k] = v : replace in place, or append *)
Fixpoint dset {V} (k : list N) (v : V) (d : list (list N * V)) : list (list N * V) :=
  match d with [] => [(k, v)] | (k', v') :: t => if seqb k' k then (k, v) :: t else (k', v') :: dset k v t end.
Definition mem (s : list N) (l : list (list N)) : bool := existsb (seqb s) l.
Fixpoint index_of (v : list N) (l : list (list N)) : option nat :=
  match l with [] => None | x :: t => if seqb x v then Some O else option_map S (index_of v t) end.
Fixpoint opt_all {A} (l : list (option A)) : option (list A) :=
  match l with [] => Some [] | Some a :: t => option_map (cons a) (opt_all t) | None :: _ => None end.
Definition is_some {A} (o : option A) : bool := match o with Some _ => true | None => false end.
(* ASCII part of str.lower() *)
Definition lower_ascii (c : N) : N := if (65 <=? c) && (c <=? 90) then c + 32 else c.
