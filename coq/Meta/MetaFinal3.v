(* C17  The statements about the three-valued model in their final shape (used by Properties/C17.v). *)
From Coq Require Import String List NArith Bool Lia Arith Permutation.
Import ListNotations.
Require Import Show Names SpecModel VMeaning MetaTable MetaBase MetaBaseFacts MetaShow MetaModel MetaFacts MetaModel3 MetaFacts3 MetaModels MetaHeap.
Open Scope N_scope.
Arguments N.eqb : simpl never.
Arguments N.leb : simpl never.

Section Final3.
Variable O : oracles3.
Variable data : list (list N * rawv).

Definition value_ok3 (k : list N) : Prop := exists e, compute3 O k (lookup k data) = Ok e.
Definition newer3 (k : list N) : Prop := newer (two O) data k.        (* does not depend on the oracles: Metadata-Version has none *)
Definition errors3 : list (list N) := errors (two O) data.

Lemma value_ok3_two k : documented_on O data -> (value_ok3 k <-> value_ok (two O) data k).
Proof. intros D. unfold value_ok3, value_ok. now rewrite documented_compute. Qed.

Lemma check_loop3_inv mv ks : forall s errs s' es, Inv3 O data s -> check_loop3 O mv ks s errs = inl (s', es) -> Inv3 O data s'.
Proof.
  induction ks as [|k t IH]; intros s errs s' es I H; cbn [check_loop3] in H; [inversion H; now subst|].
  destruct (negb (is_field k)); [eapply IH; eauto|]. destruct (gate_of mv k); [|eapply IH; eauto|discriminate].
  destruct (read3_inv O data s k I) as [I' _]. destruct (read3 O s k) as [s1 r]. cbn [fst] in I'. destruct r; [eapply IH; eauto | eapply IH; eauto | discriminate].
Qed.
Lemma accepted3_inv ord s : from_raw3_ord ord O true data = FOk s -> Inv3 O data s.
Proof.
  unfold from_raw3_ord. cbn [negb]. destruct (read3_inv O data (init data) k_mv (inv3_init O data)) as [I1 _].
  destruct (read3 O (init data) k_mv) as [s1 r]. cbn [fst] in I1. destruct r as [e|f|c]; [| |discriminate].
  - destruct (check_loop3 _ _ _ _ _) as [[s2 es]|c] eqn:L; [|discriminate]. destruct es; [|discriminate]. intros H. inversion H; subst. eapply check_loop3_inv; eauto.
  - destruct (check_loop3 _ _ _ _ _) as [[s2 es]|c] eqn:L; [|discriminate]. destruct es; [|discriminate]. intros H. inversion H; subst. eapply check_loop3_inv; eauto.
Qed.
(* an accepted object answers every later read sequence like a fresh lazy one *)
Theorem accepted3_reads ord s ks : from_raw3_ord ord O true data = FOk s -> reads3 O s ks = map (attr3 O data) ks.
Proof. intros H. apply reads3_inv. eapply accepted3_inv; eauto. Qed.

Theorem accept_iff3 ord : well_typed data -> documented_on O data -> (forall l, Permutation (ord l) l) ->
  ((exists s, from_raw3_ord ord O true data = FOk s) <->
     version_known data /\ value_ok3 k_name /\ value_ok3 k_version /\
     forall k, In k (map fst data) -> is_field k = true /\ ~ newer3 k /\ value_ok3 k).
Proof.
  intros W D P. pose proof (from_raw3_ord_spec O data ord P) as B. rewrite (documented_no_escape O data W D) in B. rewrite B.
  rewrite (accept_iff_final (two O) data ord W P). rewrite !value_ok3_two by auto.
  split; intros (H1 & H2 & H3 & H4); (split; [exact H1|]; split; [exact H2|]; split; [exact H3|]);
    intros k I; destruct (H4 k I) as (F & Nw & V); (split; [exact F|]; split; [exact Nw|]); now apply value_ok3_two.
Qed.
Theorem reject_group3 ord : well_typed data -> documented_on O data -> (forall l, Permutation (ord l) l) -> errors3 <> [] ->
  exists es, from_raw3_ord ord O true data = FGroup es /\ Permutation es errors3.
Proof.
  intros W D P NE. pose proof (from_raw3_ord_spec O data ord P) as B. rewrite (documented_no_escape O data W D) in B. rewrite B.
  apply reject_group; auto. now apply well_typed_safe.
Qed.
(* the complete case distinction, with no assumption on the components: success, one non-empty group, or the exception of a component
   that the validation reaches escapes - and the last case happens exactly when such a raise exists *)
Theorem outcome3 ord : well_typed data -> (forall l, Permutation (ord l) l) ->
  (escapes3 O data = false /\ ((exists s, from_raw3_ord ord O true data = FOk s) \/ (exists es, es <> [] /\ from_raw3_ord ord O true data = FGroup es))) \/
  (escapes3 O data = true /\ exists c k, from_raw3_ord ord O true data = FCrash c /\ reached O data k /\ is_field k = true /\ raised_in O k (lookup k data) c).
Proof.
  intros W P. pose proof (from_raw3_ord_spec O data ord P) as B. destruct (escapes3 O data) eqn:E.
  - right. split; auto. destruct B as [c [k [B [R A]]]]. exists c, k. split; auto. split; auto.
    assert (F : is_field k = true) by (destruct R as [->|[_ [F _]]]; auto; reflexivity). split; auto. now apply well_typed_crash_is_raise.
  - left. split; auto. rewrite B. pose proof (from_raw_ord_spec (two O) data ord (well_typed_safe _ _ W)) as H.
    destruct (errors_ord (two O) data ord) as [|f l]; [left; destruct H as [s [H _]]; eauto | right; exists (f :: l); split; [discriminate | exact H]].
Qed.
Theorem escape_iff3 ord : well_typed data -> (forall l, Permutation (ord l) l) ->
  ((exists c, from_raw3_ord ord O true data = FCrash c) <-> exists k c, reached O data k /\ is_field k = true /\ raised_in O k (lookup k data) c).
Proof.
  intros W P. destruct (outcome3 ord W P) as [[E [[s H]|[es [_ H]]]]|[E [c [k [H [R [F A]]]]]]].
  - split; [intros [c X]; congruence|]. intros [k [c [R [F A]]]]. exfalso.
    assert (escapes3 O data = true) by (apply escapes3_iff; exists k, c; split; auto; now apply well_typed_crash_is_raise). congruence.
  - split; [intros [c X]; congruence|]. intros [k [c [R [F A]]]]. exfalso.
    assert (escapes3 O data = true) by (apply escapes3_iff; exists k, c; split; auto; now apply well_typed_crash_is_raise). congruence.
  - split; eauto 8.
Qed.

(* ------------------------------------------------------------------ the validation IS a sequence of attribute reads *)
Fixpoint reads3_state (s : inst) (ks : list (list N)) : inst :=
  match ks with [] => s | k :: t => reads3_state (fst (read3 O s k)) t end.
Definition read_by_loop (mv : option nat) (k : list N) : bool := is_field k && match gate_of mv k with GOk => true | _ => false end.
Lemma check_loop3_state mv ks : forall s errs s' es, check_loop3 O mv ks s errs = inl (s', es) ->
  s' = reads3_state s (filter (read_by_loop mv) ks) /\ (length errs <= length es)%nat.
Proof.
  induction ks as [|k t IH]; intros s errs s' es H; cbn [check_loop3] in H; [inversion H; subst; cbn; auto|].
  cbn [filter]. unfold read_by_loop at 1. destruct (is_field k); cbn [negb andb] in *.
  - destruct (gate_of mv k).
    + cbn [reads3_state]. destruct (read3 O s k) as [s1 r]. cbn [fst]. destruct r; [eapply IH; eauto| |discriminate].
      apply IH in H as [H1 H2]. split; auto. rewrite app_length in H2. cbn in H2. lia.
    + apply IH in H as [H1 H2]. split; auto. rewrite app_length in H2. cbn in H2. lia.
    + discriminate.
  - apply IH in H as [H1 H2]. split; auto. rewrite app_length in H2. cbn in H2. lia.
Qed.
(* from_raw(validate=True), when it succeeds, leaves the object in the state that the reads [validation_reads] leave a lazy object in:
   metadata_version, then every present or required field that is not newer than the declared version, in sorted order *)
Theorem validation_is_reads s : from_raw3 O true data = FOk s -> s = reads3_state (init data) (validation_reads O data).
Proof.
  unfold from_raw3, from_raw3_ord, validation_reads. cbn [negb reads3_state].
  assert (RD : read3 O (init data) k_mv = read (two O) (init data) k_mv) by reflexivity.
  assert (CM : compute3 O k_mv (lookup k_mv data) = mv_res (two O) data) by reflexivity.
  rewrite CM. rewrite RD. unfold read. cbn [init cache lookup raw]. fold (mv_res (two O) data).
  destruct (mv_res (two O) data) as [e|f|c] eqn:M; cbn [fst]; [| |discriminate].
  - cbn [raw]. rewrite ftc_remove_mv.
    destruct (check_loop3 _ _ _ _ _) as [[s2 es]|c] eqn:L; [|discriminate]. destruct es; [|discriminate]. intros H. inversion H; subst.
    apply check_loop3_state in L as [L _]. exact L.
  - destruct (check_loop3 _ _ _ _ _) as [[s2 es]|c] eqn:L; [|discriminate]. apply check_loop3_state in L as [_ L].
    destruct es; [cbn in L; inversion L | discriminate].
Qed.

(* absent optional FIELD reads as None; a name that is not a field is an AttributeError *)
Theorem absent_field_is_none k : is_field k = true -> required k = false -> lookup k data = None -> reads3 O (init data) [k] = [Ok ENone].
Proof. intros F R L. rewrite reads3_history_independent. cbn [map]. rewrite attr3_field by auto. unfold compute3. rewrite R, L. reflexivity. Qed.
Theorem nonfield_read k : is_field k = false -> reads3 O (init data) [k] = [Crash k_attribute_error].
Proof. intros F. rewrite reads3_history_independent. cbn [map]. now rewrite attr3_nonfield. Qed.
End Final3.

(* ------------------------------------------------------------------ with the component MODELS as oracles *)
Section Models.
Variable ctype : list N -> ores (list N * (option (list N) * option (list N))).
Variable path : list N -> bool.
Let OM := O_models ctype path.

(* what "individually valid" means for the three fields whose validity is another property's grammar *)
Lemma models_requires_python data s e : lookup k_requires_python data = Some (VStr s) ->
  (compute3 OM k_requires_python (lookup k_requires_python data) = Ok e <-> exists ss, SetsModel.SpecifierSet s None = Some ss /\ e = EStr (SetsModel.set_str ss)).
Proof.
  intros ->. unfold compute3. cbn [is_some]. rewrite orb_true_r. change (process3 OM k_requires_python) with (Some (p3_requires_python OM)).
  unfold p3_requires_python. cbn [OM O_models o3_specset]. unfold specset_model. destruct (SetsModel.SpecifierSet s None) as [ss|].
  - split; [intros H; inversion H; eauto | intros [ss' [H ->]]; inversion H; reflexivity].
  - split; [discriminate | intros [ss' [H _]]; discriminate].
Qed.
Lemma models_license_expression data s e : lookup k_license_expression data = Some (VStr s) ->
  (compute3 OM k_license_expression (lookup k_license_expression data) = Ok e <-> exists t, LicTop.canonicalize_license_expression s = LicModel.Ok t /\ e = EStr t).
Proof.
  intros ->. unfold compute3. cbn [is_some]. rewrite orb_true_r. change (process3 OM k_license_expression) with (Some (p3_license_expression OM)).
  unfold p3_license_expression. cbn [OM O_models o3_lic]. unfold lic_model. destruct (LicTop.canonicalize_license_expression s) as [t| |t|].
  - split; [intros H; inversion H; eauto | intros [t' [H ->]]; inversion H; reflexivity].
  - split; [discriminate | intros [t' [H _]]; discriminate].
  - split; [discriminate | intros [t' [H _]]; discriminate].
  - split; [discriminate | intros [t' [H _]]; discriminate].
Qed.
Lemma req_all_acc O l ts : req_all O l = OAcc ts <-> map (o3_req O) l = map OAcc ts.
Proof.
  revert ts. induction l as [|x t IH]; intros ts; cbn [req_all map].
  - split; [intros H; inversion H; reflexivity | destruct ts; [reflexivity | discriminate]].
  - destruct (o3_req O x) as [a| |e0].
    + destruct (req_all O t) as [r| |e1].
      * split; [intros H; inversion H; subst; cbn [map]; f_equal; now apply IH|].
        destruct ts as [|b ts]; [discriminate|]. cbn [map]. intros H. inversion H; subst. f_equal. f_equal.
        assert (OAcc r = OAcc ts :> ores (list (list N))) by (apply IH; assumption). congruence.
      * split; [discriminate|]. destruct ts as [|b ts]; [discriminate|]. cbn [map]. intros H. inversion H.
        assert (ORej = OAcc ts :> ores (list (list N))) by (apply IH; assumption). discriminate.
      * split; [discriminate|]. destruct ts as [|b ts]; [discriminate|]. cbn [map]. intros H. inversion H.
        assert (ORaise e1 = OAcc ts :> ores (list (list N))) by (apply IH; assumption). discriminate.
    + split; [discriminate|]. destruct ts; discriminate.
    + split; [discriminate|]. destruct ts; discriminate.
Qed.
Lemma models_requires_dist data l e : lookup k_requires_dist data = Some (VList l) ->
  (compute3 OM k_requires_dist (lookup k_requires_dist data) = Ok e <->
   exists rs, map ReqModel.Requirement l = map ReqModel.RqOk rs /\ e = EList (map ReqModel.req_str rs)).
Proof.
  intros ->. unfold compute3. cbn [is_some]. rewrite orb_true_r. change (process3 OM k_requires_dist) with (Some (p3_requires_dist OM)).
  unfold p3_requires_dist.
  assert (A : forall ts, req_all OM l = OAcc ts <-> exists rs, map ReqModel.Requirement l = map ReqModel.RqOk rs /\ ts = map ReqModel.req_str rs).
  { intros ts. rewrite req_all_acc. cbn [OM O_models o3_req]. clear. revert ts. induction l as [|x t IH]; intros ts; cbn [map].
    - split; [intros H; destruct ts; [|discriminate]; exists []; auto | intros [rs [H ->]]; destruct rs; [reflexivity|discriminate]].
    - split.
      + destruct ts as [|a ts]; [discriminate|]. cbn [map]. intros H. inversion H as [[H1 H2]]. apply IH in H2 as [rs [H2 ->]].
        unfold req_model in H1. destruct (ReqModel.Requirement x) as [r| |] eqn:E; try discriminate. inversion H1; subst.
        exists (r :: rs). cbn [map]. rewrite H2. auto.
      + intros [rs [H ->]]. destruct rs as [|r rs]; [discriminate|]. cbn [map] in *. inversion H as [[H1 H2]].
        unfold req_model at 1. rewrite H1. f_equal. apply IH. eauto. }
  destruct (req_all OM l) as [ts| |e0] eqn:R.
  - split; [intros H; inversion H; subst; destruct (proj1 (A ts) eq_refl) as [rs [H1 ->]]; eauto|].
    intros [rs [H ->]]. assert (OAcc ts = OAcc (map ReqModel.req_str rs) :> ores (list (list N))) by (apply A; eauto). congruence.
  - split; [discriminate|]. intros [rs [H _]]. assert (ORej = OAcc (map ReqModel.req_str rs) :> ores (list (list N))) by (apply A; eauto). discriminate.
  - split; [discriminate|]. intros [rs [H _]]. assert (ORaise e0 = OAcc (map ReqModel.req_str rs) :> ores (list (list N))) by (apply A; eauto). discriminate.
Qed.
End Models.
