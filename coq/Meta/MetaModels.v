(* C17  The component oracles instantiated with the MODELS of the components that this development already has:
     SpecifierSet                      Sets/SetsModel.v  (C05/C06)
     Requirement                       Req/ReqModel.v    (C08)
     canonicalize_license_expression   Lic/LicTop.v      (C19)
   so that "valid specifier set / requirement / licence expression" in the C17 statement means the grammars those properties are
   proved about, and the enriched value is what those models print.  The header parser of the e-mail package and the pathlib tests have
   no model: they stay parameters.
   Run against the real code by the command m.from_raw_models (RunMeta.v; stream "models" of c17.py).
   The component models have no resource limits: what makes the real Requirement raise RecursionError (a marker nested about 450 deep,
   finding D44) is an accepted requirement here, and numbers beyond 4300 digits are ordinary numbers (finding D10) - O_models never
   answers ORaise for those, so [documented_on (O_models ..)] does not exclude them.
   Inputs on which a component model does not determine one documented outcome are mapped to ORaise, so that they fall outside
   [documented_on] instead of being silently read as rejections:
     Requirement: RqOracle (a marker literal with a backslash, ast.literal_eval is outside ReqModel);
     licence:     Limit (nesting depth 101..200, interpreter dependent) and Crash (KeyError). *)
From Coq Require Import List NArith Bool String.
Import ListNotations.
Require Import Show MetaBase MetaModel MetaModel3.
Require SetsModel ReqModel LicModel LicTop.
Open Scope N_scope.

Definition specset_model (s : list N) : ores (list N) :=
  match SetsModel.SpecifierSet s None with Some ss => OAcc (SetsModel.set_str ss) | None => ORej end.
Definition req_model (s : list N) : ores (list N) :=
  match ReqModel.Requirement s with
  | ReqModel.RqOk r => OAcc (ReqModel.req_str r)
  | ReqModel.RqInvalid => ORej
  | ReqModel.RqOracle => ORaise (asc "outside-ReqModel")
  end.
Definition lic_model (s : list N) : ores (list N) :=
  match LicTop.canonicalize_license_expression s with
  | LicModel.Ok t => OAcc t
  | LicModel.Err => ORej
  | LicModel.Limit _ => ORaise (asc "interpreter-dependent")
  | LicModel.Crash => ORaise (asc "KeyError")
  end.

Definition O_models (ctype : list N -> ores (list N * (option (list N) * option (list N)))) (path : list N -> bool) : oracles3 :=
  {| o3_specset := specset_model; o3_req := req_model; o3_lic := lic_model; o3_ctype := ctype; o3_path := path |}.
