(* C17 lemmas about MetaModel.v: the cache invariant of the _Validator descriptor, the link between the stateful from_raw loop and
   the stateless error list, the declarative statement of the property. *)
From Coq Require Import String List NArith Bool Lia Arith Permutation.
Import ListNotations.
Require Import Show Names SpecModel VMeaning MetaTable MetaBase MetaBaseFacts MetaModel.
Open Scope N_scope.
Arguments N.eqb : simpl never.
Arguments N.leb : simpl never.

(* ------------------------------------------------------------------ facts about the generated table (finite, by computation) *)
Lemma table_added_known : forallb (fun row => is_some (index_of (fst (snd (snd row))) gen_valid_versions)) gen_fields = true.
Proof. vm_compute. reflexivity. Qed.
Lemma added_age_known k : is_field k = true -> exists a, added_age k = Some a.
Proof.
  unfold is_field, added_age. destruct (lookup k gen_fields) as [[e [a kind]]|] eqn:E; [|discriminate]. intros _.
  pose proof table_added_known as T. rewrite forallb_forall in T. specialize (T _ (lookup_In _ _ _ E)). cbn [fst snd] in T.
  destruct (index_of a gen_valid_versions); [eauto | discriminate].
Qed.
Lemma required_fields : is_field k_mv = true /\ is_field k_name = true /\ is_field k_version = true.
Proof. vm_compute. auto. Qed.
Lemma required_distinct : k_mv <> k_name /\ k_mv <> k_version /\ k_name <> k_version.
Proof. repeat split; apply seqb_neq; reflexivity. Qed.

Ltac split_matches := repeat match goal with |- context [match ?x with _ => _ end] => destruct x end.

(* ------------------------------------------------------------------ the descriptor: cache invariant *)
Section Inst.
Variable O : oracles.
Variable data : list (list N * rawv).

(* every field is either still raw with its original value and not cached, or cached with the value computed from the original *)
Definition Inv (s : inst) : Prop :=
  forall k, (lookup k (cache s) = None /\ lookup k (raw s) = lookup k data) \/
            (exists e, lookup k (cache s) = Some e /\ compute O k (lookup k data) = Ok e).

Lemma inv_init : Inv (init data).
Proof. intros k. left. auto. Qed.

Lemma read_inv s k : Inv s -> Inv (fst (read O s k)) /\ snd (read O s k) = compute O k (lookup k data).
Proof.
  intros I. unfold read. destruct (I k) as [[C R]|[e [C E]]].
  - rewrite C, R. destruct (compute O k (lookup k data)) as [e|f|c] eqn:E; cbn [fst snd]; split; auto.
    intros g. destruct (seqb_spec k g) as [<-|N].
    + right. exists e. cbn [cache lookup]. now rewrite seqb_refl.
    + cbn [cache raw lookup]. apply seqb_neq in N as N'. rewrite N'. rewrite lookup_remove_other by congruence. apply I.
  - rewrite C. cbn [fst snd]. split; auto.
Qed.

Lemma reads_inv ks : forall s, Inv s -> reads O s ks = map (fun k => compute O k (lookup k data)) ks.
Proof.
  induction ks as [|k t IH]; intros s I; cbn [reads map]; auto.
  destruct (read_inv s k I) as [I' R]. destruct (read O s k) as [s' r]. cbn [fst snd] in *. rewrite R. f_equal. now apply IH.
Qed.

(* reading attributes in any order any number of times: every read returns the conversion of the ORIGINAL raw value *)
Theorem reads_history_independent ks : reads O (init data) ks = map (fun k => compute O k (lookup k data)) ks.
Proof. apply reads_inv, inv_init. Qed.

(* ------------------------------------------------------------------ the validation loop, statelessly *)
Definition mv_res : res := compute O k_mv (lookup k_mv data).
Definition mv_age : option nat := match mv_res with Ok (EStr v) => index_of v gen_valid_versions | _ => None end.
(* the InvalidMetadata recorded for one key of fields_to_check *)
Definition key_error (k : list N) : list (list N) :=
  if negb (is_field k) then [k]
  else match gate_of mv_age k with
       | GNewer => [email_name k]
       | GCrash => []
       | GOk => match compute O k (lookup k data) with Invalid f => [f] | _ => [] end
       end.
Definition key_safe (k : list N) : Prop :=
  is_field k = true -> gate_of mv_age k <> GCrash /\ (gate_of mv_age k = GOk -> forall c, compute O k (lookup k data) <> Crash c).

Lemma check_loop_spec ks : forall s errs, Inv s -> (forall k, In k ks -> key_safe k) ->
  exists s', Inv s' /\ check_loop O mv_age ks s errs = inl (s', errs ++ flat_map key_error ks).
Proof.
  induction ks as [|k t IH]; intros s errs I S; cbn [check_loop flat_map].
  - exists s. rewrite app_nil_r. auto.
  - assert (St : forall k', In k' t -> key_safe k') by (intros; apply S; now right).
    unfold key_error at 1. destruct (is_field k) eqn:F; cbn [negb].
    + destruct (S k (or_introl eq_refl) F) as [G1 G2].
      destruct (gate_of mv_age k) eqn:G; [| |congruence].
      * destruct (read_inv s k I) as [I' R]. destruct (read O s k) as [s' r]. cbn [fst snd] in *. subst r.
        destruct (compute O k (lookup k data)) as [e|f|c] eqn:E.
        -- destruct (IH s' errs I' St) as [s2 [I2 H2]]. exists s2. split; auto.
        -- destruct (IH s' (errs ++ [f]) I' St) as [s2 [I2 H2]]. exists s2. split; auto. rewrite H2. now rewrite <- app_assoc.
        -- exfalso. eapply G2; eauto.
      * destruct (IH s (errs ++ [email_name k]) I St) as [s2 [I2 H2]]. exists s2. split; auto. rewrite H2. now rewrite <- app_assoc.
    + destruct (IH s (errs ++ [k]) I St) as [s2 [I2 H2]]. exists s2. split; auto. rewrite H2. now rewrite <- app_assoc.
Qed.

(* the keys of _raw after the metadata_version read differ from the caller's keys at most by metadata_version itself *)
Lemma filter_remove_mv (d : list (list N * rawv)) :
  filter (fun k => negb (seqb k k_mv)) (map fst (remove k_mv d)) = filter (fun k => negb (seqb k k_mv)) (map fst d).
Proof.
  induction d as [|[k v] t IH]; cbn [remove map fst filter]; auto.
  destruct (seqb k k_mv) eqn:E; cbn [negb map fst filter]; [auto | rewrite E; cbn [negb]; now f_equal].
Qed.
Lemma ftc_remove_mv (d : list (list N * rawv)) : fields_to_check (map fst (remove k_mv d)) = fields_to_check (map fst d).
Proof. unfold fields_to_check. now rewrite filter_remove_mv. Qed.

Definition mv_errors : list (list N) := match mv_res with Invalid f => [f] | _ => [] end.
Definition errors_ord (ord : list (list N) -> list (list N)) : list (list N) :=
  mv_errors ++ flat_map key_error (ord (fields_to_check (map fst data))).
Definition errors := errors_ord (fun l => l).
(* nothing outside the documented contract happens: values are in the RawMetadata domain and the table is consistent *)
Definition safe : Prop := (forall c, mv_res <> Crash c) /\ forall k, key_safe k.

Theorem from_raw_ord_spec ord : safe ->
  match errors_ord ord with
  | [] => exists s, from_raw_ord ord O true data = FOk s /\ Inv s
  | es => from_raw_ord ord O true data = FGroup es
  end.
Proof.
  intros [S0 S]. unfold from_raw_ord, errors_ord, mv_errors. cbn [negb].
  destruct (read_inv (init data) k_mv inv_init) as [I1 R1]. fold mv_res in R1.
  destruct (read O (init data) k_mv) as [s1 r] eqn:RD. cbn [fst snd] in *. subst r.
  assert (K : fields_to_check (map fst (raw s1)) = fields_to_check (map fst data)).
  { unfold read in RD. cbn [init cache lookup raw] in RD. fold mv_res in RD.
    destruct mv_res; inversion RD; subst; cbn [raw]; auto using ftc_remove_mv. }
  rewrite K.
  destruct (check_loop_spec (ord (fields_to_check (map fst data))) s1 mv_errors I1 (fun k _ => S k)) as [s2 [I2 H2]].
  unfold mv_errors, mv_age in H2.
  destruct mv_res as [e|f|c] eqn:M.
  - rewrite H2. cbn [app]. destruct (flat_map key_error (ord (fields_to_check (map fst data)))); eauto.
  - rewrite H2. cbn [app]. reflexivity.
  - exfalso. eapply S0; eauto.
Qed.

(* the iteration order of the frozenset does not matter: same multiset of errors, same acceptance *)
Lemma errors_ord_perm ord : (forall l, Permutation (ord l) l) -> Permutation (errors_ord ord) errors.
Proof. intros P. unfold errors, errors_ord. apply Permutation_app_head, Permutation_flat_map, P. Qed.

(* ------------------------------------------------------------------ the declarative statement *)
Definition relevant (k : list N) : Prop := In k (map fst data) \/ k = k_name \/ k = k_version.
Lemma in_ftc k : In k (fields_to_check (map fst data)) <-> (k <> k_mv /\ relevant k).
Proof.
  destruct required_distinct as (D1 & D2 & D3). unfold fields_to_check, relevant. rewrite in_app_iff, !filter_In. cbn [In].
  assert (NE : forall x, negb (seqb x k_mv) = true <-> x <> k_mv).
  { intros x. destruct (seqb_spec x k_mv); cbn [negb]; split; congruence. }
  split.
  - intros [[H1 H2]|[[H|[H|[]]] H2]].
    + apply NE in H2. tauto.
    + subst. split; auto.
    + subst. split; auto.
  - intros [N [H|[H|H]]].
    + left. split; auto. now apply NE.
    + subst. destruct (mem k_name (filter (fun k => negb (seqb k k_mv)) (map fst data))) eqn:E.
      * left. apply mem_In, filter_In in E. tauto.
      * right. cbn [negb]. auto.
    + subst. destruct (mem k_version (filter (fun k => negb (seqb k k_mv)) (map fst data))) eqn:E.
      * left. apply mem_In, filter_In in E. tauto.
      * right. cbn [negb]. auto.
Qed.

Definition version_known : Prop := exists v, lookup k_mv data = Some (VStr v) /\ In v gen_valid_versions.
Definition value_ok (k : list N) : Prop := exists e, compute O k (lookup k data) = Ok e.
Definition newer (k : list N) : Prop := exists age fa, mv_age = Some age /\ added_age k = Some fa /\ (age < fa)%nat.

Lemma mv_res_cases :
  (exists v, lookup k_mv data = Some (VStr v) /\ mem v gen_valid_versions = true /\ mv_res = Ok (EStr v)) \/
  (~ version_known /\ (mv_res = Invalid (email_name k_mv) \/ exists c, mv_res = Crash c)).
Proof.
  unfold mv_res, compute, version_known. change (required k_mv) with true. cbn [orb]. change (process O k_mv) with (Some p_metadata_version).
  unfold p_metadata_version. destruct (lookup k_mv data) as [[s|l|d]|].
  - destruct (mem s gen_valid_versions) eqn:E.
    + left. eauto.
    + right. split; [|left; reflexivity]. intros [v [H1 H2]]. inversion H1; subst. apply mem_In in H2. congruence.
  - right. split; [|right; eexists; reflexivity]. intros [v [H1 H2]]. discriminate.
  - right. split; [|right; eexists; reflexivity]. intros [v [H1 H2]]. discriminate.
  - right. split; [|left; reflexivity]. intros [v [H1 H2]]. discriminate.
Qed.
Lemma mv_age_known : version_known <-> exists age, mv_age = Some age.
Proof.
  unfold mv_age. destruct mv_res_cases as [[v [H1 [H2 H3]]]|[H1 [H2|[c H2]]]]; rewrite H2 || rewrite H3.
  - apply index_of_mem in H2. split; auto. intros _. exists v. split; auto. apply mem_In. now apply index_of_mem.
  - split; [tauto | intros [a H]; discriminate].
  - split; [tauto | intros [a H]; discriminate].
Qed.

Lemma gate_cases k : is_field k = true ->
  (gate_of mv_age k = GNewer /\ newer k) \/ (gate_of mv_age k = GOk /\ ~ newer k).
Proof.
  intros F. destruct (added_age_known k F) as [fa A]. unfold gate_of, newer. rewrite A.
  destruct mv_age as [age|].
  - destruct (Nat.ltb_spec age fa).
    + left. split; auto. exists age, fa. auto.
    + right. split; auto. intros [a [b [E1 [E2 L]]]]. inversion E1; inversion E2; subst. lia.
  - right. split; auto. intros [a [b [E1 _]]]. discriminate.
Qed.

(* an InvalidMetadata raised by a converter always names the converter's own field (self.raw_name) *)
Lemma compute_invalid_field k v f : compute O k v = Invalid f -> f = email_name k.
Proof.
  unfold compute. destruct (required k || is_some v); [|discriminate].
  unfold process.
  repeat match goal with |- context [seqb k ?c] => destruct (seqb_spec k c) as [->|?] end; try discriminate;
  unfold p_metadata_version, p_name, p_version, p_summary, p_description_content_type, p_dynamic, p_provides_extra, p_requires_python,
         p_requires_dist, p_license_expression, p_license_files, inv, ill_typed;
  split_matches; intros H; inversion H; reflexivity.
Qed.

Lemma key_error_spec k f : k <> k_mv -> safe ->
  (In f (key_error k) <->
     (is_field k = false /\ f = k) \/
     (is_field k = true /\ newer k /\ f = email_name k) \/
     (is_field k = true /\ ~ newer k /\ ~ value_ok k /\ f = email_name k)).
Proof.
  intros NK [_ S]. unfold key_error. destruct (is_field k) eqn:F; cbn [negb].
  - destruct (S k F) as [G1 G2]. destruct (gate_cases k F) as [[G N]|[G N]]; rewrite G.
    + cbn [In]. split; [intros [<-|[]]; auto | intros [[? _]|[[_ [_ ->]]|[_ [? _]]]]; try discriminate; tauto].
    + specialize (G2 G). unfold value_ok. destruct (compute O k (lookup k data)) as [e|g|c] eqn:E.
      * cbn [In]. split; [tauto|]. intros [[? _]|[[_ [? _]]|[_ [_ [H _]]]]]; try discriminate; try tauto. apply H. eauto.
      * apply compute_invalid_field in E as E'. subst g. cbn [In]. split.
        -- intros [<-|[]]. right; right. repeat split; auto. intros [e' H]. discriminate.
        -- intros [[? _]|[[_ [? _]]|[_ [_ [_ ->]]]]]; try discriminate; tauto.
      * exfalso. eapply G2; eauto.
  - cbn [In]. split; [intros [<-|[]]; auto | intros [[_ ->]|[[? _]|[? _]]]; try discriminate; auto].
Qed.

(* the exact set of names in the ExceptionGroup *)
Theorem errors_exact f : safe ->
  (In f errors <->
     (f = email_name k_mv /\ ~ version_known) \/
     exists k, k <> k_mv /\ relevant k /\
       ((is_field k = false /\ f = k) \/
        (is_field k = true /\ newer k /\ f = email_name k) \/
        (is_field k = true /\ ~ newer k /\ ~ value_ok k /\ f = email_name k))).
Proof.
  intros S. unfold errors, errors_ord, mv_errors. rewrite in_app_iff, in_flat_map.
  assert (M : In f (match mv_res with Invalid g => [g] | _ => [] end) <-> (f = email_name k_mv /\ ~ version_known)).
  { destruct mv_res_cases as [[v [H1 [H2 H3]]]|[H1 [H2|[c H2]]]].
    - rewrite H3. cbn [In]. split; [tauto|]. intros [_ H]. apply H. exists v. split; auto. now apply mem_In.
    - rewrite H2. cbn [In]. split; [intros [<-|[]]; auto | intros [-> _]; auto].
    - exfalso. destruct S as [S0 _]. eapply S0; eauto. }
  rewrite M. split.
  - intros [H|[k [H1 H2]]]; auto. right. apply in_ftc in H1 as [N R]. exists k. split; auto. split; auto. now apply key_error_spec.
  - intros [H|[k [N [R H]]]]; auto. right. exists k. split; [apply in_ftc; auto | apply key_error_spec; auto].
Qed.

Lemma errors_nil_iff : safe ->
  (errors = [] <-> version_known /\ forall k, k <> k_mv -> relevant k -> is_field k = true /\ ~ newer k /\ value_ok k).
Proof.
  intros S. split.
  - intros E. assert (A : forall f, ~ In f errors) by (intros f; rewrite E; auto). split.
    + destruct mv_res_cases as [[v [H1 [H2 H3]]]|[H1 _]]; [exists v; split; auto; now apply mem_In|].
      exfalso. apply (A (email_name k_mv)). apply errors_exact; auto.
    + intros k N R. destruct (is_field k) eqn:F.
      * split; auto. destruct (gate_cases k F) as [[_ Nw]|[_ Nw]].
        -- exfalso. apply (A (email_name k)). apply errors_exact; auto. right. exists k. tauto.
        -- split; auto. pose proof S as [_ S']. destruct (S' k F) as [_ G2].
           unfold value_ok. destruct (compute O k (lookup k data)) as [e|g|c] eqn:Ec; eauto.
           ++ exfalso. apply (A (email_name k)). apply errors_exact; auto. right. exists k. split; auto. split; auto.
              right; right. repeat split; auto. unfold value_ok. rewrite Ec. intros [e H]. discriminate.
           ++ exfalso. destruct (gate_cases k F) as [[_ ?]|[G _]]; [contradiction|]. eapply G2; eauto.
      * exfalso. apply (A k). apply errors_exact; auto. right. exists k. tauto.
  - intros [V A]. destruct errors as [|f l] eqn:E; auto. exfalso.
    assert (I : In f errors) by (rewrite E; now left). apply errors_exact in I; auto.
    destruct I as [[_ H]|[k [N [R H]]]]; [contradiction|]. destruct (A k N R) as [F [Nw Ok_]].
    destruct H as [[H _]|[[_ [H _]]|[_ [_ [H _]]]]]; [congruence | contradiction | contradiction].
Qed.

(* success <=> the conjunction of the statement; otherwise one group naming (as a multiset, in some order) exactly [errors] *)
Theorem accept_iff ord : safe -> (forall l, Permutation (ord l) l) ->
  ((exists s, from_raw_ord ord O true data = FOk s) <->
   version_known /\ forall k, k <> k_mv -> relevant k -> is_field k = true /\ ~ newer k /\ value_ok k).
Proof.
  intros S P. rewrite <- errors_nil_iff by auto.
  pose proof (from_raw_ord_spec ord S) as H. pose proof (errors_ord_perm ord P) as PE.
  split.
  - intros [s E]. destruct (errors_ord ord) as [|f l] eqn:EO.
    + now apply Permutation_nil.
    + rewrite E in H. discriminate.
  - intros E. rewrite E in PE. apply Permutation_sym, Permutation_nil in PE. rewrite PE in H. destruct H as [s [H _]]. eauto.
Qed.
Theorem reject_group ord : safe -> (forall l, Permutation (ord l) l) -> errors <> [] ->
  exists es, from_raw_ord ord O true data = FGroup es /\ Permutation es errors.
Proof.
  intros S P NE. pose proof (from_raw_ord_spec ord S) as H. pose proof (errors_ord_perm ord P) as PE.
  destruct (errors_ord ord) as [|f l] eqn:EO.
  - apply Permutation_nil in PE. congruence.
  - exists (f :: l). auto.
Qed.
(* an accepted object answers every later read sequence with the conversions of the original values *)
Theorem accepted_reads ord s ks : safe -> from_raw_ord ord O true data = FOk s ->
  reads O s ks = map (fun k => compute O k (lookup k data)) ks.
Proof.
  intros S E. pose proof (from_raw_ord_spec ord S) as H. destruct (errors_ord ord).
  - destruct H as [s' [H I]]. rewrite E in H. inversion H; subst. now apply reads_inv.
  - rewrite E in H. discriminate.
Qed.
(* validate=False: no check at construction; the same per-field error surfaces on attribute access *)
Theorem lazy_defers ord : from_raw_ord ord O false data = FOk (init data).
Proof. reflexivity. Qed.
Theorem lazy_same_error k f : k <> k_mv -> is_field k = true -> ~ newer k ->
  (In f (key_error k) <-> reads O (init data) [k] = [Invalid f]).
Proof.
  intros N F Nw. rewrite reads_history_independent. cbn [map]. unfold key_error. rewrite F. cbn [negb].
  destruct (gate_cases k F) as [[_ ?]|[G _]]; [contradiction|]. rewrite G.
  destruct (compute O k (lookup k data)); cbn [In]; split; intros H; try (inversion H; fail); try tauto.
  - destruct H as [->|[]]. reflexivity.
  - inversion H. auto.
Qed.
Theorem lazy_same_error_mv f : In f mv_errors <-> reads O (init data) [k_mv] = [Invalid f].
Proof.
  rewrite reads_history_independent. cbn [map]. unfold mv_errors. fold mv_res.
  destruct mv_res; cbn [In]; split; intros H; try (inversion H; fail); try tauto.
  - destruct H as [->|[]]. reflexivity.
  - inversion H. auto.
Qed.
(* an absent optional field reads as None *)
Theorem absent_is_none k : required k = false -> lookup k data = None -> reads O (init data) [k] = [Ok ENone].
Proof. intros R L. rewrite reads_history_independent. cbn [map]. unfold compute. rewrite R, L. reflexivity. Qed.
End Inst.

(* ------------------------------------------------------------------ per-field: when a read succeeds, and with which enriched value *)
Section Fields.
Variable O : oracles.

Lemma opt_all_Some {A} (l : list (option A)) r : opt_all l = Some r <-> l = map Some r.
Proof.
  revert r. induction l as [|o t IH]; intros r.
  - cbn. split; intros H; [inversion H; reflexivity | destruct r; [reflexivity|discriminate]].
  - destruct o as [a|]; cbn [opt_all].
    + destruct r as [|x r]; cbn [map].
      * split; [|discriminate]. destruct (opt_all t); cbn; discriminate.
      * specialize (IH r). destruct (opt_all t) as [r'|]; cbn [option_map].
        -- split; intros H; inversion H; subst.
           ++ f_equal. apply IH. reflexivity.
           ++ f_equal. f_equal. assert (Some r' = Some r) by (apply IH; reflexivity). congruence.
        -- split; [discriminate|]. intros H. inversion H; subst. assert (None = Some r) by (apply IH; reflexivity). discriminate.
    + split; [discriminate|]. destruct r; discriminate.
Qed.

(* Metadata-Version: one of the known versions; returned unchanged *)
Lemma ok_metadata_version v e : compute O k_mv v = Ok e <-> exists s, v = Some (VStr s) /\ In s gen_valid_versions /\ e = EStr s.
Proof.
  unfold compute. change (required k_mv) with true. change (process O k_mv) with (Some p_metadata_version). cbn [orb]. unfold p_metadata_version, inv, ill_typed.
  destruct v as [[s|l|d]|]; try (split; [discriminate | intros [s' [H _]]; discriminate]).
  destruct (mem s gen_valid_versions) eqn:M.
  - apply mem_In in M. split; [intros H; inversion H; eauto | intros [s' [H1 [_ ->]]]; congruence].
  - split; [discriminate | intros [s' [H1 [H2 _]]]]. inversion H1; subst. apply mem_In in H2. congruence.
Qed.
(* Name: present, non-empty, matches the core-metadata name pattern; the raw name is returned *)
Lemma ok_name v e : compute O k_name v = Ok e <-> exists s, v = Some (VStr s) /\ s <> [] /\ valid_name s = true /\ e = EStr s.
Proof.
  unfold compute. change (required k_name) with true. change (process O k_name) with (Some p_name). cbn [orb]. unfold p_name, inv, ill_typed.
  destruct v as [[[|c s]|l|d]|]; try (split; [discriminate | intros [s' [H [H' _]]]; inversion H; congruence]).
  destruct (valid_name (c :: s)) eqn:M.
  - split; [intros H; inversion H; exists (c :: s); repeat split; auto; discriminate | intros [s' [H1 [_ [_ ->]]]]; congruence].
  - split; [discriminate | intros [s' [H1 [_ [H2 _]]]]]. inversion H1; subst. congruence.
Qed.
(* Version: present, non-empty, a PEP 440 version; the enriched value prints as the normalised version *)
Lemma ok_version v e : compute O k_version v = Ok e <-> exists s x, v = Some (VStr s) /\ s <> [] /\ Version s = Some x /\ e = EStr (vstr x).
Proof.
  unfold compute. change (required k_version) with true. change (process O k_version) with (Some p_version). cbn [orb]. unfold p_version, inv, ill_typed.
  destruct v as [[[|c s]|l|d]|]; try (split; [discriminate | intros [s' [x [H [H' _]]]]; inversion H; congruence]).
  destruct (Version (c :: s)) as [x|] eqn:M.
  - split; [intros H; inversion H; exists (c :: s), x; repeat split; auto; discriminate | intros [s' [x' [H1 [_ [H2 ->]]]]]; inversion H1; subst; congruence].
  - split; [discriminate | intros [s' [x' [H1 [_ [H2 _]]]]]]. inversion H1; subst. congruence.
Qed.
(* Summary: a single line *)
Lemma ok_summary s e : compute O k_summary (Some (VStr s)) = Ok e <-> ~ In 10 s /\ e = EStr s.
Proof.
  unfold compute. change (required k_summary) with false. change (process O k_summary) with (Some p_summary). cbn [orb is_some]. unfold p_summary, inv, has_char.
  destruct (existsb (N.eqb 10) s) eqn:M.
  - split; [discriminate|]. intros [H _]. exfalso. apply H. apply existsb_exists in M as [x [H1 H2]]. apply N.eqb_eq in H2. now subst.
  - split; [intros H; inversion H; split; auto | intros [_ ->]; reflexivity]. intros I.
    assert (existsb (N.eqb 10) s = true) by (apply existsb_exists; exists 10; split; auto; apply N.eqb_refl). congruence.
Qed.
(* Requires-Python: what SpecifierSet makes of it *)
Lemma ok_requires_python s e : compute O k_requires_python (Some (VStr s)) = Ok e <-> exists t, o_specset O s = Some t /\ e = EStr t.
Proof.
  unfold compute. change (required k_requires_python) with false. change (process O k_requires_python) with (Some (p_requires_python O)). cbn [orb is_some].
  unfold p_requires_python, inv. destruct (o_specset O s) as [t|].
  - split; [intros H; inversion H; eauto | intros [t' [H ->]]; congruence].
  - split; [discriminate | intros [t' [H _]]; discriminate].
Qed.
(* Requires-Dist: every entry is a PEP 508 requirement; the enriched list holds what Requirement makes of each, in order *)
Lemma ok_requires_dist l e : compute O k_requires_dist (Some (VList l)) = Ok e <-> exists ts, map (o_req O) l = map Some ts /\ e = EList ts.
Proof.
  unfold compute. change (required k_requires_dist) with false. change (process O k_requires_dist) with (Some (p_requires_dist O)). cbn [orb is_some].
  unfold p_requires_dist, inv. destruct (opt_all (map (o_req O) l)) as [ts|] eqn:M.
  - apply opt_all_Some in M. split; [intros H; inversion H; eauto | intros [ts' [H ->]]]. rewrite M in H.
    assert (ts = ts'); [|congruence]. clear -H. revert ts' H. induction ts; destruct ts'; cbn; intros H; inversion H; f_equal; auto.
  - split; [discriminate | intros [ts [H _]]]. apply opt_all_Some in H. congruence.
Qed.
(* License-Expression: what canonicalize_license_expression returns *)
Lemma ok_license_expression s e : compute O k_license_expression (Some (VStr s)) = Ok e <-> exists t, o_lic O s = Some t /\ e = EStr t.
Proof.
  unfold compute. change (required k_license_expression) with false. change (process O k_license_expression) with (Some (p_license_expression O)). cbn [orb is_some].
  unfold p_license_expression, inv. destruct (o_lic O s) as [t|].
  - split; [intros H; inversion H; eauto | intros [t' [H ->]]; congruence].
  - split; [discriminate | intros [t' [H _]]; discriminate].
Qed.
(* License-File: no "..", no "*", relative, '/'-delimited (pathlib); returned unchanged *)
Lemma ok_license_files l e : compute O k_license_files (Some (VList l)) = Ok e <->
  (forall p, In p l -> infixb [46; 46] p = false /\ ~ In 42 p /\ o_path O p = false) /\ e = EList l.
Proof.
  unfold compute. change (required k_license_files) with false. change (process O k_license_files) with (Some (p_license_files O)). cbn [orb is_some].
  unfold p_license_files, inv. destruct (forallb (path_ok O) l) eqn:M.
  - rewrite forallb_forall in M. split; [intros H; inversion H; split; auto | intros [_ ->]; reflexivity].
    intros p I. specialize (M p I). unfold path_ok, has_char in M. apply andb_prop in M as [M M3]. apply andb_prop in M as [M1 M2].
    apply negb_true_iff in M1, M2, M3. repeat split; auto. intros I42.
    assert (existsb (N.eqb 42) p = true) by (apply existsb_exists; exists 42; split; auto; apply N.eqb_refl). congruence.
  - split; [discriminate|]. intros [H _]. assert (forallb (path_ok O) l = true); [|congruence]. apply forallb_forall. intros p I.
    destruct (H p I) as [H1 [H2 H3]]. unfold path_ok, has_char. rewrite H1, H3. cbn [negb andb]. rewrite andb_true_r. apply negb_true_iff.
    destruct (existsb (N.eqb 42) p) eqn:E; auto. exfalso. apply H2. apply existsb_exists in E as [x [I1 I2]]. apply N.eqb_eq in I2. now subst.
Qed.
(* Provides-Extra: every entry matches the name pattern; the enriched list holds the normalised names *)
Lemma ok_provides_extra l e : compute O k_provides_extra (Some (VList l)) = Ok e <-> (forall x, In x l -> valid_name x = true) /\ e = EList (map canon_name l).
Proof.
  unfold compute. change (required k_provides_extra) with false. change (process O k_provides_extra) with (Some p_provides_extra). cbn [orb is_some].
  unfold p_provides_extra, inv. destruct (forallb valid_name l) eqn:M.
  - rewrite forallb_forall in M. split; [intros H; inversion H; auto | intros [_ ->]; reflexivity].
  - split; [discriminate|]. intros [H _]. assert (forallb valid_name l = true) by (apply forallb_forall; auto). congruence.
Qed.
(* Dynamic: every entry, lower-cased, is a core-metadata header name other than name/version/metadata-version; lower-cased list *)
Lemma ok_dynamic l e : compute O k_dynamic (Some (VList l)) = Ok e <->
  (forall x, In x l -> is_email_name (lower_str x) = true /\ ~ In (lower_str x) [asc "name"; asc "version"; asc "metadata-version"]) /\ e = EList (map lower_str l).
Proof.
  unfold compute. change (required k_dynamic) with false. change (process O k_dynamic) with (Some p_dynamic). cbn [orb is_some].
  unfold p_dynamic, inv. destruct (forallb dynamic_ok l) eqn:M.
  - rewrite forallb_forall in M. split; [intros H; inversion H; split; auto | intros [_ ->]; reflexivity].
    intros x I. specialize (M x I). unfold dynamic_ok in M. apply andb_prop in M as [M1 M2]. split; auto. apply negb_true_iff in M1. intros I'. apply mem_In in I'. congruence.
  - split; [discriminate|]. intros [H _]. assert (forallb dynamic_ok l = true); [|congruence]. apply forallb_forall. intros x I.
    destruct (H x I) as [H1 H2]. unfold dynamic_ok. rewrite H1, andb_true_r. apply negb_true_iff. destruct (mem (lower_str x) [asc "name"; asc "version"; asc "metadata-version"]) eqn:E; auto.
    apply mem_In in E. contradiction.
Qed.
(* Description-Content-Type: the e-mail package parses it to one of three types that also occurs literally in the value,
   charset UTF-8 (default), and for Markdown the variant GFM (default) or CommonMark; returned unchanged *)
Lemma ok_description_content_type s e : compute O k_dct (Some (VStr s)) = Ok e <->
  exists ct charset variant, o_ctype O s = Some (ct, (charset, variant)) /\
    In (lower_str ct) content_types /\ infixb (lower_str ct) (lower_str s) = true /\
    opt_default charset (asc "UTF-8") = asc "UTF-8" /\
    (lower_str ct = asc "text/markdown" -> In (opt_default variant (asc "GFM")) [asc "GFM"; asc "CommonMark"]) /\ e = EStr s.
Proof.
  unfold compute. change (required k_dct) with false. change (process O k_dct) with (Some (p_description_content_type O)). cbn [orb is_some].
  unfold p_description_content_type, inv. destruct (o_ctype O s) as [[ct [charset variant]]|].
  2:{ split; [discriminate | intros [ct [c [w [H _]]]]; discriminate]. }
  destruct (mem (lower_str ct) content_types) eqn:M1; cbn [negb orb].
  2:{ split; [discriminate | intros [ct' [c [w [H [H1 _]]]]]]. inversion H; subst. apply mem_In in H1. congruence. }
  destruct (infixb (lower_str ct) (lower_str s)) eqn:M2; cbn [negb].
  2:{ split; [discriminate | intros [ct' [c [w [H [_ [H2 _]]]]]]]. inversion H; subst. congruence. }
  destruct (seqb_spec (opt_default charset (asc "UTF-8")) (asc "UTF-8")) as [M3|M3]; cbn [negb].
  2:{ split; [discriminate | intros [ct' [c [w [H [_ [_ [H3 _]]]]]]]]. inversion H; subst. congruence. }
  destruct (seqb_spec (lower_str ct) (asc "text/markdown")) as [M4|M4]; cbn [andb].
  - destruct (mem (opt_default variant (asc "GFM")) [asc "GFM"; asc "CommonMark"]) eqn:M5; cbn [negb].
    + apply mem_In in M1, M5. split; [intros H; inversion H; exists ct, charset, variant; repeat split; auto | intros [? [? [? [_ [_ [_ [_ [_ ->]]]]]]]]; reflexivity].
    + split; [discriminate | intros [ct' [c [w [H [_ [_ [_ [H5 _]]]]]]]]]. inversion H; subst. apply mem_In in H5; auto. congruence.
  - apply mem_In in M1. split; [intros H; inversion H; exists ct, charset, variant; repeat split; auto; intros; contradiction | intros [? [? [? [_ [_ [_ [_ [_ ->]]]]]]]]; reflexivity].
Qed.
(* every other field has no converter: any value passes through unchanged *)
Lemma ok_plain k v : process O k = None -> compute O k v = Ok (plain v).
Proof. intros P. unfold compute. rewrite P. now destruct (required k || is_some v). Qed.
End Fields.

(* ------------------------------------------------------------------ the RawMetadata domain: values typed as the TypedDict declares *)
Definition kind_ok (kind : N) (v : rawv) : bool :=
  match v with VStr _ => kind =? 0 | VList _ => (kind =? 1) || (kind =? 2) | VDict _ => kind =? 3 end.
Definition well_typed (data : list (list N * rawv)) : Prop :=
  forall k v e a kind, lookup k data = Some v -> lookup k gen_fields = Some (e, (a, kind)) -> kind_ok kind v = true.

Lemma compute_no_crash O k v c :
  (forall x e a kind, v = Some x -> lookup k gen_fields = Some (e, (a, kind)) -> kind_ok kind x = true) -> compute O k v <> Crash c.
Proof.
  intros W. unfold compute. destruct (required k || is_some v) eqn:RQ; [|discriminate].
  unfold process.
  repeat match goal with |- context [seqb k ?c] => destruct (seqb_spec k c) as [->|?] end; try discriminate;
  (destruct v as [[s|l|d]|];
   [ try (specialize (W _ _ _ _ eq_refl eq_refl); vm_compute in W; discriminate W) ..
   | try (vm_compute in RQ; discriminate RQ) ]);
  unfold p_metadata_version, p_name, p_version, p_summary, p_description_content_type, p_dynamic, p_provides_extra, p_requires_python,
         p_requires_dist, p_license_expression, p_license_files, inv, ill_typed;
  split_matches; discriminate.
Qed.

Lemma well_typed_safe O data : well_typed data -> safe O data.
Proof.
  intros W. split.
  - intros c. unfold mv_res. apply compute_no_crash. intros x e a kind L T. eapply W; eauto.
  - intros k F. split.
    + destruct (gate_cases O data k F) as [[G _]|[G _]]; rewrite G; discriminate.
    + intros _ c. apply compute_no_crash. intros x e a kind L T. eapply W; eauto.
Qed.

(* ------------------------------------------------------------------ from_email, after parse_email *)
Lemma from_email_lazy O data us : from_email O false data us = FOk (init data).
Proof. reflexivity. Qed.
Lemma from_email_group O data us :
  match from_raw O true data with
  | FOk s => from_email O true data us = match us with [] => FOk s | _ => FGroup us end
  | FGroup es => from_email O true data us = FGroup (us ++ es)
  | FCrash c => from_email O true data us = FCrash c
  end.
Proof. unfold from_email. destruct (from_raw O true data); reflexivity. Qed.
Lemma from_email_accept_iff O data us :
  (exists s, from_email O true data us = FOk s) <-> us = [] /\ exists s, from_raw O true data = FOk s.
Proof.
  pose proof (from_email_group O data us) as H. destruct (from_raw O true data) as [s|es|c]; rewrite H.
  - destruct us; split; [eauto | eauto | intros [s' E]; discriminate | intros [E _]; discriminate].
  - split; [intros [s E]; discriminate | intros [_ [s E]]; discriminate].
  - split; [intros [s E]; discriminate | intros [_ [s E]]; discriminate].
Qed.

(* ------------------------------------------------------------------ the statement in its final shape *)
Section Final.
Variable O : oracles.
Variable data : list (list N * rawv).

Lemma not_newer_required k : required k = true -> ~ newer O data k.
Proof.
  intros R [age [fa [_ [A L]]]]. unfold required in R.
  destruct (seqb_spec k k_mv) as [E|_]; [rewrite E in A; vm_compute in A; inversion A; subst; lia|].
  destruct (seqb_spec k k_name) as [E|_]; [rewrite E in A; vm_compute in A; inversion A; subst; lia|].
  destruct (seqb_spec k k_version) as [E|_]; [rewrite E in A; vm_compute in A; inversion A; subst; lia|]. discriminate.
Qed.
Lemma version_known_ok : version_known data <-> value_ok O data k_mv.
Proof.
  unfold version_known, value_ok. split.
  - intros [v [L I]]. exists (EStr v). apply ok_metadata_version. eauto.
  - intros [e H]. apply ok_metadata_version in H as [s [L [I _]]]. eauto.
Qed.

Theorem accept_iff_final ord : well_typed data -> (forall l, Permutation (ord l) l) ->
  ((exists s, from_raw_ord ord O true data = FOk s) <->
     version_known data /\ value_ok O data k_name /\ value_ok O data k_version /\
     forall k, In k (map fst data) -> is_field k = true /\ ~ newer O data k /\ value_ok O data k).
Proof.
  intros W P. rewrite accept_iff by auto using well_typed_safe. destruct required_fields as (F1 & F2 & F3). destruct required_distinct as (D1 & D2 & D3).
  split.
  - intros [V A]. split; auto.
    split; [apply A; [congruence | right; left; reflexivity]|].
    split; [apply A; [congruence | right; right; reflexivity]|].
    intros k I. destruct (seqb_spec k k_mv) as [->|N].
    + split; auto. split; [apply not_newer_required; reflexivity | now apply version_known_ok].
    + apply A; auto. now left.
  - intros [V [Hn [Hv A]]]. split; auto. intros k N [I|[-> | ->]].
    + now apply A.
    + split; auto. split; auto. apply not_newer_required. reflexivity.
    + split; auto. split; auto. apply not_newer_required. reflexivity.
Qed.
End Final.

Definition well_typed_b (data : list (list N * rawv)) : bool :=
  forallb (fun kv => match lookup (fst kv) gen_fields with Some (_, (_, kind)) => kind_ok kind (snd kv) | None => true end) data.
Lemma well_typed_b_ok data : well_typed_b data = true -> well_typed data.
Proof.
  intros H k v e a kind L T. unfold well_typed_b in H. rewrite forallb_forall in H.
  specialize (H _ (lookup_In _ _ _ L)). cbn [fst snd] in H. now rewrite T in H.
Qed.
