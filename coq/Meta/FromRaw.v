From Coq Require Import List Bool Lia Arith.
Import ListNotations.

(* Metadata.from_raw(data, validate=True), after the repair of the unknown-key handling (M1-M3) *)
Section FR.
Variable key : Type.                               (* any dict key the caller may pass *)
Variable key_eqb : key -> key -> bool.
Hypothesis key_eqb_spec : forall a b, reflect (a = b) (key_eqb a b).
Variable rawv : Type.
Variables k_mv k_name k_version : key.
Hypothesis req_distinct : k_mv <> k_name /\ k_mv <> k_version /\ k_name <> k_version.
Variable is_field : key -> bool.                   (* cls.__dict__[key] is a _Validator *)
Hypothesis req_fields : is_field k_mv = true /\ is_field k_name = true /\ is_field k_version = true.
Variable added : key -> nat.                       (* index of the field's "added" version in _VALID_METADATA_VERSIONS *)
Variable mv_index : option rawv -> option nat.     (* _process_metadata_version + .index(); None = invalid / absent *)
Variable field_ok : key -> option rawv -> bool.    (* the attribute read does not raise InvalidMetadata *)
Hypothesis mv_ok_iff : forall v, field_ok k_mv v = match mv_index v with Some _ => true | None => false end.

Definition dict := key -> option rawv.
(* the loop body for one key: Some reason = an InvalidMetadata for this key is appended *)
Definition check_key (data : dict) (mv : option nat) (k : key) : bool :=      (* true = error recorded *)
  if negb (is_field k) then true
  else match mv with
       | Some age => if Nat.ltb age (added k) then true else negb (field_ok k (data k))
       | None => negb (field_ok k (data k))
       end.
(* keys: the dict's keys in iteration order (any order), no duplicates *)
Definition fields_to_check (keys : list key) : list key :=
  let ks := filter (fun k => negb (key_eqb k k_mv)) keys in
  ks ++ filter (fun r => negb (existsb (key_eqb r) ks)) [k_name; k_version].
Definition from_raw_errors (data : dict) (keys : list key) : list key :=
  let mv := mv_index (data k_mv) in
  (match mv with None => [k_mv] | Some _ => [] end) ++ filter (check_key data mv) (fields_to_check keys).
Definition accepts (data : dict) (keys : list key) : bool := match from_raw_errors data keys with [] => true | _ => false end.

(* the statement of C17 *)
Definition offending (data : dict) (k : key) : Prop :=
  if key_eqb k k_mv then mv_index (data k_mv) = None
  else is_field k = false \/
       (exists age, mv_index (data k_mv) = Some age /\ age < added k) \/
       field_ok k (data k) = false.
Definition relevant (keys : list key) (k : key) : Prop := In k keys \/ k = k_mv \/ k = k_name \/ k = k_version.


Lemma in_ftc keys k : In k (fields_to_check keys) <-> (k <> k_mv /\ (In k keys \/ k = k_name \/ k = k_version)).
Proof.
  destruct req_distinct as (D1 & D2 & D3). unfold fields_to_check. rewrite in_app_iff, !filter_In. cbn [In].
  split.
  - intros [[H1 H2]|[[H|[H|[]]] H2]].
    + split; auto. destruct (key_eqb_spec k k_mv); [discriminate|auto].
    + subst. split; auto.
    + subst. split; auto.
  - intros [N [H|[H|H]]].
    + left. split; auto. destruct (key_eqb_spec k k_mv); [contradiction|reflexivity].
    + subst. destruct (existsb (key_eqb k_name) (filter (fun k => negb (key_eqb k k_mv)) keys)) eqn:E.
      * left. apply existsb_exists in E as [x [Hx E]]. destruct (key_eqb_spec k_name x); [subst|discriminate]. now apply filter_In in Hx.
      * right. split; auto.
    + subst. destruct (existsb (key_eqb k_version) (filter (fun k => negb (key_eqb k k_mv)) keys)) eqn:E.
      * left. apply existsb_exists in E as [x [Hx E]]. destruct (key_eqb_spec k_version x); [subst|discriminate]. now apply filter_In in Hx.
      * right. split; auto.
Qed.

Theorem C17_errors_exact data keys k :
  In k (from_raw_errors data keys) <-> (relevant keys k /\ offending data k).
Proof.
  destruct req_distinct as (D1 & D2 & D3). unfold from_raw_errors, relevant, offending.
  rewrite in_app_iff, filter_In, in_ftc.
  destruct (key_eqb_spec k k_mv) as [->|N].
  - split.
    + intros [H|[[C _] _]]; [|congruence]. destruct (mv_index (data k_mv)); [contradiction|]. split; [right; left; reflexivity | reflexivity].
    + intros [_ H]. left. rewrite H. now left.
  - split.
    + intros [H|[[_ R] C]].
      * destruct (mv_index (data k_mv)); cbn in H; [contradiction|]. destruct H as [H|[]]. congruence.
      * split; [tauto|]. unfold check_key in C. destruct (is_field k); cbn [negb] in C; auto.
        destruct (mv_index (data k_mv)) as [age|].
        -- destruct (Nat.ltb_spec age (added k)) as [L|L]; [right; left; exists age; auto | right; right; apply negb_true_iff in C; exact C].
        -- right; right. apply negb_true_iff in C. exact C.
    + intros [R O]. right. split; [split; auto; tauto|].
      unfold check_key. destruct O as [O|[[age [E L]]|O]].
      * now rewrite O.
      * destruct (is_field k); auto. cbn [negb]. rewrite E. apply Nat.ltb_lt in L. now rewrite L.
      * destruct (is_field k); auto. cbn [negb]. destruct (mv_index (data k_mv)) as [age|]; [destruct (Nat.ltb age (added k)); auto|]; now rewrite O.
Qed.

Corollary C17_accept_iff data keys : accepts data keys = true <-> forall k, relevant keys k -> ~ offending data k.
Proof.
  unfold accepts. split.
  - intros H k R O. destruct (from_raw_errors data keys) eqn:E; [|discriminate].
    assert (In k []) by (rewrite <- E; apply C17_errors_exact; auto). contradiction.
  - intros H. destruct (from_raw_errors data keys) as [|k l] eqn:E; auto.
    assert (I : In k (from_raw_errors data keys)) by (rewrite E; now left).
    apply C17_errors_exact in I as [R O]. exfalso. eapply H; eauto.
Qed.
End FR.
Print Assumptions C17_accept_iff.
