(* Lemmas about the string/dictionary helpers of MetaBase.v, shared by the C17 and C18 proofs. *)
From Coq Require Import List NArith Bool Lia Arith.
Import ListNotations.
Require Import Show MetaBase.
Open Scope N_scope.
Arguments N.eqb : simpl never.
Arguments N.leb : simpl never.

(* ------------------------------------------------------------------ strings and dictionaries *)
Lemma seqb_spec a b : reflect (a = b) (seqb a b).
Proof.
  revert b; induction a as [|x a IH]; intros [|y b]; cbn [seqb]; try (constructor; congruence).
  destruct (N.eqb_spec x y); cbn [andb]; [destruct (IH b); constructor; congruence | constructor; congruence].
Qed.
Lemma seqb_refl a : seqb a a = true.
Proof. destruct (seqb_spec a a); congruence. Qed.
Lemma seqb_eq a b : seqb a b = true <-> a = b.
Proof. destruct (seqb_spec a b); split; congruence. Qed.
Lemma seqb_neq a b : seqb a b = false <-> a <> b.
Proof. destruct (seqb_spec a b); split; congruence. Qed.
Lemma seqb_sym a b : seqb a b = seqb b a.
Proof. destruct (seqb_spec a b), (seqb_spec b a); congruence. Qed.

Lemma mem_In s l : mem s l = true <-> In s l.
Proof.
  unfold mem. rewrite existsb_exists. split.
  - intros [x [H E]]. apply seqb_eq in E. now subst.
  - intros H. exists s. split; auto. apply seqb_refl.
Qed.

Lemma lookup_remove_same {V} k (d : list (list N * V)) : lookup k (remove k d) = None.
Proof.
  induction d as [|[k' v] t IH]; cbn [remove lookup]; auto.
  destruct (seqb k' k) eqn:E; auto. cbn [lookup]. now rewrite E.
Qed.
Lemma lookup_remove_other {V} k g (d : list (list N * V)) : g <> k -> lookup g (remove k d) = lookup g d.
Proof.
  intros N. induction d as [|[k' v] t IH]; cbn [remove lookup]; auto.
  destruct (seqb_spec k' k) as [->|N'].
  - destruct (seqb_spec k g); [congruence|auto].
  - cbn [lookup]. now rewrite IH.
Qed.
Lemma lookup_In {V} k (d : list (list N * V)) v : lookup k d = Some v -> In (k, v) d.
Proof.
  induction d as [|[k' v'] t IH]; cbn [lookup]; [discriminate|].
  destruct (seqb_spec k' k) as [->|N]; intros H; [inversion H; now left | right; auto].
Qed.
Lemma lookup_None {V} k (d : list (list N * V)) : lookup k d = None <-> ~ In k (map fst d).
Proof.
  induction d as [|[k' v'] t IH]; cbn [lookup map fst In]; [tauto|].
  destruct (seqb_spec k' k) as [->|N]; [split; [discriminate|tauto] | rewrite IH; tauto].
Qed.
Lemma lookup_Some_key {V} k (d : list (list N * V)) v : lookup k d = Some v -> In k (map fst d).
Proof. intros H. apply lookup_In in H. change k with (fst (k, v)). now apply in_map. Qed.
Lemma In_lookup {V} k (d : list (list N * V)) : In k (map fst d) -> exists v, lookup k d = Some v.
Proof. intros H. destruct (lookup k d) eqn:E; eauto. apply lookup_None in E. contradiction. Qed.

Lemma index_of_mem v l : mem v l = true <-> exists n, index_of v l = Some n.
Proof.
  induction l as [|x t IH]; cbn [index_of mem existsb].
  - split; [discriminate | intros [n H]; discriminate].
  - rewrite (seqb_sym v x). destruct (seqb x v); cbn [orb].
    + split; eauto.
    + unfold mem in IH. rewrite IH. split; intros [n H].
      * rewrite H. cbn. eauto.
      * destruct (index_of v t); [eauto | discriminate].
Qed.


Lemma lookup_dset_same {V} k (v : V) d : lookup k (dset k v d) = Some v.
Proof.
  induction d as [|[k' v'] t IH]; cbn [dset lookup]; [now rewrite seqb_refl|].
  destruct (seqb k' k) eqn:E; cbn [lookup]; [now rewrite seqb_refl | now rewrite E].
Qed.
Lemma lookup_dset_other {V} k g (v : V) d : g <> k -> lookup g (dset k v d) = lookup g d.
Proof.
  intros N. induction d as [|[k' v'] t IH]; cbn [dset lookup].
  - destruct (seqb_spec k g); [congruence|reflexivity].
  - destruct (seqb_spec k' k) as [->|N']; cbn [lookup].
    + destruct (seqb_spec k g); [congruence|reflexivity].
    + now rewrite IH.
Qed.
Lemma lookup_app {V} k (d1 d2 : list (list N * V)) : lookup k (d1 ++ d2) = match lookup k d1 with Some v => Some v | None => lookup k d2 end.
Proof. induction d1 as [|[k' v'] t IH]; cbn [app lookup]; auto. destruct (seqb k' k); auto. Qed.
