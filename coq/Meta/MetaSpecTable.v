(* The core-metadata specification table (https://packaging.python.org/specifications/core-metadata/): for every field its
   RawMetadata key, its header name, the metadata version that introduced it, and its kind
   (0 single-use string, 1 multiple-use list, 2 Keywords: one comma-separated header, 3 Project-URL: label -> URL).
   Hand-written from the specification; Gen/MetaTable.v (extracted behaviourally from the working tree) must equal it. *)
From Coq Require Import List NArith String.
Import ListNotations.
Require Import Show.
Open Scope N_scope.

Definition spec_valid_versions : list (list N) :=
  [asc "1.0"; asc "1.1"; asc "1.2"; asc "2.1"; asc "2.2"; asc "2.3"; asc "2.4"].

Definition row (key header added : string) (kind : N) := (asc key, (asc header, (asc added, kind))).
Definition spec_fields : list (list N * (list N * (list N * N))) :=
  [ row "metadata_version" "metadata-version" "1.0" 0;
    row "name" "name" "1.0" 0;
    row "version" "version" "1.0" 0;
    (* Metadata 1.0 - PEP 241 *)
    row "platforms" "platform" "1.0" 1;
    row "summary" "summary" "1.0" 0;
    row "description" "description" "1.0" 0;
    row "keywords" "keywords" "1.0" 2;
    row "home_page" "home-page" "1.0" 0;
    row "author" "author" "1.0" 0;
    row "author_email" "author-email" "1.0" 0;
    row "license" "license" "1.0" 0;
    (* Metadata 1.1 - PEP 314 *)
    row "supported_platforms" "supported-platform" "1.1" 1;
    row "download_url" "download-url" "1.1" 0;
    row "classifiers" "classifier" "1.1" 1;
    row "requires" "requires" "1.1" 1;
    row "provides" "provides" "1.1" 1;
    row "obsoletes" "obsoletes" "1.1" 1;
    (* Metadata 1.2 - PEP 345 *)
    row "maintainer" "maintainer" "1.2" 0;
    row "maintainer_email" "maintainer-email" "1.2" 0;
    row "requires_dist" "requires-dist" "1.2" 1;
    row "provides_dist" "provides-dist" "1.2" 1;
    row "obsoletes_dist" "obsoletes-dist" "1.2" 1;
    row "requires_python" "requires-python" "1.2" 0;
    row "requires_external" "requires-external" "1.2" 1;
    row "project_urls" "project-url" "1.2" 3;
    (* Metadata 2.1 - PEP 566 *)
    row "description_content_type" "description-content-type" "2.1" 0;
    row "provides_extra" "provides-extra" "2.1" 1;
    (* Metadata 2.2 - PEP 643 *)
    row "dynamic" "dynamic" "2.2" 1;
    (* Metadata 2.4 - PEP 639 *)
    row "license_expression" "license-expression" "2.4" 0;
    row "license_files" "license-file" "2.4" 1 ].
