(* Rendering helpers shared by RunMeta.v and RunEmail.v (observation layer only).
   A string is rendered as its code points, "104.105"; a list as [a,b]; a dict as {k:v,...}. *)
From Coq Require Import List NArith Bool.
Import ListNotations.
Require Import Show.
Open Scope N_scope.

Definition show_s (s : list N) : list N := [34] ++ join [46] (map show_N s) ++ [34].
Definition show_list (l : list (list N)) : list N := [91] ++ join [44] (map show_s l) ++ [93].
Definition show_dict (d : list (list N * list N)) : list N :=
  [123] ++ join [44] (map (fun p => show_s (fst p) ++ [58] ++ show_s (snd p)) d) ++ [125].

(* sorted(): lexicographic on code points *)
Fixpoint str_ltb (a b : list N) : bool :=
  match a, b with
  | _, [] => false
  | [], _ :: _ => true
  | x :: a', y :: b' => (x <? y) || ((x =? y) && str_ltb a' b')
  end.
Fixpoint insert_by {A} (key : A -> list N) (x : A) (l : list A) : list A :=
  match l with [] => [x] | y :: t => if str_ltb (key y) (key x) then y :: insert_by key x t else x :: l end.
Definition sort_by {A} (key : A -> list N) (l : list A) : list A := fold_right (insert_by key) [] l.
Definition sort_s (l : list (list N)) : list (list N) := sort_by (fun x => x) l.
