(* C17 lemmas about MetaModel3.v (three-valued oracles, AttributeError for non-fields, any iteration order):
   - the cache invariant and history independence of attribute reads for [read3];
   - the BRIDGE to MetaModel.v: where no reached converter meets a raising component, from_raw3_ord is from_raw_ord on the two-valued
     reading of the oracle table, so every theorem of MetaFacts.v transfers; where one does, from_raw3_ord is FCrash with that exception;
   - multiplicity of the error group (exactly one member per offending key). *)
From Coq Require Import String List NArith Bool Lia Arith Permutation.
Import ListNotations.
Require Import Show Names SpecModel VMeaning MetaTable MetaBase MetaBaseFacts MetaShow MetaModel MetaFacts MetaModel3.
Open Scope N_scope.
Arguments N.eqb : simpl never.
Arguments N.leb : simpl never.

(* ------------------------------------------------------------------ sorted() is a permutation *)
Lemma insert_by_perm {A} (key : A -> list N) x l : Permutation (insert_by key x l) (x :: l).
Proof.
  induction l as [|y t IH]; cbn [insert_by]; auto.
  destruct (str_ltb (key y) (key x)); auto. eapply perm_trans; [apply perm_skip, IH | apply perm_swap].
Qed.
Lemma sort_s_perm l : Permutation (sort_s l) l.
Proof.
  unfold sort_s, sort_by. induction l as [|x t IH]; cbn [fold_right]; auto.
  eapply perm_trans; [apply insert_by_perm | now apply perm_skip].
Qed.

Section Three.
Variable O : oracles3.

(* ------------------------------------------------------------------ compute3 against compute (two O) *)
(* the ORACLE component called for field k raised e (something other than its documented exception) on the value v; for Requires-Dist: on
   the first entry that is not accepted.  Four components are oracles; Version, canonicalize_name and pathlib are total in the model
   (MetaModel3.v header), so they do not occur here. *)
Definition raised_in (k : list N) (v : option rawv) (e : list N) : Prop :=
  match v with
  | Some (VStr s) => (k = k_requires_python /\ o3_specset O s = ORaise e) \/ (k = k_license_expression /\ o3_lic O s = ORaise e) \/
                     (k = k_dct /\ o3_ctype O s = ORaise e)
  | Some (VList l) => k = k_requires_dist /\ req_all O l = ORaise e
  | _ => False
  end.

Lemma req_all_two l :
  match req_all O l with
  | OAcc ts => opt_all (map (o_req (two O)) l) = Some ts
  | ORej => opt_all (map (o_req (two O)) l) = None
  | ORaise _ => True
  end.
Proof.
  induction l as [|x t IH]; cbn [req_all map opt_all]; auto.
  cbn [two o_req]. destruct (o3_req O x) as [a| |e]; cbn [two_res]; auto.
  destruct (req_all O t) as [r| |e]; auto; cbn [two o_req] in IH; rewrite IH; reflexivity.
Qed.
(* Requires-Dist escapes with e exactly when the entries before the first one that is not accepted are all accepted and that one raises e *)
Lemma req_all_raise l e : req_all O l = ORaise e <->
  exists pre x post, l = pre ++ x :: post /\ (forall y, In y pre -> exists a, o3_req O y = OAcc a) /\ o3_req O x = ORaise e.
Proof.
  induction l as [|x t IH]; cbn [req_all].
  - split; [discriminate | intros [pre [x [post [H _]]]]; destruct pre; discriminate].
  - destruct (o3_req O x) as [a| |e0] eqn:E.
    + destruct (req_all O t) as [r| |e1] eqn:R.
      * split; [discriminate|]. intros [pre [y [post [H [A B]]]]]. destruct pre as [|p pre]; cbn [app] in H; inversion H; subst; [congruence|].
        assert (X : ORaise e = ORaise e :> ores (list (list N))) by reflexivity.
        assert (OAcc r = ORaise e); [|discriminate]. apply IH. exists pre, y, post. split; auto. split; auto. intros z I. apply A. now right.
      * split; [discriminate|]. intros [pre [y [post [H [A B]]]]]. destruct pre as [|p pre]; cbn [app] in H; inversion H; subst; [congruence|].
        assert (ORej = ORaise e :> ores (list (list N))); [|discriminate]. apply IH. exists pre, y, post. split; auto. split; auto. intros z I. apply A. now right.
      * split.
        -- intros H. inversion H; subst. destruct (proj1 IH eq_refl) as [pre [y [post [H1 [H2 H3]]]]]. exists (x :: pre), y, post. subst t. split; auto.
           split; auto. intros z [<-|I]; eauto.
        -- intros [pre [y [post [H [A B]]]]]. destruct pre as [|p pre]; cbn [app] in H; inversion H; subst; [congruence|].
           apply IH. exists pre, y, post. split; auto. split; auto. intros z I. apply A. now right.
    + split; [discriminate|]. intros [pre [y [post [H [A B]]]]]. destruct pre as [|p pre]; cbn [app] in H; inversion H; subst; [congruence|].
      destruct (A p (or_introl eq_refl)) as [a Ha]. congruence.
    + split.
      * intros H. inversion H; subst. exists [], x, t. split; auto. split; auto. intros y [].
      * intros [pre [y [post [H [A B]]]]]. destruct pre as [|p pre]; cbn [app] in H; inversion H; subst; [congruence|].
        destruct (A p (or_introl eq_refl)) as [a Ha]. congruence.
Qed.

(* one evaluation of a converter: either nothing raised and MetaModel.v (on the two-valued reading) computes the same result, or the
   component raised e and e escapes *)
Lemma compute3_cases k v : compute3 O k v = compute (two O) k v \/ (exists e, compute3 O k v = Crash e /\ raised_in k v e).
Proof.
  unfold compute3, compute. destruct (required k || is_some v); [|left; reflexivity].
  unfold process3, process.
  repeat match goal with |- context [seqb k ?c] => destruct (seqb_spec k c) as [->|?] end; try (left; reflexivity).
  - unfold p3_description_content_type, p_description_content_type. destruct v as [[s|l|d]|]; try (left; reflexivity).
    cbn [two o_ctype]. destruct (o3_ctype O s) as [[ct [cs va]]| |e] eqn:E; cbn [two_res]; try (left; reflexivity).
    right. exists e. split; auto. cbn [raised_in]. auto.
  - unfold p3_requires_python, p_requires_python. destruct v as [[s|l|d]|]; try (left; reflexivity).
    cbn [two o_specset]. destruct (o3_specset O s) as [t| |e] eqn:E; cbn [two_res]; try (left; reflexivity).
    right. exists e. split; auto. cbn [raised_in]. auto.
  - unfold p3_requires_dist, p_requires_dist. destruct v as [[s|l|d]|]; try (left; reflexivity).
    pose proof (req_all_two l) as H. destruct (req_all O l) as [ts| |e] eqn:E.
    + left. now rewrite H.
    + left. now rewrite H.
    + right. exists e. split; auto. cbn [raised_in]. auto.
  - unfold p3_license_expression, p_license_expression. destruct v as [[s|l|d]|]; try (left; reflexivity).
    cbn [two o_lic]. destruct (o3_lic O s) as [t| |e] eqn:E; cbn [two_res]; try (left; reflexivity).
    right. exists e. split; auto. cbn [raised_in]. auto.
Qed.
(* conversely a raise of the component that is reached does escape *)
Lemma raised_in_crash k v e : raised_in k v e -> compute3 O k v = Crash e.
Proof.
  unfold raised_in. destruct v as [[s|l|d]|]; try contradiction.
  - intros [[-> H]|[[-> H]|[-> H]]]; unfold compute3; cbn [is_some]; rewrite orb_true_r.
    + change (process3 O k_requires_python) with (Some (p3_requires_python O)). unfold p3_requires_python. now rewrite H.
    + change (process3 O k_license_expression) with (Some (p3_license_expression O)). unfold p3_license_expression. now rewrite H.
    + change (process3 O k_dct) with (Some (p3_description_content_type O)). unfold p3_description_content_type. now rewrite H.
  - intros [-> H]. unfold compute3; cbn [is_some]; rewrite orb_true_r.
    change (process3 O k_requires_dist) with (Some (p3_requires_dist O)). unfold p3_requires_dist. now rewrite H.
Qed.
Lemma mv3_two v : compute3 O k_mv v = compute (two O) k_mv v.
Proof. reflexivity. Qed.

(* ------------------------------------------------------------------ the descriptor: cache invariant *)
Variable data : list (list N * rawv).

(* the result of the attribute read  getattr(ins, k)  on a fresh instance *)
Definition attr3 (k : list N) : res := getattr3 O k (lookup k data).

Definition Inv3 (s : inst) : Prop :=
  forall k, (lookup k (cache s) = None /\ lookup k (raw s) = lookup k data) \/
            (exists e, lookup k (cache s) = Some e /\ attr3 k = Ok e).
Lemma inv3_init : Inv3 (init data).
Proof. intros k. left. auto. Qed.
Lemma read3_inv s k : Inv3 s -> Inv3 (fst (read3 O s k)) /\ snd (read3 O s k) = attr3 k.
Proof.
  intros I. unfold read3. destruct (I k) as [[C R]|[e [C E]]].
  - rewrite C, R. fold (attr3 k). destruct (attr3 k) as [e|f|c] eqn:E; cbn [fst snd]; split; auto.
    intros g. destruct (seqb_spec k g) as [<-|N].
    + right. exists e. cbn [cache lookup]. now rewrite seqb_refl.
    + cbn [cache raw lookup]. apply seqb_neq in N as N'. rewrite N'. rewrite lookup_remove_other by congruence. apply I.
  - rewrite C. cbn [fst snd]. split; auto.
Qed.
Lemma reads3_inv ks : forall s, Inv3 s -> reads3 O s ks = map attr3 ks.
Proof.
  induction ks as [|k t IH]; intros s I; cbn [reads3 map]; auto.
  destruct (read3_inv s k I) as [I' R]. destruct (read3 O s k) as [s' r]. cbn [fst snd] in *. rewrite R. f_equal. now apply IH.
Qed.
(* reading attributes in any order any number of times: every read returns what the FIRST read of that attribute on a fresh instance
   returns - the conversion of the original raw value, the escaping exception of the component, or AttributeError *)
Theorem reads3_history_independent ks : reads3 O (init data) ks = map attr3 ks.
Proof. apply reads3_inv, inv3_init. Qed.

Lemma attr3_field k : is_field k = true -> attr3 k = compute3 O k (lookup k data).
Proof. intros F. unfold attr3, getattr3. now rewrite F. Qed.
Lemma attr3_nonfield k : is_field k = false -> attr3 k = Crash k_attribute_error.
Proof. intros F. unfold attr3, getattr3. now rewrite F. Qed.
Lemma attr3_mv : attr3 k_mv = mv_res (two O) data.
Proof. reflexivity. Qed.

Lemma read3_two s k : Inv3 s -> is_field k = true -> (forall c, attr3 k <> Crash c) -> read3 O s k = read (two O) s k.
Proof.
  intros I F NC. unfold read3, read. destruct (I k) as [[C R]|[e [C E]]]; rewrite C; [|reflexivity].
  rewrite R. unfold getattr3. rewrite F. destruct (compute3_cases k (lookup k data)) as [->|[e [E _]]]; [reflexivity|].
  exfalso. apply (NC e). now rewrite attr3_field.
Qed.

(* ------------------------------------------------------------------ the validation loop *)
Definition mv_age3 : option nat := mv_age (two O) data.
(* the loop calls getattr(ins, k) for k, and the component it reaches raises *)
Definition crash_key (k : list N) : bool :=
  is_field k && match gate_of mv_age3 k with GOk => true | _ => false end && match attr3 k with Crash _ => true | _ => false end.
Definition reached (k : list N) : Prop :=
  k = k_mv \/ (In k (fields_to_check (map fst data)) /\ is_field k = true /\ gate_of mv_age3 k = GOk).
Definition escapes3 : bool :=
  match attr3 k_mv with Crash _ => true | _ => false end || existsb crash_key (fields_to_check (map fst data)).

Lemma crash_key_false k : crash_key k = false -> is_field k = true -> gate_of mv_age3 k = GOk -> forall c, attr3 k <> Crash c.
Proof. unfold crash_key. intros H F G c E. rewrite F, G, E in H. discriminate. Qed.

Lemma check_loop3_two ks : forall s errs, Inv3 s -> (forall k, In k ks -> crash_key k = false) ->
  check_loop3 O mv_age3 ks s errs = check_loop (two O) mv_age3 ks s errs.
Proof.
  induction ks as [|k t IH]; intros s errs I NC; cbn [check_loop3 check_loop]; auto.
  assert (NCt : forall k', In k' t -> crash_key k' = false) by (intros; apply NC; now right).
  destruct (is_field k) eqn:F; cbn [negb]; [|now apply IH].
  destruct (gate_of mv_age3 k) eqn:G; [|now apply IH|reflexivity].
  pose proof (crash_key_false k (NC k (or_introl eq_refl)) F G) as NK.
  pose proof (read3_inv s k I) as [I' R]. rewrite (read3_two s k I F NK) in *.
  destruct (read (two O) s k) as [s' r]. cbn [fst snd] in *. destruct r; auto.
Qed.

Lemma check_loop3_crash ks : forall s errs, Inv3 s -> (exists k, In k ks /\ crash_key k = true) ->
  exists c k, check_loop3 O mv_age3 ks s errs = inr c /\ In k ks /\ crash_key k = true /\ attr3 k = Crash c.
Proof.
  induction ks as [|k0 t IH]; intros s errs I [k [Hin Hc]]; [contradiction|]. cbn [check_loop3].
  assert (TL : forall s' errs', Inv3 s' -> crash_key k0 = false ->
               exists c k', check_loop3 O mv_age3 t s' errs' = inr c /\ In k' (k0 :: t) /\ crash_key k' = true /\ attr3 k' = Crash c).
  { intros s' errs' I' F0. destruct Hin as [<-|Hin]; [congruence|].
    destruct (IH s' errs' I' (ex_intro _ k (conj Hin Hc))) as [c [k' [H1 [H2 H3]]]]. exists c, k'. split; auto. split; auto. now right. }
  destruct (is_field k0) eqn:F; cbn [negb].
  - destruct (gate_cases (two O) data k0 F) as [[G _]|[G _]]; fold mv_age3 in G; rewrite G.
    + apply TL; auto. unfold crash_key. now rewrite F, G.
    + destruct (read3_inv s k0 I) as [I' R]. destruct (read3 O s k0) as [s' r]. cbn [fst snd] in *. subst r.
      destruct (attr3 k0) as [e|f|c] eqn:A.
      * apply TL; auto. unfold crash_key. now rewrite F, G, A.
      * apply TL; auto. unfold crash_key. now rewrite F, G, A.
      * exists c, k0. split; auto. split; [now left|]. split; auto. unfold crash_key. now rewrite F, G, A.
  - apply TL; auto. unfold crash_key. now rewrite F.
Qed.

Lemma existsb_perm {A} (p : A -> bool) l l' : Permutation l l' -> existsb p l = existsb p l'.
Proof.
  intros P. destruct (existsb p l') eqn:E.
  - apply existsb_exists in E as [x [I H]]. apply existsb_exists. exists x. split; auto. eapply Permutation_in; [apply Permutation_sym|]; eauto.
  - destruct (existsb p l) eqn:E'; auto. apply existsb_exists in E' as [x [I H]].
    assert (existsb p l' = true) by (apply existsb_exists; exists x; split; auto; eapply Permutation_in; eauto). congruence.
Qed.

(* THE BRIDGE.  Either a component reached by the validation raises something undocumented - then exactly that escapes from from_raw -
   or nothing does, and from_raw3_ord is MetaModel.from_raw_ord on the two-valued reading of the oracle table. *)
Theorem from_raw3_ord_spec ord : (forall l, Permutation (ord l) l) ->
  if escapes3 then exists c k, from_raw3_ord ord O true data = FCrash c /\ reached k /\ attr3 k = Crash c
  else from_raw3_ord ord O true data = from_raw_ord ord (two O) true data.
Proof.
  intros P. unfold escapes3, from_raw3_ord, from_raw_ord. cbn [negb].
  destruct (read3_inv (init data) k_mv inv3_init) as [I1 R1].
  assert (RD : read3 O (init data) k_mv = read (two O) (init data) k_mv) by reflexivity.
  rewrite RD in *. destruct (read (two O) (init data) k_mv) as [s1 r] eqn:RDE. cbn [fst snd] in *. subst r.
  rewrite attr3_mv in *.
  assert (K : fields_to_check (map fst (raw s1)) = fields_to_check (map fst data)).
  { unfold read in RDE. cbn [init cache lookup raw] in RDE. fold (mv_res (two O) data) in RDE.
    destruct (mv_res (two O) data); inversion RDE; subst; cbn [raw]; auto using ftc_remove_mv. }
  rewrite K.
  destruct (mv_res (two O) data) as [e|f|c] eqn:M; cbn [orb].
  3:{ exists c, k_mv. split; auto. split; [now left | now rewrite attr3_mv]. }
  - assert (MV : match e with EStr v => index_of v gen_valid_versions | _ => None end = mv_age3) by (unfold mv_age3, mv_age; now rewrite M).
    rewrite MV. rewrite <- (existsb_perm crash_key _ _ (P (fields_to_check (map fst data)))).
    destruct (existsb crash_key (ord (fields_to_check (map fst data)))) eqn:E.
    + apply existsb_exists in E. destruct (check_loop3_crash _ s1 [] I1 E) as [c [k [H1 [H2 [H3 H4]]]]]. rewrite H1.
      exists c, k. split; auto. split; auto. right. split; [eapply Permutation_in; [apply P | exact H2]|].
      unfold crash_key in H3. destruct (is_field k); [|discriminate]. destruct (gate_of mv_age3 k); try discriminate. auto.
    + rewrite check_loop3_two; auto. intros k Hk. destruct (crash_key k) eqn:C; auto.
      assert (existsb crash_key (ord (fields_to_check (map fst data))) = true) by (apply existsb_exists; eauto). congruence.
  - assert (MV : None = mv_age3) by (unfold mv_age3, mv_age; now rewrite M).
    rewrite MV. rewrite <- (existsb_perm crash_key _ _ (P (fields_to_check (map fst data)))).
    destruct (existsb crash_key (ord (fields_to_check (map fst data)))) eqn:E.
    + apply existsb_exists in E. destruct (check_loop3_crash _ s1 [f] I1 E) as [c [k [H1 [H2 [H3 H4]]]]]. rewrite H1.
      exists c, k. split; auto. split; auto. right. split; [eapply Permutation_in; [apply P | exact H2]|].
      unfold crash_key in H3. destruct (is_field k); [|discriminate]. destruct (gate_of mv_age3 k); try discriminate. auto.
    + rewrite check_loop3_two; auto. intros k Hk. destruct (crash_key k) eqn:C; auto.
      assert (existsb crash_key (ord (fields_to_check (map fst data))) = true) by (apply existsb_exists; eauto). congruence.
Qed.

Lemma escapes3_iff : escapes3 = true <-> exists k c, reached k /\ attr3 k = Crash c.
Proof.
  unfold escapes3. rewrite orb_true_iff, existsb_exists. split.
  - intros [H|[k [I H]]].
    + destruct (attr3 k_mv) as [| |c] eqn:E; try discriminate. exists k_mv, c. split; auto. now left.
    + unfold crash_key in H. destruct (is_field k) eqn:F; [|discriminate]. destruct (gate_of mv_age3 k) eqn:G; try discriminate.
      destruct (attr3 k) as [| |c] eqn:E; try discriminate. exists k, c. split; auto. right. auto.
  - intros [k [c [[->|[I [F G]]] E]]].
    + left. now rewrite E.
    + right. exists k. split; auto. unfold crash_key. now rewrite F, G, E.
Qed.

(* ------------------------------------------------------------------ the documented-exception assumption, made explicit *)
(* on the values of THIS dict no component raises anything but its documented exception *)
Definition documented_on : Prop := forall k v e, lookup k data = Some v -> ~ raised_in k (Some v) e.

Lemma documented_compute k : documented_on -> compute3 O k (lookup k data) = compute (two O) k (lookup k data).
Proof.
  intros D. destruct (compute3_cases k (lookup k data)) as [H|[e [_ R]]]; auto. exfalso.
  destruct (lookup k data) as [v|] eqn:L; [eapply D; eauto | exact R].
Qed.
Lemma documented_no_escape : well_typed data -> documented_on -> escapes3 = false.
Proof.
  intros W D. destruct escapes3 eqn:E; auto. apply escapes3_iff in E as [k [c [R A]]]. exfalso.
  assert (F : is_field k = true) by (destruct R as [->|[_ [F _]]]; auto; reflexivity).
  rewrite attr3_field, documented_compute in A by auto. revert A. apply compute_no_crash. intros x e a kind L T. eapply W; eauto.
Qed.
(* under typing, an escape is exactly a raise of the component behind a field the validation reaches *)
Lemma well_typed_crash_is_raise k c : well_typed data -> is_field k = true -> (attr3 k = Crash c <-> raised_in k (lookup k data) c).
Proof.
  intros W F. rewrite attr3_field by auto. split; [|apply raised_in_crash].
  intros A. destruct (compute3_cases k (lookup k data)) as [H|[e [H R]]].
  - exfalso. rewrite H in A. revert A. apply compute_no_crash. intros x e a kind L T. eapply W; eauto.
  - rewrite H in A. inversion A; subst. exact R.
Qed.
End Three.

(* the components raise nothing but their documented exception, on any string *)
Definition documented (O : oracles3) : Prop :=
  forall s e, o3_specset O s <> ORaise e /\ o3_req O s <> ORaise e /\ o3_lic O s <> ORaise e /\ o3_ctype O s <> ORaise e.
Lemma req_all_documented O l e : (forall s e, o3_req O s <> ORaise e) -> req_all O l <> ORaise e.
Proof.
  intros D H. apply req_all_raise in H as [pre [x [post [_ [_ H]]]]]. eapply D; eauto.
Qed.
Lemma documented_all O data : documented O -> documented_on O data.
Proof.
  intros D k v e _ R. unfold raised_in in R. destruct v as [s|l|d]; auto.
  - destruct (D s e) as (D1 & D2 & D3 & D4). destruct R as [[_ H]|[[_ H]|[_ H]]]; congruence.
  - destruct R as [_ H]. revert H. apply req_all_documented. intros s e'. now destruct (D s e') as (_ & D2 & _).
Qed.

(* ------------------------------------------------------------------ multiplicity: one group member per offending key *)
Section Mult.
Variable O : oracles.
Variable data : list (list N * rawv).

Definition offending (k : list N) : Prop :=
  k <> k_mv /\ relevant data k /\ (is_field k = false \/ (is_field k = true /\ newer O data k) \/ (is_field k = true /\ ~ newer O data k /\ ~ value_ok O data k)).
(* the .field of the InvalidMetadata recorded for key k: the header name of a field, the key itself when it is not a field *)
Definition name_of (k : list N) : list N := if is_field k then email_name k else k.

Lemma key_error_shape k : safe O data -> key_error O data k = [] \/ key_error O data k = [name_of k].
Proof.
  intros [_ S]. unfold key_error, name_of. destruct (is_field k) eqn:F; cbn [negb]; auto.
  destruct (gate_of (mv_age O data) k); auto.
  destruct (compute O k (lookup k data)) as [e|f|c] eqn:E; auto. apply compute_invalid_field in E. subst. auto.
Qed.
Definition offends_b (k : list N) : bool := match key_error O data k with [] => false | _ => true end.
Lemma flat_map_key_error l : safe O data -> flat_map (key_error O data) l = map name_of (filter offends_b l).
Proof.
  intros S. induction l as [|k t IH]; cbn [flat_map filter map]; auto. unfold offends_b at 1.
  destruct (key_error_shape k S) as [E|E]; rewrite E; cbn [app map]; now rewrite IH.
Qed.
Lemma NoDup_filter {A} (p : A -> bool) l : NoDup l -> NoDup (filter p l).
Proof.
  induction 1 as [|x l N ND IH]; cbn [filter]; [constructor|]. destruct (p x); auto. constructor; auto. intros I. apply filter_In in I. tauto.
Qed.
Lemma NoDup_app_intro {A} (l1 l2 : list A) : NoDup l1 -> NoDup l2 -> (forall x, In x l1 -> ~ In x l2) -> NoDup (l1 ++ l2).
Proof.
  induction 1 as [|x l N ND IH]; intros N2 D; cbn [app]; auto. constructor.
  - rewrite in_app_iff. intros [I|I]; [contradiction | apply (D x); auto; now left].
  - apply IH; auto. intros y I. apply D. now right.
Qed.
Lemma NoDup_ftc keys : NoDup keys -> NoDup (fields_to_check keys).
Proof.
  intros ND. unfold fields_to_check. set (ks := filter (fun k => negb (seqb k k_mv)) keys).
  assert (NK : NoDup ks) by now apply NoDup_filter.
  assert (NR : NoDup [k_name; k_version]).
  { destruct required_distinct as (_ & _ & D). repeat constructor; cbn [In]; intuition. }
  apply NoDup_app_intro; auto using NoDup_filter.
  intros x I1 I2. apply filter_In in I2 as [_ I2]. apply negb_true_iff in I2. apply mem_In in I1. congruence.
Qed.

(* the group, apart from the metadata-version member, holds exactly one member per offending key, named after that key *)
Theorem errors_one_per_key : safe O data -> NoDup (map fst data) ->
  exists offs, NoDup offs /\ (forall k, In k offs <-> offending k) /\
               errors O data = mv_errors O data ++ map name_of offs /\ (length (mv_errors O data) <= 1)%nat.
Proof.
  intros S ND. exists (filter offends_b (fields_to_check (map fst data))).
  split; [apply NoDup_filter, NoDup_ftc, ND|]. split; [|split].
  - intros k. rewrite filter_In, in_ftc. unfold offending, offends_b. split.
    + intros [[NK R] H]. split; auto. split; auto.
      destruct (key_error O data k) as [|f l] eqn:E; [discriminate|].
      assert (I : In f (key_error O data k)) by (rewrite E; now left). apply key_error_spec in I; auto.
      destruct I as [[F _]|[[F [Nw _]]|[F [Nw [V _]]]]]; auto.
    + intros [NK [R H]]. split; auto.
      assert (I : In (name_of k) (key_error O data k)).
      { apply key_error_spec; auto. unfold name_of. destruct H as [F|[[F Nw]|[F [Nw V]]]]; rewrite F; [left; auto | right; left; auto | right; right; auto]. }
      destruct (key_error O data k); [contradiction | reflexivity].
  - unfold errors, errors_ord. now rewrite flat_map_key_error.
  - unfold mv_errors. destruct (mv_res O data); cbn [length]; lia.
Qed.
End Mult.
