(* C17  Metadata.from_email as a whole: parse_email's post-processing (Email/EmailModel.v, the C18 model) composed with the validation
   (Meta/MetaModel3.v).  Definitions only (extracted; run by the command m.from_email_doc of RunMeta.v).
   Input = what the `email` package delivers for the document: the header list and the payload (see EmailModel.v). *)
From Coq Require Import List NArith Bool.
Import ListNotations.
Require Import Show MetaBase MetaShow MetaModel MetaModel3 EmailModel.
Open Scope N_scope.

(* the raw dict parse_email returns IS the RawMetadata dict from_raw receives *)
Definition conv (v : rawval) : rawv := match v with RStr s => VStr s | RList l => VList l | RDict d => VDict d end.
Definition conv_dict (raw : list (list N * rawval)) : list (list N * rawv) := map (fun kv => (fst kv, conv (snd kv))) raw.

(*  raw, unparsed = parse_email(data);  one InvalidMetadata per key of unparsed;  cls.from_raw(raw, validate=validate)  *)
Definition from_email_doc_ord (ord : list (list N) -> list (list N)) (O : oracles3) (validate : bool) (items : list item) (p : payload) : frres :=
  let fin := post_email items p in
  from_email3_ord ord O validate (conv_dict (fst fin)) (map fst (snd fin)).
Definition from_email_doc := from_email_doc_ord sort_s.
