(* C03, the `===` clause given content: str(candidate) is already lower-case ASCII, so "case-insensitive equality with the
   candidate's normalised string" means: lower-casing the specifier's text gives exactly str(candidate). *)
From Coq Require Import List Arith NArith Bool Lia.
Import ListNotations.
Require Import S1 VParse VComplete VTop VTop2 VDec Py VMeaning VCanon VCanon2 VCanon3 VCmp SpecModel SpecOps SpecOps2 Prefix Prefix4 Compat SpecParse SpecSound SpecContains SpecSem VAscii VWf.
Open Scope N_scope.
Arguments N.eqb : simpl never.
Arguments N.leb : simpl never.
Arguments N.ltb : simpl never.

(* the alphabet of str(Version): digits, lower-case ASCII letters, '.', '!', '+' *)
Definition canonc (c : char) : bool := is_digit c || is_lower c || (c =? 46) || (c =? 33) || (c =? 43).
Definition allC (s : str) : bool := forallb canonc s.
Lemma allC_app a b : allC (a ++ b) = allC a && allC b.  Proof. apply forallb_app. Qed.
Lemma canonc_digit c : is_digit c = true -> canonc c = true.
Proof. unfold canonc. now intros ->. Qed.
Lemma canonc_lower_alnum c : is_lower_alnum c = true -> canonc c = true.
Proof. unfold canonc, is_lower_alnum. intros H. now rewrite H. Qed.
Lemma allC_of p s : (forall c, p c = true -> canonc c = true) -> forallb p s = true -> allC s = true.
Proof.
  intros Hp. induction s as [|c s IH]; cbn [forallb allC]; auto. intros H. apply andb_prop in H as [A B].
  rewrite (Hp c A). exact (IH B).
Qed.
Lemma allC_dec n : allC (dec n) = true.
Proof. apply (allC_of is_digit); [apply canonc_digit | apply dec_digits]. Qed.
Lemma allC_rels l : allC (r_rels (map dec l)) = true.
Proof.
  induction l as [|n l IH]; cbn [map r_rels]; auto.
  change (46 :: dec n ++ r_rels (map dec l)) with ([46] ++ dec n ++ r_rels (map dec l)). now rewrite !allC_app, allC_dec, IH.
Qed.
Lemma allC_seg x : wf_seg x = true -> allC (c_seg x) = true.
Proof.
  destruct x as [n|s]; cbn [c_seg wf_seg]; [intros _; apply allC_dec|].
  intros H. apply andb_prop in H as [H _]. apply andb_prop in H as [_ H]. revert H. apply allC_of, canonc_lower_alnum.
Qed.
Lemma allC_segs l : forallb wf_seg l = true -> allC (r_segs (map (fun x => (46, c_seg x)) l)) = true.
Proof.
  induction l as [|x l IH]; cbn [map r_segs forallb]; auto. intros H. apply andb_prop in H as [A B].
  change (46 :: c_seg x ++ r_segs (map (fun x => (46, c_seg x)) l)) with ([46] ++ c_seg x ++ r_segs (map (fun x => (46, c_seg x)) l)).
  now rewrite !allC_app, (allC_seg x A), (IH B).
Qed.
Lemma allC_lv sep l n : (l = w_a \/ l = w_b \/ l = w_rc \/ l = w_post \/ l = w_dev) -> (sep = None \/ sep = Some 46) ->
  allC (r_lv (c_lv sep (l, n))) = true.
Proof.
  intros Hl Hs. unfold r_lv, c_lv; cbn [l_sep1 l_word l_sep2 l_num fst snd r_osep app].
  rewrite !allC_app, allC_dec. destruct Hs as [->| ->]; destruct Hl as [->|[->|[->|[->| ->]]]]; reflexivity.
Qed.

Theorem vstr_alphabet v : VMeaning.wf_version v -> allC (vstr v) = true.
Proof.
  intros (Hr & Hpre & Hpost & Hdev & Hloc). unfold vstr, render.
  cbn [canon_sp ws_l vpre ep rel0 rels spre spost sdev sloc ws_r r_osep app]. rewrite !allC_app.
  assert (E : allC (r_opt r_ep (if Py.epoch v =? 0 then None else Some (dec (Py.epoch v)))) = true).
  { destruct (Py.epoch v =? 0); cbn [r_opt]; auto. unfold r_ep. now rewrite allC_app, allC_dec. }
  rewrite E, allC_dec, allC_rels. cbn [andb].
  assert (P1 : allC (r_opt r_lv (option_map (c_lv None) (Py.pre v))) = true).
  { destruct (Py.pre v) as [[l n]|]; cbn [option_map r_opt]; auto. apply allC_lv; intuition. }
  assert (P2 : allC (r_opt r_post (option_map (fun p => PostWord (c_lv (Some 46) p)) (Py.post v))) = true).
  { destruct (Py.post v) as [[l n]|]; cbn [option_map r_opt r_post]; auto. subst l. apply allC_lv; intuition. }
  assert (P3 : allC (r_opt r_lv (option_map (c_lv (Some 46)) (Py.dev v))) = true).
  { destruct (Py.dev v) as [[l n]|]; cbn [option_map r_opt]; auto. subst l. apply allC_lv; intuition. }
  rewrite P1, P2, P3. cbn [andb]. rewrite andb_true_r.
  destruct (Py.local v) as [l|]; cbn [option_map r_opt]; auto. destruct Hloc as [Hne Hl].
  destruct l as [|x l]; [congruence|]. cbn [forallb] in Hl. apply andb_prop in Hl as [Hx Hl].
  unfold r_loc; cbn [fst snd hd tl]. change (43 :: c_seg x ++ ?r) with ([43] ++ c_seg x ++ r).
  now rewrite !allC_app, (allC_seg x Hx), (allC_segs l Hl).
Qed.

(* ---- str.lower() leaves such strings alone; they are ASCII ---- *)
Lemma canonc_fix c : canonc c = true -> py_lower_c c = [c] /\ is_ascii c = true.
Proof.
  unfold canonc, py_lower_c, is_ascii, is_digit, is_lower. intros H.
  assert (R : (48 <= c /\ c <= 57) \/ (97 <= c /\ c <= 122) \/ c = 46 \/ c = 33 \/ c = 43).
  { repeat (apply orb_prop in H as [H|H]); try (apply N.eqb_eq in H; auto); apply andb_prop in H as [A B]; apply N.leb_le in A, B; auto. }
  assert (U : (65 <=? c) && (c <=? 90) = false).
  { destruct (c <=? 90) eqn:B; [|apply andb_false_r]. apply N.leb_le in B. rewrite (proj2 (N.leb_gt 65 c)) by lia. reflexivity. }
  rewrite U. rewrite (proj2 (N.eqb_neq c 304)), (proj2 (N.eqb_neq c 8490)) by lia. split; auto. apply N.ltb_lt. lia.
Qed.
Lemma allC_lower s : allC s = true -> py_lower s = s.
Proof.
  induction s as [|c s IH]; cbn [allC forallb py_lower flat_map]; auto. intros H. apply andb_prop in H as [A B].
  fold (py_lower s). rewrite (IH B). destruct (canonc_fix c A) as [-> _]. reflexivity.
Qed.
Lemma allC_ascii s : allC s = true -> forallb is_ascii s = true.
Proof. apply all_P. intros c H. now destruct (canonc_fix c H). Qed.

(* str(candidate).lower() == str(candidate) *)
Theorem py_lower_vstr c : VMeaning.wf_version c -> py_lower (vstr c) = vstr c.
Proof. intros W. apply allC_lower, vstr_alphabet, W. Qed.

(* ===t matches c exactly when lower-casing t gives str(c) *)
Theorem arb_spec_iff c t : VMeaning.wf_version c -> (arb_spec c t = true <-> py_lower t = vstr c).
Proof.
  intros W. unfold arb_spec. rewrite (py_lower_vstr c W). split.
  - intros H. symmetry. now apply str_eqb_eq.
  - intros <-. apply str_eqb_refl.
Qed.

(* for ASCII text that is plain per-character ASCII lower-casing *)
Lemma py_lower_ascii t : forallb is_ascii t = true -> py_lower t = map lc t.
Proof.
  induction t as [|c t IH]; cbn [forallb py_lower flat_map map]; auto. intros H. apply andb_prop in H as [A B].
  fold (py_lower t). rewrite (IH B). f_equal.
  unfold is_ascii in A. apply N.ltb_lt in A. unfold py_lower_c, lc.
  destruct ((65 <=? c) && (c <=? 90)); auto. now rewrite (proj2 (N.eqb_neq c 304)), (proj2 (N.eqb_neq c 8490)) by lia.
Qed.
Theorem arb_spec_ascii c t : VMeaning.wf_version c -> forallb is_ascii t = true -> (arb_spec c t = true <-> map lc t = vstr c).
Proof. intros W A. rewrite (arb_spec_iff c t W), (py_lower_ascii t A). reflexivity. Qed.

(* a text that matches consists of ASCII characters and, at most, U+212A KELVIN SIGN (which str.lower() maps to 'k') *)
Theorem arb_match_chars c t : VMeaning.wf_version c -> arb_spec c t = true ->
  forallb (fun x => is_ascii x || (x =? 8490)) t = true.
Proof.
  intros W H. apply (arb_spec_iff c t W) in H. pose proof (allC_ascii _ (vstr_alphabet c W)) as A. rewrite <- H in A. clear H W.
  induction t as [|x t IH]; cbn [forallb]; auto. cbn [py_lower flat_map] in A. fold (py_lower t) in A.
  rewrite forallb_app in A. apply andb_prop in A as [A1 A2]. rewrite (IH A2), andb_true_r.
  unfold py_lower_c in A1. destruct ((65 <=? x) && (x <=? 90)) eqn:U.
  - apply andb_prop in U as [_ U]. apply N.leb_le in U. unfold is_ascii. rewrite (proj2 (N.ltb_lt x 128)) by lia. reflexivity.
  - destruct (x =? 304) eqn:E1; [discriminate A1|]. destruct (x =? 8490); [apply orb_true_r|].
    cbn [forallb] in A1. now rewrite andb_true_r in A1; rewrite A1.
Qed.

(* non-vacuity: str(1!2.0rc1.post3.dev4+ab.5) is its own lower-casing; "===1.0+K" matches 1.0+k, "===1.0+İ" does not match 1.0+i *)
Definition arb_check : bool :=
  VMeaning.str_eqb (py_lower (vstr ex_v)) (vstr ex_v) && allC (vstr ex_v) &&
  match Version [49;46;48;43;107], Version [49;46;48;43;105] with
  | Some k, Some i => arb_spec k [49;46;48;43;8490] && negb (arb_spec i [49;46;48;43;304]) && arb_spec k [49;46;48;43;75]
  | _, _ => false end.
Example arb_nonvacuous : arb_check = true.
Proof. vm_compute. reflexivity. Qed.
Print Assumptions arb_spec_iff.
Print Assumptions arb_match_chars.
