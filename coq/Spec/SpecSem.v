(* The PEP 440 meaning of a specifier on structured versions (the statement of C03), and its link to the string model. *)
From Coq Require Import List Arith NArith Bool Lia.
Import ListNotations.
Require Import S1 VParse VComplete VTop VTop2 VDec Py VMeaning VCmp SpecModel SpecOps SpecOps2 Prefix Prefix4 Compat SpecParse SpecSound SpecContains.
Open Scope N_scope.

(* what the text of a specifier denotes *)
Inductive sform :=
| FVer (V : version)                 (* an ordinary version *)
| FWild (V : version)                (* V.*  : V is the plain version epoch!release *)
| FArb (t : str).                    (* ===t *)

Definition interp (sp : specifier) : option sform :=
  match sp_op sp with
  | OArb => Some (FArb (sp_text sp))
  | OEq | ONe =>
      if ends_dotstar (sp_text sp) then option_map FWild (Version (drop2 (sp_text sp)))
      else option_map FVer (Version (sp_text sp))
  | _ => option_map FVer (Version (sp_text sp))
  end.

(* the operator semantics of the property statement, pre-releases enabled *)
Definition arb_spec (c : version) (t : str) : bool := VMeaning.str_eqb (py_lower (vstr c)) (py_lower t).
Definition sem (o : oper) (f : sform) (c : version) : option bool :=
  match o, f with
  | OEq, FVer V => Some (eq_spec c V)
  | ONe, FVer V => Some (negb (eq_spec c V))
  | OEq, FWild V => Some (prefix_spec c V)
  | ONe, FWild V => Some (negb (prefix_spec c V))
  | OCompat, FVer V => Some (compat_spec c V)
  | OLe, FVer V => Some (le_spec c V)
  | OGe, FVer V => Some (ge_spec c V)
  | OLt, FVer V => Some (lt_spec c V)
  | OGt, FVer V => Some (gt_spec c V)
  | OArb, FArb t => Some (arb_spec c t)
  | _, _ => None
  end.

(* well-formedness of the denotation w.r.t. the operator: the C12 form table on the semantic side *)
Definition plain (V : version) : Prop := Py.pre V = None /\ Py.post V = None /\ Py.dev V = None /\ Py.local V = None.
Definition form_ok (o : oper) (f : sform) : Prop :=
  match o, f with
  | (OEq | ONe), FVer V => VMeaning.wf_version V
  | (OEq | ONe), FWild V => VMeaning.wf_version V /\ plain V
  | OCompat, FVer V => VMeaning.wf_version V /\ Py.local V = None /\ (2 <= length (Py.release V))%nat
  | (OLe | OGe | OLt | OGt), FVer V => VMeaning.wf_version V /\ Py.local V = None
  | OArb, FArb _ => True
  | _, _ => False
  end.

(* contains(item, prereleases=True) on the spec side *)
Definition contains_spec (sp : specifier) (item : str) : option outcome :=
  match interp sp with
  | None => None
  | Some f => match Version item with
              | None => Some BadItem
              | Some c => option_map Ans (sem (sp_op sp) f c)
              end
  end.
