(* C03 main theorem: the string-level code model of contains() equals the declarative semantics, for every operator. *)
From Coq Require Import List Arith NArith Bool Lia.
Import ListNotations.
Require Import S1 VParse VComplete VTop VTop2 VDec Py VMeaning VCanon VCanon2 VCanon3 VCmp SpecModel SpecOps SpecOps2 Prefix Prefix2 Prefix3 Prefix4 Compat SpecParse SpecSound SpecContains SpecSem VWf VKeyEq.
Open Scope N_scope.
Arguments N.eqb : simpl never.
Arguments N.leb : simpl never.

Lemma interp_ver sp V : interp sp = Some (FVer V) -> Version (sp_text sp) = Some V /\ (match sp_op sp with OEq | ONe => ends_dotstar (sp_text sp) = false | OArb => False | _ => True end).
Proof.
  unfold interp. destruct (sp_op sp); try (destruct (Version (sp_text sp)); cbn; intros [= <-]; auto; fail); try discriminate.
  - destruct (ends_dotstar (sp_text sp)). destruct (Version (drop2 _)); discriminate. destruct (Version (sp_text sp)); cbn; intros [= <-]; auto.
  - destruct (ends_dotstar (sp_text sp)). destruct (Version (drop2 _)); discriminate. destruct (Version (sp_text sp)); cbn; intros [= <-]; auto.
Qed.
Lemma interp_wild sp V : interp sp = Some (FWild V) -> Version (drop2 (sp_text sp)) = Some V /\ ends_dotstar (sp_text sp) = true /\ (sp_op sp = OEq \/ sp_op sp = ONe).
Proof.
  unfold interp. destruct (sp_op sp); try (destruct (Version (sp_text sp)); discriminate); try discriminate.
  - destruct (ends_dotstar (sp_text sp)). destruct (Version (drop2 _)); cbn; intros [= <-]; auto. destruct (Version (sp_text sp)); discriminate.
  - destruct (ends_dotstar (sp_text sp)). destruct (Version (drop2 _)); cbn; intros [= <-]; auto. destruct (Version (sp_text sp)); discriminate.
Qed.

Theorem compare_op_spec sp f c : VMeaning.wf_version c -> interp sp = Some f -> form_ok (sp_op sp) f ->
  compare_op (sp_op sp) c (sp_text sp) = sem (sp_op sp) f c.
Proof.
  intros Wc I F. destruct f as [V|V|t].
  - destruct (interp_ver sp V I) as [PV E]. destruct (sp_op sp) eqn:O; cbn [form_ok] in F; cbn [compare_op sem].
    + destruct F as (WV & NL & Two). now apply cmp_compat_spec.
    + unfold cmp_eq. rewrite E. now apply cmp_eq_spec.
    + unfold cmp_eq. rewrite E. rewrite (cmp_eq_spec c V (sp_text sp)) by assumption. reflexivity.
    + destruct F as (WV & NL). now apply cmp_le_spec.
    + destruct F as (WV & NL). now apply cmp_ge_spec.
    + destruct F as (WV & NL). now apply cmp_lt_spec.
    + destruct F as (WV & NL). apply cmp_gt_spec; auto. unfold has_local. now rewrite NL.
    + contradiction.
  - destruct (interp_wild sp V I) as (PV & E & [O|O]); rewrite O in *; cbn [form_ok] in F; destruct F as (WV & PL); cbn [compare_op sem]; unfold cmp_eq; rewrite E.
    + now rewrite (cmp_eq_prefix_spec c V (drop2 (sp_text sp))).
    + cbn [option_map]. now rewrite (cmp_eq_prefix_spec c V (drop2 (sp_text sp))).
  - unfold interp in I. destruct (sp_op sp) eqn:O; cbn [form_ok] in F; try contradiction.
    injection I as <-. reflexivity.
Qed.

Theorem contains_is_spec sp f item : interp sp = Some f -> form_ok (sp_op sp) f ->
  Some (contains sp None (Some true) item) = contains_spec sp item.
Proof.
  intros I F. unfold contains, contains_spec. rewrite I. destruct (Version item) as [c|] eqn:E; [|reflexivity].
  rewrite andb_false_r. rewrite (compare_op_spec sp f c (Version_wf _ _ E) I F).
  destruct f as [V|V|t]; destruct (sp_op sp); cbn [sem form_ok] in *; try contradiction; reflexivity.
Qed.
