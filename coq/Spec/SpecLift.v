(* C04: every clause of the statement on contains() of the string-level code model (not only on the operator specifications),
   the equal-candidate / local-label laws under every pre-release setting, and the exact scope of the complement clause. *)
From Coq Require Import List Arith NArith Bool Lia.
Import ListNotations.
Require Import S1 VParse VComplete VTop VTop2 VDec Py VMeaning VCanon VCmp SpecModel SpecOps SpecOps2 Prefix Prefix4 Compat Order Canon SpecEq Laws SpecParse SpecSound SpecContains SpecSem SpecMain LawsAll SpecCut SpecLink SpecEqual SpecGate VWf VKeyEq.
Open Scope N_scope.
Arguments N.eqb : simpl never.
Arguments N.leb : simpl never.

Definition spec_of (o : oper) (t : str) : specifier := {| sp_op := o; sp_text := t |}.
Definition hasT (sp : specifier) (item : str) : outcome := contains sp None (Some true) item.

(* ---- contains(prereleases=True) of an ordering / compatible-release specifier whose text is a version, in one step ---- *)
Definition ord_op (o : oper) : Prop := o = OLe \/ o = OGe \/ o = OLt \/ o = OGt.
Lemma hasT_ver o t V a c : (ord_op o \/ o = OCompat /\ (2 <= length (Py.release V))%nat) ->
  Version t = Some V -> Py.local V = None -> Version a = Some c ->
  exists b, sem o (FVer V) c = Some b /\ hasT (spec_of o t) a = Ans b.
Proof.
  intros O PV NL Ha. pose proof (Version_wf _ _ PV) as WV.
  assert (I : interp (spec_of o t) = Some (FVer V)).
  { unfold interp, spec_of; cbn [sp_op sp_text]. destruct O as [[->|[->|[->| ->]]]|[-> _]]; now rewrite PV. }
  assert (F : form_ok (sp_op (spec_of o t)) (FVer V)).
  { cbn [spec_of sp_op]. destruct O as [[->|[->|[->| ->]]]|[-> Two]]; cbn [form_ok]; auto. }
  pose proof (contains_is_spec _ _ a I F) as H. unfold contains_spec in H. rewrite I, Ha in H. cbn [spec_of sp_op] in H.
  destruct (sem o (FVer V) c) as [b|] eqn:S.
  - exists b. split; auto. cbn [option_map] in H. unfold hasT. congruence.
  - destruct O as [[->|[->|[->| ->]]]|[-> _]]; discriminate S.
Qed.
Lemma hasT_ord o t V a c : ord_op o -> Version t = Some V -> Py.local V = None -> Version a = Some c ->
  exists b, sem o (FVer V) c = Some b /\ hasT (spec_of o t) a = Ans b.
Proof. intros O. apply hasT_ver. now left. Qed.

(* the full order on versions refines the order on their public parts *)
Lemma full_order_public c c' : vcmp c c' <> Gt -> vcmp (drop_local c) (drop_local c') <> Gt.
Proof.
  rewrite (vcmp_core c c'), (vcmp_core (drop_local c) (drop_local c')), core_drop_local.
  change (core_cmp c (drop_local c')) with (core_cmp c c'). cbn [drop_local Py.local local_cmp]. rewrite VCmp.thenc_eq_r.
  destruct (core_cmp c c'); cbn [thenc]; congruence.
Qed.

Section Clauses56.
Variables (t : str) (V : version).
Hypothesis PV : Version t = Some V.
Hypothesis NL : Py.local V = None.       (* what the grammar demands after <= >= < > (C12) *)

(* 5. >=V upward closed, <=V downward closed (already in the order of public versions; hence in the full order), together covering *)
Theorem ge_upward_contains a b c c' : Version a = Some c -> Version b = Some c' ->
  hasT (spec_of OGe t) a = Ans true -> vcmp (drop_local c) (drop_local c') <> Gt -> hasT (spec_of OGe t) b = Ans true.
Proof.
  intros Ha Hb H1 O.
  destruct (hasT_ord OGe t V a c ltac:(unfold ord_op; auto) PV NL Ha) as (b1 & S1 & E1).
  destruct (hasT_ord OGe t V b c' ltac:(unfold ord_op; auto) PV NL Hb) as (b2 & S2 & E2).
  cbn [sem] in S1, S2. rewrite E1 in H1. injection H1 as ->. injection S1 as S1. injection S2 as S2.
  rewrite E2, <- S2. f_equal. exact (C04_ge_upward c c' V S1 O).
Qed.
Theorem le_downward_contains a b c c' : Version a = Some c -> Version b = Some c' ->
  hasT (spec_of OLe t) a = Ans true -> vcmp (drop_local c') (drop_local c) <> Gt -> hasT (spec_of OLe t) b = Ans true.
Proof.
  intros Ha Hb H1 O.
  destruct (hasT_ord OLe t V a c ltac:(unfold ord_op; auto) PV NL Ha) as (b1 & S1 & E1).
  destruct (hasT_ord OLe t V b c' ltac:(unfold ord_op; auto) PV NL Hb) as (b2 & S2 & E2).
  cbn [sem] in S1, S2. rewrite E1 in H1. injection H1 as ->. injection S1 as S1. injection S2 as S2.
  rewrite E2, <- S2. f_equal. exact (C04_le_downward c c' V S1 O).
Qed.
Theorem ge_le_cover_contains a c : Version a = Some c ->
  exists b1 b2, hasT (spec_of OGe t) a = Ans b1 /\ hasT (spec_of OLe t) a = Ans b2 /\ b1 || b2 = true.
Proof.
  intros Ha.
  destruct (hasT_ord OGe t V a c ltac:(unfold ord_op; auto) PV NL Ha) as (b1 & S1 & E1).
  destruct (hasT_ord OLe t V a c ltac:(unfold ord_op; auto) PV NL Ha) as (b2 & S2 & E2).
  exists b1, b2. repeat split; auto. cbn [sem] in S1, S2. injection S1 as <-. injection S2 as <-. apply C04_ge_le_cover.
Qed.

(* 6. <V inside <=V, >V inside >=V; neither matches V or a local version of V, in any spelling *)
Theorem lt_inside_le_contains a c : Version a = Some c -> hasT (spec_of OLt t) a = Ans true -> hasT (spec_of OLe t) a = Ans true.
Proof.
  intros Ha H1.
  destruct (hasT_ord OLt t V a c ltac:(unfold ord_op; auto) PV NL Ha) as (b1 & S1 & E1).
  destruct (hasT_ord OLe t V a c ltac:(unfold ord_op; auto) PV NL Ha) as (b2 & S2 & E2).
  cbn [sem] in S1, S2. rewrite E1 in H1. injection H1 as ->. injection S1 as S1. injection S2 as S2.
  rewrite E2, <- S2. f_equal. exact (C04_lt_sub_le c V NL S1).
Qed.
Theorem gt_inside_ge_contains a c : Version a = Some c -> hasT (spec_of OGt t) a = Ans true -> hasT (spec_of OGe t) a = Ans true.
Proof.
  intros Ha H1.
  destruct (hasT_ord OGt t V a c ltac:(unfold ord_op; auto) PV NL Ha) as (b1 & S1 & E1).
  destruct (hasT_ord OGe t V a c ltac:(unfold ord_op; auto) PV NL Ha) as (b2 & S2 & E2).
  cbn [sem] in S1, S2. rewrite E1 in H1. injection H1 as ->. injection S1 as S1. injection S2 as S2.
  rewrite E2, <- S2. f_equal. exact (C04_gt_sub_ge c V S1).
Qed.
Theorem strict_never_match_contains a c : Version a = Some c -> vcmp (drop_local c) V = Eq ->
  hasT (spec_of OLt t) a = Ans false /\ hasT (spec_of OGt t) a = Ans false.
Proof.
  intros Ha E.
  destruct (hasT_ord OLt t V a c ltac:(unfold ord_op; auto) PV NL Ha) as (b1 & S1 & E1).
  destruct (hasT_ord OGt t V a c ltac:(unfold ord_op; auto) PV NL Ha) as (b2 & S2 & E2).
  cbn [sem] in S1, S2. injection S1 as S1. injection S2 as S2.
  destruct (C04_strict_excludes_locals_of_V c V NL E) as [L G]. rewrite E1, E2, <- S1, <- S2, L, G. auto.
Qed.
(* in particular V's own text, and V's text with a local label appended, are never matched *)
Corollary strict_never_match_own_text : hasT (spec_of OLt t) t = Ans false /\ hasT (spec_of OGt t) t = Ans false.
Proof.
  apply (strict_never_match_contains t V PV).
  assert (D : drop_local V = V) by (destruct V; cbn in *; now subst). rewrite D. apply (ok_refl _ pep440_cmp_ok).
Qed.
End Clauses56.

Corollary ge_upward_contains_full_order t V a b c c' : Version t = Some V -> Py.local V = None -> Version a = Some c -> Version b = Some c' ->
  hasT (spec_of OGe t) a = Ans true -> vcmp c c' <> Gt -> hasT (spec_of OGe t) b = Ans true.
Proof. intros PV NL Ha Hb H O. exact (ge_upward_contains t V PV NL a b c c' Ha Hb H (full_order_public c c' O)). Qed.
Corollary le_downward_contains_full_order t V a b c c' : Version t = Some V -> Py.local V = None -> Version a = Some c -> Version b = Some c' ->
  hasT (spec_of OLe t) a = Ans true -> vcmp c' c <> Gt -> hasT (spec_of OLe t) b = Ans true.
Proof. intros PV NL Ha Hb H O. exact (le_downward_contains t V PV NL a b c c' Ha Hb H (full_order_public c' c O)). Qed.

(* ---- 2. ~=V is the intersection of the specifier >=V and the specifier ==P.* where P = V's epoch and release minus its last component ---- *)
Definition prefix_text (V : version) : str := version_join (dec (Py.epoch V) :: map dec (removelast (Py.release V))) ++ [46; 42].
Theorem compat_is_intersection_contains t V a c :
  Version t = Some V -> Py.local V = None -> (2 <= length (Py.release V))%nat -> Version a = Some c ->
  exists b1 b2,
    hasT (spec_of OGe t) a = Ans b1 /\ hasT (spec_of OEq (prefix_text V)) a = Ans b2 /\ hasT (spec_of OCompat t) a = Ans (b1 && b2).
Proof.
  intros PV NL Two Ha.
  destruct (hasT_ord OGe t V a c ltac:(unfold ord_op; auto) PV NL Ha) as (b1 & S1 & E1).
  destruct (hasT_ver OCompat t V a c ltac:(right; auto) PV NL Ha) as (b3 & S3 & E3).
  cbn [sem] in S1, S3. injection S1 as S1. injection S3 as S3.
  destruct (Py.release V) as [|x [|y r]] eqn:ER; cbn [length] in Two; try lia.
  set (P := plain_v (Py.epoch V) (x :: removelast (y :: r))).
  assert (PT : prefix_text V = version_join (dec (Py.epoch V) :: map dec (x :: removelast (y :: r))) ++ [46; 42]).
  { unfold prefix_text. rewrite ER. reflexivity. }
  assert (I : interp (spec_of OEq (prefix_text V)) = Some (FWild P)).
  { unfold interp, spec_of; cbn [sp_op sp_text]. rewrite PT, ends_dotstar_app, drop2_app, Version_join. reflexivity. }
  assert (F : form_ok (sp_op (spec_of OEq (prefix_text V))) (FWild P)).
  { cbn [spec_of sp_op form_ok]. split; [|repeat split]. repeat split; cbn; auto. discriminate. }
  pose proof (contains_is_spec _ _ a I F) as H. unfold contains_spec in H. rewrite I, Ha in H. cbn [spec_of sp_op sem option_map] in H.
  exists b1, (prefix_spec c P). split; [exact E1|]. split; [unfold hasT; congruence|].
  rewrite E3, <- S3, <- S1. unfold compat_spec. rewrite ER. reflexivity.
Qed.

(* ---- 3./4. equal candidates and the local label, under every pre-release setting (object setting and call argument) ---- *)
Theorem equal_candidates_any_setting sp f ov arg a b c c' :
  interp sp = Some f -> form_ok (sp_op sp) f -> sp_op sp <> OArb ->
  Version a = Some c -> Version b = Some c' -> pep440_cmp c c' = Eq -> contains sp ov arg a = contains sp ov arg b.
Proof.
  intros I F NA Ha Hb E. rewrite !(contains_is_form sp f ov arg _ I F). unfold contains_form. rewrite Ha, Hb.
  pose proof (Version_wf _ _ Ha) as W. pose proof (Version_wf _ _ Hb) as W'.
  now rewrite (eqc_pre c c' W W' E), (sem_equal_candidates c c' W W' E _ f NA).
Qed.
Theorem local_label_irrelevant_any_setting sp f ov arg a b c l :
  interp sp = Some f -> form_ok (sp_op sp) f -> sp_op sp <> OArb -> no_local_form f ->
  Version a = Some c -> Py.local c = None -> Version b = Some (add_local c l) -> contains sp ov arg a = contains sp ov arg b.
Proof.
  intros I F NA NF Ha NC Hb. rewrite !(contains_is_form sp f ov arg _ I F). unfold contains_form. rewrite Ha, Hb.
  change (is_prerelease (add_local c l)) with (is_prerelease c). now rewrite (sem_local_irrelevant _ f c l NA NF NC).
Qed.

(* ---- 1. the exact scope of "!= is the complement of ==": candidates that pass the pre-release gate ---- *)
(* under every setting, for every candidate that is not a pre-release *)
Theorem ne_complement_non_prerelease t f ov arg a c :
  interp (spec_of OEq t) = Some f -> form_ok OEq f -> Version a = Some c -> is_prerelease c = false ->
  exists b, contains (spec_of OEq t) ov arg a = Ans b /\ contains (spec_of ONe t) ov arg a = Ans (negb b).
Proof.
  intros I F Ha NP.
  assert (I' : interp (spec_of ONe t) = Some f) by exact I.
  assert (F' : form_ok ONe f) by (destruct f; exact F).
  rewrite (contains_is_form _ f ov arg a I F), (contains_is_form _ f ov arg a I' F'). unfold contains_form. rewrite Ha, NP. cbn [andb spec_of sp_op].
  rewrite sem_ne_complement. destruct (sem OEq f c) as [b|] eqn:S.
  - exists b. auto.
  - destruct f; cbn in S, F; try discriminate; contradiction.
Qed.
(* ... and it fails for every pre-release candidate once the gate is closed for both specifiers: both answer False *)
Theorem ne_complement_fails_when_gated t ov arg a c : Version a = Some c -> is_prerelease c = true ->
  gate_setting (spec_of OEq t) ov arg = false -> gate_setting (spec_of ONe t) ov arg = false ->
  contains (spec_of OEq t) ov arg a = Ans false /\ contains (spec_of ONe t) ov arg a = Ans false.
Proof.
  intros Ha P G1 G2. split; [exact (gate_closed _ ov arg a c Ha G1 P) | exact (gate_closed _ ov arg a c Ha G2 P)].
Qed.

(* ---- every clause under EVERY setting, for candidates that pass the pre-release gate ----
   A candidate passes the gate of every specifier when it is no pre-release, or when pre-releases are enabled independently of the
   specifier (call argument True, or no argument and object setting True). Then contains() is the prereleases=True answer, so each
   law above transfers.  (For a pre-release candidate under a closed or operator-dependent gate the laws fail: ne_complement_fails_when_gated,
   and e.g. >=1.0 is not upward closed from 1.0 to 1.1a1 by default.) *)
Definition enabled (ov arg : option bool) : bool :=
  match arg with Some b => b | None => match ov with Some b => b | None => false end end.
Definition passes (ov arg : option bool) (c : version) : Prop := is_prerelease c = false \/ enabled ov arg = true.
Lemma enabled_gate sp ov arg : enabled ov arg = true -> gate_setting sp ov arg = true.
Proof. unfold enabled, gate_setting, effective_pre. destruct arg as [b|]; auto. destruct ov as [b|]; auto. discriminate. Qed.
Theorem contains_gate_passed sp ov arg a c : Version a = Some c -> passes ov arg c -> contains sp ov arg a = hasT sp a.
Proof.
  intros Ha P. unfold hasT, contains. rewrite Ha. rewrite andb_false_r.
  destruct P as [P|P]; [now rewrite P | fold (gate_setting sp ov arg); now rewrite (enabled_gate sp ov arg P), andb_false_r].
Qed.

Section AnySetting.
Variables (t : str) (V : version) (ov arg : option bool).
Hypothesis PV : Version t = Some V.
Hypothesis NL : Py.local V = None.
Notation C o x := (contains (spec_of o t) ov arg x).

Theorem ge_upward_any_setting a b c c' : Version a = Some c -> Version b = Some c' -> passes ov arg c -> passes ov arg c' ->
  C OGe a = Ans true -> vcmp (drop_local c) (drop_local c') <> Gt -> C OGe b = Ans true.
Proof.
  intros Ha Hb Pa Pb. rewrite (contains_gate_passed _ ov arg a c Ha Pa), (contains_gate_passed _ ov arg b c' Hb Pb).
  exact (ge_upward_contains t V PV NL a b c c' Ha Hb).
Qed.
Theorem le_downward_any_setting a b c c' : Version a = Some c -> Version b = Some c' -> passes ov arg c -> passes ov arg c' ->
  C OLe a = Ans true -> vcmp (drop_local c') (drop_local c) <> Gt -> C OLe b = Ans true.
Proof.
  intros Ha Hb Pa Pb. rewrite (contains_gate_passed _ ov arg a c Ha Pa), (contains_gate_passed _ ov arg b c' Hb Pb).
  exact (le_downward_contains t V PV NL a b c c' Ha Hb).
Qed.
Theorem cover_any_setting a c : Version a = Some c -> passes ov arg c ->
  exists b1 b2, C OGe a = Ans b1 /\ C OLe a = Ans b2 /\ b1 || b2 = true.
Proof. intros Ha P. rewrite !(contains_gate_passed _ ov arg a c Ha P). exact (ge_le_cover_contains t V PV NL a c Ha). Qed.
Theorem lt_inside_le_any_setting a c : Version a = Some c -> passes ov arg c -> C OLt a = Ans true -> C OLe a = Ans true.
Proof. intros Ha P. rewrite !(contains_gate_passed _ ov arg a c Ha P). exact (lt_inside_le_contains t V PV NL a c Ha). Qed.
Theorem gt_inside_ge_any_setting a c : Version a = Some c -> passes ov arg c -> C OGt a = Ans true -> C OGe a = Ans true.
Proof. intros Ha P. rewrite !(contains_gate_passed _ ov arg a c Ha P). exact (gt_inside_ge_contains t V PV NL a c Ha). Qed.
(* never matching V or a local version of V needs no gate hypothesis: a closed gate answers False as well *)
Theorem strict_never_match_any_setting a c : Version a = Some c -> vcmp (drop_local c) V = Eq -> C OLt a = Ans false /\ C OGt a = Ans false.
Proof.
  intros Ha E. destruct (strict_never_match_contains t V PV NL a c Ha E) as [L G]. unfold hasT, contains in L, G |- *. rewrite Ha in *.
  cbn [negb] in L, G. rewrite andb_false_r in L, G. split.
  - destruct (is_prerelease c && negb (match arg with Some b => b | None => effective_pre ov (spec_of OLt t) end)); auto.
  - destruct (is_prerelease c && negb (match arg with Some b => b | None => effective_pre ov (spec_of OGt t) end)); auto.
Qed.
Theorem compat_intersection_any_setting a c : (2 <= length (Py.release V))%nat -> Version a = Some c -> passes ov arg c ->
  exists b1 b2, C OGe a = Ans b1 /\ contains (spec_of OEq (prefix_text V)) ov arg a = Ans b2 /\ C OCompat a = Ans (b1 && b2).
Proof. intros Two Ha P. rewrite !(contains_gate_passed _ ov arg a c Ha P). exact (compat_is_intersection_contains t V a c PV NL Two Ha). Qed.
End AnySetting.

(* non-vacuity: "~=2.2.post3" = ">=2.2.post3" and "==0!2.*" on 2.3 (T,T,T) and on 3.0 (T,F,F); "!=1.0"/"==1.0" both reject 2.0a1 by default;
   closure: >=2.2.post3 holds 2.3 hence 3.0, <=2.2.post3 holds 2.2 hence 2.1, and 2.2.post3 itself is covered, inside neither < nor >;
   equal candidates under object setting False / no argument: 1.0a1 and 1.0.0.alpha1 compare equal and get the same (False) answer from >=0.9,
   and the same (True) answer once the object setting is True; local label: 1.0+x.1 IS add_local (1.0) [x;1] and is answered like 1.0;
   any-setting: ">=1.0" / "<=1.0" cover 1.1 under every (ov, arg), and do NOT cover the pre-release 1.1a1 by default *)
Definition lift_check : bool :=
  let t := [50;46;50;46;112;111;115;116;51] in
  let ge09 := spec_of OGe [48;46;57] in
  let a1 := [49;46;48;97;49] in let a2 := [49;46;48;46;48;46;97;108;112;104;97;49] in
  let one := [49;46;48] in let onex := [49;46;48;43;120;46;49] in
  let settings := [None; Some true; Some false] in
  match Version t, Version a1, Version a2, Version one, Version onex with
  | Some V, Some c1, Some c2, Some c, Some cx =>
      match hasT (spec_of OGe t) [50;46;51], hasT (spec_of OEq (prefix_text V)) [50;46;51], hasT (spec_of OCompat t) [50;46;51],
            hasT (spec_of OGe t) [51;46;48], hasT (spec_of OEq (prefix_text V)) [51;46;48], hasT (spec_of OCompat t) [51;46;48],
            contains (spec_of OEq [49;46;48]) None None [50;46;48;97;49], contains (spec_of ONe [49;46;48]) None None [50;46;48;97;49] with
      | Ans true, Ans true, Ans true, Ans true, Ans false, Ans false, Ans false, Ans false => true
      | _, _, _, _, _, _, _, _ => false end &&
      match hasT (spec_of OLe t) [50;46;50], hasT (spec_of OLe t) [50;46;49], hasT (spec_of OLe t) t, hasT (spec_of OGe t) t,
            hasT (spec_of OLt t) t, hasT (spec_of OGt t) t, hasT (spec_of OLt t) [50;46;50], hasT (spec_of OGt t) [50;46;51] with
      | Ans true, Ans true, Ans true, Ans true, Ans false, Ans false, Ans true, Ans true => true
      | _, _, _, _, _, _, _, _ => false end &&
      match pep440_cmp c1 c2, contains ge09 (Some false) None a1, contains ge09 (Some false) None a2,
            contains ge09 (Some true) None a1, contains ge09 (Some true) None a2 with
      | Eq, Ans false, Ans false, Ans true, Ans true => true | _, _, _, _, _ => false end &&
      match Py.local c, Py.local cx with
      | None, Some l => VMeaning.str_eqb (vstr cx) (vstr (add_local c l)) &&
                        forallb (fun ov => forallb (fun arg => match contains ge09 ov arg one, contains ge09 ov arg onex with
                                                               | Ans x, Ans y => Bool.eqb x y | _, _ => false end) settings) settings
      | _, _ => false end &&
      forallb (fun ov => forallb (fun arg => match contains (spec_of OGe one) ov arg [49;46;49], contains (spec_of OLe one) ov arg [49;46;49] with
                                             | Ans x, Ans y => x || y | _, _ => false end) settings) settings &&
      match contains (spec_of OGe one) None None [49;46;49;97;49], contains (spec_of OLe one) None None [49;46;49;97;49] with
      | Ans false, Ans false => true | _, _ => false end
  | _, _, _, _, _ => false end.
Example lift_nonvacuous : lift_check = true.
Proof. vm_compute. reflexivity. Qed.
Print Assumptions compat_is_intersection_contains.
Print Assumptions ge_upward_contains.
Print Assumptions equal_candidates_any_setting.
Print Assumptions cover_any_setting.
Print Assumptions strict_never_match_any_setting.
Print Assumptions compat_intersection_any_setting.
