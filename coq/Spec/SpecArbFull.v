(* C03, the === clause against the EXACT model of str.lower() (NamesX.lower_full: the interpreter's full lower-casing table
   Gen/LowerTable.lower_table, re-validated per code point on every run, plus the Final_Sigma rule), not only against the restricted
   VMeaning.py_lower the executable specifier model uses (ASCII + U+0130 + U+212A).
   Key fact, a computation over the 1407 table entries: U+212A KELVIN SIGN is the only non-ASCII code point whose lower-casing is ASCII.
   Hence on every text, "lower_full t = str(c)" and "py_lower t = str(c)" are the same statement, and the model's === is exact. *)
From Coq Require Import List Arith NArith Bool Lia.
Import ListNotations.
Require Import S1 VParse VComplete VTop VTop2 VDec Py VMeaning VCanon VCmp SpecModel SpecOps Prefix Prefix4 SpecParse SpecSound SpecContains SpecSem VAscii VWf SpecArb.
Require Import LowerTable Names NamesX NamesLowerLaws NamesLowerFull.
Open Scope N_scope.
Arguments N.eqb : simpl never.
Arguments N.leb : simpl never.
Arguments N.ltb : simpl never.

Definition ascii_or_kelvin (x : char) : bool := is_ascii x || (x =? 8490).

Lemma only_kelvin :
  forallb (fun p => negb (forallb (fun d => d <? 128) (snd p)) || (fst p <? 128) || (fst p =? 8490)) lower_table = true.
Proof. vm_compute. reflexivity. Qed.

Lemma lower_x_ascii_img x : forallb is_ascii (lower_x x) = true -> ascii_or_kelvin x = true.
Proof.
  unfold lower_x, ascii_or_kelvin, is_ascii. destruct (x <? 128) eqn:A; [reflexivity|]. cbn [orb].
  destruct (find (fun p => fst p =? x) lower_table) as [p|] eqn:F.
  - apply find_some in F as [I E]. apply N.eqb_eq in E. pose proof only_kelvin as K. rewrite forallb_forall in K. specialize (K p I).
    cbn beta in K. intros H. rewrite H, E, A in K. exact K.
  - cbn [forallb]. rewrite A. discriminate.
Qed.
Lemma lower_go_ascii_chars t : forall br, forallb is_ascii (lower_go br t) = true -> forallb ascii_or_kelvin t = true.
Proof.
  induction t as [|x t IH]; intros br; [reflexivity|]. cbn [lower_go forallb]. rewrite forallb_app. intros H.
  apply andb_prop in H as [H1 H2]. rewrite (IH _ H2), andb_true_r. unfold lower_at in H1.
  destruct (x =? 931) eqn:S; [|now apply lower_x_ascii_img].
  exfalso. destruct (final_sigma br t); vm_compute in H1; discriminate H1.
Qed.
Lemma lower_x_ak x : ascii_or_kelvin x = true -> lower_x x = py_lower_c x.
Proof.
  unfold ascii_or_kelvin. intros H. apply orb_prop in H as [H|H].
  - now apply lower_x_ascii.
  - apply N.eqb_eq in H. subst x. vm_compute. reflexivity.
Qed.
Lemma lower_full_ak t : forallb ascii_or_kelvin t = true -> lower_full t = py_lower t.
Proof.
  intros H. unfold lower_full. rewrite lower_go_no_sigma.
  - induction t as [|x t IH]; [reflexivity|]. cbn [forallb] in H. apply andb_prop in H as [H1 H2].
    cbn [py_lower_x py_lower flat_map]. fold (py_lower_x t) (py_lower t). now rewrite (IH H2), (lower_x_ak x H1).
  - intros I. rewrite forallb_forall in H. specialize (H 931 I). discriminate H.
Qed.
Lemma py_lower_ascii_chars t : forallb is_ascii (py_lower t) = true -> forallb ascii_or_kelvin t = true.
Proof.
  induction t as [|x t IH]; cbn [forallb]; auto. cbn [py_lower flat_map]. fold (py_lower t). rewrite forallb_app. intros A.
  apply andb_prop in A as [A1 A2]. rewrite (IH A2), andb_true_r. unfold ascii_or_kelvin.
  unfold py_lower_c in A1. destruct ((65 <=? x) && (x <=? 90)) eqn:U.
  - apply andb_prop in U as [_ U]. apply N.leb_le in U. unfold is_ascii. rewrite (proj2 (N.ltb_lt x 128)) by lia. reflexivity.
  - destruct (x =? 304) eqn:E1; [discriminate A1|]. destruct (x =? 8490); [apply orb_true_r|].
    cbn [forallb] in A1. now rewrite andb_true_r in A1; rewrite A1.
Qed.

Lemma forallb_impl_ak s : forallb is_ascii s = true -> forallb ascii_or_kelvin s = true.
Proof. induction s as [|x s IH]; cbn [forallb]; auto. intros H. apply andb_prop in H as [A B]. rewrite (IH B), andb_true_r. unfold ascii_or_kelvin. now rewrite A. Qed.

(* str(candidate).lower() is str(candidate), with the exact lower-casing too *)
Theorem lower_full_vstr c : VMeaning.wf_version c -> lower_full (vstr c) = vstr c.
Proof.
  intros W. pose proof (allC_ascii _ (vstr_alphabet c W)) as A. rewrite lower_full_ak.
  - now apply py_lower_vstr.
  - apply (forallb_impl_ak (vstr c) A).
Qed.

(* the model's === (py_lower on both sides) IS the code line  str(prospective).lower() == str(spec).lower()  under the exact str.lower() *)
Theorem arb_spec_lower_full c t : VMeaning.wf_version c -> VMeaning.str_eqb (lower_full (vstr c)) (lower_full t) = arb_spec c t.
Proof.
  intros W. rewrite (lower_full_vstr c W). pose proof (allC_ascii _ (vstr_alphabet c W)) as A.
  destruct (VMeaning.str_eqb (vstr c) (lower_full t)) eqn:E1.
  - apply Prefix4.str_eqb_eq in E1. assert (K : forallb ascii_or_kelvin t = true).
    { apply (lower_go_ascii_chars t []). fold (lower_full t). now rewrite <- E1. }
    symmetry. apply (arb_spec_iff c t W). now rewrite <- (lower_full_ak t K).
  - destruct (arb_spec c t) eqn:E2; auto. exfalso. apply (arb_spec_iff c t W) in E2.
    assert (K : forallb ascii_or_kelvin t = true) by (apply py_lower_ascii_chars; now rewrite E2).
    rewrite (lower_full_ak t K), E2, Prefix4.str_eqb_refl in E1. discriminate E1.
Qed.
Corollary cmp_arbitrary_exact c t : VMeaning.wf_version c ->
  cmp_arbitrary c t = Some (VMeaning.str_eqb (lower_full (vstr c)) (lower_full t)).
Proof. intros W. rewrite (arb_spec_lower_full c t W). reflexivity. Qed.

(* ===t matches c exactly when t.lower() (exact) is str(c) *)
Theorem arb_spec_iff_full c t : VMeaning.wf_version c -> (arb_spec c t = true <-> lower_full t = vstr c).
Proof.
  intros W. rewrite <- (arb_spec_lower_full c t W), (lower_full_vstr c W). split.
  - intros H. symmetry. now apply Prefix4.str_eqb_eq.
  - intros <-. apply Prefix4.str_eqb_refl.
Qed.
(* a text whose exact lower-casing is a version's string consists of ASCII characters and, at most, U+212A *)
Theorem arb_match_chars_full c t : VMeaning.wf_version c -> lower_full t = vstr c -> forallb ascii_or_kelvin t = true.
Proof.
  intros W H. apply (lower_go_ascii_chars t []). fold (lower_full t). rewrite H. exact (allC_ascii _ (vstr_alphabet c W)).
Qed.

(* non-vacuity: U+212A matches k, U+0130 / U+017F / final-sigma contexts do not produce ASCII; the table has the Kelvin entry *)
Definition arbfull_check : bool :=
  match Version [49;46;48;43;107], Version [49;46;48;43;115] with
  | Some k, Some s =>
      VMeaning.str_eqb (lower_full [49;46;48;43;8490]) (vstr k) && arb_spec k [49;46;48;43;8490] &&
      negb (VMeaning.str_eqb (lower_full [49;46;48;43;383]) (vstr s)) && negb (arb_spec s [49;46;48;43;383]) &&
      VMeaning.str_eqb (lower_full [65;931]) [97;962] && VMeaning.str_eqb (lower_x 8490) [107]
  | _, _ => false end.
Example arbfull_nonvacuous : arbfull_check = true.
Proof. vm_compute. reflexivity. Qed.
Print Assumptions arb_spec_lower_full.
Print Assumptions arb_spec_iff_full.
Print Assumptions arb_match_chars_full.
