From Coq Require Import List Arith NArith Bool Lia.
Import ListNotations.
Require Import S1 VParse VComplete VTop VTop2 VDec Py VMeaning VCanon VCanon2 VCanon3 VCmp SpecModel SpecOps Prefix Prefix2 Prefix3.
Open Scope N_scope.
Arguments N.eqb : simpl never.
Arguments N.leb : simpl never.

Fixpoint ns_eqb (a b : list N) : bool :=
  match a, b with [], [] => true | x :: a', y :: b' => (x =? y) && ns_eqb a' b' | _, _ => false end.
(* the statement of C03 for ==V.* : epoch equal and V's release a prefix of the candidate's zero-padded release *)
Definition prefix_spec (c V : version) : bool :=
  (Py.epoch c =? Py.epoch V) &&
  ns_eqb (firstn (length (Py.release V)) (Py.release c ++ repeat 0 (length (Py.release V) - length (Py.release c)))) (Py.release V).

Lemma str_eqb_refl s : VMeaning.str_eqb s s = true.
Proof. induction s; cbn; auto. now rewrite N.eqb_refl. Qed.
Lemma str_eqb_eq a b : VMeaning.str_eqb a b = true -> a = b.
Proof.
  revert b; induction a as [|x a IH]; intros [|y b]; cbn; try discriminate; auto.
  intros H. apply andb_prop in H as [H1 H2]. apply N.eqb_eq in H1. subst. f_equal. auto.
Qed.
Lemma dec_inj a b : dec a = dec b -> a = b.
Proof. intros H. apply (f_equal undec) in H. rewrite !undec_dec in H. congruence. Qed.
Lemma str_eqb_dec a b : VMeaning.str_eqb (dec a) (dec b) = (a =? b).
Proof.
  destruct (a =? b) eqn:E.
  - apply N.eqb_eq in E. subst. apply str_eqb_refl.
  - destruct (VMeaning.str_eqb (dec a) (dec b)) eqn:F; auto. apply str_eqb_eq, dec_inj in F. apply N.eqb_neq in E. congruence.
Qed.
Lemma strs_eqb_dec a : forall b, strs_eqb (map dec a) (map dec b) = ns_eqb a b.
Proof. induction a as [|x a IH]; intros [|y b]; cbn; auto. now rewrite str_eqb_dec, IH. Qed.
Lemma isdigit_dec n : str_isdigit (dec n) = true.
Proof. unfold str_isdigit. now rewrite nonempty_dec, dec_digits. Qed.
Lemma takewhile_decs l X : match X with [] => True | x :: _ => str_isdigit x = false end ->
  takewhile str_isdigit (map dec l ++ X) = map dec l.
Proof.
  intros HX. induction l as [|n l IH]; cbn [map app takewhile].
  - destruct X; auto. cbn [takewhile]. now rewrite HX.
  - now rewrite isdigit_dec, IH.
Qed.
Lemma takewhile_decs_nil l : takewhile str_isdigit (map dec l) = map dec l.
Proof. rewrite <- (app_nil_r (map dec l)) at 1. now apply takewhile_decs. Qed.
Lemma map_repeat' {A B} (f : A -> B) x n : map f (repeat x n) = repeat (f x) n.
Proof. induction n; cbn; auto. now rewrite IHn. Qed.
Lemma firstn_map' {A B} (f : A -> B) n l : firstn n (map f l) = map f (firstn n l).
Proof. revert l; induction n; intros [|x l]; cbn; auto. now rewrite IHn. Qed.
Lemma skipn_app_exact {A} (a b : list A) : skipn (length a) (a ++ b) = b.
Proof. induction a; cbn; auto. Qed.
Lemma firstn_app_le {A} n (a b : list A) : (n <= length a)%nat -> firstn n (a ++ b) = firstn n a.
Proof. intros H. rewrite firstn_app. replace (n - length a)%nat with 0%nat by lia. cbn. now rewrite app_nil_r. Qed.

Section PS.
Variables (c V : version) (t : str).
Hypothesis Wc : VMeaning.wf_version c.
Hypothesis WV : VMeaning.wf_version V.
Hypothesis PV : Version t = Some V.
Hypothesis Vplain : Py.pre V = None /\ Py.post V = None /\ Py.dev V = None /\ Py.local V = None.   (* the grammar of ==V.* (C12) *)

Lemma letter_item_not_digit p : wf_lvp p -> str_isdigit (lv_txt p) = false.
Proof.
  intros H. unfold str_isdigit. pose proof (hd_lv_not_digit p H) as Hd.
  destruct (lv_txt p) as [|x r]; auto. cbn in *. now rewrite Hd.
Qed.

Theorem cmp_eq_prefix_spec : cmp_eq_prefix c t = prefix_spec c V.
Proof.
  destruct Vplain as (V1 & V2 & V3 & V4).
  unfold cmp_eq_prefix, canon_nostrip. rewrite Version_public, PV by assumption.
  rewrite (version_split_vstr V WV V4). rewrite (version_split_vstr (drop_local c) (wf_drop_local c Wc) eq_refl).
  unfold pre_items, sfx_items. rewrite V1, V2, V3. cbn [app drop_local Py.epoch Py.release Py.pre Py.post Py.dev]. rewrite app_nil_r.
  set (X := match Py.pre c with Some p => [lv_txt p] | None => [] end ++
            match Py.post c with Some p => [lv_txt p] | None => [] end ++ match Py.dev c with Some p => [lv_txt p] | None => [] end).
  assert (HX : match X with [] => True | x :: _ => str_isdigit x = false end).
  { subst X. pose proof (wf_pre_p c Wc) as P. pose proof (wf_sfx c Wc) as S.
    destruct (Py.pre c) as [p|]; cbn [app]; [now apply letter_item_not_digit|].
    destruct (Py.post c) as [q|]; cbn [app] in *; [inversion S; now apply letter_item_not_digit|].
    destruct (Py.dev c) as [d|]; cbn [app] in *; [inversion S; now apply letter_item_not_digit|exact I]. }
  unfold pad_version.
  change (dec (Py.epoch c) :: map dec (Py.release c) ++ X) with (map dec (Py.epoch c :: Py.release c) ++ X).
  change (dec (Py.epoch V) :: map dec (Py.release V)) with (map dec (Py.epoch V :: Py.release V)).
  rewrite takewhile_decs by assumption.
  rewrite takewhile_decs_nil.
  rewrite skipn_app_exact. rewrite !map_length. cbn [length].
  replace (repeat [48] (S (length (Py.release V)) - S (length (Py.release c))))
    with (map dec (repeat 0 (length (Py.release V) - length (Py.release c)))) by (rewrite map_repeat'; reflexivity).
  rewrite app_assoc, <- map_app.
  rewrite firstn_app_le by (rewrite map_length, app_length, repeat_length; cbn [length]; lia).
  rewrite firstn_map'. rewrite strs_eqb_dec.
  cbn [app firstn ns_eqb]. unfold prefix_spec. reflexivity.
Qed.
End PS.
Print Assumptions cmp_eq_prefix_spec.
