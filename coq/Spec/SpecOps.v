From Coq Require Import List Arith NArith Bool Lia.
Import ListNotations.
Require Import S1 VParse VComplete VTop VTop2 VDec Py VMeaning VCanon VCanon2 VCanon3 VCmp SpecModel.
Open Scope N_scope.

Definition bind {A B} (x : option A) (f : A -> option B) : option B := match x with Some a => f a | None => None end.
Notation "x <- e ;; f" := (bind e (fun x => f)) (at level 61, e at next level, right associativity).

Definition has_local (v : version) : bool := match Py.local v with Some _ => true | None => false end.
Definition vrich (o : cop) (a b : version) : option bool := rich o (key a) (key b).

(* ---- the comparison methods of Specifier, as written (None = an exception escapes) ---- *)
Definition cmp_le (c : version) (spec : str) : option bool :=
  p <- Version (public_str c) ;; s <- Version spec ;; vrich Le_ p s.
Definition cmp_ge (c : version) (spec : str) : option bool :=
  p <- Version (public_str c) ;; s <- Version spec ;; vrich Ge_ p s.
Definition cmp_eq_plain (c : version) (spec : str) : option bool :=
  s <- Version spec ;;
  p <- (if has_local s then Some c else Version (public_str c)) ;;
  vrich Eq_ p s.
Definition same_base (a b : version) : option bool :=
  x <- Version (base_str a) ;; y <- Version (base_str b) ;; vrich Eq_ x y.
Definition cmp_lt (c : version) (spec : str) : option bool :=
  s <- Version spec ;;
  b <- vrich Lt_ c s ;;
  if negb b then Some false
  else if negb (is_prerelease s) && is_prerelease c then (e <- same_base c s ;; Some (negb e))
  else Some true.
(* with the D2 repair: only local versions of V itself are excluded *)
Definition cmp_gt (c : version) (spec : str) : option bool :=
  s <- Version spec ;;
  b <- vrich Gt_ c s ;;
  if negb b then Some false
  else
    e1 <- (if negb (is_postrelease s) && is_postrelease c then same_base c s else Some false) ;;
    if e1 then Some false
    else if has_local c then (p <- Version (public_str c) ;; e2 <- vrich Eq_ p s ;; Some (negb e2))
    else Some true.

(* ---- the PEP 440 definitions on structured versions ---- *)
Definition vcmp := pep440_cmp.
Definition le_spec (c V : version) : bool := negb (of_cmp Gt_ (vcmp (drop_local c) V)).
Definition ge_spec (c V : version) : bool := negb (of_cmp Lt_ (vcmp (drop_local c) V)).
Definition eq_spec (c V : version) : bool :=
  of_cmp Eq_ (vcmp (if has_local V then c else drop_local c) V).
Definition lt_spec (c V : version) : bool :=
  of_cmp Lt_ (vcmp c V) &&
  negb (negb (is_prerelease V) && is_prerelease c && of_cmp Eq_ (vcmp (base_of c) (base_of V))).
Definition gt_spec (c V : version) : bool :=
  of_cmp Gt_ (vcmp (drop_local c) V) &&
  negb (negb (is_postrelease V) && is_postrelease c && of_cmp Eq_ (vcmp (base_of c) (base_of V))).

Lemma wf_c01 v : VMeaning.wf_version v -> VCmp.wf_version v.
Proof. intros (_ & A & B & C & _). repeat split; auto. Qed.
Lemma vrich_spec o a b : VMeaning.wf_version a -> VMeaning.wf_version b -> vrich o a b = Some (of_cmp o (vcmp a b)).
Proof. intros. apply C01_rich_is_pep440; now apply wf_c01. Qed.

Section Ops.
Variables (c V : version) (t : str).
Hypothesis Wc : VMeaning.wf_version c.
Hypothesis WV : VMeaning.wf_version V.
Hypothesis PV : Version t = Some V.

Theorem cmp_le_spec : cmp_le c t = Some (le_spec c V).
Proof.
  unfold cmp_le. rewrite Version_public, PV by assumption. cbn [bind].
  rewrite vrich_spec by auto using wf_drop_local. unfold le_spec. destruct (vcmp (drop_local c) V); reflexivity.
Qed.
Theorem cmp_ge_spec : cmp_ge c t = Some (ge_spec c V).
Proof.
  unfold cmp_ge. rewrite Version_public, PV by assumption. cbn [bind].
  rewrite vrich_spec by auto using wf_drop_local. unfold ge_spec. destruct (vcmp (drop_local c) V); reflexivity.
Qed.
Theorem cmp_eq_spec : cmp_eq_plain c t = Some (eq_spec c V).
Proof.
  unfold cmp_eq_plain, eq_spec. rewrite PV. cbn [bind]. destruct (has_local V); cbn [bind].
  - now rewrite vrich_spec.
  - rewrite Version_public by assumption. cbn [bind]. now rewrite vrich_spec by auto using wf_drop_local.
Qed.
Lemma same_base_spec : same_base c V = Some (of_cmp Eq_ (vcmp (base_of c) (base_of V))).
Proof. unfold same_base. rewrite !Version_base by assumption. cbn [bind]. now rewrite vrich_spec by auto using wf_base. Qed.
Theorem cmp_lt_spec : cmp_lt c t = Some (lt_spec c V).
Proof.
  unfold cmp_lt, lt_spec. rewrite PV. cbn [bind]. rewrite vrich_spec by assumption. cbn [bind].
  destruct (of_cmp Lt_ (vcmp c V)); cbn [negb andb]; [|reflexivity].
  destruct (negb (is_prerelease V) && is_prerelease c); cbn [andb negb]; [|reflexivity].
  rewrite same_base_spec. reflexivity.
Qed.
End Ops.
Print Assumptions cmp_lt_spec.
