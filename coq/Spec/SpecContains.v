(* String-level model of Specifier: construction, .prereleases, contains(), as written in specifiers.py.  Definitions only. *)
From Coq Require Import List Arith NArith Bool Lia.
Import ListNotations.
Require Import S1 VParse VComplete VTop VTop2 VDec Py VMeaning VCmp SpecModel SpecOps Prefix Compat SpecParse SpecSound Canon.
Open Scope N_scope.

(* Specifier(s)._spec = (operator, version text stripped); None = InvalidSpecifier *)
Record specifier := { sp_op : oper; sp_text : str }.
Definition Specifier (s : str) : option specifier :=
  match parse_specifier s with
  | Some sp => Some {| sp_op := s_op sp; sp_text := r_body (s_body sp) |}
  | None => None
  end.
Definition spec_str (sp : specifier) : str := op_txt (sp_op sp) ++ sp_text sp.      (* __str__ *)

(* Specifier._canonical_spec (with the '===' repair: arbitrary text is never normalised) *)
Definition spec_key (sp : specifier) : oper * str :=
  match sp_op sp with
  | OArb => (OArb, sp_text sp)
  | OCompat => (OCompat, canon false (sp_text sp))
  | o => (o, canon true (sp_text sp))
  end.


Fixpoint ends_dotstar (s : str) : bool :=
  match s with [a; b] => (a =? 46) && (b =? 42) | _ :: t => ends_dotstar t | [] => false end.
Definition drop2 (s : str) : str := firstn (length s - 2) s.

(* Specifier.prereleases without an override *)
Definition auto_pre (sp : specifier) : bool :=
  match sp_op sp with
  | ONe => false
  | o =>
      let t := match o with OEq => if ends_dotstar (sp_text sp) then drop2 (sp_text sp) else sp_text sp | _ => sp_text sp end in
      match Version t with Some v => is_prerelease v | None => false end
  end.
Definition effective_pre (override : option bool) (sp : specifier) : bool :=
  match override with Some b => b | None => auto_pre sp end.

(* the operator methods; None = an exception escapes (never happens for text the constructor accepted: see the theorems) *)
Definition cmp_eq (c : version) (t : str) : option bool :=
  if ends_dotstar t then Some (cmp_eq_prefix c (drop2 t)) else cmp_eq_plain c t.
Definition cmp_arbitrary (c : version) (t : str) : option bool := Some (VMeaning.str_eqb (py_lower (vstr c)) (py_lower t)).
Definition compare_op (o : oper) (c : version) (t : str) : option bool :=
  match o with
  | OCompat => cmp_compat c t
  | OEq => cmp_eq c t
  | ONe => option_map negb (cmp_eq c t)
  | OLe => cmp_le c t
  | OGe => cmp_ge c t
  | OLt => cmp_lt c t
  | OGt => cmp_gt c t
  | OArb => cmp_arbitrary c t
  end.

Inductive outcome := Ans (b : bool) | BadItem (* InvalidVersion for the candidate *) | Escaped (* any other exception *).
(* Specifier.contains(item, prereleases): [arg] is the call argument, [override] the object's _prereleases *)
Definition contains (sp : specifier) (override arg : option bool) (item : str) : outcome :=
  let pre := match arg with Some b => b | None => effective_pre override sp end in
  match Version item with
  | None => BadItem
  | Some c =>
      if is_prerelease c && negb pre then Ans false
      else match compare_op (sp_op sp) c (sp_text sp) with Some b => Ans b | None => Escaped end
  end.
(* `item in spec` = Specifier.__contains__ = self.contains(item): no call argument *)
Definition in_op (sp : specifier) (override : option bool) (item : str) : outcome := contains sp override None item.
