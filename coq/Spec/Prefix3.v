From Coq Require Import List Arith NArith Bool Lia.
Import ListNotations.
Require Import S1 VParse VComplete VTop VTop2 VDec Py VMeaning VCanon VCanon2 VCanon3 VCmp SpecModel SpecOps Prefix Prefix2.
Open Scope N_scope.
Arguments N.eqb : simpl never.
Arguments N.leb : simpl never.

Lemma span_all p s : forallb p s = true -> span p s = (s, []).
Proof. intros H. rewrite <- (app_nil_r s) at 1. now apply span_complete. Qed.
Lemma prefix_regex_digits x : prefix_regex (dec x) = None.
Proof.
  unfold prefix_regex. rewrite span_all by apply dec_digits.
  pose proof (dec_nonnil x). destruct (dec x); [congruence|]. reflexivity.
Qed.
Lemma nonempty_dec n : nonempty (dec n) = true.
Proof. pose proof (dec_nonnil n). destruct (dec n); [congruence|reflexivity]. Qed.
Lemma prefix_regex_pre x l n : (l = w_a \/ l = w_b \/ l = w_rc) ->
  prefix_regex (dec x ++ lv_txt (l, n)) = Some (dec x, lv_txt (l, n)).
Proof.
  intros Hl. unfold prefix_regex, lv_txt; cbn [fst snd].
  rewrite span_complete; [| apply dec_digits | destruct Hl as [->|[->| ->]]; reflexivity].
  rewrite nonempty_dec. cbn [negb].
  destruct Hl as [->|[->| ->]]; unfold pfx_words, w_a, w_b, w_rc; cbn [first_start starts app];
    rewrite ?N.eqb_refl; eval_eqb; cbn [first_start starts]; rewrite ?N.eqb_refl; eval_eqb;
    rewrite nonempty_dec, dec_digits; reflexivity.
Qed.
Lemma prefix_regex_letter s : hd_is is_digit s = false -> prefix_regex s = None.
Proof. intros H. unfold prefix_regex. now rewrite span_none. Qed.

Definition pre_items v : list str := match Py.pre v with Some p => [lv_txt p] | None => [] end.
Definition fm := flat_map (fun item => match prefix_regex item with Some (a, b) => [a; b] | None => [item] end).
Lemma fm_digits l : fm (map dec l) = map dec l.
Proof. induction l; cbn; auto. rewrite prefix_regex_digits. cbn. f_equal. exact IHl. Qed.
Lemma fm_app a b : fm (a ++ b) = fm a ++ fm b.
Proof. apply flat_map_app. Qed.
Lemma removelast_last (l : list N) d : l <> [] -> removelast l ++ [last l d] = l.
Proof. intros. symmetry. now apply app_removelast_last. Qed.

Section VS.
Variable v : version.
Hypothesis W : VMeaning.wf_version v.
Hypothesis L : Py.local v = None.

Lemma hd_lv_not_digit p : wf_lvp p -> hd_is is_digit (lv_txt p) = false.
Proof.
  intros [Hl Hn]. unfold lv_txt. destruct (fst p) as [|c r]; [discriminate|]. cbn in *. apply andb_prop in Hl as [Hc _].
  now apply lower_not_digit.
Qed.
Lemma fm_sfx : fm (sfx_items v) = sfx_items v.
Proof.
  pose proof (wf_sfx v W) as H. unfold sfx_items.
  destruct (Py.post v) as [p|], (Py.dev v) as [d|]; cbn [app fm flat_map] in *; auto; inversion H; subst;
   rewrite ?prefix_regex_letter by (apply hd_lv_not_digit; auto); cbn [app]; auto.
  inversion H3; subst. rewrite prefix_regex_letter by (apply hd_lv_not_digit; auto). reflexivity.
Qed.

Lemma fm_body : fm (split_on 46 (body v)) = map dec (Py.release v) ++ pre_items v ++ sfx_items v.
Proof.
  rewrite split_body by assumption. destruct W as (Hr & Hp & _).
  destruct (Py.release v) as [|r0 rt] eqn:ER; [congruence|]. cbn [hd tl].
  rewrite fm_app, fm_digits. change ((?x :: ?l)) with ([x] ++ l) at 2. 
  rewrite <- (removelast_last (r0 :: rt) 0) at 3 by discriminate. rewrite map_app, <- app_assoc. f_equal.
  cbn [map app fm flat_map]. unfold pre_txt, pre_items.
  destruct (Py.pre v) as [[l n]|].
  - rewrite prefix_regex_pre by assumption. cbn [app]. f_equal. f_equal. apply (fm_sfx).
  - rewrite app_nil_r, prefix_regex_digits. cbn [app]. f_equal. apply fm_sfx.
Qed.

Lemma body_nobang : nochar 33 (body v) = true.
Proof.
  unfold body. rewrite !nochar_app, dec_nochar by lia. cbn [andb].
  assert (A : nochar 33 (r_rels (map dec (tl (Py.release v)))) = true).
  { induction (tl (Py.release v)) as [|x l IH]; cbn [map r_rels]; auto.
    change (46 :: dec x ++ r_rels (map dec l)) with ([46] ++ dec x ++ r_rels (map dec l)).
    rewrite !nochar_app, dec_nochar, IH by lia. reflexivity. }
  rewrite A. cbn [andb].
  assert (B : nochar 33 (pre_txt v) = true).
  { pose proof (wf_pre_p v W). unfold pre_txt. destruct (Py.pre v); auto. apply lv_nochar; [lia|assumption]. }
  rewrite B. cbn [andb].
  pose proof (wf_sfx v W) as H. unfold sfx_items.
  destruct (Py.post v) as [p|], (Py.dev v) as [d|]; cbn [app join_dot] in *; auto; inversion H; subst.
  - inversion H3; subst. change (46 :: lv_txt p ++ 46 :: lv_txt d ++ []) with ([46] ++ lv_txt p ++ [46] ++ lv_txt d ++ []).
    rewrite !nochar_app, !lv_nochar by (auto; lia). reflexivity.
  - change (46 :: lv_txt p ++ []) with ([46] ++ lv_txt p ++ []). rewrite !nochar_app, !lv_nochar by (auto; lia). reflexivity.
  - change (46 :: lv_txt d ++ []) with ([46] ++ lv_txt d ++ []). rewrite !nochar_app, !lv_nochar by (auto; lia). reflexivity.
Qed.

Theorem version_split_vstr :
  version_split (vstr v) = dec (Py.epoch v) :: map dec (Py.release v) ++ pre_items v ++ sfx_items v.
Proof.
  rewrite vstr_public by assumption. unfold version_split.
  destruct (Py.epoch v =? 0) eqn:E; cbn [r_opt app].
  - apply N.eqb_eq in E. rewrite E. rewrite rpart_none by apply body_nobang. f_equal. apply fm_body.
  - unfold r_ep. rewrite <- app_assoc. cbn [app]. rewrite rpart_one by (try apply dec_nochar; try apply body_nobang; lia).
    pose proof (dec_nonnil (Py.epoch v)). destruct (dec (Py.epoch v)) eqn:D; [congruence|]. rewrite <- D.
    f_equal. apply fm_body.
Qed.
End VS.
Print Assumptions version_split_vstr.
