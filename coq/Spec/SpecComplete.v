(* C12, completeness half for specifiers: every rendering of an operator followed by a form that operator allows
   is accepted by the scanner (model of Specifier._regex); the scanner may choose another tree for the same text. *)
From Coq Require Import List Arith NArith Bool Lia.
Import ListNotations.
Require Import VParse VComplete VTop VTop2 VGnfExists SpecParse SpecSound.
Open Scope N_scope.
Arguments N.eqb : simpl never.
Arguments N.leb : simpl never.

(* ---------------- the operator alternation: a later alternative that succeeds is reached or pre-empted ---------------- *)
Lemma starts_complete w : forall r, SpecParse.starts w (w ++ r) = Some r.
Proof. induction w as [|p w IH]; intros r; cbn [SpecParse.starts app]; auto. now rewrite N.eqb_refl. Qed.
Lemma try_ops_reach ops : forall o wl s s1 ws s2 b r, In o ops ->
  SpecParse.starts (op_txt o) s = Some s1 -> span is_ws s1 = (ws, s2) -> p_body o s2 = Some (b, r) -> all_ws r = true ->
  exists sp', try_ops ops wl s = Some sp'.
Proof.
  induction ops as [|o0 ops IH]; intros o wl s s1 ws s2 b r Hin E1 E2 E3 E4; [destruct Hin|].
  cbn [try_ops]. destruct Hin as [->|Hin].
  - rewrite E1, E2, E3, E4. eauto.
  - destruct (SpecParse.starts (op_txt o0) s) as [s1'|]; [|eapply IH; eauto].
    destruct (span is_ws s1') as [ws' s2']. destruct (p_body o0 s2') as [[b' r']|]; [|eapply IH; eauto].
    destruct (all_ws r'); [eauto | eapply IH; eauto].
Qed.
Lemma op_not_ws o Y : hd_is is_ws (op_txt o ++ Y) = false.
Proof. destruct o; reflexivity. Qed.
Lemma op_in o : In o ops_in_order.
Proof. destruct o; cbn; auto 10. Qed.

(* ---------------- the public-version body ---------------- *)
Lemma p_pub_front s : p_pub s =
  front_k (fun v e r0 rs s5 =>
      let '(pr, s6) := p_opt (p_lv pre_words) s5 in
      let '(po, s7) := p_opt p_post s6 in
      let '(dv, s8) := p_opt (p_lv dev_words) s7 in
      Some ({| q_v := v; q_ep := e; q_rel0 := r0; q_rels := rs; q_pre := pr; q_post := po; q_dev := dv |}, s8)) s.
Proof. reflexivity. Qed.
Lemma r_pub_front q t : r_pub q ++ t =
  r_front (q_v q) (q_ep q) (q_rel0 q) (q_rels q) ++ r_opt r_lv (q_pre q) ++ r_opt r_post (q_post q) ++ r_opt r_lv (q_dev q) ++ t.
Proof. unfold r_pub, r_front. now rewrite <- !app_assoc. Qed.
Lemma wf_pub_front q : wf_pub q -> wf_front (q_v q) (q_ep q) (q_rel0 q) (q_rels q).
Proof. intros (A & B & C & D & _). unfold wf_front. auto. Qed.
Lemma pub_not_ws q t : wf_pub q -> hd_is is_ws (r_pub q ++ t) = false.
Proof. intros W. rewrite r_pub_front. apply front_not_ws. now apply wf_pub_front. Qed.

Section Base.
Variable B : str -> Prop.
Hypothesis B_hd : forall t, B t -> hdA h_loc t = true.
Lemma p_pub_lang q t : wf_pub q -> B t ->
  exists q' s8, p_pub (r_pub q ++ t) = Some (q', s8) /\ B s8 /\ q_rels q' = q_rels q.
Proof.
  intros W Ht. pose proof (wf_pub_front q W) as WF. destruct W as (_ & _ & _ & _ & Wpre & Wpost & Wdev).
  pose proof (L_pre_intro B (q_pre q) (q_post q) (q_dev q) t Wpre Wpost Wdev Ht) as LT.
  destruct (L_pre_heads _ B_hd _ LT) as (Td & T33 & T46).
  destruct (stages _ B_hd _ LT) as (pr & po & dv & s6 & s7 & s8 & E6 & E7 & E8 & L8).
  rewrite r_pub_front, p_pub_front, front_exact by assumption. rewrite E6, E7, E8.
  eexists _, _. split; [reflexivity|]. cbn [q_rels]. auto.
Qed.
End Base.

(* the wildcard form: nothing of ".*" is taken for a pre/post/dev component *)
Lemma p_pub_wild v e r0 rs w : wf_front v e r0 rs ->
  p_pub (r_front v e r0 rs ++ 46 :: 42 :: w) =
  Some ({| q_v := v; q_ep := e; q_rel0 := r0; q_rels := rs; q_pre := None; q_post := None; q_dev := None |}, 46 :: 42 :: w).
Proof.
  intros WF. rewrite p_pub_front, front_exact by (auto; reflexivity).
  assert (N : forall words, forallb (hd_is is_lower) words = true -> p_lv words (46 :: 42 :: w) = None).
  { intros words Hw. apply p_lv_none. intros o t1. cbn [opt_sep]. change (is_sep 46) with true. cbv iota.
    intros [= <- <-]. apply nl_nomatch; auto. }
  unfold p_opt at 1. rewrite (N pre_words eq_refl).
  unfold p_opt at 1. unfold p_post. change (hd2_is 45 is_digit (46 :: 42 :: w)) with false. cbv iota. rewrite (N post_words eq_refl).
  unfold p_opt at 1. rewrite (N dev_words eq_refl). reflexivity.
Qed.

Lemma span_all p a : forallb p a = true -> span p a = (a, []).
Proof. intros H. rewrite <- (app_nil_r a) at 1. now apply span_complete. Qed.
Lemma loc_no_wild t : L_loc t -> hd2_is 46 (N.eqb 42) t = false.
Proof.
  intros H. apply L_loc_hd in H. apply hd2_false1. revert H. apply hdA_false. intros c H.
  apply h_loc_facts in H as (_ & _ & E & _). apply sep_46 in E as [E _]. now rewrite N.eqb_sym.
Qed.

(* ---------------- each operator with each of its forms ---------------- *)
Lemma body_complete o b ws wr : forallb is_ws ws = true -> forallb is_ws wr = true -> wf_body o b ->
  exists ws' s2 b' r, span is_ws (ws ++ r_body b ++ wr) = (ws', s2) /\ p_body o s2 = Some (b', r) /\ all_ws r = true.
Proof.
  intros Hws Hwr W.
  (* the forms without local version, for the operators ~= <= >= < > *)
  assert (Plain : forall q, wf_pub q -> exists q' r, span is_ws (ws ++ r_body (BPub q None) ++ wr) = (ws, r_pub q ++ wr) /\
             p_pub (r_pub q ++ wr) = Some (q', r) /\ all_ws r = true /\ q_rels q' = q_rels q).
  { intros q Wq. destruct (p_pub_lang L_ws L_ws_hd q wr Wq Hwr) as (q' & s8 & E & L8 & R).
    exists q', s8. cbn [r_body r_opt]. rewrite app_nil_r. rewrite span_complete by (auto; now apply pub_not_ws). auto. }
  (* == and != *)
  assert (Eq : forall b0, (match b0 with
                 | BWild v e r0 rs => wf_front v e r0 rs
                 | BPub q lo => wf_pub q /\ match lo with Some l => wf_loc l = true | None => True end
                 | BArb _ => False end) ->
             exists s2 b' r, span is_ws (ws ++ r_body b0 ++ wr) = (ws, s2) /\
               match p_pub s2 with
               | None => None
               | Some (q, r) =>
                   if is_plain q && hd2_is 46 (N.eqb 42) r then Some (BWild (q_v q) (q_ep q) (q_rel0 q) (q_rels q), tl (tl r))
                   else let '(lo, r') := p_opt p_loc r in Some (BPub q lo, r')
               end = Some (b', r) /\ all_ws r = true).
  { intros [txt|v e r0 rs|q lo] Wb; [destruct Wb| |].
    - assert (E : r_body (BWild v e r0 rs) ++ wr = r_front v e r0 rs ++ 46 :: 42 :: wr).
      { cbn [r_body]. unfold r_front. now rewrite <- !app_assoc. }
      rewrite E. eexists _, _, _. split; [apply span_complete; auto; now apply front_not_ws|].
      rewrite p_pub_wild by assumption. cbn [is_plain q_pre q_post q_dev hd2_is hd_is andb tl q_v q_ep q_rel0 q_rels].
      change ((46 =? 46) && (42 =? 42)) with true. cbv iota. split; [reflexivity|exact Hwr].
    - destruct Wb as [Wq Wlo]. cbn [r_body]. rewrite <- app_assoc.
      assert (Lt : L_loc (r_opt r_loc lo ++ wr)) by (exists lo, wr; auto).
      destruct (p_pub_lang L_loc L_loc_hd q _ Wq Lt) as (q' & s8 & E & L8 & R).
      destruct (stage_loc _ L8) as (lo' & s9 & E9 & L9).
      eexists _, _, _. split; [apply span_complete; auto; now apply pub_not_ws|].
      rewrite E, (loc_no_wild _ L8), andb_false_r, E9. split; [reflexivity|exact L9]. }
  destruct o, b as [txt|v e r0 rs|q lo]; cbn [wf_body] in W; try contradiction.
  - (* ~= *) destruct lo; [contradiction|]. destruct W as [Wq Hr]. destruct (Plain q Wq) as (q' & r & E1 & E2 & E3 & E4).
    eexists _, _, _, _. split; [exact E1|]. cbn [p_body]. rewrite E2. rewrite E4.
    destruct (q_rels q); [congruence|]. split; [reflexivity|exact E3].
  - (* == wildcard *) destruct (Eq (BWild v e r0 rs) W) as (s2 & b' & r & E1 & E2 & E3). eexists _, _, _, _. split; [exact E1|]. cbn [p_body]. split; [exact E2|exact E3].
  - (* == *) destruct (Eq (BPub q lo) W) as (s2 & b' & r & E1 & E2 & E3). eexists _, _, _, _. split; [exact E1|]. cbn [p_body]. split; [exact E2|exact E3].
  - (* != wildcard *) destruct (Eq (BWild v e r0 rs) W) as (s2 & b' & r & E1 & E2 & E3). eexists _, _, _, _. split; [exact E1|]. cbn [p_body]. split; [exact E2|exact E3].
  - (* != *) destruct (Eq (BPub q lo) W) as (s2 & b' & r & E1 & E2 & E3). eexists _, _, _, _. split; [exact E1|]. cbn [p_body]. split; [exact E2|exact E3].
  - (* <= *) destruct lo; [contradiction|]. destruct (Plain q W) as (q' & r & E1 & E2 & E3 & E4).
    eexists _, _, _, _. split; [exact E1|]. cbn [p_body]. rewrite E2. split; [reflexivity|exact E3].
  - (* >= *) destruct lo; [contradiction|]. destruct (Plain q W) as (q' & r & E1 & E2 & E3 & E4).
    eexists _, _, _, _. split; [exact E1|]. cbn [p_body]. rewrite E2. split; [reflexivity|exact E3].
  - (* < *) destruct lo; [contradiction|]. destruct (Plain q W) as (q' & r & E1 & E2 & E3 & E4).
    eexists _, _, _, _. split; [exact E1|]. cbn [p_body]. rewrite E2. split; [reflexivity|exact E3].
  - (* > *) destruct lo; [contradiction|]. destruct (Plain q W) as (q' & r & E1 & E2 & E3 & E4).
    eexists _, _, _, _. split; [exact E1|]. cbn [p_body]. rewrite E2. split; [reflexivity|exact E3].
  - (* === *) cbn [r_body p_body]. destruct txt as [|c txt].
    + cbn [app]. rewrite span_all by (rewrite forallb_app, Hws, Hwr; reflexivity).
      eexists _, _, _, _. split; [reflexivity|]. cbn [span]. split; reflexivity.
    + cbn [forallb] in W. apply andb_prop in W as [Hc Ht].
      assert (Hcw : is_ws c = false).
      { unfold arb_char in Hc. apply andb_prop in Hc as [Hc _]. apply andb_prop in Hc as [Hc _]. now apply negb_true_iff in Hc. }
      rewrite span_complete by (auto; cbn [app hd_is]; exact Hcw).
      eexists _, _, _, _. split; [reflexivity|].
      rewrite span_complete.
      * split; [reflexivity|exact Hwr].
      * cbn [forallb]. now rewrite Hc, Ht.
      * destruct wr as [|x wr]; auto. cbn [forallb hd_is] in *. apply andb_prop in Hwr as [Hx _]. unfold arb_char. now rewrite Hx.
Qed.

Theorem specifier_language_complete : forall sp,
  forallb is_ws (s_wl sp) = true -> forallb is_ws (s_ws sp) = true -> forallb is_ws (s_wr sp) = true ->
  wf_body (s_op sp) (s_body sp) -> exists sp', parse_specifier (render_spec sp) = Some sp'.
Proof.
  intros sp Wl Wm Wr Wb. unfold render_spec, parse_specifier.
  rewrite span_complete by (auto; apply op_not_ws).
  destruct (body_complete _ _ _ _ Wm Wr Wb) as (ws' & s2 & b' & r & E1 & E2 & E3).
  eapply try_ops_reach; eauto using op_in, starts_complete.
Qed.
Print Assumptions specifier_language_complete.

(* the language-level reading *)
Corollary specifier_language_iff s :
  (exists sp, forallb is_ws (s_wl sp) = true /\ forallb is_ws (s_ws sp) = true /\ forallb is_ws (s_wr sp) = true /\
              wf_body (s_op sp) (s_body sp) /\ render_spec sp = s)
  <-> (exists sp', parse_specifier s = Some sp').
Proof.
  split.
  - intros (sp & A & B & C & D & <-). now apply specifier_language_complete.
  - intros (sp' & E). exists sp'. apply C12_spec_sound in E as (R & A & B & C & D). auto.
Qed.
Print Assumptions specifier_language_iff.

(* non-vacuity: "===" with empty text, "==1.*", "~=1.0a-1" (tree: pre a, implicit post 1) *)
Definition ex_specs : list spec_sp :=
  [ {| s_wl := [32]; s_op := OArb; s_ws := [32]; s_body := BArb []; s_wr := [32] |};
    {| s_wl := []; s_op := OEq; s_ws := []; s_body := BWild None None [49] []; s_wr := [] |};
    {| s_wl := []; s_op := OCompat; s_ws := []; s_wr := [];
       s_body := BPub {| q_v := None; q_ep := None; q_rel0 := [49]; q_rels := [[48]];
                         q_pre := Some {| l_sep1 := None; l_word := [97]; l_sep2 := None; l_num := [] |};
                         q_post := Some (PostImplicit [49]); q_dev := None |} None |} ].
Definition ex_spec_check : bool :=
  forallb (fun sp => match parse_specifier (render_spec sp) with Some _ => true | None => false end) ex_specs.
Example ex_spec_nonvacuous : ex_spec_check = true.
Proof. vm_compute. reflexivity. Qed.
