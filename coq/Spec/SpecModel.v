From Coq Require Import List Arith NArith Bool Lia.
Import ListNotations.
Require Import S1 VParse VComplete VTop VTop2 VDec Py VMeaning VCanon VCanon2 VCanon3 VCmp.
Open Scope N_scope.
Arguments N.eqb : simpl never.
Arguments N.leb : simpl never.

(* ---------------- Version() and the string-valued properties ---------------- *)
Definition Version (s : str) : option version := option_map meaning (parse_spelling s).
Fixpoint take_until (c0 : char) (s : str) : str :=
  match s with [] => [] | c :: t => if c =? c0 then [] else c :: take_until c0 t end.
Definition drop_local (v : version) : version :=
  {| epoch := epoch v; release := release v; pre := pre v; post := post v; dev := dev v; local := None |}.
Definition base_of (v : version) : version :=
  {| epoch := epoch v; release := release v; pre := None; post := None; dev := None; local := None |}.
Definition public_str (v : version) : str := take_until 43 (vstr v).          (* str(self).split("+", 1)[0] *)
Definition base_str (v : version) : str := vstr (base_of v).                   (* base_version builds it the same way *)
Definition is_prerelease (v : version) : bool := match dev v, pre v with None, None => false | _, _ => true end.
Definition is_postrelease (v : version) : bool := match post v with Some _ => true | None => false end.

Lemma wf_drop_local v : VMeaning.wf_version v -> VMeaning.wf_version (drop_local v).
Proof. intros (A & B & C & D & _). repeat split; auto. Qed.
Lemma wf_base v : VMeaning.wf_version v -> VMeaning.wf_version (base_of v).
Proof. intros (A & _). repeat split; auto. Qed.

(* the public part of a rendering contains no '+' *)
Definition noplus (s : str) : bool := forallb (fun c => negb (c =? 43)) s.
Lemma noplus_app a b : noplus (a ++ b) = noplus a && noplus b.
Proof. apply forallb_app. Qed.
Lemma digits_noplus s : forallb is_digit s = true -> noplus s = true.
Proof.
  unfold noplus. rewrite !forallb_forall. intros H x Hx. specialize (H x Hx). apply digit_range in H.
  apply negb_true_iff, N.eqb_neq. lia.
Qed.
Lemma take_until_app a b c0 : forallb (fun c => negb (c =? c0)) a = true -> take_until c0 (a ++ c0 :: b) = a.
Proof.
  induction a as [|x a IH]; cbn [app take_until forallb].
  - now rewrite N.eqb_refl.
  - intros H. apply andb_prop in H as [H1 H2]. apply negb_true_iff in H1. rewrite H1. now rewrite IH.
Qed.
Lemma take_until_none a c0 : forallb (fun c => negb (c =? c0)) a = true -> take_until c0 a = a.
Proof.
  induction a as [|x a IH]; cbn [take_until forallb]; auto.
  intros H. apply andb_prop in H as [H1 H2]. apply negb_true_iff in H1. rewrite H1. now rewrite IH.
Qed.

Lemma r_rels_noplus l : forallb (fun d => forallb is_digit d) l = true -> noplus (r_rels l) = true.
Proof.
  induction l as [|d l IH]; cbn [r_rels forallb]; auto. intros H. apply andb_prop in H as [H1 H2].
  change (46 :: d ++ r_rels l) with ([46] ++ d ++ r_rels l). rewrite !noplus_app, (digits_noplus d), IH by assumption. reflexivity.
Qed.
Lemma map_dec_digits l : forallb (fun d => forallb is_digit d) (map dec l) = true.
Proof. induction l; cbn; auto. now rewrite dec_digits. Qed.

Lemma vstr_split v : VMeaning.wf_version v ->
  vstr v = vstr (drop_local v) ++ r_opt r_loc (sloc (canon_sp v)) /\ noplus (vstr (drop_local v)) = true.
Proof.
  intros (Hr & Hpre & Hpost & Hdev & Hloc). unfold vstr, render. cbn [canon_sp drop_local ws_l vpre ep rel0 rels spre spost sdev sloc ws_r Py.epoch Py.release Py.pre Py.post Py.dev Py.local option_map r_opt r_osep app].
  rewrite !app_nil_r. split.
  - rewrite <- !app_assoc. reflexivity.
  - rewrite !noplus_app. rewrite (digits_noplus (dec _)) by apply dec_digits.
    rewrite r_rels_noplus by apply map_dec_digits.
    assert (E : noplus (r_opt r_ep (if Py.epoch v =? 0 then None else Some (dec (Py.epoch v)))) = true).
    { destruct (Py.epoch v =? 0); cbn [r_opt]; auto. unfold r_ep. rewrite noplus_app, digits_noplus by apply dec_digits. reflexivity. }
    rewrite E. cbn [andb].
    assert (L : forall sep l n, (l = w_a \/ l = w_b \/ l = w_rc \/ l = w_post \/ l = w_dev) -> (sep = None \/ sep = Some 46) ->
                noplus (r_lv (c_lv sep (l, n))) = true).
    { intros sep l n Hl Hs. unfold r_lv, c_lv; cbn [l_sep1 l_word l_sep2 l_num fst snd r_osep app].
      rewrite !noplus_app, (digits_noplus (dec n)) by apply dec_digits.
      destruct Hs as [->| ->]; destruct Hl as [->|[->|[->|[->| ->]]]]; reflexivity. }
    destruct (Py.pre v) as [[l n]|]; cbn [option_map r_opt]; [rewrite L by intuition|]; cbn [andb];
    (destruct (Py.post v) as [[l2 n2]|]; cbn [option_map r_opt r_post]; [subst l2; rewrite L by intuition|]; cbn [andb];
     (destruct (Py.dev v) as [[l3 n3]|]; cbn [option_map r_opt]; [subst l3; rewrite L by intuition|]; reflexivity)).
Qed.

Lemma public_str_eq v : VMeaning.wf_version v -> public_str v = vstr (drop_local v).
Proof.
  intros W. unfold public_str. destruct (vstr_split v W) as [E N]. rewrite E.
  unfold canon_sp; cbn [sloc]. destruct (Py.local v) as [l|]; cbn [option_map r_opt].
  - unfold r_loc. cbn [app]. now apply take_until_app.
  - rewrite app_nil_r. now apply take_until_none.
Qed.

Theorem Version_public v : VMeaning.wf_version v -> Version (public_str v) = Some (drop_local v).
Proof. intros W. rewrite public_str_eq by assumption. unfold Version. apply parse_vstr. now apply wf_drop_local. Qed.
Theorem Version_base v : VMeaning.wf_version v -> Version (base_str v) = Some (base_of v).
Proof. intros W. unfold Version, base_str. apply parse_vstr. now apply wf_base. Qed.
Print Assumptions Version_public.
