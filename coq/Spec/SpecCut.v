(* "Cut" lemmas: a scanner's result does not depend on input it did not consume.
   If P (u ++ r) leaves a remainder at least as long as r, then P u gives the same parse and the remainder without r.
   Used to show that the text Specifier() stores is itself accepted by Version(). *)
From Coq Require Import List Arith NArith Bool Lia.
Import ListNotations.
Require Import VParse VComplete VTop VTop2.
Open Scope N_scope.
Arguments N.eqb : simpl never.
Arguments N.leb : simpl never.

Definition cutE {A} (P : str -> A * str) : Prop :=
  forall u r a rest, P (u ++ r) = (a, rest) -> (length r <= length rest)%nat -> exists x, rest = x ++ r /\ P u = (a, x).
Definition cutO {A} (P : str -> option (A * str)) : Prop :=
  forall u r, match P (u ++ r) with
              | Some (a, rest) => (length r <= length rest)%nat -> exists x, rest = x ++ r /\ P u = Some (a, x)
              | None => P u = None end.
(* remainders are suffixes: never longer than the input *)
Definition shrinkE {A} (P : str -> A * str) : Prop := forall s a rest, P s = (a, rest) -> (length rest <= length s)%nat.
Definition shrinkO {A} (P : str -> option (A * str)) : Prop := forall s a rest, P s = Some (a, rest) -> (length rest <= length s)%nat.

Lemma self_tail {A} (c : A) t w : t = w ++ c :: t -> False.
Proof. intros H. assert (L : length t = length (w ++ c :: t)) by now rewrite <- H. rewrite app_length in L. cbn in L. lia. Qed.

(* ---- span ---- *)
Lemma span_shrink p : shrinkE (span p).
Proof. intros s a r H. apply span_sound in H as [-> _]. rewrite app_length. lia. Qed.
Lemma span_cut p : cutE (span p).
Proof.
  intros u. induction u as [|c u IH]; intros r a rest H L.
  - cbn [app] in H. pose proof (span_sound _ _ _ _ H) as [E _].
    assert (a = []). { destruct a; auto. exfalso. rewrite E in L. cbn in L. rewrite app_length in L. lia. }
    subst a. cbn [app] in E. subst rest. exists []. auto.
  - cbn [app span] in *. destruct (p c).
    + destruct (span p (u ++ r)) as [a' r'] eqn:E. injection H as <- <-.
      destruct (IH r a' r' E L) as (x & -> & ->). exists x. auto.
    + injection H as <- <-. exists (c :: u). auto.
Qed.

(* ---- opt_sep ---- *)
Lemma opt_sep_shrink : shrinkE opt_sep.
Proof. intros s a r H. apply opt_sep_sound in H. subst s. rewrite app_length. lia. Qed.
Lemma opt_sep_cut : cutE opt_sep.
Proof.
  intros u r a rest H L. destruct u as [|c u]; cbn [app] in *.
  - destruct r as [|c t]; cbn [opt_sep] in H.
    + injection H as <- <-. exists []. auto.
    + destruct (is_sep c).
      * injection H as <- <-. cbn in L. lia.
      * injection H as <- <-. exists []. auto.
  - cbn [opt_sep] in *. destruct (is_sep c); injection H as <- <-; [exists u | exists (c :: u)]; auto.
Qed.

(* ---- p_v ---- *)
Lemma p_v_shrink : shrinkE p_v.
Proof. intros s a r H. unfold p_v in H. destruct s as [|c t]; [injection H as <- <-; auto|]. destruct (lc c =? 118); injection H as <- <-; cbn; lia. Qed.
Lemma p_v_cut : cutE p_v.
Proof.
  intros u r a rest H L. destruct u as [|c u]; cbn [app] in *.
  - destruct r as [|c t]; cbn [p_v] in H.
    + injection H as <- <-. exists []. auto.
    + destruct (lc c =? 118).
      * injection H as <- <-. cbn in L. lia.
      * injection H as <- <-. exists []. auto.
  - cbn [p_v] in *. destruct (lc c =? 118); injection H as <- <-; [exists u | exists (c :: u)]; auto.
Qed.

(* ---- match_word / first_word ---- *)
Lemma match_word_shrink w : forall s a r, match_word w s = Some (a, r) -> (length r + length w <= length s)%nat.
Proof.
  induction w as [|p w IH]; intros s a r; cbn [match_word].
  - intros [= <- <-]. cbn. lia.
  - destruct s as [|c t]; [discriminate|]. destruct (lc c =? p); [|discriminate].
    destruct (match_word w t) as [[a' r']|] eqn:F; [|discriminate]. intros [= <- <-]. specialize (IH _ _ _ F). cbn. lia.
Qed.
Lemma match_word_cut w : cutO (match_word w).
Proof.
  induction w as [|p w IH]; intros u r; cbn [match_word].
  - intros _. exists u. auto.
  - destruct u as [|c u]; cbn [app].
    + destruct r as [|c t]; auto. destruct (lc c =? p); auto.
      destruct (match_word w t) as [[a' r']|] eqn:F; auto. intros L. apply match_word_shrink in F. cbn in L. lia.
    + destruct (lc c =? p); auto. specialize (IH u r). destruct (match_word w (u ++ r)) as [[a' r']|]; [|now rewrite IH].
      intros L. destruct (IH L) as (x & -> & ->). exists x. auto.
Qed.
Lemma first_word_shrink ws : shrinkO (first_word ws).
Proof.
  induction ws as [|w ws IH]; intros s a r; cbn [first_word]; [discriminate|].
  destruct (match_word w s) as [[a' r']|] eqn:F.
  - intros [= <- <-]. apply match_word_shrink in F. lia.
  - apply IH.
Qed.
Lemma first_word_cut ws : cutO (first_word ws).
Proof.
  induction ws as [|w ws IH]; intros u r; cbn [first_word]; auto.
  pose proof (match_word_cut w u r) as C. destruct (match_word w (u ++ r)) as [[a' r']|].
  - intros L. destruct (C L) as (x & -> & ->). exists x. auto.
  - rewrite C. apply IH.
Qed.

(* ---- p_lv ---- *)
Lemma p_lv_shrink words : shrinkO (p_lv words).
Proof. intros s a r H. apply p_lv_sound in H as [-> _]. rewrite app_length. lia. Qed.
Lemma p_lv_cut words : cutO (p_lv words).
Proof.
  intros u r. unfold p_lv.
  destruct (opt_sep (u ++ r)) as [s1 t1] eqn:E1.
  destruct (first_word words t1) as [[w t2]|] eqn:E2.
  - destruct (opt_sep t2) as [s2 t3] eqn:E3. destruct (span is_digit t3) as [n t4] eqn:E4. intros L.
    pose proof (span_shrink _ _ _ _ E4) as L4. pose proof (opt_sep_shrink _ _ _ E3) as L3. pose proof (first_word_shrink _ _ _ _ E2) as L2.
    destruct (opt_sep_cut u r s1 t1 E1 ltac:(lia)) as (x1 & -> & ->).
    pose proof (first_word_cut words x1 r) as C2. rewrite E2 in C2. destruct (C2 ltac:(lia)) as (x2 & -> & ->).
    destruct (opt_sep_cut x2 r s2 t3 E3 ltac:(lia)) as (x3 & -> & ->).
    destruct (span_cut is_digit x3 r n t4 E4 L) as (x4 & -> & ->). exists x4. auto.
  - (* failure is monotone: either the separator step already ate into r, or first_word fails on the shorter input *)
    destruct u as [|c u]; cbn [app] in *.
    + cbn [opt_sep]. pose proof (first_word_cut words [] t1) as C. cbn [app] in C. rewrite E2 in C. now rewrite C.
    + cbn [opt_sep] in *. destruct (is_sep c); injection E1 as <- <-.
      * pose proof (first_word_cut words u r) as C. rewrite E2 in C. now rewrite C.
      * pose proof (first_word_cut words (c :: u) r) as C. cbn [app] in C. rewrite E2 in C. now rewrite C.
Qed.

(* ---- look-ahead tests ---- *)
Lemma hd_is_mono p u r : hd_is p u = true -> hd_is p (u ++ r) = true.
Proof. destruct u; cbn; auto. discriminate. Qed.
Lemma hd2_is_mono c0 p u r : hd2_is c0 p u = true -> hd2_is c0 p (u ++ r) = true.
Proof. destruct u as [|c [|d u]]; cbn; try discriminate; auto. rewrite andb_false_r. discriminate. Qed.

(* ---- p_post ---- *)
Lemma p_post_shrink : shrinkO p_post.
Proof. intros s a r H. apply p_post_sound in H as [-> _]. rewrite app_length. lia. Qed.
Lemma span_hd_lt p s a r : span p s = (a, r) -> hd_is p s = true -> (length r < length s)%nat.
Proof.
  intros H Hd. pose proof (span_hd _ _ _ _ H Hd) as N. apply span_sound in H as [-> _]. rewrite app_length.
  destruct a; [discriminate|]. cbn. lia.
Qed.
Lemma p_post_cut : cutO p_post.
Proof.
  intros u r. unfold p_post. destruct (hd2_is 45 is_digit (u ++ r)) eqn:H2.
  - destruct (span is_digit (tl (u ++ r))) as [n rest] eqn:E. intros L.
    apply hd2_is_true in H2 as (d & t & E0 & Hd). rewrite E0 in E. cbn [tl] in E.
    pose proof (span_hd_lt _ _ _ _ E ltac:(cbn; exact Hd)) as L1. cbn [length] in L1.
    destruct u as [|c [|d' u]]; cbn [app] in E0.
    + subst r. cbn [length] in L. lia.
    + injection E0 as -> ->. cbn [length] in *. lia.
    + injection E0 as -> -> <-. cbn [hd2_is hd_is app tl]. rewrite N.eqb_refl, Hd. cbn [andb].
      destruct (span_cut is_digit (d :: u) r n rest E L) as (x & -> & ->). exists x. auto.
  - assert (H2' : hd2_is 45 is_digit u = false).
    { destruct (hd2_is 45 is_digit u) eqn:F; auto. rewrite (hd2_is_mono _ _ _ r F) in H2. discriminate. }
    rewrite H2'. pose proof (p_lv_cut post_words u r) as C.
    destruct (p_lv post_words (u ++ r)) as [[l rest]|].
    + intros L. destruct (C L) as (x & -> & ->). exists x. auto.
    + now rewrite C.
Qed.

(* ---- p_opt ---- *)
Lemma p_opt_shrink {A} (p : str -> option (A * str)) : shrinkO p -> shrinkE (p_opt p).
Proof. intros S s a r. unfold p_opt. destruct (p s) as [[a' r']|] eqn:E; intros [= <- <-]; [eapply S; eauto | lia]. Qed.
Lemma p_opt_cut {A} (p : str -> option (A * str)) : cutO p -> cutE (p_opt p).
Proof.
  intros C u r a rest. unfold p_opt. specialize (C u r). destruct (p (u ++ r)) as [[a' r']|].
  - intros [= <- <-] L. destruct (C L) as (x & -> & ->). exists x. auto.
  - intros [= <- <-] _. rewrite C. exists u. auto.
Qed.

(* ---- p_rels ---- *)
Lemma p_rels_shrink f : shrinkE (p_rels f).
Proof. intros s a r H. apply p_rels_sound in H as [-> _]. rewrite app_length. lia. Qed.
Lemma p_rels_cut f : cutE (p_rels f).
Proof.
  induction f as [|f IH]; intros u r a rest; cbn [p_rels].
  - intros [= <- <-] _. exists u. auto.
  - destruct (hd2_is 46 is_digit (u ++ r)) eqn:H2.
    + destruct (span is_digit (tl (u ++ r))) as [n r1] eqn:E. destruct (p_rels f r1) as [more r'] eqn:F. intros [= <- <-] L.
      pose proof (p_rels_shrink _ _ _ _ F) as LF.
      apply hd2_is_true in H2 as (d & t & E0 & Hd). rewrite E0 in E. cbn [tl] in E.
      pose proof (span_hd_lt _ _ _ _ E ltac:(cbn; exact Hd)) as L1. cbn [length] in L1.
      destruct u as [|c [|d' u]]; cbn [app] in E0.
      * subst r. cbn [length] in L. lia.
      * injection E0 as -> ->. cbn [length] in *. lia.
      * injection E0 as -> -> <-. cbn [hd2_is hd_is app tl]. rewrite N.eqb_refl, Hd. cbn [andb].
        destruct (span_cut is_digit (d :: u) r n r1 E ltac:(lia)) as (x1 & -> & ->).
        destruct (IH x1 r more r' F L) as (x & -> & ->). exists x. auto.
    + intros [= <- <-] _. exists u. split; auto.
      destruct (hd2_is 46 is_digit u) eqn:G; auto. rewrite (hd2_is_mono _ _ _ r G) in H2. discriminate.
Qed.
Lemma p_rels_S f s : p_rels (S f) s =
  if hd2_is 46 is_digit s then let '(n, r) := span is_digit (tl s) in let '(more, r') := p_rels f r in (n :: more, r') else ([], s).
Proof. reflexivity. Qed.
Lemma p_rels_fuel f : forall s, (length s <= f)%nat -> p_rels (S f) s = p_rels f s.
Proof.
  induction f as [|f IH]; intros s L.
  - destruct s; [reflexivity | cbn in L; lia].
  - rewrite (p_rels_S (S f) s), (p_rels_S f s). destruct (hd2_is 46 is_digit s) eqn:H2; auto.
    destruct (span is_digit (tl s)) as [n r] eqn:E.
    assert (Lr : (length r <= f)%nat).
    { apply span_shrink in E. destruct s; cbn in *; [discriminate | lia]. }
    rewrite (IH r Lr). reflexivity.
Qed.
Lemma p_rels_fuel_ge f : forall g s, (length s <= f)%nat -> (f <= g)%nat -> p_rels g s = p_rels f s.
Proof.
  intros g s L G. induction G as [|g G IH]; auto. rewrite p_rels_fuel by lia. exact IH.
Qed.
Lemma p_rels_cut_len u r a rest : p_rels (length (u ++ r)) (u ++ r) = (a, rest) -> (length r <= length rest)%nat ->
  exists x, rest = x ++ r /\ p_rels (length u) u = (a, x).
Proof.
  intros H L. destruct (p_rels_cut _ u r a rest H L) as (x & E & F). exists x. split; auto.
  rewrite <- F. symmetry. apply p_rels_fuel_ge; [lia | rewrite app_length; lia].
Qed.

(* ---- p_segs / p_loc ---- *)
Lemma p_segs_shrink f : shrinkE (p_segs f).
Proof. intros s a r H. apply p_segs_sound in H as [-> _]. rewrite app_length. lia. Qed.
Lemma p_segs_cut f : cutE (p_segs f).
Proof.
  induction f as [|f IH]; intros u r a rest; cbn [p_segs].
  - intros [= <- <-] _. exists u. auto.
  - destruct u as [|c u]; cbn [app].
    + destruct r as [|c t].
      * intros [= <- <-] _. exists []. auto.
      * destruct (is_sep c && hd_is is_alnum_ci t) eqn:G.
        -- destruct (span is_alnum_ci t) as [n r1] eqn:E. destruct (p_segs f r1) as [more r'] eqn:F. intros [= <- <-] L.
           apply p_segs_shrink in F. apply span_shrink in E. cbn [length] in L. lia.
        -- intros [= <- <-] _. exists []. auto.
    + destruct (is_sep c && hd_is is_alnum_ci (u ++ r)) eqn:G.
      * destruct (span is_alnum_ci (u ++ r)) as [n r1] eqn:E. destruct (p_segs f r1) as [more r'] eqn:F. intros [= <- <-] L.
        apply andb_prop in G as [G1 G2].
        pose proof (p_segs_shrink _ _ _ _ F) as LF. pose proof (span_hd_lt _ _ _ _ E G2) as L1.
        destruct u as [|d u]; cbn [app] in *.
        -- lia.
        -- cbn [hd_is] in *. rewrite G1, G2. cbn [andb].
           destruct (span_cut is_alnum_ci (d :: u) r n r1 E ltac:(lia)) as (x1 & -> & ->).
           destruct (IH x1 r more r' F L) as (x & -> & ->). exists x. auto.
      * intros [= <- <-] _. exists (c :: u). split; auto.
        destruct (is_sep c && hd_is is_alnum_ci u) eqn:G'; auto.
        apply andb_prop in G' as [G1 G2]. rewrite G1, (hd_is_mono _ _ r G2) in G. discriminate.
Qed.
Lemma p_segs_S f s : p_segs (S f) s =
  match s with
  | c :: t => if is_sep c && hd_is is_alnum_ci t then let '(n, r) := span is_alnum_ci t in let '(more, r') := p_segs f r in ((c, n) :: more, r')
              else ([], s)
  | [] => ([], s) end.
Proof. reflexivity. Qed.
Lemma p_segs_fuel f : forall s, (length s <= f)%nat -> p_segs (S f) s = p_segs f s.
Proof.
  induction f as [|f IH]; intros s L.
  - destruct s; [reflexivity | cbn in L; lia].
  - rewrite (p_segs_S (S f) s), (p_segs_S f s). destruct s as [|c t]; auto. destruct (is_sep c && hd_is is_alnum_ci t); auto.
    destruct (span is_alnum_ci t) as [n r] eqn:E.
    assert (Lr : (length r <= f)%nat) by (apply span_shrink in E; cbn in L; lia).
    rewrite (IH r Lr). reflexivity.
Qed.
Lemma p_segs_fuel_ge f : forall g s, (length s <= f)%nat -> (f <= g)%nat -> p_segs g s = p_segs f s.
Proof. intros g s L G. induction G as [|g G IH]; auto. rewrite p_segs_fuel by lia. exact IH. Qed.

Lemma p_loc_shrink : shrinkO p_loc.
Proof. intros s a r H. apply p_loc_sound in H as [-> _]. rewrite app_length. lia. Qed.
Lemma p_loc_cut : cutO p_loc.
Proof.
  intros u r. unfold p_loc. destruct u as [|c u]; cbn [app].
  - destruct r as [|c t]; auto. destruct ((c =? 43) && hd_is is_alnum_ci t) eqn:G; auto.
    destruct (span is_alnum_ci t) as [n r1] eqn:E. destruct (p_segs (length r1) r1) as [more r'] eqn:F. intros L.
    apply p_segs_shrink in F. apply span_shrink in E. cbn [length] in L. lia.
  - destruct ((c =? 43) && hd_is is_alnum_ci (u ++ r)) eqn:G.
    + destruct (span is_alnum_ci (u ++ r)) as [n r1] eqn:E. destruct (p_segs (length r1) r1) as [more r'] eqn:F. intros L.
      apply andb_prop in G as [G1 G2].
      pose proof (p_segs_shrink _ _ _ _ F) as LF. pose proof (span_hd_lt _ _ _ _ E G2) as L1.
      destruct u as [|d u]; cbn [app] in *.
      * lia.
      * cbn [hd_is] in *. rewrite G1, G2. cbn [andb].
        destruct (span_cut is_alnum_ci (d :: u) r n r1 E ltac:(lia)) as (x1 & -> & ->).
        destruct (p_segs_cut _ x1 r more r' F L) as (x & -> & Hx). exists x. split; auto.
        rewrite (p_segs_fuel_ge (length x1) (length (x1 ++ r)) x1) in Hx by (rewrite ?app_length; lia).
        now rewrite Hx.
    + destruct ((c =? 43) && hd_is is_alnum_ci u) eqn:G'; auto.
      apply andb_prop in G' as [G1 G2]. rewrite G1, (hd_is_mono _ _ r G2) in G. discriminate.
Qed.
