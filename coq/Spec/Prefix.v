From Coq Require Import List Arith NArith Bool Lia.
Import ListNotations.
Require Import S1 VParse VComplete VTop VTop2 VDec Py VMeaning VCanon VCanon2 VCanon3 VCmp SpecModel SpecOps.
Open Scope N_scope.
Arguments N.eqb : simpl never.
Arguments N.leb : simpl never.

(* ---------------- Python string helpers ---------------- *)
Fixpoint split_on (c0 : char) (s : str) : list str :=          (* str.split(sep) *)
  match s with
  | [] => [[]]
  | c :: t => if c =? c0 then [] :: split_on c0 t
              else match split_on c0 t with h :: r => (c :: h) :: r | [] => [[c]] end
  end.
Definition nochar (c0 : char) (s : str) : bool := forallb (fun c => negb (c =? c0)) s.
Lemma split_on_none c0 s : nochar c0 s = true -> split_on c0 s = [s].
Proof.
  induction s as [|c t IH]; cbn [split_on nochar forallb]; auto. intros H. apply andb_prop in H as [H1 H2].
  apply negb_true_iff in H1. rewrite H1. unfold nochar in IH. now rewrite IH.
Qed.
Lemma split_on_app c0 a b : nochar c0 a = true -> split_on c0 (a ++ c0 :: b) = a :: split_on c0 b.
Proof.
  induction a as [|c t IH]; cbn [app split_on nochar forallb].
  - now rewrite N.eqb_refl.
  - intros H. apply andb_prop in H as [H1 H2]. apply negb_true_iff in H1. rewrite H1. unfold nochar in IH. now rewrite IH.
Qed.
Lemma split_on_app_last c0 a b r : nochar c0 a = true -> split_on c0 b = r -> forall h t, r = h :: t ->
  split_on c0 (a ++ b) = (a ++ h) :: t.
Proof.
  intros Ha Hb h t ->. induction a as [|c a IH]; cbn [app]; auto.
  cbn [nochar forallb] in Ha. apply andb_prop in Ha as [H1 H2]. apply negb_true_iff in H1.
  cbn [split_on]. rewrite H1. unfold nochar in IH. now rewrite IH.
Qed.

(* version.rpartition("!") for strings with at most one '!' *)
Fixpoint rpart_bang (s : str) : str * str :=       (* (before, after) of the last '!', ("", s) if none *)
  match s with
  | [] => ([], [])
  | c :: t => let '(a, b) := rpart_bang t in
              if c =? 33 then (if nochar 33 t then ([], t) else (c :: a, b))
              else if nochar 33 t then ([], c :: t) else (c :: a, b)
  end.
Lemma rpart_none s : nochar 33 s = true -> rpart_bang s = ([], s).
Proof.
  induction s as [|c t IH]; cbn [rpart_bang nochar forallb]; auto. intros H. apply andb_prop in H as [H1 H2].
  apply negb_true_iff in H1. unfold nochar in *. rewrite IH, H1, H2 by assumption. reflexivity.
Qed.
Lemma rpart_one a b : nochar 33 a = true -> nochar 33 b = true -> rpart_bang (a ++ 33 :: b) = (a, b).
Proof.
  intros Ha Hb. induction a as [|c a IH]; cbn [app rpart_bang].
  - rewrite rpart_none, N.eqb_refl, Hb by assumption. reflexivity.
  - cbn [nochar forallb] in Ha. apply andb_prop in Ha as [H1 H2]. apply negb_true_iff in H1.
    unfold nochar in IH. rewrite IH by assumption. rewrite H1.
    assert (N : nochar 33 (a ++ 33 :: b) = false).
    { unfold nochar. rewrite forallb_app. cbn [forallb]. rewrite N.eqb_refl. cbn. apply andb_false_r. }
    now rewrite N.
Qed.

(* _prefix_regex = ^([0-9]+)((?:a|b|c|rc)[0-9]+)$ , case-sensitive *)
Definition pfx_words : list str := [[97]; [98]; [99]; [114;99]].
Fixpoint starts (w s : str) : option str :=
  match w, s with [], _ => Some s | p :: w', c :: t => if c =? p then starts w' t else None | _ :: _, [] => None end.
Fixpoint first_start (ws : list str) (s : str) : option (str * str) :=
  match ws with [] => None | w :: ws' => match starts w s with Some r => Some (w, r) | None => first_start ws' s end end.
Definition prefix_regex (item : str) : option (str * str) :=
  let '(d1, r1) := span is_digit item in
  if negb (nonempty d1) then None else
  match first_start pfx_words r1 with
  | None => None
  | Some (w, r2) => if nonempty r2 && forallb is_digit r2 then Some (d1, w ++ r2) else None
  end.
Definition version_split (s : str) : list str :=
  let '(e, rest) := rpart_bang s in
  (match e with [] => [48] | _ => e end) ::
  flat_map (fun item => match prefix_regex item with Some (a, b) => [a; b] | None => [item] end) (split_on 46 rest).
Definition str_isdigit (s : str) : bool := nonempty s && forallb is_digit s.
Fixpoint takewhile {A} (p : A -> bool) (l : list A) : list A :=
  match l with [] => [] | x :: t => if p x then x :: takewhile p t else [] end.
Definition pad_version (left right : list str) : list str * list str :=
  let l0 := takewhile str_isdigit left in let r0 := takewhile str_isdigit right in
  let l1 := skipn (length l0) left in let r1 := skipn (length r0) right in
  (l0 ++ repeat [48] (length r0 - length l0) ++ l1, r0 ++ repeat [48] (length l0 - length r0) ++ r1).
Fixpoint strs_eqb (a b : list str) : bool :=
  match a, b with [], [] => true | x :: a', y :: b' => VMeaning.str_eqb x y && strs_eqb a' b' | _, _ => false end.
(* canonicalize_version(s, strip_trailing_zero=False) *)
Definition canon_nostrip (s : str) : str := match Version s with Some v => vstr v | None => s end.
(* _compare_equal, prefix branch; [spec] is the text without the trailing ".*" *)
Definition cmp_eq_prefix (c : version) (spec : str) : bool :=
  let np := canon_nostrip (public_str c) in
  let ns := canon_nostrip spec in
  let ss := version_split ns in
  let sp := version_split np in
  let '(padded, _) := pad_version sp ss in
  strs_eqb (firstn (length ss) padded) ss.
