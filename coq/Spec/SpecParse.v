From Coq Require Import List Arith NArith Bool Lia.
Import ListNotations.
Require Import VParse VComplete VTop VTop2.
Open Scope N_scope.
Arguments N.eqb : simpl never.
Arguments N.leb : simpl never.

(* ---------------- Specifier._regex as a scanner ---------------- *)
Inductive oper := OCompat | OEq | ONe | OLe | OGe | OLt | OGt | OArb.
Definition op_txt (o : oper) : str :=
  match o with OCompat => [126;61] | OEq => [61;61] | ONe => [33;61] | OLe => [60;61] | OGe => [62;61]
             | OLt => [60] | OGt => [62] | OArb => [61;61;61] end.
Fixpoint starts (w s : str) : option str :=
  match w, s with [], _ => Some s | p :: w', c :: t => if c =? p then starts w' t else None | _ :: _, [] => None end.

(* public-version body shared by alternatives 2-4:  v? (N!)? N(.N)*  pre? post? dev?  *)
Record pub_sp := { q_v : option char; q_ep : option str; q_rel0 : str; q_rels : list str;
                   q_pre : option lv_sp; q_post : option post_sp; q_dev : option lv_sp }.
Definition p_pub (s2 : str) : option (pub_sp * str) :=
  let '(v, s2) := p_v s2 in
  let '(d1, s3) := span is_digit s2 in
  if negb (nonempty d1) then None else
  let '(e, r0, s4) :=
     if hd_is (N.eqb 33) s3 then let '(d2, t') := span is_digit (tl s3) in (Some d1, d2, t') else (None, d1, s3) in
  if negb (nonempty r0) then None else
  let '(rs, s5) := p_rels (length s4) s4 in
  let '(pr, s6) := p_opt (p_lv pre_words) s5 in
  let '(po, s7) := p_opt p_post s6 in
  let '(dv, s8) := p_opt (p_lv dev_words) s7 in
  Some ({| q_v := v; q_ep := e; q_rel0 := r0; q_rels := rs; q_pre := pr; q_post := po; q_dev := dv |}, s8).

Inductive body :=
| BArb (txt : str)                                              (* ===  [^\s;)]*  *)
| BWild (v : option char) (e : option str) (r0 : str) (rs : list str)   (* == / != with .* *)
| BPub (q : pub_sp) (loc : option (str * list (char * str))).   (* everything else; loc only for == / != *)
Record spec_sp := { s_wl : str; s_op : oper; s_ws : str; s_body : body; s_wr : str }.

Definition arb_char (c : char) : bool := negb (is_ws c) && negb (c =? 59) && negb (c =? 41).
Definition is_plain (q : pub_sp) : bool :=
  match q_pre q, q_post q, q_dev q with None, None, None => true | _, _, _ => false end.

Definition p_body (o : oper) (s : str) : option (body * str) :=
  match o with
  | OArb => let '(t, r) := span arb_char s in Some (BArb t, r)
  | OEq | ONe =>
      match p_pub s with
      | None => None
      | Some (q, r) =>
          (* the wildcard alternative is tried first by the regex; it applies only right after the release *)
          if is_plain q && hd2_is 46 (N.eqb 42) r then Some (BWild (q_v q) (q_ep q) (q_rel0 q) (q_rels q), tl (tl r))
          else let '(lo, r') := p_opt p_loc r in Some (BPub q lo, r')
      end
  | OCompat =>
      match p_pub s with
      | Some (q, r) => match q_rels q with [] => None | _ => Some (BPub q None, r) end
      | None => None
      end
  | _ => match p_pub s with Some (q, r) => Some (BPub q None, r) | None => None end
  end.

Definition ops_in_order : list oper := [OCompat; OEq; ONe; OLe; OGe; OLt; OGt; OArb].
Definition all_ws (s : str) := forallb is_ws s.
Fixpoint try_ops (ops : list oper) (wl s : str) : option spec_sp :=
  match ops with
  | [] => None
  | o :: rest =>
      match starts (op_txt o) s with
      | None => try_ops rest wl s
      | Some s1 =>
          let '(ws, s2) := span is_ws s1 in
          match p_body o s2 with
          | Some (b, r) => if all_ws r then Some {| s_wl := wl; s_op := o; s_ws := ws; s_body := b; s_wr := r |}
                           else try_ops rest wl s
          | None => try_ops rest wl s
          end
      end
  end.
Definition parse_specifier (s : str) : option spec_sp :=
  let '(wl, s0) := span is_ws s in try_ops ops_in_order wl s0.

Definition SL (l : list N) : str := l.
(* "~=1.0", " >= v1!2.0a1 ", "==1.*", "==1.0+ab.1", "===foo", "====1", "<1.0+a", "~=1", ">=1.*", "!=1.0.post1.*" *)
Eval vm_compute in map (fun s => match parse_specifier s with Some sp => Some (s_op sp) | None => None end)
  [ [126;61;49;46;48]; [32;62;61;32;118;49;33;50;46;48;97;49;32]; [61;61;49;46;42]; [61;61;49;46;48;43;97;98;46;49];
    [61;61;61;102;111;111]; [61;61;61;61;49]; [60;49;46;48;43;97]; [126;61;49]; [62;61;49;46;42]; [33;61;49;46;48;46;112;111;115;116;49;46;42] ].
