(* The operator / version-form table of PEP 440, completeness direction in SEMANTIC terms (complements Specifier_interp / C12_specifier_form_table):
   every version text Version() accepts, whose version the operator admits, is accepted after that operator - as that operator;
   and on the canonical text str(V) the constructor stores exactly (operator, str(V)).  Hence the quantifier of C03
   "every operator x every specifier version the operator admits" is inhabited by real Specifier objects for every structured V. *)
From Coq Require Import List Arith NArith Bool Lia.
Import ListNotations.
Require Import S1 VParse VComplete VTop VTop2 VDec Py VMeaning VCanon VCanon2 VCanon3 VCmp SpecModel SpecOps SpecOps2 Prefix Prefix4 Compat SpecParse SpecSound SpecContains SpecSem SpecMain SpecCut SpecLink SpecEqual SpecComplete SpecArb VWf VKeyEq VAscii VGnfExists CanonLaws.
Open Scope N_scope.
Arguments N.eqb : simpl never.
Arguments N.leb : simpl never.

(* which versions an operator admits (the table of the C12 statement, on structured versions) *)
Definition admits (o : oper) (V : version) : Prop :=
  match o with
  | OCompat => Py.local V = None /\ (2 <= length (Py.release V))%nat
  | OEq | ONe | OArb => True
  | OLe | OGe | OLt | OGt => Py.local V = None
  end.
Lemma admits_form_ok o V : o <> OArb -> VMeaning.wf_version V -> admits o V -> form_ok o (FVer V).
Proof. intros NA W A. destruct o; cbn [admits form_ok] in *; try tauto. Qed.
Lemma form_ok_admits o V : form_ok o (FVer V) -> o <> OArb /\ VMeaning.wf_version V /\ admits o V.
Proof. destruct o; cbn [admits form_ok]; intros H; (split; [discriminate || tauto|]); tauto. Qed.

(* ---------------- the operator alternation, computed ---------------- *)
Lemma try_ops_skip o ops wl s : SpecParse.starts (op_txt o) s = None -> try_ops (o :: ops) wl s = try_ops ops wl s.
Proof. intros H. cbn [try_ops]. now rewrite H. Qed.
Lemma try_ops_hit o ops wl s s1 ws s2 b r : SpecParse.starts (op_txt o) s = Some s1 -> span is_ws s1 = (ws, s2) ->
  p_body o s2 = Some (b, r) -> all_ws r = true ->
  try_ops (o :: ops) wl s = Some {| s_wl := wl; s_op := o; s_ws := ws; s_body := b; s_wr := r |}.
Proof. intros A B C D. cbn [try_ops]. now rewrite A, B, C, D. Qed.
Lemma p_pub_eqsign x : p_pub (61 :: x) = None.
Proof. reflexivity. Qed.

(* text that does not begin with '=' : the operator written in front of it is the operator found *)
Lemma try_ops_own o c t' ws s2 b r : (c =? 61) = false -> span is_ws (c :: t') = (ws, s2) -> p_body o s2 = Some (b, r) -> all_ws r = true ->
  try_ops ops_in_order [] (op_txt o ++ c :: t') = Some {| s_wl := []; s_op := o; s_ws := ws; s_body := b; s_wr := r |}.
Proof.
  intros Hc Sp Pb Aw. unfold ops_in_order.
  assert (Hit : forall ops, try_ops (o :: ops) [] (op_txt o ++ c :: t') = Some {| s_wl := []; s_op := o; s_ws := ws; s_body := b; s_wr := r |}).
  { intros ops. eapply try_ops_hit; eauto using starts_complete. }
  destruct o; cbn [op_txt app];
    repeat first [ apply Hit
                 | rewrite try_ops_skip by (cbn [SpecParse.starts op_txt]; rewrite ?Hc; eval_eqb; reflexivity) ].
  (* for "===" the alternative "==" matches the first two characters and then finds '=' where a version must start (p_pub_eqsign):
     [apply Hit] sees through that by computation *)
Qed.

(* ---------------- characters of an accepted version text ---------------- *)
Definition noteq (c : char) : bool := negb (c =? 61).
Definition nows (c : char) : bool := negb (is_ws c).
Lemma sep_not_ws c : is_sep c = true -> is_ws c = false.
Proof. unfold is_sep. intros H. apply orb_prop in H as [H|H]; [apply orb_prop in H as [H|H]|]; apply N.eqb_eq in H; subst; reflexivity. Qed.
Lemma letter_not_ws c : is_lower (lc c) = true -> is_ws c = false.
Proof. intros H. apply alnum_not_ws. unfold is_alnum_ci. rewrite H. apply orb_true_r. Qed.
Lemma ws_noteq c : is_ws c = true -> noteq c = true.
Proof. unfold noteq. intros H. apply negb_true_iff, N.eqb_neq. intros ->. discriminate H. Qed.
Lemma core_noteq sp : wf_spelling sp -> forallb noteq (core sp) = true.
Proof.
  apply (core_P noteq); try reflexivity; intros c H; unfold noteq; apply negb_true_iff, N.eqb_neq; intros ->; discriminate H.
Qed.
Lemma core_nows sp : wf_spelling sp -> forallb nows (core sp) = true.
Proof.
  apply (core_P nows); try reflexivity; intros c H; unfold nows; apply negb_true_iff;
    [now apply digit_not_ws | now apply sep_not_ws | now apply letter_not_ws].
Qed.
Lemma core_arb sp : wf_spelling sp -> forallb arb_char (core sp) = true.
Proof.
  apply (core_P arb_char); try reflexivity; intros c H; unfold arb_char.
  - rewrite (digit_not_ws c H). apply digit_range in H. now rewrite (proj2 (N.eqb_neq c 59)), (proj2 (N.eqb_neq c 41)) by lia.
  - rewrite (sep_not_ws c H). unfold is_sep in H.
    apply orb_prop in H as [H|H]; [apply orb_prop in H as [H|H]|]; apply N.eqb_eq in H; subst; reflexivity.
  - rewrite (letter_not_ws c H). pose proof (lc_ascii c H) as A.
    destruct (c =? 59) eqn:E1; [apply N.eqb_eq in E1; subst; discriminate H|].
    destruct (c =? 41) eqn:E2; [apply N.eqb_eq in E2; subst; discriminate H|]. reflexivity.
Qed.
Lemma forallb_imp {A} (p q : A -> bool) l : (forall x, p x = true -> q x = true) -> forallb p l = true -> forallb q l = true.
Proof. intros H. induction l as [|x l IH]; cbn; auto. intros E. apply andb_prop in E as [E1 E2]. now rewrite (H x E1), IH. Qed.

(* the public part + local label of a spelling, as the specifier grammar reads them *)
Definition pub_of (sp : spelling) : pub_sp :=
  {| q_v := vpre sp; q_ep := ep sp; q_rel0 := rel0 sp; q_rels := rels sp; q_pre := spre sp; q_post := spost sp; q_dev := sdev sp |}.
Lemma core_pub_of sp : core sp = r_pub (pub_of sp) ++ r_opt r_loc (sloc sp).
Proof. unfold core, r_pub, pub_of; cbn. now rewrite <- !app_assoc. Qed.
Lemma wf_pub_of sp : wf_spelling sp -> wf_pub (pub_of sp) /\ match sloc sp with Some l => wf_loc l = true | None => True end.
Proof. intros (_ & _ & A & B & C & D & E & F & G & H). unfold wf_pub, pub_of; cbn. repeat split; auto. Qed.

(* ---------------- 1. every accepted version text, after every operator that admits its version ---------------- *)
Theorem form_table_complete o t V : Version t = Some V -> admits o V ->
  exists sp, Specifier (op_txt o ++ t) = Some sp /\ sp_op sp = o.
Proof.
  intros PV A. unfold Version in PV. destruct (parse_spelling t) as [spl|] eqn:E; [|discriminate]. injection PV as <-.
  destruct (parse_spelling_sound _ _ E) as [R W]. pose proof W as (Wl & Wr & _).
  destruct (wf_pub_of spl W) as [Wq Wlo].
  (* the body the operator is given *)
  set (b0 := match o with OArb => BArb (core spl) | _ => BPub (pub_of spl) (sloc spl) end).
  assert (RB : r_body b0 = core spl) by (subst b0; destruct o; cbn [r_body]; auto using core_pub_of).
  assert (WB : wf_body o b0).
  { subst b0. destruct o; cbn [wf_body admits] in *.
    - destruct A as [NL Two]. unfold meaning in NL, Two; cbn [Py.local Py.release] in *.
      destruct (sloc spl); [discriminate|]. split; auto. cbn [pub_of q_rels]. destruct (rels spl); [cbn in Two; lia | discriminate].
    - auto.
    - auto.
    - unfold meaning in A; cbn [Py.local] in A. destruct (sloc spl); [discriminate|]. auto.
    - unfold meaning in A; cbn [Py.local] in A. destruct (sloc spl); [discriminate|]. auto.
    - unfold meaning in A; cbn [Py.local] in A. destruct (sloc spl); [discriminate|]. auto.
    - unfold meaning in A; cbn [Py.local] in A. destruct (sloc spl); [discriminate|]. auto.
    - now apply core_arb. }
  destruct (body_complete o b0 (ws_l spl) (ws_r spl) Wl Wr WB) as (ws' & s2 & b' & r & E1 & E2 & E3).
  rewrite RB, <- render_core, R in E1.
  (* t is not empty and does not begin with '=' *)
  assert (NE : forallb noteq t = true).
  { rewrite <- R, render_core, !forallb_app, (core_noteq spl W), (forallb_imp _ _ _ ws_noteq Wl), (forallb_imp _ _ _ ws_noteq Wr). reflexivity. }
  destruct t as [|c t']. { discriminate E. }
  cbn [forallb] in NE. apply andb_prop in NE as [Hc _]. apply negb_true_iff in Hc.
  unfold Specifier, parse_specifier. rewrite (VTop.span_none is_ws _ (op_not_ws o (c :: t'))).
  rewrite (try_ops_own o c t' ws' s2 b' r Hc E1 E2 E3). eexists. split; reflexivity.
Qed.

(* ... and the wildcard form after == and != : a plain version text (no trailing whitespace) followed by ".*" *)
Theorem form_table_complete_wild o t V : (o = OEq \/ o = ONe) -> Version t = Some V -> plain V ->
  (forall u c, t = u ++ [c] -> is_ws c = false) ->
  exists sp, Specifier (op_txt o ++ t ++ [46; 42]) = Some sp /\ sp_op sp = o.
Proof.
  intros O PV (P1 & P2 & P3 & P4) NT. unfold Version in PV. destruct (parse_spelling t) as [spl|] eqn:E; [|discriminate]. injection PV as <-.
  destruct (parse_spelling_sound _ _ E) as [R W]. pose proof W as (Wl & Wr & Wv & We & W0 & Ws & _).
  unfold meaning in P1, P2, P3, P4; cbn [Py.pre Py.post Py.dev Py.local] in *.
  destruct (spre spl) eqn:S1; [discriminate|]. destruct (spost spl) eqn:S2; [discriminate|]. destruct (sdev spl) eqn:S3; [discriminate|].
  destruct (sloc spl) eqn:S4; [discriminate|]. clear P1 P2 P3 P4.
  assert (WR : ws_r spl = []).
  { destruct (ws_r spl) as [|x l] eqn:EW; auto. exfalso.
    destruct (@exists_last _ (x :: l) ltac:(discriminate)) as (u & c & EL).
    assert (Hc : is_ws c = true).
    { rewrite EL in Wr. rewrite forallb_app in Wr. apply andb_prop in Wr as [_ Wr]. cbn in Wr. now rewrite andb_true_r in Wr. }
    rewrite <- R, render_core, EW, EL, !app_assoc in NT. specialize (NT _ c eq_refl). congruence. }
  set (b0 := BWild (vpre spl) (ep spl) (rel0 spl) (rels spl)).
  assert (RB : ws_l spl ++ r_body b0 ++ [] = t ++ [46; 42]).
  { rewrite <- R, render_core, WR. unfold core. rewrite S1, S2, S3, S4. subst b0. cbn [r_body r_opt]. rewrite !app_nil_r, <- !app_assoc. reflexivity. }
  assert (WB : wf_body o b0) by (destruct O as [-> | ->]; cbn [wf_body]; repeat split; assumption).
  destruct (body_complete o b0 (ws_l spl) [] Wl eq_refl WB) as (ws' & s2 & b' & r & E1 & E2 & E3).
  rewrite RB in E1.
  assert (NE : forallb noteq t = true).
  { rewrite <- R, render_core, !forallb_app, (core_noteq spl W), (forallb_imp _ _ _ ws_noteq Wl), (forallb_imp _ _ _ ws_noteq Wr). reflexivity. }
  destruct t as [|c t']. { discriminate E. }
  cbn [forallb] in NE. apply andb_prop in NE as [Hc _]. apply negb_true_iff in Hc.
  unfold Specifier, parse_specifier. cbn [app] in *. rewrite (VTop.span_none is_ws _ (op_not_ws o (c :: t' ++ [46;42]))).
  rewrite (try_ops_own o c (t' ++ [46;42]) ws' s2 b' r Hc E1 E2 E3). eexists. split; reflexivity.
Qed.

(* === takes any text without whitespace, ';' and ')' *)
Theorem form_table_complete_arbitrary t : forallb arb_char t = true -> Specifier (op_txt OArb ++ t) = Some {| sp_op := OArb; sp_text := t |}.
Proof.
  intros A. unfold Specifier, parse_specifier. rewrite (VTop.span_none is_ws _ (op_not_ws OArb t)).
  assert (Sp : span arb_char t = (t, [])) by now apply span_all.
  destruct t as [|c t'].
  - reflexivity.
  - assert (Hw : is_ws c = false).
    { cbn [forallb] in A. apply andb_prop in A as [A _]. unfold arb_char in A. apply andb_prop in A as [A _]. apply andb_prop in A as [A _]. now apply negb_true_iff in A. }
    destruct (c =? 61) eqn:Hc.
    + (* text beginning with '=': the alternatives ~= == != <= >= < > all fail before === is reached *)
      apply N.eqb_eq in Hc. subst c.
      assert (Hit : forall ops, try_ops (OArb :: ops) [] (op_txt OArb ++ 61 :: t') =
                                Some {| s_wl := []; s_op := OArb; s_ws := []; s_body := BArb (61 :: t'); s_wr := [] |}).
      { intros ops. eapply try_ops_hit; [apply starts_complete | apply VTop.span_none; exact Hw | cbn [p_body]; now rewrite Sp | reflexivity]. }
      rewrite (Hit [] : try_ops ops_in_order [] (op_txt OArb ++ 61 :: t') = _). reflexivity.
    + rewrite (try_ops_own OArb c t' [] (c :: t') (BArb (c :: t')) [] Hc); auto.
      * apply VTop.span_none. exact Hw.
      * cbn [p_body]. now rewrite Sp.
Qed.

(* ---------------- 2. on the canonical text the stored pair is exactly (operator, str(V)) ---------------- *)
Lemma nows_strip a b c v : forallb is_ws a = true -> forallb is_ws c = true -> forallb nows v = true -> a ++ b ++ c = v -> b = v.
Proof.
  intros Ha Hc Hv E. subst v. rewrite !forallb_app in Hv. apply andb_prop in Hv as [Va Hv]. apply andb_prop in Hv as [_ Vc].
  assert (Z : forall l, forallb is_ws l = true -> forallb nows l = true -> l = []).
  { intros [|x l]; auto. cbn [forallb]. unfold nows. intros H1 H2. apply andb_prop in H1 as [H1 _]. apply andb_prop in H2 as [H2 _]. rewrite H1 in H2. discriminate. }
  rewrite (Z a Ha Va), (Z c Hc Vc). cbn. now rewrite app_nil_r.
Qed.
Lemma vstr_nows V : VMeaning.wf_version V -> forallb nows (vstr V) = true.
Proof.
  intros W. apply (forallb_imp canonc); [|exact (vstr_alphabet V W)].
  intros c H. unfold nows. apply negb_true_iff. unfold canonc in H.
  repeat (apply orb_prop in H as [H|H]); try (apply N.eqb_eq in H; subst; reflexivity).
  - now apply digit_not_ws.
  - apply letter_not_ws. now rewrite (lc_lower c H).
Qed.
Lemma stored_text o v sp : Specifier (op_txt o ++ v) = Some sp -> sp_op sp = o -> forallb nows v = true -> sp_text sp = v.
Proof.
  unfold Specifier. destruct (parse_specifier (op_txt o ++ v)) as [tr|] eqn:E; [|discriminate]. intros [= <-]. cbn [sp_op sp_text]. intros O NV.
  destruct (C12_spec_sound _ _ E) as (R & W1 & W2 & W3 & _). unfold render_spec in R. rewrite O in R.
  assert (L : s_wl tr = []).
  { destruct (s_wl tr) as [|x l]; auto. exfalso. cbn [forallb] in W1. apply andb_prop in W1 as [W1 _].
    pose proof (op_not_ws o v) as H. rewrite <- R in H. cbn [app hd_is] in H. congruence. }
  rewrite L in R. cbn [app] in R. apply app_inv_head in R. exact (nows_strip _ _ _ _ W2 W3 NV R).
Qed.

Theorem Specifier_canonical o V : VMeaning.wf_version V -> admits o V ->
  Specifier (op_txt o ++ vstr V) = Some {| sp_op := o; sp_text := vstr V |}.
Proof.
  intros W A. destruct (form_table_complete o (vstr V) V (Version_vstr V W) A) as (sp & S & O).
  pose proof (stored_text o (vstr V) sp S O (vstr_nows V W)) as T. rewrite S. destruct sp; cbn in *. now subst.
Qed.
Theorem Specifier_canonical_wild o V : (o = OEq \/ o = ONe) -> VMeaning.wf_version V -> plain V ->
  Specifier (op_txt o ++ vstr V ++ [46; 42]) = Some {| sp_op := o; sp_text := vstr V ++ [46; 42] |}.
Proof.
  intros O W P.
  assert (NT : forall u c, vstr V = u ++ [c] -> is_ws c = false).
  { intros u c E. pose proof (vstr_nows V W) as N. rewrite E, forallb_app in N. apply andb_prop in N as [_ N]. cbn in N.
    rewrite andb_true_r in N. now apply negb_true_iff in N. }
  destruct (form_table_complete_wild o (vstr V) V O (Version_vstr V W) P NT) as (sp & S & Q).
  assert (NV : forallb nows (vstr V ++ [46; 42]) = true) by (rewrite forallb_app, (vstr_nows V W); reflexivity).
  pose proof (stored_text o _ sp S Q NV) as T. rewrite S. destruct sp; cbn in *. now subst.
Qed.

(* ---------------- 3. what these specifiers denote ---------------- *)
Lemma interp_canonical o V : VMeaning.wf_version V -> o <> OArb -> interp {| sp_op := o; sp_text := vstr V |} = Some (FVer V).
Proof.
  intros W NA. unfold interp; cbn [sp_op sp_text]. rewrite (vstr_not_wild V W), (Version_vstr V W). destruct o; try reflexivity. congruence.
Qed.
Lemma interp_canonical_wild o V : VMeaning.wf_version V -> (o = OEq \/ o = ONe) ->
  interp {| sp_op := o; sp_text := vstr V ++ [46; 42] |} = Some (FWild V).
Proof.
  intros W O. unfold interp; cbn [sp_op sp_text]. rewrite ends_dotstar_app, drop2_app, (Version_vstr V W). destruct O as [-> | ->]; reflexivity.
Qed.

(* non-vacuity: "~=1.0a1" from the structured version 1.0a1; "<=1.0+x" is refused (the operator does not admit a local label), "==1.0+x" is not *)
Definition admit_check : bool :=
  match Version [49;46;48;97;49], Version [49;46;48;43;120] with
  | Some V, Some L =>
      match Specifier (op_txt OCompat ++ vstr V), Specifier (op_txt OLe ++ vstr L), Specifier (op_txt OEq ++ vstr L),
            Specifier (op_txt ONe ++ [49;46;48] ++ [46;42]) with
      | Some sp, None, Some sq, Some sw => VMeaning.str_eqb (sp_text sp) (vstr V) && VMeaning.str_eqb (sp_text sq) (vstr L) &&
                                           VMeaning.str_eqb (sp_text sw) [49;46;48;46;42]
      | _, _, _, _ => false end
  | _, _ => false end.
Example admit_nonvacuous : admit_check = true.
Proof. vm_compute. reflexivity. Qed.
Print Assumptions form_table_complete.
Print Assumptions form_table_complete_wild.
Print Assumptions Specifier_canonical.
Print Assumptions Specifier_canonical_wild.
