(* Reflexivity of the specifier operators: a version against (any spelling of) itself.  Used by Properties/C04.v. *)
From Coq Require Import List Arith NArith Bool Lia.
Import ListNotations.
Require Import S1 VParse Py VMeaning VCmp SpecModel SpecOps SpecOps2 Prefix4 Compat Order Laws SpecParse SpecContains SpecSem SpecMain LawsAll SpecGate SpecLift VWf VKeyEq SpecAdmit.
Require Import SpecSpell.
Open Scope N_scope.

Lemma vcmp_refl v : vcmp v v = Eq.
Proof. apply (ok_refl _ pep440_cmp_ok). Qed.
Lemma ns_eqb_refl l : ns_eqb l l = true.
Proof. induction l as [|x l IH]; cbn [ns_eqb]; auto. now rewrite N.eqb_refl, IH. Qed.
Lemma drop_local_id v : Py.local v = None -> drop_local v = v.
Proof. intros L. destruct v; cbn in L |- *; unfold drop_local; cbn; now subst. Qed.
Lemma prefix_self_removelast (r : list N) : r <> [] ->
  ns_eqb (firstn (length (removelast r)) (r ++ repeat 0 (length (removelast r) - length r))) (removelast r) = true.
Proof.
  intros NE. destruct (exists_last NE) as (l & x & ->). rewrite removelast_last, app_length. cbn [length].
  replace (length l - (length l + 1))%nat with 0%nat by lia. cbn [repeat]. rewrite app_nil_r, firstn_app, firstn_all, Nat.sub_diag. cbn [firstn].
  rewrite app_nil_r. apply ns_eqb_refl.
Qed.

(* reflexivity: every version satisfies ==, >=, <=, ~= and === of (a spelling of) itself and fails !=, <, > *)
Theorem self_match_sem V : VMeaning.wf_version V ->
  eq_spec V V = true /\ arb_spec V (vstr V) = true /\
  (Py.local V = None -> ge_spec V V = true /\ le_spec V V = true /\ lt_spec V V = false /\ gt_spec V V = false /\
                        ((2 <= length (Py.release V))%nat -> compat_spec V V = true)).
Proof.
  intros W. split; [|split].
  - unfold eq_spec. destruct (has_local V) eqn:HL; [now rewrite vcmp_refl|].
    assert (L : Py.local V = None) by (unfold has_local in HL; destruct (Py.local V); [discriminate|reflexivity]).
    now rewrite (drop_local_id V L), vcmp_refl.
  - unfold arb_spec. apply str_eqb_refl.
  - intros L. unfold ge_spec, le_spec, lt_spec, gt_spec, compat_spec. rewrite (drop_local_id V L), !vcmp_refl. cbn [of_cmp negb andb].
    repeat split; try reflexivity. intros R. unfold ge_spec. rewrite (drop_local_id V L), vcmp_refl. cbn [of_cmp negb andb].
    unfold prefix_spec, plain_v; cbn [Py.epoch Py.release]. rewrite N.eqb_refl. cbn [andb]. apply prefix_self_removelast.
    destruct W as (NE & _). exact NE.
Qed.

Definition reflexive_op (o : oper) : bool := match o with OEq | OGe | OLe | OCompat => true | _ => false end.
Theorem self_match_contains o t t2 V : Version t = Some V -> Version t2 = Some V -> admits o V -> o <> OArb ->
  exists sp, Specifier (op_txt o ++ t) = Some sp /\ contains sp None (Some true) t2 = Ans (reflexive_op o).
Proof.
  intros Ht Ht2 A NA. destruct (contains_of_version o t V t2 V Ht A NA Ht2) as (sp & b & S & E & C).
  exists sp. split; [exact S|]. rewrite C. f_equal.
  pose proof (Version_wf t V Ht) as W. destruct (self_match_sem V W) as (Q & _ & R).
  destruct o; cbn [sem admits reflexive_op] in *; try congruence;
    try (rewrite Q in E; cbn [negb] in E; congruence);
    (first [ destruct A as [L R2]; destruct (R L) as (K1 & K2 & K3 & K4 & K5); rewrite ?K1, ?K2, ?K3, ?K4, ?(K5 R2) in E
           | destruct (R A) as (K1 & K2 & K3 & K4 & _); rewrite ?K1, ?K2, ?K3, ?K4 in E ]; congruence).
Qed.
Print Assumptions self_match_contains.
