(* C03: the pre-release gate of Specifier.contains / `in`, for every way "pre-releases enabled" can come about:
   the call argument, the object's own setting (constructor keyword or attribute), or the operator's automatic default.
   `item in spec` is spec.contains(item), i.e. [contains sp ov None item]. *)
From Coq Require Import List Arith NArith Bool Lia.
Import ListNotations.
Require Import S1 VParse VComplete VTop VTop2 VDec Py VMeaning VCmp SpecModel SpecOps SpecOps2 Prefix Prefix4 Compat SpecParse SpecSound SpecContains SpecSem SpecMain SpecLink VWf VKeyEq.
Open Scope N_scope.
Arguments N.eqb : simpl never.
Arguments N.leb : simpl never.

(* the setting contains() works with: the call argument if given, else the object's setting, else the automatic default *)
Definition gate_setting (sp : specifier) (ov arg : option bool) : bool :=
  match arg with Some b => b | None => effective_pre ov sp end.
(* `item in spec` is SpecContains.in_op sp ov item = contains sp ov None item (the definition the observation layer runs) *)

Lemma contains_spec_ans s sp item c : Specifier s = Some sp -> Version item = Some c ->
  exists b, compare_op (sp_op sp) c (sp_text sp) = Some b /\ contains_spec sp item = Some (Ans b).
Proof.
  intros S E. destruct (Specifier_interp s sp S) as (f & I & F).
  pose proof (compare_op_spec sp f c (Version_wf _ _ E) I F) as C.
  unfold contains_spec. rewrite I, E.
  destruct f as [V|V|t]; destruct (sp_op sp); cbn [sem form_ok] in *; try contradiction; rewrite C; eexists; split; reflexivity.
Qed.

(* gate open (setting true, or the candidate is not a pre-release): the answer is the PEP 440 operator semantics *)
Theorem gate_open s sp ov arg item c : Specifier s = Some sp -> Version item = Some c ->
  gate_setting sp ov arg = true \/ is_prerelease c = false ->
  Some (contains sp ov arg item) = contains_spec sp item.
Proof.
  intros S E G. destruct (contains_spec_ans s sp item c S E) as (b & C & R). rewrite R.
  unfold contains. fold (gate_setting sp ov arg). rewrite E, C.
  destruct G as [G|G]; rewrite G; [rewrite andb_false_r|]; reflexivity.
Qed.
(* gate closed: a pre-release candidate is rejected whatever the operator says *)
Theorem gate_closed sp ov arg item c : Version item = Some c ->
  gate_setting sp ov arg = false -> is_prerelease c = true -> contains sp ov arg item = Ans false.
Proof. intros E G P. unfold contains. fold (gate_setting sp ov arg). now rewrite E, G, P. Qed.
(* an invalid candidate is InvalidVersion under every setting *)
Theorem gate_bad_item sp ov arg item : Version item = None -> contains sp ov arg item = BadItem.
Proof. intros E. unfold contains. now rewrite E. Qed.

(* the three routes to "pre-releases enabled" of the property's observation points *)
Corollary enabled_by_argument s sp ov item : Specifier s = Some sp -> Some (contains sp ov (Some true) item) = contains_spec sp item.
Proof.
  intros S. destruct (Version item) as [c|] eqn:E.
  - apply (gate_open s sp ov (Some true) item c S E). now left.
  - rewrite (gate_bad_item sp ov (Some true) item E). destruct (Specifier_interp s sp S) as (f & I & _). unfold contains_spec. now rewrite I, E.
Qed.
Corollary enabled_by_object_setting s sp item : Specifier s = Some sp ->
  Some (contains sp (Some true) None item) = contains_spec sp item /\ Some (in_op sp (Some true) item) = contains_spec sp item.
Proof.
  intros S. assert (X : Some (contains sp (Some true) None item) = contains_spec sp item); [|split; exact X].
  destruct (Version item) as [c|] eqn:E.
  - apply (gate_open s sp (Some true) None item c S E). now left.
  - rewrite (gate_bad_item sp (Some true) None item E). destruct (Specifier_interp s sp S) as (f & I & _). unfold contains_spec. now rewrite I, E.
Qed.

(* non-vacuity: ">=1.0" with object setting True admits 1.1a1 through `in`; with no setting, and with argument False, it does not;
   "==1.1a1" enables pre-releases by itself *)
Definition gate_check : bool :=
  match Specifier [62;61;49;46;48], Specifier [61;61;49;46;49;97;49] with
  | Some sp, Some sq =>
      match in_op sp (Some true) [49;46;49;97;49], in_op sp None [49;46;49;97;49], contains sp (Some true) (Some false) [49;46;49;97;49],
            in_op sq None [49;46;49;97;49], contains_spec sp [49;46;49;97;49] with
      | Ans true, Ans false, Ans false, Ans true, Some (Ans true) => true | _, _, _, _, _ => false end
  | _, _ => false end.
Example gate_nonvacuous : gate_check = true.
Proof. vm_compute. reflexivity. Qed.
Print Assumptions gate_open.
