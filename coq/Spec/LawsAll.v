(* C04: the algebraic laws, uniformly over the operator semantics [sem] (which contains() is proved to compute, SpecMain). *)
From Coq Require Import List Arith NArith Bool Lia.
Import ListNotations.
Require Import S1 VParse VComplete VTop VTop2 VDec Py VMeaning VCanon VCanon2 VCanon3 VCmp SpecModel SpecOps SpecOps2 Prefix Prefix2 Prefix3 Prefix4 Compat Order Canon SpecEq Laws SpecParse SpecSound SpecContains SpecSem SpecMain VWf VKeyEq.
Open Scope N_scope.
Arguments N.eqb : simpl never.
Arguments N.leb : simpl never.

(* ---------- candidates that compare equal ---------- *)
Lemma padded_prefix_eq a : forall b n, padcmp a b = Eq ->
  firstn n (a ++ repeat 0 (n - length a)) = firstn n (b ++ repeat 0 (n - length b)).
Proof.
  induction a as [|x a IH]; intros b n H.
  - cbn [padcmp] in H. destruct (allz b) eqn:Z; [|discriminate]. cbn [app length]. rewrite Nat.sub_0_r.
    clear H. revert n. induction b as [|y b IHb]; intros n.
    + cbn. now rewrite Nat.sub_0_r.
    + cbn [allz] in Z. apply andb_prop in Z as [Y Z]. apply N.eqb_eq in Y. subst y.
      destruct n as [|n]; [reflexivity|]. cbn [repeat firstn app length Nat.sub]. f_equal. apply IHb. exact Z.
  - destruct b as [|y b].
    + cbn [padcmp] in H. destruct (allz (x :: a)) eqn:Z; [|discriminate]. cbn [allz] in Z.
      apply andb_prop in Z as [X Z]. apply N.eqb_eq in X. subst x.
      destruct n as [|n]; [reflexivity|]. cbn [repeat firstn app length Nat.sub]. f_equal.
      specialize (IH [] n). cbn [app length] in IH. rewrite Nat.sub_0_r in IH. apply IH.
      destruct a; cbn [padcmp]; [reflexivity|]. now rewrite Z.
    + cbn [padcmp] in H. destruct (x ?= y) eqn:E; try discriminate. apply N.compare_eq in E. subst y.
      destruct n as [|n]; [reflexivity|]. cbn [firstn app length Nat.sub]. f_equal. now apply IH.
Qed.

Lemma drop_local_equal c c' : VMeaning.wf_version c -> VMeaning.wf_version c' -> pep440_cmp c c' = Eq ->
  pep440_cmp (drop_local c) (drop_local c') = Eq.
Proof.
  intros W W' E. destruct (cmp_eq_components c c' W W' E) as (E1 & E2 & E3 & E4 & E5 & _).
  unfold pep440_cmp, pre_class, post_class, dev_class. cbn [drop_local Py.epoch Py.release Py.pre Py.post Py.dev Py.local].
  rewrite E1, N.compare_refl, E2, E3, E4, E5. cbn [thenc].
  destruct pair_cmp_ok as [R _ _ _]. rewrite !R. reflexivity.
Qed.
Lemma vcmp_left_congr x x' V : vcmp x x' = Eq -> vcmp x V = vcmp x' V.
Proof. unfold vcmp. destruct pep440_cmp_ok as [R SY TE TL]. intros E. symmetry. apply (TE _ _ V E). Qed.

Section EqCand.
Variables c c' : version.
Hypothesis W : VMeaning.wf_version c.
Hypothesis W' : VMeaning.wf_version c'.
Hypothesis E : pep440_cmp c c' = Eq.

Let ED : vcmp (drop_local c) (drop_local c') = Eq := drop_local_equal c c' W W' E.
Let EB : vcmp (base_of c) (base_of c') = Eq := base_equiv c c' W W' E.

Lemma eqc_le V : le_spec c V = le_spec c' V.   Proof. unfold le_spec. now rewrite (vcmp_left_congr _ _ V ED). Qed.
Lemma eqc_ge V : ge_spec c V = ge_spec c' V.   Proof. unfold ge_spec. now rewrite (vcmp_left_congr _ _ V ED). Qed.
Lemma eqc_eq V : eq_spec c V = eq_spec c' V.
Proof. unfold eq_spec. destruct (has_local V); [now rewrite (vcmp_left_congr c c' V E) | now rewrite (vcmp_left_congr _ _ V ED)]. Qed.
Lemma eqc_pre : is_prerelease c = is_prerelease c'.
Proof. destruct (cmp_eq_components c c' W W' E) as (_ & _ & P & _ & D & _). unfold is_prerelease. now rewrite P, D. Qed.
Lemma eqc_post : is_postrelease c = is_postrelease c'.
Proof. destruct (cmp_eq_components c c' W W' E) as (_ & _ & _ & Q & _ & _). unfold is_postrelease. now rewrite Q. Qed.
Lemma eqc_lt V : lt_spec c V = lt_spec c' V.
Proof. unfold lt_spec. now rewrite (vcmp_left_congr c c' V E), (vcmp_left_congr _ _ (base_of V) EB), eqc_pre. Qed.
Lemma eqc_gt V : gt_spec c V = gt_spec c' V.
Proof. unfold gt_spec. now rewrite (vcmp_left_congr _ _ V ED), (vcmp_left_congr _ _ (base_of V) EB), eqc_post. Qed.
Lemma eqc_prefix V : prefix_spec c V = prefix_spec c' V.
Proof.
  destruct (cmp_eq_components c c' W W' E) as (E1 & E2 & _). unfold prefix_spec. rewrite E1.
  now rewrite (padded_prefix_eq _ _ (length (Py.release V)) E2).
Qed.
Lemma eqc_compat V : compat_spec c V = compat_spec c' V.
Proof. unfold compat_spec. now rewrite eqc_ge, eqc_prefix. Qed.

Theorem sem_equal_candidates o f : o <> OArb -> sem o f c = sem o f c'.
Proof.
  intros NA. destruct o, f; cbn [sem]; try reflexivity; try congruence;
    rewrite ?eqc_eq, ?eqc_prefix, ?eqc_compat, ?eqc_le, ?eqc_ge, ?eqc_lt, ?eqc_gt; reflexivity.
Qed.
End EqCand.

(* ---------- a specifier without local label ignores the candidate's local label ---------- *)
Definition no_local_form (f : sform) : Prop := match f with FVer V | FWild V => Py.local V = None | FArb _ => True end.
Theorem sem_local_irrelevant o f c l : o <> OArb -> no_local_form f -> Py.local c = None ->
  sem o f (add_local c l) = sem o f c.
Proof.
  intros NA NL NC. destruct o, f; cbn [sem no_local_form] in *; try reflexivity; try congruence;
    rewrite ?C04_local_irrelevant_eq, ?C04_local_irrelevant_lt by assumption; reflexivity.
Qed.

(* ---------- != is the complement of == ---------- *)
Theorem sem_ne_complement f c : sem ONe f c = option_map negb (sem OEq f c).
Proof. destruct f; reflexivity. Qed.
