(* C03 stated from the STRUCTURED side: for every operator and every structured version V the operator admits (and every wildcard form "V.*" ),
   the comparison method of the code model, run on the canonical text of V, computes the PEP 440 semantics [sem]; the real constructor
   accepts that text, stores it, and contains() answers accordingly.
   Plus a table of examples from PEP 440 "Version specifiers" (14 rows the PEP spells out itself, 72 instances of its rules chosen here),
   evaluated with [sem] through contains_spec: they pin the declarative semantics to the wording of the PEP rather than to the code. *)
From Coq Require Import List Arith NArith Bool Lia String.
Import ListNotations.
Require Import S1 VParse VComplete VTop VTop2 VDec Py VMeaning VCanon VCmp SpecModel SpecOps SpecOps2 Prefix Prefix4 Compat SpecParse SpecSound SpecContains SpecSem SpecMain SpecCut SpecLink SpecEqual SpecAdmit VWf VKeyEq CanonLaws Show.
Open Scope N_scope.
Arguments N.eqb : simpl never.
Arguments N.leb : simpl never.

Definition dotstar : list N := [46; 42].

Theorem structured_ver o V c : form_ok o (FVer V) -> VMeaning.wf_version c -> compare_op o c (vstr V) = sem o (FVer V) c.
Proof.
  intros F W. destruct (form_ok_admits o V F) as (NA & WV & _).
  exact (compare_op_spec {| sp_op := o; sp_text := vstr V |} (FVer V) c W (interp_canonical o V WV NA) F).
Qed.
Lemma form_ok_wild o V : form_ok o (FWild V) -> (o = OEq \/ o = ONe) /\ VMeaning.wf_version V /\ plain V.
Proof. destruct o; cbn [form_ok]; intros H; try contradiction; destruct H; auto. Qed.
Theorem structured_wild o V c : form_ok o (FWild V) -> VMeaning.wf_version c -> compare_op o c (vstr V ++ dotstar) = sem o (FWild V) c.
Proof.
  intros F W. destruct (form_ok_wild o V F) as (O & WV & _).
  exact (compare_op_spec {| sp_op := o; sp_text := vstr V ++ dotstar |} (FWild V) c W (interp_canonical_wild o V WV O) F).
Qed.

(* ... through the real entry points: Specifier(op + str(V)) exists, stores (op, str(V)), and contains(item, prereleases=True) is [sem] *)
Theorem structured_contains o V item c : form_ok o (FVer V) -> Version item = Some c ->
  exists b, Specifier (op_txt o ++ vstr V) = Some {| sp_op := o; sp_text := vstr V |} /\
            sem o (FVer V) c = Some b /\ contains {| sp_op := o; sp_text := vstr V |} None (Some true) item = Ans b.
Proof.
  intros F E. destruct (form_ok_admits o V F) as (NA & WV & A).
  pose proof (interp_canonical o V WV NA) as I.
  pose proof (contains_is_spec _ _ item I F) as H. unfold contains_spec in H. rewrite I, E in H. cbn [sp_op] in H.
  destruct (sem o (FVer V) c) as [b|] eqn:S.
  - exists b. split; [now apply Specifier_canonical|]. split; auto. cbn [option_map] in H. now injection H.
  - destruct o; cbn [sem form_ok] in *; try discriminate; contradiction.
Qed.
Theorem structured_contains_wild o V item c : form_ok o (FWild V) -> Version item = Some c ->
  exists b, Specifier (op_txt o ++ vstr V ++ dotstar) = Some {| sp_op := o; sp_text := vstr V ++ dotstar |} /\
            sem o (FWild V) c = Some b /\ contains {| sp_op := o; sp_text := vstr V ++ dotstar |} None (Some true) item = Ans b.
Proof.
  intros F E. destruct (form_ok_wild o V F) as (O & WV & P).
  pose proof (interp_canonical_wild o V WV O) as I.
  pose proof (contains_is_spec _ _ item I F) as H. unfold contains_spec in H. rewrite I, E in H. cbn [sp_op] in H.
  destruct (sem o (FWild V) c) as [b|] eqn:S.
  - exists b. split; [now apply Specifier_canonical_wild|]. split; auto. cbn [option_map] in H. now injection H.
  - destruct O as [-> | ->]; discriminate S.
Qed.

(* ---------------- the examples of PEP 440, section "Version specifiers" ---------------- *)
(* the declarative semantics of the specifier text on the candidate text (pre-releases enabled); None = not a specifier / not a version *)
Definition pep (spec item : string) : option bool :=
  match Specifier (asc spec) with
  | Some sp => match contains_spec sp (asc item) with Some (Ans b) => Some b | _ => None end
  | None => None end.
Definition row (r : string * string * bool) : bool :=
  let '(s, i, b) := r in match pep s i with Some b' => Bool.eqb b b' | None => false end.
Open Scope string_scope.
(* A. the rows PEP 440 itself spells out ("given the version 1.1.post1 ...", "given the version 1.1a1 ...", ">1.7 will allow 1.7.1 but not
      1.7.0.post1 and >1.7.post2 will allow 1.7.1 and 1.7.0.post3 but not 1.7.0") *)
Definition pep440_verbatim : list (string * string * bool) := [
  ("==1.1", "1.1.post1", false); ("==1.1.post1", "1.1.post1", true); ("==1.1.*", "1.1.post1", true);
  ("==1.1", "1.1a1", false); ("==1.1a1", "1.1a1", true); ("==1.1.*", "1.1a1", true);
  ("!=1.1", "1.1.post1", true); ("!=1.1.post1", "1.1.post1", false); ("!=1.1.*", "1.1.post1", false);
  (">1.7", "1.7.1", true); (">1.7", "1.7.0.post1", false); (">1.7.post2", "1.7.1", true); (">1.7.post2", "1.7.0.post3", true); (">1.7.post2", "1.7.0", false)
].
(* B. instances (chosen here, not quoted) of the rules and equivalences the PEP states *)
Definition pep440_instances : list (string * string * bool) := [
  (* Compatible release: "~= 2.2" is ">= 2.2, == 2.*";  "~= 1.4.5" is ">= 1.4.5, == 1.4.*" *)
  ("~=2.2", "2.2", true); ("~=2.2", "2.3", true); ("~=2.2", "2.9.1", true); ("~=2.2", "3.0", false); ("~=2.2", "2.1", false);
  ("~=1.4.5", "1.4.5", true); ("~=1.4.5", "1.4.9", true); ("~=1.4.5", "1.5.0", false); ("~=1.4.5", "1.4.4", false);
  (* "~= 2.2.post3" is ">= 2.2.post3, == 2.*";  "~= 1.4.5a4" is ">= 1.4.5a4, == 1.4.*": suffixes are ignored when the prefix is determined *)
  ("~=2.2.post3", "2.2.post3", true); ("~=2.2.post3", "2.3", true); ("~=2.2.post3", "2.2.post2", false); ("~=2.2.post3", "2.2", false);
  ("~=2.2.post3", "3.0", false);
  ("~=1.4.5a4", "1.4.5a4", true); ("~=1.4.5a4", "1.4.5", true); ("~=1.4.5a4", "1.4.9", true); ("~=1.4.5a4", "1.5", false); ("~=1.4.5a4", "1.4.5a3", false);
  (* "~= 2.2.0" is ">= 2.2.0, == 2.2.*";  "~= 1.4.5.0" is ">= 1.4.5.0, == 1.4.5.*": padding the release changes the meaning *)
  ("~=2.2.0", "2.2.5", true); ("~=2.2.0", "2.3", false); ("~=1.4.5.0", "1.4.5.7", true); ("~=1.4.5.0", "1.4.6", false);
  (* Version matching: strict, with zero padding of the release; the candidate's local label is ignored unless the specifier has one *)
  ("==1.1", "1.1", true); ("==1.1", "1.1.0", true); ("==1.1.0", "1.1", true);
  ("==1.1", "1.1+local.7", true); ("==1.1+local.7", "1.1", false); ("==1.1+local.7", "1.1+LOCAL_7", true); ("==1.1+local.7", "1.1+local.8", false);
  ("==1.1.*", "1.1.5", true); ("==1.1.*", "1.2", false); ("==1.1.*", "1.10", false); ("==1.1.*", "1.1+abc", true);
  (* the candidate's release is zero-padded as far as the prefix needs; the epoch takes part in the prefix *)
  ("==1.1.0.*", "1.1", true); ("==1.0.0.0.*", "1", true); ("==1.0.0.0.*", "1.0.0.1", false); ("==1!1.*", "1.5", false); ("==1!1.*", "1!1.5", true);
  (* Version exclusion *)
  ("!=1.1.*", "1.2", true); ("!=1.1", "1.1.0", false);
  (* Inclusive ordered comparison: position in the version ordering; local labels of the candidate are ignored *)
  (">=1.0", "1.0", true); (">=1.0", "1.0+local", true); ("<=1.0", "1.0+local", true); ("<=1.0", "1.0.post1", false); (">=1.0", "1.0.dev1", false);
  (">=1.0", "1.0a1", false); (">=1.0", "1.0.post1", true); ("<=1.0", "1.0rc1", true); (">=1!0", "2.0", false); ("<=1!0", "2025.1", true);
  (* Exclusive ordered comparison *)
  (">1.7", "1.8.post1", true); (">1.7", "1.7", false);
  (* ">V MUST NOT match a local version of the specified version" - and only of that version *)
  (">1.7", "1.7+local", false); (">1.7.post2", "1.7.post2+x", false); (">1.7.post2", "1.7.post3+x", true); (">1.7a1", "1.7+x", true);
  (* "<V MUST NOT allow a pre-release of the specified version unless the specified version is itself a pre-release" *)
  ("<1.7", "1.6", true); ("<1.7", "1.7a1", false); ("<1.7", "1.7.0.dev1", false); ("<1.7", "1.6a1", true); ("<1.7", "1.6.post5", true);
  ("<1.7rc1", "1.7a1", true); ("<1.7.post1", "1.7", true); ("<1.7", "1.7", false); ("<1.7", "1.7+x", false);
  (* Arbitrary equality: plain string comparison (ASCII case-insensitive) with the candidate's normalised text, no version semantics *)
  ("===1.0", "1.0", true); ("===1.0", "1.0.0", false); ("===1.0+ABC", "1.0+abc", true); ("===foobar", "1.0", false); ("===1.0a1", "1.0.ALPHA.1", true);
  ("===1.0", "v1.0", true)
].
Definition pep440_table : list (string * string * bool) := List.app pep440_verbatim pep440_instances.
Close Scope string_scope.
Definition pep440_table_check : bool := forallb row pep440_table.
Example pep440_examples : pep440_table_check = true.
Proof. vm_compute. reflexivity. Qed.
Example pep440_row_count : (List.length pep440_verbatim, List.length pep440_instances) = (14, 72)%nat.
Proof. reflexivity. Qed.

(* non-vacuity of the structured theorems: V = 1!2.0.post1 is admitted by every operator but ===; 2.0 by the wildcard form.
   For each: compare_op on str(V) = sem; the constructor stores exactly (operator, str(V)); contains(item, prereleases=True) = Ans (sem ...) *)
Definition same_spec (sp : specifier) (o : oper) (t : list N) : bool := VMeaning.str_eqb (op_txt (sp_op sp)) (op_txt o) && VMeaning.str_eqb (sp_text sp) t.
Definition struct_check : bool :=
  let item := asc "1!2.0.post2" in
  match Version (asc "1!2.0.post1"), Version (asc "2.0"), Version item with
  | Some V, Some P, Some c =>
      forallb (fun o => match compare_op o c (vstr V), sem o (FVer V) c, Specifier (op_txt o ++ vstr V) with
                        | Some a, Some b, Some sp =>
                            Bool.eqb a b && same_spec sp o (vstr V) &&
                            match contains sp None (Some true) item with Ans x => Bool.eqb x b | _ => false end
                        | _, _, _ => false end) [OCompat; OEq; ONe; OLe; OGe; OLt; OGt] &&
      forallb (fun o => match compare_op o c (vstr P ++ dotstar), sem o (FWild P) c, Specifier (op_txt o ++ vstr P ++ dotstar) with
                        | Some a, Some b, Some sp =>
                            Bool.eqb a b && same_spec sp o (vstr P ++ dotstar) &&
                            match contains sp None (Some true) (asc "2.0.0.5") with Ans x => Bool.eqb x (match o with OEq => true | _ => false end) | _ => false end
                        | _, _, _ => false end) [OEq; ONe]
  | _, _, _ => false end.
Example struct_nonvacuous : struct_check = true.
Proof. vm_compute. reflexivity. Qed.
Print Assumptions structured_ver.
Print Assumptions structured_wild.
Print Assumptions structured_contains.
Print Assumptions structured_contains_wild.
