From Coq Require Import List Arith NArith Bool Lia.
Import ListNotations.
Require Import S1 VParse VComplete VTop VTop2 VDec Py VMeaning VCanon VCanon2 VCanon3 VCmp SpecModel SpecOps Prefix Prefix2 Prefix3 Prefix4.
Open Scope N_scope.
Arguments N.eqb : simpl never.
Arguments N.leb : simpl never.

(* _is_not_suffix(segment): not startswith any of ("dev", "a", "b", "rc", "post") *)
Definition sfx_prefixes : list str := [w_dev; w_a; w_b; w_rc; w_post].
Definition is_not_suffix (s : str) : bool :=
  negb (existsb (fun p => match Prefix.starts p s with Some _ => true | None => false end) sfx_prefixes).
(* _version_join: f"{epoch}!{'.'.join(rest)}" *)
Fixpoint join_dots (l : list str) : str := match l with [] => [] | [x] => x | x :: t => x ++ 46 :: join_dots t end.
Definition version_join (comps : list str) : str := match comps with [] => [] | e :: r => e ++ 33 :: join_dots r end.
(* _compare_compatible, with the D1 repair (the text is normalised before it is split) *)
Definition cmp_compat (c : version) (spec : str) : option bool :=
  ge <- cmp_ge c spec ;;
  let comps := takewhile is_not_suffix (version_split (canon_nostrip spec)) in
  let prefix := version_join (removelast comps) in
  Some (ge && cmp_eq_prefix c prefix).

Lemma starts_digit_none p s : hd_is is_lower p = true -> hd_is is_digit s = true -> Prefix.starts p s = None.
Proof.
  destruct p as [|x p], s as [|c s]; cbn; try discriminate. intros Hp Hc.
  apply digit_range in Hc. unfold is_lower in Hp. apply andb_prop in Hp as [H1 H2]. apply N.leb_le in H1, H2.
  rewrite (proj2 (N.eqb_neq c x)) by lia. reflexivity.
Qed.
Lemma not_suffix_dec n : is_not_suffix (dec n) = true.
Proof.
  unfold is_not_suffix, sfx_prefixes. cbn [existsb].
  rewrite !starts_digit_none by (try reflexivity; apply dec_hd_digit). reflexivity.
Qed.
Lemma takewhile_ns_decs l X : match X with [] => True | x :: _ => is_not_suffix x = false end ->
  takewhile is_not_suffix (map dec l ++ X) = map dec l.
Proof.
  intros HX. induction l as [|n l IH]; cbn [map app takewhile].
  - destruct X; auto. cbn [takewhile]. now rewrite HX.
  - now rewrite not_suffix_dec, IH.
Qed.
Lemma suffix_item l n : (l = w_a \/ l = w_b \/ l = w_rc \/ l = w_post \/ l = w_dev) -> is_not_suffix (lv_txt (l, n)) = false.
Proof.
  intros H. unfold is_not_suffix, lv_txt, sfx_prefixes; cbn [fst snd existsb].
  destruct H as [->|[->|[->|[->| ->]]]]; unfold w_a, w_b, w_rc, w_post, w_dev; cbn [app Prefix.starts]; eval_eqb; cbn; reflexivity.
Qed.

(* parsing "E!r1.r2...rk" *)
Definition plain_v (e : N) (r : list N) : version :=
  {| Py.epoch := e; Py.release := r; Py.pre := None; Py.post := None; Py.dev := None; Py.local := None |}.
Lemma join_dots_rels x l : join_dots (dec x :: map dec l) = dec x ++ r_rels (map dec l).
Proof.
  revert x; induction l as [|y l IH]; intros x.
  - cbn. now rewrite app_nil_r.
  - cbn [map r_rels]. change (join_dots (dec x :: dec y :: map dec l)) with (dec x ++ 46 :: join_dots (dec y :: map dec l)).
    now rewrite IH.
Qed.
Lemma Version_join e x l : Version (version_join (dec e :: map dec (x :: l))) = Some (plain_v e (x :: l)).
Proof.
  cbn [version_join map]. rewrite join_dots_rels.
  set (sp := {| ws_l := []; vpre := None; ep := Some (dec e); rel0 := dec x; rels := map dec l;
                spre := None; spost := None; sdev := None; sloc := None; ws_r := [] |}).
  assert (R : dec e ++ 33 :: dec x ++ r_rels (map dec l) = render sp).
  { unfold render, sp; cbn [ws_l vpre ep rel0 rels spre spost sdev sloc ws_r r_osep r_opt app]. unfold r_ep.
    rewrite !app_nil_r, <- app_assoc. reflexivity. }
  enough (E : Version (render sp) = Some (plain_v e (x :: l))) by (rewrite <- R in E; exact E).
  unfold Version. rewrite parse_spelling_complete.
  - cbn [option_map]. unfold meaning, sp; cbn [ep rel0 rels spre spost sdev sloc option_map]. unfold plain_v. f_equal.
    rewrite num_dec. cbn [map]. rewrite num_dec. f_equal. f_equal.
    rewrite map_map. rewrite <- (map_id l) at 2. apply map_ext. intros; apply num_dec.
  - unfold gnf, sp, t_v, t_num, t_rels, t_pre, t_post, t_dev, t_loc;
      cbn [ws_l vpre ep rel0 rels spre spost sdev sloc ws_r r_osep r_opt app gnf_opt forallb].
    rewrite !app_nil_r. rewrite !wf_digits_dec. unfold r_ep. rewrite <- app_assoc.
    rewrite (hd_dec is_ws (e) _ false) by apply digit_not_ws.
    rewrite (hd_dec (fun c => lc c =? 118) e _ false)
      by (intros c Hc; rewrite lc_digit by assumption; apply digit_range in Hc; apply N.eqb_neq; lia).
    assert (G : gnf_rels (map dec l) [] = true) by (apply gnf_rels_canon; reflexivity).
    rewrite G.
    assert (T : hd_is is_digit (r_rels (map dec l)) = false) by (destruct l; reflexivity).
    rewrite T. reflexivity.
Qed.

Definition compat_spec (c V : version) : bool :=
  ge_spec c V && prefix_spec c (plain_v (Py.epoch V) (removelast (Py.release V))).

Section CS.
Variables (c V : version) (t : str).
Hypothesis Wc : VMeaning.wf_version c.
Hypothesis WV : VMeaning.wf_version V.
Hypothesis PV : Version t = Some V.
Hypothesis NL : Py.local V = None.                                     (* grammar of ~= *)
Hypothesis Two : (2 <= length (Py.release V))%nat.                     (* grammar of ~= *)

Theorem cmp_compat_spec : cmp_compat c t = Some (compat_spec c V).
Proof.
  unfold cmp_compat, compat_spec. rewrite (cmp_ge_spec c V t) by assumption. cbn [bind].
  unfold canon_nostrip at 1. rewrite PV. rewrite (version_split_vstr V WV NL).
  change (dec (Py.epoch V) :: map dec (Py.release V) ++ pre_items V ++ sfx_items V)
    with (map dec (Py.epoch V :: Py.release V) ++ pre_items V ++ sfx_items V).
  rewrite takewhile_ns_decs.
  2:{ destruct WV as (_ & P & Q & D & _). unfold pre_items, sfx_items.
      destruct (Py.pre V) as [[l n]|]; cbn [app]; [apply suffix_item; intuition|].
      destruct (Py.post V) as [[l n]|]; cbn [app]; [subst; apply suffix_item; intuition|].
      destruct (Py.dev V) as [[l n]|]; cbn [app]; [subst; apply suffix_item; intuition|exact I]. }
  destruct (Py.release V) as [|x [|y r]] eqn:ER; cbn [length] in Two; try lia.
  assert (RM : forall (l : list N), removelast (map dec l) = map dec (removelast l)).
  { induction l as [|a l IH]; auto. cbn [removelast map]. destruct l; auto. cbn [map] in *. now rewrite <- IH. }
  match goal with |- context [version_join ?t] =>
    assert (RL : t = map dec (Py.epoch V :: removelast (x :: y :: r))) by (rewrite RM; reflexivity); rewrite RL end.
  assert (NE : removelast (x :: y :: r) = x :: removelast (y :: r)) by reflexivity.
  rewrite NE.
  rewrite (cmp_eq_prefix_spec c (plain_v (Py.epoch V) (x :: removelast (y :: r))) _ Wc).
  - reflexivity.
  - repeat split; auto. discriminate.
  - apply Version_join.
  - repeat split.
Qed.
End CS.
Print Assumptions cmp_compat_spec.
