(* The text Specifier() stores is a version Version() accepts, of the form the operator admits:
   Specifier s = Some sp -> exists f, interp sp = Some f /\ form_ok (sp_op sp) f.   Hence contains() never lets an exception escape. *)
From Coq Require Import List Arith NArith Bool Lia.
Import ListNotations.
Require Import S1 VParse VComplete VTop VTop2 VDec Py VMeaning VCanon VCmp SpecModel SpecOps SpecOps2 Prefix Prefix4 Compat SpecParse SpecSound SpecContains SpecSem SpecMain SpecCut VWf VKeyEq VAscii.
Open Scope N_scope.
Arguments N.eqb : simpl never.
Arguments N.leb : simpl never.

Definition sp_of (q : pub_sp) (lo : option (str * list (char * str))) (wl wr : str) : spelling :=
  {| ws_l := wl; vpre := q_v q; ep := q_ep q; rel0 := q_rel0 q; rels := q_rels q; spre := q_pre q; spost := q_post q;
     sdev := q_dev q; sloc := lo; ws_r := wr |}.

(* Version._regex and the public-version part of Specifier._regex are the same scanner *)
Lemma parse_spelling_via_pub s :
  parse_spelling s =
  let '(wl, s1) := span is_ws s in
  match p_pub s1 with
  | None => None
  | Some (q, s8) => let '(lo, s9) := p_opt p_loc s8 in if forallb is_ws s9 then Some (sp_of q lo wl s9) else None
  end.
Proof.
  unfold parse_spelling, p_pub. destruct (span is_ws s) as [wl s1].
  destruct (p_v s1) as [v s2]. destruct (span is_digit s2) as [d1 s3].
  destruct (negb (nonempty d1)); [reflexivity|].
  destruct (if hd_is (N.eqb 33) s3 then let '(d2, t') := span is_digit (tl s3) in (Some d1, d2, t') else (None, d1, s3)) as [[e r0] s4].
  destruct (negb (nonempty r0)); [reflexivity|].
  destruct (p_rels (length s4) s4) as [rs s5]. destruct (p_opt (p_lv pre_words) s5) as [pr s6].
  destruct (p_opt p_post s6) as [po s7]. destruct (p_opt (p_lv dev_words) s7) as [dv s8].
  destruct (p_opt p_loc s8) as [lo s9]. reflexivity.
Qed.

Lemma p_pub_shrink : shrinkO p_pub.
Proof. intros s q r H. apply p_pub_sound in H as [-> _]. rewrite app_length. lia. Qed.

Lemma p_pub_cut u r q rest : p_pub (u ++ r) = Some (q, rest) -> (length r <= length rest)%nat ->
  exists x, rest = x ++ r /\ p_pub u = Some (q, x).
Proof.
  unfold p_pub.
  destruct (p_v (u ++ r)) as [v s2] eqn:E1. destruct (span is_digit s2) as [d1 s3] eqn:E2.
  destruct (nonempty d1) eqn:N1; cbn [negb]; [|discriminate].
  destruct (if hd_is (N.eqb 33) s3 then let '(d2, t') := span is_digit (tl s3) in (Some d1, d2, t') else (None, d1, s3)) as [[e r0] s4] eqn:E3.
  destruct (nonempty r0) eqn:N2; cbn [negb]; [|discriminate].
  destruct (p_rels (length s4) s4) as [rs s5] eqn:E4. destruct (p_opt (p_lv pre_words) s5) as [pr s6] eqn:E5.
  destruct (p_opt p_post s6) as [po s7] eqn:E6. destruct (p_opt (p_lv dev_words) s7) as [dv s8] eqn:E7.
  intros [= <- <-] L.
  pose proof (p_opt_shrink _ (p_lv_shrink dev_words) _ _ _ E7) as L7.
  pose proof (p_opt_shrink _ p_post_shrink _ _ _ E6) as L6.
  pose proof (p_opt_shrink _ (p_lv_shrink pre_words) _ _ _ E5) as L5.
  pose proof (p_rels_shrink _ _ _ _ E4) as L4.
  assert (L3 : (length s4 <= length s3)%nat).
  { destruct (hd_is (N.eqb 33) s3).
    - destruct (span is_digit (tl s3)) as [d2 t'] eqn:Es. injection E3 as <- <- <-. apply span_shrink in Es. destruct s3; cbn in *; lia.
    - injection E3 as <- <- <-. lia. }
  pose proof (span_shrink _ _ _ _ E2) as L2.
  destruct (p_v_cut u r v s2 E1 ltac:(lia)) as (x2 & -> & ->).
  destruct (span_cut is_digit x2 r d1 s3 E2 ltac:(lia)) as (x3 & -> & ->).
  rewrite N1. cbn [negb].
  (* epoch branch *)
  assert (EP : exists x4, s4 = x4 ++ r /\
     (if hd_is (N.eqb 33) x3 then let '(d2, t') := span is_digit (tl x3) in (Some d1, d2, t') else (None, d1, x3)) = (e, r0, x4)).
  { destruct (hd_is (N.eqb 33) (x3 ++ r)) eqn:H.
    - destruct (span is_digit (tl (x3 ++ r))) as [d2 t'] eqn:Es. injection E3 as <- <- <-.
      destruct x3 as [|c x3]; cbn [app] in *.
      + apply span_shrink in Es. destruct r; cbn in *; [discriminate | lia].
      + cbn [hd_is tl] in *. rewrite H. destruct (span_cut is_digit x3 r d2 t' Es ltac:(lia)) as (x4 & -> & ->). exists x4. auto.
    - injection E3 as <- <- <-. exists x3. split; auto.
      destruct (hd_is (N.eqb 33) x3) eqn:H'; auto. rewrite (hd_is_mono _ _ r H') in H. discriminate. }
  destruct EP as (x4 & -> & ->). rewrite N2. cbn [negb].
  destruct (p_rels_cut_len x4 r rs s5 E4 ltac:(lia)) as (x5 & -> & ->).
  destruct (p_opt_cut _ (p_lv_cut pre_words) x5 r pr s6 E5 ltac:(lia)) as (x6 & -> & ->).
  destruct (p_opt_cut _ p_post_cut x6 r po s7 E6 ltac:(lia)) as (x7 & -> & ->).
  destruct (p_opt_cut _ (p_lv_cut dev_words) x7 r dv s8 E7 L) as (x8 & -> & ->).
  exists x8. auto.
Qed.

(* the public part starts with 'v' or a digit, never with whitespace *)
Lemma lcv_not_ws c : lc c = 118 -> is_ws c = false.
Proof.
  unfold lc. destruct ((65 <=? c) && (c <=? 90)) eqn:U.
  - intros H. assert (c = 86) by lia. subst. reflexivity.
  - intros ->. reflexivity.
Qed.
Lemma wf_digits_hd_not_ws d t : wf_digits d = true -> hd_is is_ws (d ++ t) = false.
Proof.
  unfold wf_digits. destruct d as [|c d]; [discriminate|]. cbn. intros H. apply andb_prop in H as [H _]. now apply digit_not_ws.
Qed.
Lemma r_pub_hd q t : wf_pub q -> hd_is is_ws (r_pub q ++ t) = false.
Proof.
  intros (Hv & He & Hr & _). unfold r_pub. destruct (q_v q) as [c|]; cbn [r_osep app hd_is].
  - now apply lcv_not_ws.
  - destruct (q_ep q) as [e|]; cbn [r_opt].
    + unfold r_ep. rewrite <- !app_assoc. now apply wf_digits_hd_not_ws.
    + cbn [app]. rewrite <- !app_assoc. now apply wf_digits_hd_not_ws.
Qed.

Lemma app_self_nil {A} (y l : list A) : l = y ++ l -> y = [].
Proof. intros H. assert (L : length l = length (y ++ l)) by now rewrite <- H. rewrite app_length in L. destruct y; auto. cbn in L. lia. Qed.

(* the main parsing fact: public part + optional local label, as stored by Specifier(), is accepted by Version() *)
Lemma Version_of_pub q lo r1 r2 : p_pub (r_pub q ++ r1) = Some (q, r1) -> p_opt p_loc r1 = (lo, r2) -> r1 = r_opt r_loc lo ++ r2 ->
  Version (r_pub q ++ r_opt r_loc lo) = Some (meaning (sp_of q lo [] [])).
Proof.
  intros P Lc E. pose proof (p_pub_sound _ _ _ P) as [_ W].
  unfold Version. rewrite parse_spelling_via_pub.
  rewrite (VTop.span_none is_ws _ (r_pub_hd q _ W)).
  subst r1. rewrite app_assoc in P.
  destruct (p_pub_cut (r_pub q ++ r_opt r_loc lo) r2 q (r_opt r_loc lo ++ r2) P ltac:(rewrite app_length; lia)) as (x & Ex & ->).
  apply app_inv_tail in Ex. subst x.
  destruct (p_opt_cut _ p_loc_cut (r_opt r_loc lo) r2 lo r2 Lc ltac:(lia)) as (y & Ey & ->).
  apply app_self_nil in Ey. subst y. cbn [forallb]. reflexivity.
Qed.

Lemma Version_of_pub_nolocal q r1 : p_pub (r_pub q ++ r1) = Some (q, r1) -> Version (r_pub q) = Some (meaning (sp_of q None [] [])).
Proof.
  intros P. pose proof (p_pub_sound _ _ _ P) as [_ W].
  unfold Version. rewrite parse_spelling_via_pub.
  pose proof (r_pub_hd q [] W) as Hd. rewrite app_nil_r in Hd. rewrite (VTop.span_none is_ws _ Hd).
  destruct (p_pub_cut (r_pub q) r1 q r1 P ltac:(lia)) as (x & Ex & ->).
  apply app_self_nil in Ex. subst x. reflexivity.
Qed.

(* ---- ".*" bookkeeping ---- *)
Definition nostar (c : char) : bool := negb (c =? 42).
Lemma ends_dotstar_nostar s : forallb nostar s = true -> ends_dotstar s = false.
Proof.
  induction s as [|a s IH]; auto. cbn [forallb]. intros H. apply andb_prop in H as [Ha Hs].
  destruct s as [|b s]; auto. destruct s as [|c s].
  - cbn [ends_dotstar forallb] in *. apply andb_prop in Hs as [Hb _]. unfold nostar in Hb. apply negb_true_iff in Hb. rewrite Hb. apply andb_false_r.
  - specialize (IH Hs). exact IH.
Qed.
Lemma ends_dotstar_app x : ends_dotstar (x ++ [46; 42]) = true.
Proof.
  induction x as [|a x IH]; [reflexivity|]. cbn [app]. destruct (x ++ [46;42]) as [|b [|c t]] eqn:E.
  - destruct x; discriminate.
  - destruct x as [|? [|? ?]]; discriminate.
  - exact IH.
Qed.
Lemma drop2_app x : drop2 (x ++ [46; 42]) = x.
Proof. unfold drop2. rewrite app_length. cbn [length]. replace (length x + 2 - 2)%nat with (length x) by lia. rewrite firstn_app, firstn_all, Nat.sub_diag. cbn. apply app_nil_r. Qed.

Lemma nostar_letter c : is_lower (lc c) = true -> nostar c = true.
Proof.
  unfold nostar. intros H. apply negb_true_iff, N.eqb_neq. intros ->. discriminate H.
Qed.
Lemma nostar_digit c : is_digit c = true -> nostar c = true.
Proof. intros H. apply digit_range in H. unfold nostar. apply negb_true_iff, N.eqb_neq. lia. Qed.
Lemma nostar_sep c : is_sep c = true -> nostar c = true.
Proof.
  unfold is_sep, nostar. intros H. apply negb_true_iff, N.eqb_neq.
  apply orb_prop in H as [H|H]; [apply orb_prop in H as [H|H]|]; apply N.eqb_eq in H; lia.
Qed.

Lemma wf_sp_of q lo : wf_pub q -> match lo with Some l => wf_loc l = true | None => True end -> wf_spelling (sp_of q lo [] []).
Proof. intros (A & B & C & D & E & F & G) H. unfold wf_spelling, sp_of; cbn. repeat split; auto. Qed.
Lemma core_sp_of q lo : core (sp_of q lo [] []) = r_pub q ++ r_opt r_loc lo.
Proof. unfold core, sp_of, r_pub; cbn. now rewrite <- !app_assoc. Qed.
Lemma pub_text_nostar q lo : wf_pub q -> match lo with Some l => wf_loc l = true | None => True end ->
  ends_dotstar (r_pub q ++ r_opt r_loc lo) = false.
Proof.
  intros W L. apply ends_dotstar_nostar. rewrite <- core_sp_of.
  apply (core_P nostar nostar_digit nostar_sep nostar_letter); try reflexivity. now apply wf_sp_of.
Qed.

(* ---- what the stored text means ---- *)
Lemma meaning_local q lo : Py.local (meaning (sp_of q lo [] [])) = None <-> lo = None.
Proof. unfold meaning, sp_of; cbn. destruct lo; cbn; split; congruence. Qed.
Lemma meaning_release_len q lo : length (Py.release (meaning (sp_of q lo [] []))) = S (length (q_rels q)).
Proof. unfold meaning, sp_of; cbn. now rewrite map_length. Qed.
Lemma meaning_plain q : is_plain q = true -> plain (meaning (sp_of q None [] [])).
Proof.
  unfold is_plain, plain, meaning, sp_of; cbn. destruct (q_pre q), (q_post q), (q_dev q); try discriminate. auto.
Qed.
Lemma r_pub_plain q : is_plain q = true -> r_pub q = r_osep (q_v q) ++ r_opt r_ep (q_ep q) ++ q_rel0 q ++ r_rels (q_rels q).
Proof.
  unfold is_plain, r_pub. destruct (q_pre q), (q_post q), (q_dev q); try discriminate. intros _. cbn [r_opt]. now rewrite !app_nil_r.
Qed.

Lemma p_opt_loc_sound r1 lo r2 : p_opt p_loc r1 = (lo, r2) -> r1 = r_opt r_loc lo ++ r2 /\ match lo with Some l => wf_loc l = true | None => True end.
Proof. apply (p_opt_sound p_loc r_loc (fun l => wf_loc l = true)). apply p_loc_sound. Qed.

Lemma body_interp o s b r : p_body o s = Some (b, r) ->
  exists f, interp {| sp_op := o; sp_text := r_body b |} = Some f /\ form_ok o f.
Proof.
  intros H. unfold p_body in H. unfold interp; cbn [sp_op sp_text].
  destruct o.
  - (* ~= *) destruct (p_pub s) as [[q r1]|] eqn:P; [|discriminate]. destruct (q_rels q) eqn:R; [discriminate|]. injection H as <- <-.
    pose proof (p_pub_sound _ _ _ P) as [E W]. subst s.
    pose proof (Version_of_pub_nolocal q r1 P) as V.
    cbn [r_body r_opt]. rewrite app_nil_r, V. cbn [option_map]. eexists. split; [reflexivity|]. cbn [form_ok].
    split; [eapply Version_wf; exact V|]. split; [now apply meaning_local|]. rewrite meaning_release_len, R. cbn. lia.
  - (* == *) destruct (p_pub s) as [[q r1]|] eqn:P; [|discriminate]. pose proof (p_pub_sound _ _ _ P) as [E W].
    destruct (is_plain q && hd2_is 46 (N.eqb 42) r1) eqn:Wd.
    + injection H as <- <-. apply andb_prop in Wd as [Pl _]. cbn [r_body].
      rewrite !app_assoc, ends_dotstar_app, drop2_app, <- !app_assoc, <- (r_pub_plain q Pl).
      subst s. pose proof (Version_of_pub_nolocal q r1 P) as V.
      rewrite V. cbn [option_map]. eexists. split; [reflexivity|]. cbn [form_ok]. split; [eapply Version_wf; exact V | now apply meaning_plain].
    + destruct (p_opt p_loc r1) as [lo r'] eqn:Lc. injection H as <- <-. destruct (p_opt_loc_sound _ _ _ Lc) as [E1 WL].
      cbn [r_body]. rewrite (pub_text_nostar q lo W WL). subst s.
      pose proof (Version_of_pub q lo r1 r' P Lc E1) as V. rewrite V. cbn [option_map]. eexists. split; [reflexivity|].
      cbn [form_ok]. eapply Version_wf; exact V.
  - (* != *) destruct (p_pub s) as [[q r1]|] eqn:P; [|discriminate]. pose proof (p_pub_sound _ _ _ P) as [E W].
    destruct (is_plain q && hd2_is 46 (N.eqb 42) r1) eqn:Wd.
    + injection H as <- <-. apply andb_prop in Wd as [Pl _]. cbn [r_body].
      rewrite !app_assoc, ends_dotstar_app, drop2_app, <- !app_assoc, <- (r_pub_plain q Pl).
      subst s. pose proof (Version_of_pub_nolocal q r1 P) as V.
      rewrite V. cbn [option_map]. eexists. split; [reflexivity|]. cbn [form_ok]. split; [eapply Version_wf; exact V | now apply meaning_plain].
    + destruct (p_opt p_loc r1) as [lo r'] eqn:Lc. injection H as <- <-. destruct (p_opt_loc_sound _ _ _ Lc) as [E1 WL].
      cbn [r_body]. rewrite (pub_text_nostar q lo W WL). subst s.
      pose proof (Version_of_pub q lo r1 r' P Lc E1) as V. rewrite V. cbn [option_map]. eexists. split; [reflexivity|].
      cbn [form_ok]. eapply Version_wf; exact V.
  - destruct (p_pub s) as [[q r1]|] eqn:P; [|discriminate]. injection H as <- <-. pose proof (p_pub_sound _ _ _ P) as [E W]. subst s.
    pose proof (Version_of_pub_nolocal q r1 P) as V.
    cbn [r_body r_opt]. rewrite app_nil_r, V. cbn [option_map]. eexists. split; [reflexivity|]. cbn [form_ok].
    split; [eapply Version_wf; exact V | now apply meaning_local].
  - destruct (p_pub s) as [[q r1]|] eqn:P; [|discriminate]. injection H as <- <-. pose proof (p_pub_sound _ _ _ P) as [E W]. subst s.
    pose proof (Version_of_pub_nolocal q r1 P) as V.
    cbn [r_body r_opt]. rewrite app_nil_r, V. cbn [option_map]. eexists. split; [reflexivity|]. cbn [form_ok].
    split; [eapply Version_wf; exact V | now apply meaning_local].
  - destruct (p_pub s) as [[q r1]|] eqn:P; [|discriminate]. injection H as <- <-. pose proof (p_pub_sound _ _ _ P) as [E W]. subst s.
    pose proof (Version_of_pub_nolocal q r1 P) as V.
    cbn [r_body r_opt]. rewrite app_nil_r, V. cbn [option_map]. eexists. split; [reflexivity|]. cbn [form_ok].
    split; [eapply Version_wf; exact V | now apply meaning_local].
  - destruct (p_pub s) as [[q r1]|] eqn:P; [|discriminate]. injection H as <- <-. pose proof (p_pub_sound _ _ _ P) as [E W]. subst s.
    pose proof (Version_of_pub_nolocal q r1 P) as V.
    cbn [r_body r_opt]. rewrite app_nil_r, V. cbn [option_map]. eexists. split; [reflexivity|]. cbn [form_ok].
    split; [eapply Version_wf; exact V | now apply meaning_local].
  - (* === *) eexists. split; [reflexivity|]. exact I.
Qed.

Theorem Specifier_interp s sp : Specifier s = Some sp -> exists f, interp sp = Some f /\ form_ok (sp_op sp) f.
Proof.
  unfold Specifier. destruct (parse_specifier s) as [t|] eqn:E; [|discriminate]. intros [= <-]. cbn [sp_op sp_text].
  unfold parse_specifier in E. destruct (span is_ws s) as [wl s0]. revert E.
  generalize ops_in_order. intros ops. induction ops as [|o ops IH]; cbn [try_ops]; [discriminate|].
  destruct (SpecParse.starts (op_txt o) s0) as [s1|]; auto.
  destruct (span is_ws s1) as [ws s2]. destruct (p_body o s2) as [[b r]|] eqn:B; auto.
  destruct (all_ws r); auto. intros [= <-]. cbn [s_op s_body]. exact (body_interp o s2 b r B).
Qed.

(* contains() never lets an exception escape for a specifier the constructor accepted *)
Theorem compare_op_total s sp c : Specifier s = Some sp -> VMeaning.wf_version c ->
  exists b, compare_op (sp_op sp) c (sp_text sp) = Some b.
Proof.
  intros S W. destruct (Specifier_interp s sp S) as (f & I & F). rewrite (compare_op_spec sp f c W I F).
  destruct f, (sp_op sp); cbn [form_ok sem] in *; try contradiction; eexists; reflexivity.
Qed.
Print Assumptions compare_op_total.
