From Coq Require Import List Arith NArith Bool Lia.
Import ListNotations.
Require Import S1 VParse VComplete VTop VTop2 VDec Py VMeaning VCanon VCanon2 VCanon3 VCmp SpecModel SpecOps.
Open Scope N_scope.

Definition core_cmp (a b : version) : comparison :=
  thenc (Py.epoch a ?= Py.epoch b)
 (thenc (padcmp (Py.release a) (Py.release b))
 (thenc (pair_cmp (pre_class a) (pre_class b))
 (thenc (pair_cmp (post_class a) (post_class b))
        (pair_cmp (dev_class a) (dev_class b))))).
Lemma thenc_assoc a b c : thenc (thenc a b) c = thenc a (thenc b c).
Proof. destruct a; reflexivity. Qed.
Lemma vcmp_core a b : vcmp a b = thenc (core_cmp a b) (local_cmp (Py.local a) (Py.local b)).
Proof. unfold vcmp, pep440_cmp, core_cmp. now rewrite !thenc_assoc. Qed.
Lemma core_drop_local a b : core_cmp (drop_local a) b = core_cmp a b.
Proof. reflexivity. Qed.

Section Gt.
Variables (c V : version) (t : str).
Hypothesis Wc : VMeaning.wf_version c.
Hypothesis WV : VMeaning.wf_version V.
Hypothesis PV : Version t = Some V.
Hypothesis NL : has_local V = false.      (* the grammar admits no local label after '>' (C12) *)

Theorem cmp_gt_spec : cmp_gt c t = Some (gt_spec c V).
Proof.
  unfold cmp_gt, gt_spec. rewrite PV. cbn [bind]. rewrite vrich_spec by assumption. cbn [bind].
  unfold has_local in NL. destruct (Py.local V) eqn:LV; [discriminate|].
  set (B := negb (is_postrelease V) && is_postrelease c && of_cmp Eq_ (vcmp (base_of c) (base_of V))).
  assert (E : (if negb (is_postrelease V) && is_postrelease c then same_base c V else Some false) = Some B).
  { subst B. destruct (negb (is_postrelease V) && is_postrelease c); cbn [andb]; auto. apply same_base_spec; auto. }
  rewrite E. cbn [bind]. clear E.
  rewrite (vcmp_core c V), (vcmp_core (drop_local c) V), core_drop_local, LV. cbn [drop_local Py.local local_cmp].
  rewrite VCmp.thenc_eq_r.
  destruct (Py.local c) as [l|] eqn:LC; cbn [local_cmp].
  - (* candidate has a local label *)
    assert (P : (p <- Version (public_str c);; e2 <- vrich Eq_ p V;; Some (negb e2)) = Some (negb (of_cmp Eq_ (core_cmp c V)))).
    { rewrite Version_public by assumption. cbn [bind]. rewrite vrich_spec by auto using wf_drop_local. cbn [bind].
      rewrite (vcmp_core (drop_local c) V), core_drop_local, LV. cbn [drop_local Py.local local_cmp]. now rewrite VCmp.thenc_eq_r. }
    unfold has_local. rewrite LC, P. clear P.
    destruct (core_cmp c V), B; reflexivity.
  - rewrite VCmp.thenc_eq_r. unfold has_local. rewrite LC.
    destruct (core_cmp c V), B; reflexivity.
Qed.
End Gt.
Print Assumptions cmp_gt_spec.
