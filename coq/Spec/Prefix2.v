From Coq Require Import List Arith NArith Bool Lia.
Import ListNotations.
Require Import S1 VParse VComplete VTop VTop2 VDec Py VMeaning VCanon VCanon2 VCanon3 VCmp SpecModel SpecOps Prefix.
Open Scope N_scope.
Arguments N.eqb : simpl never.
Arguments N.leb : simpl never.

Lemma digits_nochar c0 s : (c0 < 48 \/ 57 < c0) -> forallb is_digit s = true -> nochar c0 s = true.
Proof.
  intros Hc. unfold nochar. rewrite !forallb_forall. intros H x Hx. specialize (H x Hx). apply digit_range in H.
  apply negb_true_iff, N.eqb_neq. lia.
Qed.
Lemma dec_nochar c0 n : (c0 < 48 \/ 57 < c0) -> nochar c0 (dec n) = true.
Proof. intros. apply digits_nochar; auto. apply dec_digits. Qed.
Lemma nochar_app c0 a b : nochar c0 (a ++ b) = nochar c0 a && nochar c0 b.
Proof. apply forallb_app. Qed.

(* the public text of a version, in pieces *)
Definition lv_txt (p : str * N) : str := fst p ++ dec (snd p).
Definition pre_txt v := match Py.pre v with Some p => lv_txt p | None => [] end.
Definition sfx_items v : list str :=
  match Py.post v with Some p => [lv_txt p] | None => [] end ++ match Py.dev v with Some p => [lv_txt p] | None => [] end.
Fixpoint join_dot (l : list str) : str := match l with [] => [] | x :: t => 46 :: x ++ join_dot t end.
Definition body v := dec (hd 0 (Py.release v)) ++ r_rels (map dec (tl (Py.release v))) ++ pre_txt v ++ join_dot (sfx_items v).

Lemma vstr_public v : Py.local v = None ->
  vstr v = r_opt r_ep (if Py.epoch v =? 0 then None else Some (dec (Py.epoch v))) ++ body v.
Proof.
  intros L. unfold vstr, render, body, pre_txt, sfx_items, lv_txt.
  cbn [canon_sp ws_l vpre ep rel0 rels spre spost sdev sloc ws_r r_osep app]. rewrite L. cbn [option_map r_opt]. rewrite !app_nil_r.
  f_equal. f_equal. f_equal.
  destruct (Py.pre v) as [[l n]|], (Py.post v) as [[l2 n2]|], (Py.dev v) as [[l3 n3]|];
    cbn [option_map r_opt r_post r_lv c_lv l_sep1 l_word l_sep2 l_num fst snd r_osep app join_dot]; rewrite ?app_nil_r, <- ?app_assoc; reflexivity.
Qed.

Lemma split_rel T h tl' : split_on 46 T = h :: tl' -> forall r0 rt,
  split_on 46 (dec r0 ++ r_rels (map dec rt) ++ T) = map dec (removelast (r0 :: rt)) ++ (dec (last (r0 :: rt) 0) ++ h) :: tl'.
Proof.
  intros HT r0 rt. revert r0. induction rt as [|x rt IH]; intros r0.
  - cbn [map r_rels app removelast last]. eapply split_on_app_last; eauto. apply dec_nochar; lia.
  - cbn [map r_rels app]. rewrite split_on_app by (apply dec_nochar; lia).
    rewrite <- app_assoc, IH. reflexivity.
Qed.

Definition letters (s : str) : bool := forallb is_lower s.
Lemma lower_nochar c0 s : (c0 < 97) -> letters s = true -> nochar c0 s = true.
Proof.
  intros Hc. unfold letters, nochar. rewrite !forallb_forall. intros H x Hx. specialize (H x Hx).
  unfold is_lower in H. apply andb_prop in H as [H1 H2]. apply N.leb_le in H1. apply negb_true_iff, N.eqb_neq. lia.
Qed.
Definition wf_lvp (p : str * N) : Prop := letters (fst p) = true /\ nonempty (fst p) = true.
Lemma lv_nochar c0 p : c0 < 48 -> wf_lvp p -> nochar c0 (lv_txt p) = true.
Proof. intros Hc [H _]. unfold lv_txt. rewrite nochar_app, lower_nochar, dec_nochar by (auto; lia). reflexivity. Qed.
Lemma split_join l : Forall (fun x => nochar 46 x = true) l -> forall p, nochar 46 p = true -> split_on 46 (p ++ join_dot l) = p :: l.
Proof.
  induction l as [|x l IH]; intros H p Hp; cbn [join_dot].
  - rewrite app_nil_r. now apply split_on_none.
  - inversion H; subst. rewrite split_on_app by assumption. now rewrite IH.
Qed.

Section VS.
Variable v : version.
Hypothesis W : VMeaning.wf_version v.
Hypothesis L : Py.local v = None.

Lemma wf_pre_p : match Py.pre v with Some p => wf_lvp p | None => True end.
Proof. destruct W as (_ & H & _). destruct (Py.pre v) as [[l n]|]; auto. destruct H as [->|[->| ->]]; split; reflexivity. Qed.
Lemma wf_sfx : Forall wf_lvp (match Py.post v with Some p => [p] | None => [] end ++ match Py.dev v with Some p => [p] | None => [] end).
Proof.
  destruct W as (_ & _ & Hp & Hd & _).
  destruct (Py.post v) as [[l n]|], (Py.dev v) as [[l2 n2]|]; cbn [app]; repeat constructor; subst; reflexivity.
Qed.
Lemma sfx_nodot : Forall (fun x => nochar 46 x = true) (sfx_items v).
Proof.
  pose proof wf_sfx as H. unfold sfx_items.
  destruct (Py.post v) as [p|], (Py.dev v) as [d|]; cbn [app] in *; repeat constructor;
  inversion H; subst; try (apply lv_nochar; [lia|assumption]).
  inversion H3; subst. apply lv_nochar; [lia|assumption].
Qed.
Lemma pre_nodot : nochar 46 (pre_txt v) = true.
Proof. pose proof wf_pre_p as H. unfold pre_txt. destruct (Py.pre v); auto. apply lv_nochar; [lia|assumption]. Qed.

Lemma split_body :
  split_on 46 (body v) =
  map dec (removelast (hd 0 (Py.release v) :: tl (Py.release v))) ++
  (dec (last (hd 0 (Py.release v) :: tl (Py.release v)) 0) ++ pre_txt v) :: sfx_items v.
Proof.
  unfold body. apply split_rel. apply split_join; [apply sfx_nodot | apply pre_nodot].
Qed.
End VS.
