From Coq Require Import List Arith NArith Bool Lia.
Import ListNotations.
Require Import S1 VParse VComplete VTop VTop2 VDec Py VMeaning VCanon VCanon2 VCanon3 VCmp SpecModel SpecOps SpecOps2 Prefix Prefix2 Prefix3 Prefix4 Compat Order Canon.
Open Scope N_scope.

(* versions that compare equal agree on everything the operator specifications look at *)
Lemma cmp_eq_components a b : VMeaning.wf_version a -> VMeaning.wf_version b -> pep440_cmp a b = Eq ->
  Py.epoch a = Py.epoch b /\ padcmp (Py.release a) (Py.release b) = Eq /\
  Py.pre a = Py.pre b /\ Py.post a = Py.post b /\ Py.dev a = Py.dev b /\ Py.local a = Py.local b.
Proof.
  intros Wa Wb H. unfold pep440_cmp in H.
  apply thenc_eq in H as [H1 H]. apply thenc_eq in H as [H2 H]. apply thenc_eq in H as [H3 H].
  apply thenc_eq in H as [H4 H]. apply thenc_eq in H as [H5 H6].
  apply N.compare_eq in H1. destruct (pre_eq a b Wa Wb H3 H4 H5) as (P & Q & D).
  repeat split; auto.
  unfold local_cmp in H6. destruct (Py.local a), (Py.local b); try discriminate; auto. f_equal. now apply seg_lex_eq.
Qed.

Lemma vcmp_right_congr x V V' : vcmp V V' = Eq -> vcmp x V = vcmp x V'.
Proof.
  unfold vcmp. destruct pep440_cmp_ok as [R SY TE TL]. intros E.
  rewrite (SY V x), (SY V' x). f_equal. symmetry. apply (TE _ _ x E).
Qed.
Lemma base_equiv V V' : VMeaning.wf_version V -> VMeaning.wf_version V' -> vcmp V V' = Eq -> vcmp (base_of V) (base_of V') = Eq.
Proof.
  intros W W' E. destruct (cmp_eq_components V V' W W' E) as (E1 & E2 & _).
  unfold vcmp, pep440_cmp. cbn. rewrite E1, N.compare_refl, E2. reflexivity.
Qed.

Section Eqv.
Variables V V' : version.
Hypothesis W : VMeaning.wf_version V.
Hypothesis W' : VMeaning.wf_version V'.
Hypothesis E : vcmp V V' = Eq.

Theorem C10_le_congr c : le_spec c V = le_spec c V'.
Proof. unfold le_spec. now rewrite (vcmp_right_congr _ V V' E). Qed.
Theorem C10_ge_congr c : ge_spec c V = ge_spec c V'.
Proof. unfold ge_spec. now rewrite (vcmp_right_congr _ V V' E). Qed.
Theorem C10_eq_congr c : eq_spec c V = eq_spec c V'.
Proof.
  destruct (cmp_eq_components V V' W W' E) as (_ & _ & _ & _ & _ & L).
  unfold eq_spec, has_local. rewrite <- L. destruct (Py.local V); now rewrite (vcmp_right_congr _ V V' E).
Qed.
Theorem C10_lt_congr c : lt_spec c V = lt_spec c V'.
Proof.
  destruct (cmp_eq_components V V' W W' E) as (_ & _ & P & _ & D & _).
  unfold lt_spec, is_prerelease. rewrite <- P, <- D.
  rewrite (vcmp_right_congr c V V' E). rewrite (vcmp_right_congr (base_of c) (base_of V) (base_of V')) by now apply base_equiv.
  reflexivity.
Qed.
Theorem C10_gt_congr c : gt_spec c V = gt_spec c V'.
Proof.
  destruct (cmp_eq_components V V' W W' E) as (_ & _ & _ & Q & _ & _).
  unfold gt_spec, is_postrelease. rewrite <- Q.
  rewrite (vcmp_right_congr (drop_local c) V V' E). rewrite (vcmp_right_congr (base_of c) (base_of V) (base_of V')) by now apply base_equiv.
  reflexivity.
Qed.
End Eqv.

(* Specifier.__eq__ compares (operator, canonicalize_version(text, strip_trailing_zero = operator != "~=")) *)
Theorem C10_equal_canonical_texts_equal_versions t t' V V' :
  Version t = Some V -> Version t' = Some V' -> VMeaning.wf_version V -> VMeaning.wf_version V' ->
  canon true t = canon true t' -> vcmp V V' = Eq.
Proof.
  intros P P' W W' H. unfold canon in H. rewrite P, P' in H. now apply (C02_canon_complete_invariant V V' W W').
Qed.
Theorem C10_compat_texts t t' V V' :
  Version t = Some V -> Version t' = Some V' -> VMeaning.wf_version V -> VMeaning.wf_version V' ->
  canon false t = canon false t' -> V = V'.
Proof.
  intros P P' W W' H. unfold canon in H. rewrite P, P' in H. now apply vstr_inj.
Qed.
Print Assumptions C10_gt_congr.
