From Coq Require Import List Arith NArith Bool Lia.
Import ListNotations.
Require Import S1 VParse VComplete VTop VTop2 VDec Py VMeaning VCanon VCanon2 VCanon3 VCmp SpecModel SpecOps SpecOps2 Prefix Prefix2 Prefix3 Prefix4 Compat Order.
Open Scope N_scope.

(* C04 on the operator specifications (which the code is proved to compute) *)
Definition add_local (c : version) (l : list (N + str)) : version :=
  {| Py.epoch := Py.epoch c; Py.release := Py.release c; Py.pre := Py.pre c; Py.post := Py.post c; Py.dev := Py.dev c; Py.local := Some l |}.

Lemma drop_add c l : drop_local (add_local c l) = drop_local c.  Proof. reflexivity. Qed.
Lemma base_add c l : base_of (add_local c l) = base_of c.       Proof. reflexivity. Qed.

Section L.
Variables c V : version.
Hypothesis NLV : Py.local V = None.

(* a specifier without a local label gives the same answer with and without the candidate's local label *)
Theorem C04_local_irrelevant_le l : le_spec (add_local c l) V = le_spec c V.   Proof. reflexivity. Qed.
Theorem C04_local_irrelevant_ge l : ge_spec (add_local c l) V = ge_spec c V.   Proof. reflexivity. Qed.
Theorem C04_local_irrelevant_eq l : eq_spec (add_local c l) V = eq_spec c V.
Proof. unfold eq_spec, has_local. now rewrite NLV. Qed.
Theorem C04_local_irrelevant_gt l : gt_spec (add_local c l) V = gt_spec c V.   Proof. reflexivity. Qed.
Theorem C04_local_irrelevant_prefix l : prefix_spec (add_local c l) V = prefix_spec c V.   Proof. reflexivity. Qed.
Theorem C04_local_irrelevant_lt l : Py.local c = None -> lt_spec (add_local c l) V = lt_spec c V.
Proof.
  intros NLc. unfold lt_spec. rewrite base_add. f_equal.
  rewrite !vcmp_core. cbn [add_local Py.local]. rewrite NLV, NLc. cbn [local_cmp].
  change (core_cmp (add_local c l) V) with (core_cmp c V). destruct (core_cmp c V); reflexivity.
Qed.

(* <V and >V are contained in <=V and >=V and never match V or a local version of V *)
Theorem C04_lt_sub_le : lt_spec c V = true -> le_spec c V = true.
Proof.
  unfold lt_spec, le_spec. intros H. apply andb_prop in H as [H _].
  rewrite !vcmp_core in *. cbn [drop_local Py.local]. change (core_cmp (drop_local c) V) with (core_cmp c V).
  rewrite NLV in *. destruct (core_cmp c V), (Py.local c); cbn in *; try discriminate; auto.
Qed.
Theorem C04_gt_sub_ge : gt_spec c V = true -> ge_spec c V = true.
Proof. unfold gt_spec, ge_spec. intros H. apply andb_prop in H as [H _]. destruct (vcmp (drop_local c) V); auto; discriminate. Qed.
Theorem C04_strict_excludes_locals_of_V : vcmp (drop_local c) V = Eq -> lt_spec c V = false /\ gt_spec c V = false.
Proof.
  intros E. unfold lt_spec, gt_spec. rewrite E. split; [|reflexivity].
  rewrite vcmp_core in *. cbn [drop_local Py.local] in E. change (core_cmp (drop_local c) V) with (core_cmp c V) in E.
  rewrite NLV in *. cbn in E. rewrite VCmp.thenc_eq_r in E. rewrite E. destruct (Py.local c); reflexivity.
Qed.
(* >=V and <=V together cover every version *)
Theorem C04_ge_le_cover : ge_spec c V || le_spec c V = true.
Proof. unfold ge_spec, le_spec. destruct (vcmp (drop_local c) V); reflexivity. Qed.
End L.

(* closure in the version order (candidates without local labels, which the previous theorems reduce to) *)
Theorem C04_ge_upward c c' V : ge_spec c V = true -> vcmp (drop_local c) (drop_local c') <> Gt -> ge_spec c' V = true.
Proof.
  unfold ge_spec. destruct pep440_cmp_ok as [R SY TE TL]. intros H1 H2.
  destruct (vcmp (drop_local c') V) eqn:E; auto. exfalso.
  (* c' < V and c <= c'  ==>  c < V *)
  assert (X : vcmp (drop_local c) V = Lt).
  { destruct (vcmp (drop_local c) (drop_local c')) eqn:F; try congruence.
    - unfold vcmp in *. rewrite <- (TE _ _ V F). exact E.
    - unfold vcmp in *. apply (TL _ _ V F). rewrite E. discriminate. }
  rewrite X in H1. discriminate.
Qed.
Theorem C04_le_downward c c' V : le_spec c V = true -> vcmp (drop_local c') (drop_local c) <> Gt -> le_spec c' V = true.
Proof.
  unfold le_spec. destruct pep440_cmp_ok as [R SY TE TL]. intros H1 H2.
  destruct (vcmp (drop_local c') V) eqn:E; auto. exfalso.
  (* c' > V, c' <= c ==> c > V *)
  assert (X : vcmp (drop_local c) V = Gt).
  { unfold vcmp in *. rewrite SY in E. destruct (pep440_cmp V (drop_local c')) eqn:G; cbn in E; try discriminate.
    rewrite SY. assert (pep440_cmp V (drop_local c) = Lt); [|now rewrite H].
    apply (TL _ _ _ G). exact H2. }
  rewrite X in H1. discriminate.
Qed.
(* candidates that compare equal get the same answer *)
Theorem C04_equal_candidates_ge c c' V : vcmp (drop_local c) (drop_local c') = Eq -> ge_spec c V = ge_spec c' V.
Proof. unfold ge_spec, vcmp. destruct pep440_cmp_ok as [R SY TE TL]. intros E. now rewrite (TE _ _ V E). Qed.
Theorem C04_equal_candidates_le c c' V : vcmp (drop_local c) (drop_local c') = Eq -> le_spec c V = le_spec c' V.
Proof. unfold le_spec, vcmp. destruct pep440_cmp_ok as [R SY TE TL]. intros E. now rewrite (TE _ _ V E). Qed.
Print Assumptions C04_le_downward.
