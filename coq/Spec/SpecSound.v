From Coq Require Import List Arith NArith Bool Lia.
Import ListNotations.
Require Import VParse VComplete VTop VTop2 SpecParse.
Open Scope N_scope.
Arguments N.eqb : simpl never.
Arguments N.leb : simpl never.

(* rendering of the parse tree of a specifier *)
Definition r_pub (q : pub_sp) : str :=
  r_osep (q_v q) ++ r_opt r_ep (q_ep q) ++ q_rel0 q ++ r_rels (q_rels q) ++
  r_opt r_lv (q_pre q) ++ r_opt r_post (q_post q) ++ r_opt r_lv (q_dev q).
Definition r_body (b : body) : str :=
  match b with
  | BArb t => t
  | BWild v e r0 rs => r_osep v ++ r_opt r_ep e ++ r0 ++ r_rels rs ++ [46; 42]
  | BPub q lo => r_pub q ++ r_opt r_loc lo
  end.
Definition render_spec (sp : spec_sp) : str := s_wl sp ++ op_txt (s_op sp) ++ s_ws sp ++ r_body (s_body sp) ++ s_wr sp.

Definition wf_pub (q : pub_sp) : Prop :=
  (match q_v q with Some c => lc c = 118 | None => True end) /\
  (match q_ep q with Some e => wf_digits e = true | None => True end) /\
  wf_digits (q_rel0 q) = true /\ forallb wf_digits (q_rels q) = true /\
  (match q_pre q with Some l => wf_lv pre_words l | None => True end) /\
  (match q_post q with Some p => wf_post p | None => True end) /\
  (match q_dev q with Some l => wf_lv dev_words l | None => True end).
(* the operator / version-form table of C12 *)
Definition wf_body (o : oper) (b : body) : Prop :=
  match o, b with
  | OArb, BArb t => forallb arb_char t = true
  | (OEq | ONe), BWild v e r0 rs =>
      (match v with Some c => lc c = 118 | None => True end) /\ (match e with Some x => wf_digits x = true | None => True end) /\
      wf_digits r0 = true /\ forallb wf_digits rs = true
  | (OEq | ONe), BPub q lo => wf_pub q /\ match lo with Some l => wf_loc l = true | None => True end
  | OCompat, BPub q None => wf_pub q /\ q_rels q <> []
  | (OLe | OGe | OLt | OGt), BPub q None => wf_pub q
  | _, _ => False
  end.

Lemma p_pub_sound s q r : p_pub s = Some (q, r) -> s = r_pub q ++ r /\ wf_pub q.
Proof.
  unfold p_pub.
  destruct (p_v s) as [v s2] eqn:E2.
  destruct (span is_digit s2) as [d1 s3] eqn:E3.
  destruct (nonempty d1) eqn:Ed1; [|discriminate]. cbn [negb].
  destruct (if hd_is (N.eqb 33) s3 then let '(d2, t') := span is_digit (tl s3) in (Some d1, d2, t') else (None, d1, s3))
    as [[e r0] s4] eqn:E4.
  destruct (nonempty r0) eqn:Er0; [|discriminate]. cbn [negb].
  destruct (p_rels (length s4) s4) as [rs s5] eqn:E5.
  destruct (p_opt (p_lv pre_words) s5) as [pr s6] eqn:E6.
  destruct (p_opt p_post s6) as [po s7] eqn:E7.
  destruct (p_opt (p_lv dev_words) s7) as [dv s8] eqn:E8.
  intros [= <- <-]. unfold r_pub; cbn.
  assert (Hv : s = r_osep v ++ s2 /\ match v with Some c => lc c = 118 | None => True end).
  { unfold p_v in E2. destruct s as [|c t]; [inversion E2; auto|].
    destruct (lc c =? 118) eqn:Ev; inversion E2; subst; simpl; auto. apply N.eqb_eq in Ev. auto. }
  destruct Hv as [-> Wv].
  apply span_sound in E3 as [-> W3].
  assert (He : s3 = match e with Some _ => 33 :: r0 | None => [] end ++ s4 /\
               d1 = match e with Some e' => e' | None => r0 end /\ forallb is_digit r0 = true).
  { destruct (hd_is (N.eqb 33) s3) eqn:Eh.
    - apply hd_is_true in Eh as (c & t & -> & Hc). apply N.eqb_eq in Hc. subst c. cbn [tl] in E4.
      destruct (span is_digit t) as [d2 t'] eqn:Es. inversion E4; subst. apply span_sound in Es as [-> Hd]. simpl. auto.
    - inversion E4; subst. repeat split; auto. }
  destruct He as (-> & Hd1 & Wr0).
  apply p_rels_sound in E5 as [-> W5].
  eapply (p_opt_sound _ r_lv) in E6 as [-> W6]; [|apply p_lv_sound].
  eapply (p_opt_sound _ r_post) in E7 as [-> W7]; [|apply p_post_sound].
  eapply (p_opt_sound _ r_lv) in E8 as [-> W8]; [|apply p_lv_sound].
  split.
  - destruct e as [e'|]; subst d1; cbn [r_opt]; unfold r_ep; rewrite <- ?app_assoc; reflexivity.
  - unfold wf_pub; cbn. unfold wf_digits. rewrite Er0, Wr0. repeat split; auto.
    destruct e as [e'|]; auto. subst e'. now rewrite Ed1, W3.
Qed.

Lemma starts_sound w : forall s r, SpecParse.starts w s = Some r -> s = w ++ r.
Proof.
  induction w as [|p w IH]; intros s r; cbn; [intros [= <-]; auto|].
  destruct s as [|c t]; [discriminate|]. destruct (c =? p) eqn:E; [|discriminate].
  apply N.eqb_eq in E. subst. intros H. apply IH in H. now subst.
Qed.

Lemma p_body_sound o s b r : p_body o s = Some (b, r) -> s = r_body b ++ r /\ wf_body o b.
Proof.
  destruct o; cbn [p_body].
  all: try (destruct (p_pub s) as [[q r0]|] eqn:E; [|discriminate]; apply p_pub_sound in E as [-> W]).
  - (* ~= *) destruct (q_rels q) eqn:R; [discriminate|]. intros [= <- <-]. cbn [r_body wf_body r_opt]. rewrite app_nil_r. split; auto. split; auto. congruence.
  - (* == *) destruct (is_plain q && hd2_is 46 (N.eqb 42) r0) eqn:W1.
    + apply andb_prop in W1 as [Pl Hw]. apply hd2_is_true in Hw as (d & t & -> & Hd). apply N.eqb_eq in Hd. subst d.
      intros [= <- <-]. cbn [tl r_body wf_body]. destruct W as (A & B & C & D & _). split; auto.
      unfold r_pub. unfold is_plain in Pl. destruct (q_pre q), (q_post q), (q_dev q); try discriminate. cbn [r_opt].
      rewrite !app_nil_r. repeat (rewrite <- ?app_assoc; cbn [app]). reflexivity.
    + destruct (p_opt p_loc r0) as [lo r'] eqn:EL. intros [= <- <-].
      eapply (p_opt_sound _ r_loc (fun l => wf_loc l = true)) in EL as [-> WL]; [|apply p_loc_sound].
      cbn [r_body wf_body]. rewrite <- app_assoc. auto.
  - (* != *) destruct (is_plain q && hd2_is 46 (N.eqb 42) r0) eqn:W1.
    + apply andb_prop in W1 as [Pl Hw]. apply hd2_is_true in Hw as (d & t & -> & Hd). apply N.eqb_eq in Hd. subst d.
      intros [= <- <-]. cbn [tl r_body wf_body]. destruct W as (A & B & C & D & _). split; auto.
      unfold r_pub. unfold is_plain in Pl. destruct (q_pre q), (q_post q), (q_dev q); try discriminate. cbn [r_opt].
      rewrite !app_nil_r. repeat (rewrite <- ?app_assoc; cbn [app]). reflexivity.
    + destruct (p_opt p_loc r0) as [lo r'] eqn:EL. intros [= <- <-].
      eapply (p_opt_sound _ r_loc (fun l => wf_loc l = true)) in EL as [-> WL]; [|apply p_loc_sound].
      cbn [r_body wf_body]. rewrite <- app_assoc. auto.
  - intros [= <- <-]. cbn [r_body wf_body r_opt]. now rewrite app_nil_r.
  - intros [= <- <-]. cbn [r_body wf_body r_opt]. now rewrite app_nil_r.
  - intros [= <- <-]. cbn [r_body wf_body r_opt]. now rewrite app_nil_r.
  - intros [= <- <-]. cbn [r_body wf_body r_opt]. now rewrite app_nil_r.
  - (* === *) destruct (span arb_char s) as [t r0] eqn:E. intros [= <- <-]. apply span_sound in E as [-> W]. cbn. auto.
Qed.

(* C12, soundness half for specifiers: whatever is accepted is an operator followed by a form that operator admits *)
Theorem C12_spec_sound s sp : parse_specifier s = Some sp ->
  render_spec sp = s /\ forallb is_ws (s_wl sp) = true /\ forallb is_ws (s_ws sp) = true /\ forallb is_ws (s_wr sp) = true /\
  wf_body (s_op sp) (s_body sp).
Proof.
  unfold parse_specifier. destruct (span is_ws s) as [wl s0] eqn:E0. apply span_sound in E0 as [-> W0].
  generalize ops_in_order. intros ops. induction ops as [|o ops IH]; cbn [try_ops]; [discriminate|].
  destruct (SpecParse.starts (op_txt o) s0) as [s1|] eqn:E1; auto.
  destruct (span is_ws s1) as [ws s2] eqn:E2.
  destruct (p_body o s2) as [[b r]|] eqn:E3; auto.
  destruct (all_ws r) eqn:E4; auto.
  intros [= <-]. apply starts_sound in E1. apply span_sound in E2 as [-> W2]. apply p_body_sound in E3 as [-> WB].
  subst s0. unfold render_spec; cbn. repeat split; auto.
Qed.
Print Assumptions C12_spec_sound.
