(* C10 for Specifier: __eq__/__hash__ go through _canonical_spec; equal specifiers match the same candidates under every setting. *)
From Coq Require Import List Arith NArith Bool Lia.
Import ListNotations.
Require Import S1 VParse VComplete VTop VTop2 VDec Py VMeaning VCanon VCmp SpecModel SpecOps SpecOps2 Prefix Prefix4 Compat Order Canon SpecEq SpecParse SpecSound SpecContains SpecSem SpecMain SpecCut SpecLink VWf VKeyEq VAscii CanonLaws.
Open Scope N_scope.
Arguments N.eqb : simpl never.
Arguments N.leb : simpl never.

(* ---- accepted version strings contain no '*' ---- *)
Lemma ws_nostar c : is_ws c = true -> nostar c = true.
Proof.
  unfold nostar. intros H. apply negb_true_iff, N.eqb_neq. intros ->. discriminate H.
Qed.
Lemma Version_nostar s v : Version s = Some v -> forallb nostar s = true.
Proof.
  unfold Version. destruct (parse_spelling s) as [sp|] eqn:E; [|discriminate]. intros _.
  destruct (parse_spelling_sound _ _ E) as [R W]. rewrite <- R, render_core, !forallb_app.
  pose proof (core_P nostar nostar_digit nostar_sep nostar_letter eq_refl eq_refl sp W) as C. unfold allP in C. rewrite C.
  destruct W as (W1 & W2 & _).
  assert (A : forall l, forallb is_ws l = true -> forallb nostar l = true).
  { induction l as [|c l IH]; cbn; auto. intros H. apply andb_prop in H as [H1 H2]. now rewrite (ws_nostar c H1), IH. }
  now rewrite (A _ W1), (A _ W2).
Qed.
Lemma wild_not_version x : Version (x ++ [46; 42]) = None.
Proof.
  destruct (Version (x ++ [46;42])) as [v|] eqn:E; auto. apply Version_nostar in E. rewrite forallb_app in E.
  apply andb_prop in E as [_ E]. discriminate E.
Qed.
Lemma ends_dotstar_split s : ends_dotstar s = true -> s = drop2 s ++ [46; 42].
Proof.
  induction s as [|a s IH]; [discriminate|]. destruct s as [|b s]; [discriminate|]. destruct s as [|c s].
  - cbn [ends_dotstar]. intros H. apply andb_prop in H as [H1 H2]. apply N.eqb_eq in H1, H2. subst. reflexivity.
  - intros H. change (ends_dotstar (a :: b :: c :: s)) with (ends_dotstar (b :: c :: s)) in H. specialize (IH H).
    unfold drop2 in *. cbn [length] in *. replace (S (S (S (length s))) - 2)%nat with (S (S (length s) - 1))%nat by lia.
    cbn [firstn app]. f_equal. replace (S (length s) - 1)%nat with (S (S (length s)) - 2)%nat by lia. exact IH.
Qed.

(* ---- equal denotations give equal answers ---- *)
Definition form_equiv (o : oper) (f f' : sform) : Prop :=
  match f, f' with
  | FVer V, FVer V' => VMeaning.wf_version V /\ VMeaning.wf_version V' /\ vcmp V V' = Eq /\ (o = OCompat -> V = V')
  | FWild V, FWild V' => V = V'
  | FArb t, FArb t' => t = t'
  | _, _ => False
  end.
Lemma sem_form_equiv o f f' c : form_equiv o f f' -> sem o f c = sem o f' c.
Proof.
  destruct f as [V|V|t], f' as [V'|V'|t']; cbn [form_equiv]; try contradiction.
  - intros (W & W' & E & K). destruct o; cbn [sem]; try reflexivity.
    + now rewrite (K eq_refl).
    + now rewrite (C10_eq_congr V V' W W' E c).
    + now rewrite (C10_eq_congr V V' W W' E c).
    + now rewrite (C10_le_congr V V' E c).
    + now rewrite (C10_ge_congr V V' E c).
    + now rewrite (C10_lt_congr V V' W W' E c).
    + now rewrite (C10_gt_congr V V' W W' E c).
  - intros ->. reflexivity.
  - intros ->. reflexivity.
Qed.
Lemma prerelease_equiv V V' : VMeaning.wf_version V -> VMeaning.wf_version V' -> vcmp V V' = Eq -> is_prerelease V = is_prerelease V'.
Proof. intros W W' E. destruct (cmp_eq_components V V' W W' E) as (_ & _ & P & _ & D & _). unfold is_prerelease. now rewrite P, D. Qed.

(* ---- contains() under any setting, in terms of the denotation ---- *)
Definition auto_pre_form (o : oper) (f : sform) : bool :=
  match o, f with
  | ONe, _ => false
  | OEq, FWild V => is_prerelease V
  | _, FVer V => is_prerelease V
  | OArb, FArb t => match Version t with Some v => is_prerelease v | None => false end
  | _, _ => false
  end.
Lemma auto_pre_is_form sp f : interp sp = Some f -> form_ok (sp_op sp) f -> auto_pre sp = auto_pre_form (sp_op sp) f.
Proof.
  intros I F. unfold auto_pre. destruct f as [V|V|t].
  - destruct (interp_ver sp V I) as [PV E]. destruct (sp_op sp); cbn [auto_pre_form form_ok] in *; try contradiction; try (now rewrite PV); auto.
    rewrite E. now rewrite PV.
  - destruct (interp_wild sp V I) as (PV & E & [O|O]); rewrite O; cbn [auto_pre_form]; auto. rewrite E. now rewrite PV.
  - unfold interp in I. destruct (sp_op sp); cbn [form_ok] in F; try contradiction. injection I as <-. reflexivity.
Qed.
Definition contains_form (o : oper) (f : sform) (override arg : option bool) (item : str) : outcome :=
  let pre := match arg with Some b => b | None => match override with Some b => b | None => auto_pre_form o f end end in
  match Version item with
  | None => BadItem
  | Some c => if is_prerelease c && negb pre then Ans false else match sem o f c with Some b => Ans b | None => Escaped end
  end.
Theorem contains_is_form sp f override arg item : interp sp = Some f -> form_ok (sp_op sp) f ->
  contains sp override arg item = contains_form (sp_op sp) f override arg item.
Proof.
  intros I F. unfold contains, contains_form, effective_pre. rewrite (auto_pre_is_form sp f I F).
  destruct (Version item) as [c|] eqn:E; auto. now rewrite (compare_op_spec sp f c (Version_wf _ _ E) I F).
Qed.

(* ---- equal keys: equivalent denotations ---- *)
Lemma canon_of_version z t V : Version t = Some V -> canon z t = if z then vstr (trim V) else vstr V.
Proof. intros E. unfold canon. now rewrite E. Qed.
Lemma canon_of_wild z t : ends_dotstar t = true -> canon z t = t.
Proof. intros E. unfold canon. rewrite (ends_dotstar_split t E), wild_not_version. reflexivity. Qed.
Lemma vstr_not_wild V : VMeaning.wf_version V -> ends_dotstar (vstr V) = false.
Proof. intros W. apply ends_dotstar_nostar. apply (Version_nostar _ V). now apply Version_vstr. Qed.

(* the key of an accepted specifier, by the kind of its denotation *)
Lemma key_of_form sp f : interp sp = Some f -> form_ok (sp_op sp) f ->
  match f with
  | FVer V => sp_op sp <> OArb /\ VMeaning.wf_version V /\
              spec_key sp = (sp_op sp, if match sp_op sp with OCompat => true | _ => false end then vstr V else vstr (trim V))
  | FWild V => sp_op sp <> OArb /\ sp_op sp <> OCompat /\ spec_key sp = (sp_op sp, sp_text sp) /\ ends_dotstar (sp_text sp) = true /\
               Version (drop2 (sp_text sp)) = Some V
  | FArb t => sp_op sp = OArb /\ t = sp_text sp /\ spec_key sp = (OArb, sp_text sp)
  end.
Proof.
  intros I F. destruct f as [V|V|t].
  - destruct (interp_ver sp V I) as [PV X]. pose proof (Version_wf _ _ PV) as W. unfold spec_key.
    destruct (sp_op sp); cbn [form_ok] in F; try contradiction; (split; [discriminate|]); (split; [exact W|]);
      rewrite (canon_of_version _ _ V PV); reflexivity.
  - destruct (interp_wild sp V I) as (PV & E & OO). unfold spec_key.
    destruct OO as [OO|OO]; rewrite OO; (split; [discriminate|]); (split; [discriminate|]); rewrite (canon_of_wild _ _ E); auto.
  - unfold interp in I. unfold spec_key. destruct (sp_op sp); cbn [form_ok] in F; try contradiction. injection I as <-. auto.
Qed.

Theorem equal_keys_equiv_forms sp sp' f f' :
  interp sp = Some f -> form_ok (sp_op sp) f -> interp sp' = Some f' -> form_ok (sp_op sp') f' -> spec_key sp = spec_key sp' ->
  sp_op sp = sp_op sp' /\ form_equiv (sp_op sp) f f'.
Proof.
  intros I F I' F' K. pose proof (key_of_form sp f I F) as A. pose proof (key_of_form sp' f' I' F') as A'.
  destruct f as [V|V|t], f' as [V'|V'|t'].
  - destruct A as (N1 & W & K1), A' as (N2 & W' & K2). rewrite K1, K2 in K. injection K as O K. split; [exact O|].
    cbn [form_equiv]. rewrite <- O in K. split; [exact W|]. split; [exact W'|]. split.
    + destruct (sp_op sp); try (apply (C02_canon_complete_invariant V V' W W'); exact K).
      apply vstr_inj in K; auto. subst. apply (ok_refl _ pep440_cmp_ok).
    + intros OC. rewrite OC in K. now apply vstr_inj in K.
  - exfalso. destruct A as (N1 & W & K1), A' as (N2 & N3 & K2 & E' & _). rewrite K1, K2 in K. injection K as O K.
    rewrite <- K in E'. destruct (sp_op sp); rewrite ?(vstr_not_wild _ W), ?(vstr_not_wild _ (wf_trim V W)) in E'; discriminate.
  - exfalso. destruct A as (N1 & _ & K1), A' as (O2 & _ & K2). rewrite K1, K2 in K. injection K as O _. contradiction.
  - exfalso. destruct A' as (N1 & W & K1), A as (N2 & N3 & K2 & E' & _). rewrite K1, K2 in K. injection K as O K.
    rewrite K in E'. destruct (sp_op sp'); rewrite ?(vstr_not_wild _ W), ?(vstr_not_wild _ (wf_trim V' W)) in E'; discriminate.
  - destruct A as (N1 & N2 & K1 & E & PV), A' as (_ & _ & K2 & E' & PV'). rewrite K1, K2 in K. injection K as O K. split; [exact O|].
    cbn [form_equiv]. rewrite K in PV. congruence.
  - exfalso. destruct A as (N1 & _ & K1 & _), A' as (O2 & _ & K2). rewrite K1, K2 in K. injection K as O _. contradiction.
  - exfalso. destruct A' as (N1 & _ & K1), A as (O2 & _ & K2). rewrite K1, K2 in K. injection K as O _. symmetry in O. contradiction.
  - exfalso. destruct A' as (N1 & _ & K1 & _), A as (O2 & _ & K2). rewrite K1, K2 in K. injection K as O _. symmetry in O. contradiction.
  - destruct A as (O1 & T1 & K1), A' as (O2 & T2 & K2). rewrite K1, K2 in K. injection K as K. split; [congruence|]. cbn [form_equiv]. congruence.
Qed.

Lemma auto_pre_equiv o f f' : form_equiv o f f' -> auto_pre_form o f = auto_pre_form o f'.
Proof.
  destruct f as [V|V|t], f' as [V'|V'|t']; cbn [form_equiv]; try contradiction.
  - intros (W & W' & E & _). destruct o; cbn [auto_pre_form]; auto using prerelease_equiv.
  - intros ->. reflexivity.
  - intros ->. reflexivity.
Qed.

(* equal specifiers (equal _canonical_spec) give the same answer for every candidate under every pre-release setting *)
Theorem equal_specifiers_same_matches a b sp sp' override arg item :
  Specifier a = Some sp -> Specifier b = Some sp' -> spec_key sp = spec_key sp' ->
  contains sp override arg item = contains sp' override arg item.
Proof.
  intros Sa Sb K. destruct (Specifier_interp a sp Sa) as (f & I & F). destruct (Specifier_interp b sp' Sb) as (f' & I' & F').
  destruct (equal_keys_equiv_forms sp sp' f f' I F I' F' K) as [O Q].
  rewrite (contains_is_form sp f override arg item I F), (contains_is_form sp' f' override arg item I' F'), <- O.
  unfold contains_form. rewrite (auto_pre_equiv _ f f' Q). destruct (Version item) as [c|]; auto.
  now rewrite (sem_form_equiv _ f f' c Q).
Qed.
Print Assumptions equal_specifiers_same_matches.
