(* C03's quantifier "every specifier version the operator admits", in EVERY spelling: whatever text t Version() accepts for a version V the
   operator admits, Specifier(op + t) is accepted as that operator and denotes exactly V; hence contains() on it is [sem op V].
   (The specifier scanner and the version scanner share the public-version scanner p_pub: the specifier's parse is computed from the version's.) *)
From Coq Require Import List Arith NArith Bool Lia.
Import ListNotations.
Require Import S1 VParse VComplete VTop VTop2 VDec Py VMeaning VCanon VCmp SpecModel SpecOps SpecOps2 Prefix Prefix4 Compat SpecParse SpecSound SpecContains SpecSem SpecMain SpecCut SpecLink SpecComplete SpecAdmit VWf VKeyEq VAscii VGnfExists.
Open Scope N_scope.
Arguments N.eqb : simpl never.
Arguments N.leb : simpl never.

Lemma meaning_ws q lo wl wr : meaning (sp_of q lo wl wr) = meaning (sp_of q lo [] []).
Proof. reflexivity. Qed.

(* after the local label (or where it would start) there is no ".*" *)
Lemma no_wild_after_pub s8 lo s9 : p_opt p_loc s8 = (lo, s9) -> forallb is_ws s9 = true -> hd2_is 46 (N.eqb 42) s8 = false.
Proof.
  intros E W. destruct (p_opt_loc_sound _ _ _ E) as [-> _]. destruct lo as [l|]; cbn [r_opt].
  - reflexivity.
  - cbn [app]. destruct s9 as [|c s9]; [reflexivity|]. cbn [forallb] in W. apply andb_prop in W as [W _].
    cbn [hd2_is]. destruct (c =? 46) eqn:E46; [|reflexivity]. apply N.eqb_eq in E46. subst c. discriminate W.
Qed.

Theorem Specifier_of_version o t V : Version t = Some V -> admits o V -> o <> OArb ->
  exists sp, Specifier (op_txt o ++ t) = Some sp /\ sp_op sp = o /\ interp sp = Some (FVer V) /\ form_ok o (FVer V).
Proof.
  intros PV A NA. pose proof (Version_wf _ _ PV) as WV. pose proof (admits_form_ok o V NA WV A) as FO.
  (* the version scanner's run on t *)
  unfold Version in PV. rewrite parse_spelling_via_pub in PV.
  destruct (span is_ws t) as [wl s1] eqn:E0.
  destruct (p_pub s1) as [[q s8]|] eqn:P; [|discriminate].
  destruct (p_opt p_loc s8) as [lo s9] eqn:L. destruct (forallb is_ws s9) eqn:W9; [|discriminate].
  cbn [option_map] in PV. injection PV as PV. rewrite meaning_ws in PV.
  destruct (p_pub_sound _ _ _ P) as [E1 Wq]. destruct (p_opt_loc_sound _ _ _ L) as [E8 Wlo].
  assert (P' : p_pub (r_pub q ++ s8) = Some (q, s8)) by (rewrite <- E1; exact P).
  assert (VT : Version (r_pub q ++ r_opt r_loc lo) = Some V) by (rewrite <- PV; exact (Version_of_pub q lo s8 s9 P' L E8)).
  (* t does not begin with '=' *)
  assert (NE : exists c t', t = c :: t' /\ (c =? 61) = false).
  { destruct t as [|c t'].
    - cbn in E0. injection E0 as <- <-. discriminate P.
    - exists c, t'. split; auto. destruct (c =? 61) eqn:E; auto. apply N.eqb_eq in E. subst c.
      cbn [span] in E0. change (is_ws 61) with false in E0. cbv iota in E0. injection E0 as <- <-. rewrite p_pub_eqsign in P. discriminate P. }
  destruct NE as (c & t' & -> & Hc).
  (* the body the operator's alternative reads from s1 *)
  assert (B : exists b r, p_body o s1 = Some (b, r) /\ all_ws r = true /\ r_body b = r_pub q ++ r_opt r_loc lo).
  { assert (NL : Py.local V = None -> lo = None) by (intros H; rewrite <- PV in H; now apply meaning_local in H).
    assert (Ord : lo = None -> exists b r, (match p_pub s1 with Some (q, r) => Some (BPub q None, r) | None => None end) = Some (b, r) /\
                                      all_ws r = true /\ r_body b = r_pub q ++ r_opt r_loc lo).
    { intros ->. rewrite P. exists (BPub q None), s8. split; auto. split; auto.
      unfold p_opt in L. destruct (p_loc s8) as [[a r]|]; [discriminate|]. injection L as <-. exact W9. }
    destruct o; cbn [p_body admits] in *; try (apply Ord, NL; tauto); try congruence.
    - (* ~= *) destruct A as [A Two]. specialize (NL A). subst lo. rewrite P.
      rewrite <- PV, meaning_release_len in Two. destruct (q_rels q) eqn:R; [cbn in Two; lia|].
      exists (BPub q None), s8. split; auto. split; auto.
      unfold p_opt in L. destruct (p_loc s8) as [[a r]|]; [discriminate|]. injection L as <-. exact W9.
    - (* == *) rewrite P, (no_wild_after_pub s8 lo s9 L W9), andb_false_r, L. exists (BPub q lo), s9. auto.
    - (* != *) rewrite P, (no_wild_after_pub s8 lo s9 L W9), andb_false_r, L. exists (BPub q lo), s9. auto. }
  destruct B as (b & r & PB & AW & RB).
  unfold Specifier, parse_specifier. rewrite (VTop.span_none is_ws _ (op_not_ws o (c :: t'))).
  rewrite (try_ops_own o c t' wl s1 b r Hc E0 PB AW). cbn [s_op s_body].
  eexists. split; [reflexivity|]. cbn [sp_op sp_text]. split; auto. split; auto.
  unfold interp; cbn [sp_op sp_text]. rewrite RB, (pub_text_nostar q lo Wq Wlo), VT. destruct o; try reflexivity. congruence.
Qed.

(* the wildcard form in every spelling: a plain version text (nothing after it) followed by ".*" denotes V.* after == and != *)
Theorem Specifier_of_wildcard o t V : (o = OEq \/ o = ONe) -> Version t = Some V -> plain V ->
  (forall u c, t = u ++ [c] -> is_ws c = false) ->
  exists sp, Specifier (op_txt o ++ t ++ [46; 42]) = Some sp /\ sp_op sp = o /\ interp sp = Some (FWild V) /\ form_ok o (FWild V).
Proof.
  intros O PV PL NT. pose proof (Version_wf _ _ PV) as WV.
  assert (FO : form_ok o (FWild V)) by (destruct O as [-> | ->]; cbn [form_ok]; auto).
  unfold Version in PV. rewrite parse_spelling_via_pub in PV.
  destruct (span is_ws t) as [wl s1] eqn:E0.
  destruct (p_pub s1) as [[q s8]|] eqn:P; [|discriminate].
  destruct (p_opt p_loc s8) as [lo s9] eqn:L. destruct (forallb is_ws s9) eqn:W9; [|discriminate].
  cbn [option_map] in PV. injection PV as PV. rewrite meaning_ws in PV.
  destruct (p_pub_sound _ _ _ P) as [E1 Wq]. destruct (span_sound _ _ _ _ E0) as [Et Wl].
  destruct PL as (P1 & P2 & P3 & P4).
  assert (LN : lo = None) by (rewrite <- PV in P4; now apply meaning_local in P4). subst lo.
  assert (S98 : s9 = s8) by (unfold p_opt in L; destruct (p_loc s8) as [[a r]|]; [discriminate|]; now injection L).
  subst s9.
  (* nothing follows the version in t *)
  assert (S8 : s8 = []).
  { destruct s8 as [|x l] eqn:EW; auto. exfalso.
    destruct (@exists_last _ (x :: l) ltac:(discriminate)) as (u & c & EL).
    assert (Hc : is_ws c = true).
    { rewrite EL in W9. rewrite forallb_app in W9. apply andb_prop in W9 as [_ W9]. cbn in W9. now rewrite andb_true_r in W9. }
    rewrite Et, E1, EL, !app_assoc in NT. specialize (NT _ c eq_refl). congruence. }
  subst s8. rewrite app_nil_r in E1. subst s1.
  (* q has no pre/post/dev part *)
  assert (QP : is_plain q = true).
  { rewrite <- PV in P1, P2, P3. unfold meaning, sp_of in P1, P2, P3; cbn in P1, P2, P3. unfold is_plain.
    destruct (q_pre q); [discriminate|]. destruct (q_post q); [discriminate|]. destruct (q_dev q); [discriminate|]. reflexivity. }
  pose proof (r_pub_plain q QP) as RP.
  assert (WF : wf_front (q_v q) (q_ep q) (q_rel0 q) (q_rels q)) by now apply wf_pub_front.
  assert (PW : p_pub (r_pub q ++ [46; 42]) = Some (q, [46; 42])).
  { rewrite RP. change (r_osep (q_v q) ++ r_opt r_ep (q_ep q) ++ q_rel0 q ++ r_rels (q_rels q)) with (r_front (q_v q) (q_ep q) (q_rel0 q) (q_rels q)).
    rewrite (p_pub_wild _ _ _ _ [] WF). f_equal. f_equal. unfold is_plain in QP. destruct q as [a b0 c0 d e f g]; cbn in *.
    destruct e; [discriminate|]. destruct f; [discriminate|]. destruct g; [discriminate|]. reflexivity. }
  assert (VT : Version (r_pub q) = Some V) by (rewrite <- PV; apply (Version_of_pub_nolocal q []); now rewrite app_nil_r).
  assert (NE : exists c t', wl ++ r_pub q = c :: t' /\ (c =? 61) = false).
  { destruct (wl ++ r_pub q) as [|c t'] eqn:EQ.
    - destruct wl; [|discriminate]. cbn in EQ. rewrite EQ in P. discriminate P.
    - exists c, t'. split; auto. destruct (c =? 61) eqn:E; auto. apply N.eqb_eq in E. subst c.
      destruct wl as [|w wl']; cbn in EQ.
      + rewrite EQ in P. rewrite p_pub_eqsign in P. discriminate P.
      + injection EQ as -> _. cbn in Wl. discriminate Wl. }
  destruct NE as (c & t' & EQ & Hc).
  assert (SP : span is_ws ((c :: t') ++ [46; 42]) = (wl, r_pub q ++ [46; 42])).
  { rewrite <- EQ, <- app_assoc. apply span_complete; auto. now apply pub_not_ws. }
  assert (PB : p_body o (r_pub q ++ [46; 42]) = Some (BWild (q_v q) (q_ep q) (q_rel0 q) (q_rels q), [])).
  { destruct O as [-> | ->]; cbn [p_body]; rewrite PW, QP; reflexivity. }
  unfold Specifier, parse_specifier. rewrite Et. rewrite EQ.
  rewrite (VTop.span_none is_ws _ (op_not_ws o ((c :: t') ++ [46; 42]))). cbn [app] in SP |- *.
  rewrite (try_ops_own o c (t' ++ [46; 42]) wl _ _ [] Hc SP PB eq_refl). cbn [s_op s_body].
  eexists. split; [reflexivity|]. cbn [sp_op sp_text]. split; auto. split; auto.
  unfold interp; cbn [sp_op sp_text r_body].
  assert (RB : r_osep (q_v q) ++ r_opt r_ep (q_ep q) ++ q_rel0 q ++ r_rels (q_rels q) ++ [46; 42] = r_pub q ++ [46; 42]).
  { rewrite RP, <- !app_assoc. reflexivity. }
  rewrite RB, ends_dotstar_app, drop2_app, VT. destruct O as [-> | ->]; reflexivity.
Qed.

(* the answer of the real entry points on such a specifier is the PEP 440 semantics of (operator, V) *)
Theorem contains_of_version o t V item c : Version t = Some V -> admits o V -> o <> OArb -> Version item = Some c ->
  exists sp b, Specifier (op_txt o ++ t) = Some sp /\ sem o (FVer V) c = Some b /\ contains sp None (Some true) item = Ans b.
Proof.
  intros PV A NA E. destruct (Specifier_of_version o t V PV A NA) as (sp & S & O & I & F).
  assert (F' : form_ok (sp_op sp) (FVer V)) by now rewrite O.
  pose proof (contains_is_spec sp _ item I F') as H. unfold contains_spec in H. rewrite I, E, O in H.
  destruct (sem o (FVer V) c) as [b|] eqn:Sm.
  - exists sp, b. split; auto. split; auto. cbn [option_map] in H. now injection H.
  - destruct o; cbn [sem form_ok] in *; try discriminate; contradiction.
Qed.

(* non-vacuity: " \t V1.0.RC-1 " denotes 1.0rc1; after ">=" it is that version, and 1.0 is in, 1.0b2 out;
   "V01.0" (un-normalised, plain) followed by ".*" after "==" denotes the wildcard 1.0.* : 1.0.7 in, 1.1 out; after "~=" / "!=" likewise accepted *)
Definition spell_check : bool :=
  let t := [32;9;86;49;46;48;46;82;67;45;49;32] in
  let w := [86;48;49;46;48] in
  match Version t, Specifier (op_txt OGe ++ t), Version w, Specifier (op_txt OEq ++ w ++ [46;42]), Specifier (op_txt OCompat ++ t), Specifier (op_txt ONe ++ t) with
  | Some V, Some sp, Some W, Some sw, Some sc, Some sn =>
      match interp sp, contains sp None (Some true) [49;46;48], contains sp None (Some true) [49;46;48;98;50] with
      | Some (FVer V'), Ans true, Ans false => VMeaning.str_eqb (vstr V) (vstr V') && VMeaning.str_eqb (vstr V) [49;46;48;114;99;49]
      | _, _, _ => false end &&
      match interp sw, contains sw None (Some true) [49;46;48;46;55], contains sw None (Some true) [49;46;49] with
      | Some (FWild W'), Ans true, Ans false => VMeaning.str_eqb (vstr W) (vstr W') && VMeaning.str_eqb (vstr W) [49;46;48]
      | _, _, _ => false end &&
      match interp sc, interp sn with Some (FVer _), Some (FVer _) => true | _, _ => false end
  | _, _, _, _, _, _ => false end.
Example spell_nonvacuous : spell_check = true.
Proof. vm_compute. reflexivity. Qed.
Print Assumptions Specifier_of_version.
Print Assumptions contains_of_version.
Print Assumptions Specifier_of_wildcard.
