(* Discharging wf_member / wf_set for everything the constructors accept (SpecLink.compare_op_total). *)
From Coq Require Import List Arith NArith Bool Lia Permutation.
Import ListNotations.
Require Import S1 VParse Py VMeaning SpecModel SpecParse SpecContains SpecLink SetModel SetsModel SetsBridge SetsFs SetsParse SetsLaws VKeyEq.
Open Scope N_scope.

Theorem Specifier_wf_member s sp : Specifier s = Some sp -> wf_member sp.
Proof. intros H c Wc. destruct (compare_op_total s sp c H Wc) as (b & E). congruence. Qed.
Theorem SpecifierSet_wf s p S : SpecifierSet s p = Some S -> wf_set S.
Proof.
  intros H. unfold wf_set. apply Forall_forall. intros m Hm. destruct (SpecifierSet_members s p S H m Hm) as (t & _ & Ht).
  eapply Specifier_wf_member; eauto.
Qed.
(* sets of Specifier objects that were themselves built by the constructor *)
Definition built (m : member) : Prop := exists t, Specifier t = Some (m_sp m).
Theorem SpecifierSet_of_wf l p : Forall built l -> wf_set (SpecifierSet_of l p).
Proof.
  intros H. unfold wf_set. cbn [SpecifierSet_of ms]. rewrite Forall_forall in *. intros m Hm. apply in_fs_of in Hm.
  destruct (H m Hm) as (t & Ht). eapply Specifier_wf_member; eauto.
Qed.
Lemma built_wf l : Forall built l -> Forall (fun m => wf_member (m_sp m)) l.
Proof. intros H. rewrite Forall_forall in *. intros m Hm. destruct (H m Hm) as (t & Ht). eapply Specifier_wf_member; eauto. Qed.
Print Assumptions SpecifierSet_wf.
