(* The frozenset model: first occurrences under Specifier.__eq__ (equality of _canonical_spec). *)
From Coq Require Import List Arith NArith Bool Lia Permutation.
Import ListNotations.
Require Import S1 VParse VDec Py VMeaning VCmp SpecModel SpecParse Prefix Prefix4 Canon SpecContains SetModel SetsModel.
Open Scope N_scope.
Arguments N.eqb : simpl never.
Arguments N.leb : simpl never.

Definition mkey (m : member) : oper * str := canonical_spec (m_sp m).

Lemma oper_eqb_eq a b : oper_eqb a b = true <-> a = b.
Proof. destruct a, b; cbn; split; intros H; try discriminate; auto. Qed.
Lemma key_eqb_eq a b : key_eqb a b = true <-> a = b.
Proof.
  destruct a as [o s], b as [o' s']. unfold key_eqb; cbn [fst snd]. split.
  - intros H. apply andb_prop in H as [H1 H2]. apply oper_eqb_eq in H1. apply str_eqb_eq in H2. congruence.
  - intros [= -> ->]. rewrite str_eqb_refl. now rewrite (proj2 (oper_eqb_eq o' o')).
Qed.
Lemma m_eqb_eq x y : m_eqb x y = true <-> mkey x = mkey y.
Proof. unfold m_eqb, sp_eqb, mkey. apply key_eqb_eq. Qed.
Lemma m_eqb_refl x : m_eqb x x = true.
Proof. now apply m_eqb_eq. Qed.
Lemma m_eqb_sym x y : m_eqb x y = m_eqb y x.
Proof.
  destruct (m_eqb x y) eqn:E, (m_eqb y x) eqn:F; auto.
  - apply m_eqb_eq in E. symmetry in E. apply m_eqb_eq in E. congruence.
  - apply m_eqb_eq in F. symmetry in F. apply m_eqb_eq in F. congruence.
Qed.
Lemma m_eqb_trans x y z : m_eqb x y = true -> m_eqb y z = true -> m_eqb x z = true.
Proof. rewrite !m_eqb_eq. congruence. Qed.

Lemma fs_mem_iff m l : fs_mem m l = true <-> exists x, In x l /\ mkey x = mkey m.
Proof.
  unfold fs_mem. rewrite existsb_exists. split; intros (x & H1 & H2); exists x; split; auto; now apply m_eqb_eq.
Qed.
Lemma fs_mem_app m a b : fs_mem m (a ++ b) = fs_mem m a || fs_mem m b.
Proof. apply existsb_app. Qed.
Lemma fs_mem_congr x y l : m_eqb x y = true -> fs_mem x l = fs_mem y l.
Proof.
  intros E. apply m_eqb_eq in E.
  destruct (fs_mem x l) eqn:A, (fs_mem y l) eqn:B; auto.
  - apply fs_mem_iff in A as (z & Hz & Kz). assert (fs_mem y l = true) by (apply fs_mem_iff; exists z; split; congruence). congruence.
  - apply fs_mem_iff in B as (z & Hz & Kz). assert (fs_mem x l = true) by (apply fs_mem_iff; exists z; split; congruence). congruence.
Qed.

(* the elements of l that a set already holding [seen] would take in, in order *)
Fixpoint novel (seen l : list member) : list member :=
  match l with
  | [] => []
  | x :: t => if fs_mem x seen then novel seen t else x :: novel (seen ++ [x]) t
  end.
Lemma fs_add_eq a x : fs_add a x = if fs_mem x a then a else a ++ [x].
Proof. reflexivity. Qed.
Lemma fs_union_cons a x b : fs_union a (x :: b) = fs_union (fs_add a x) b.
Proof. reflexivity. Qed.
Lemma fs_union_novel b : forall a, fs_union a b = a ++ novel a b.
Proof.
  induction b as [|x b IH]; intros a; cbn [novel].
  - cbn. now rewrite app_nil_r.
  - rewrite fs_union_cons, fs_add_eq. destruct (fs_mem x a); rewrite IH; auto. now rewrite <- app_assoc.
Qed.
Lemma fs_union_app a b c : fs_union a (b ++ c) = fs_union (fs_union a b) c.
Proof. apply fold_left_app. Qed.

Lemma novel_ext l : forall s s', (forall x, fs_mem x s = fs_mem x s') -> novel s l = novel s' l.
Proof.
  induction l as [|x l IH]; intros s s' H; cbn [novel]; auto. rewrite <- H.
  destruct (fs_mem x s); [now apply IH|]. f_equal. apply IH. intros y. now rewrite !fs_mem_app, H.
Qed.
Lemma novel_app l1 : forall s l2, novel s (l1 ++ l2) = novel s l1 ++ novel (s ++ novel s l1) l2.
Proof.
  induction l1 as [|x l1 IH]; intros s l2; cbn [app novel].
  - now rewrite app_nil_r.
  - destruct (fs_mem x s); [apply IH|]. cbn [app]. f_equal. rewrite IH. f_equal. f_equal. now rewrite <- app_assoc.
Qed.
Lemma novel_novel c : forall X b, (forall y, fs_mem y b = true -> fs_mem y X = true) -> novel X (novel b c) = novel X c.
Proof.
  induction c as [|y c IH]; intros X b H; cbn [novel]; auto.
  destruct (fs_mem y b) eqn:Eb.
  - rewrite (H y Eb). now apply IH.
  - cbn [novel]. destruct (fs_mem y X) eqn:EX.
    + apply IH. intros z. rewrite fs_mem_app. intros Hz. apply orb_prop in Hz as [Hz|Hz]; auto.
      unfold fs_mem in Hz; cbn in Hz. rewrite orb_false_r in Hz. now rewrite <- (fs_mem_congr y z X Hz).
    + f_equal. apply IH. intros z. rewrite !fs_mem_app. intros Hz. apply orb_prop in Hz as [Hz|Hz]; [now rewrite (H z Hz)|].
      rewrite Hz. apply orb_true_r.
Qed.
Lemma fs_mem_union y b : forall a, fs_mem y (a ++ novel a b) = fs_mem y a || fs_mem y b.
Proof.
  induction b as [|x b IH]; intros a; cbn [novel].
  - rewrite app_nil_r. unfold fs_mem at 3; cbn. now rewrite orb_false_r.
  - change (fs_mem y (x :: b)) with (m_eqb x y || fs_mem y b). destruct (fs_mem x a) eqn:E.
    + rewrite IH. destruct (m_eqb x y) eqn:F; cbn [orb]; auto. rewrite <- (fs_mem_congr x y a F), E. reflexivity.
    + change (a ++ x :: novel (a ++ [x]) b) with (a ++ [x] ++ novel (a ++ [x]) b). rewrite app_assoc, IH, fs_mem_app.
      unfold fs_mem at 2; cbn [existsb]. rewrite orb_false_r, orb_assoc. reflexivity.
Qed.

(* ---- literal identities of the member lists ---- *)
Theorem fs_union_assoc a b c : fs_union (fs_union a b) c = fs_union a (fs_union b c).
Proof.
  rewrite !fs_union_novel. rewrite novel_app, <- app_assoc. f_equal. f_equal.
  symmetry. apply novel_novel. intros y Hy. rewrite fs_mem_union, Hy. apply orb_true_r.
Qed.
Lemma fs_of_novel l : fs_of l = novel [] l.
Proof. unfold fs_of. now rewrite fs_union_novel. Qed.
Theorem fs_of_app A B : fs_of (A ++ B) = fs_union (fs_of A) (fs_of B).
Proof.
  rewrite fs_union_novel, !fs_of_novel, novel_app. cbn [app]. f_equal. symmetry. apply novel_novel. discriminate.
Qed.
Theorem fs_of_idem l : fs_of (fs_of l) = fs_of l.
Proof. rewrite !fs_of_novel. apply novel_novel. discriminate. Qed.

(* ---- membership, conjunction over a union ---- *)
Lemma in_novel x l : forall s, In x (novel s l) -> In x l.
Proof.
  induction l as [|y l IH]; intros s; cbn [novel]; auto. destruct (fs_mem y s); cbn [In]; intros H; auto.
  - right. eapply IH; eauto.
  - destruct H; auto. right. eapply IH; eauto.
Qed.
Lemma in_fs_union x a b : In x (fs_union a b) -> In x a \/ In x b.
Proof. rewrite fs_union_novel, in_app_iff. intros [H|H]; auto. right. eapply in_novel; eauto. Qed.
Lemma in_fs_of x l : In x (fs_of l) -> In x l.
Proof. intros H. apply in_fs_union in H as [[]|H]; auto. Qed.
Lemma fs_mem_fs_union y a b : fs_mem y (fs_union a b) = fs_mem y a || fs_mem y b.
Proof. rewrite fs_union_novel. apply fs_mem_union. Qed.

Lemma forallb_fs_union (P : member -> bool) b : forall a,
  (forall x y, In x (a ++ b) -> In y (a ++ b) -> m_eqb x y = true -> P x = P y) ->
  forallb P (fs_union a b) = forallb P a && forallb P b.
Proof.
  induction b as [|x b IH]; intros a R.
  - cbn. now rewrite andb_true_r.
  - rewrite fs_union_cons, IH.
    + cbn [forallb]. rewrite fs_add_eq. destruct (fs_mem x a) eqn:E.
      * apply fs_mem_iff in E as (z & Hz & Kz). apply m_eqb_eq in Kz.
        assert (Pz : P z = P x) by (apply R; auto; rewrite in_app_iff; cbn; auto).
        destruct (forallb P a) eqn:Fa; cbn [andb]; auto. rewrite forallb_forall in Fa. rewrite <- Pz, (Fa z Hz). reflexivity.
      * rewrite forallb_app. cbn [forallb]. now rewrite andb_true_r, andb_assoc.
    + intros u v Hu Hv. apply R.
      * rewrite in_app_iff in *. destruct Hu as [Hu|Hu]; [|cbn; auto]. rewrite fs_add_eq in Hu. destruct (fs_mem x a); auto.
        apply in_app_iff in Hu as [Hu|[<-|[]]]; cbn; auto.
      * rewrite in_app_iff in *. destruct Hv as [Hv|Hv]; [|cbn; auto]. rewrite fs_add_eq in Hv. destruct (fs_mem x a); auto.
        apply in_app_iff in Hv as [Hv|[<-|[]]]; cbn; auto.
Qed.
Corollary forallb_fs_of (P : member -> bool) l :
  (forall x y, In x l -> In y l -> m_eqb x y = true -> P x = P y) -> forallb P (fs_of l) = forallb P l.
Proof. intros R. unfold fs_of. now rewrite forallb_fs_union. Qed.

(* ---- a frozenset never holds two equal elements ---- *)
Definition fs_ok (l : list member) : Prop := NoDup (map mkey l).
Lemma NoDup_snoc {A} (l : list A) k : NoDup l -> ~ In k l -> NoDup (l ++ [k]).
Proof.
  induction 1 as [|x l Hx Hl IH]; cbn; intros Hk.
  - constructor; auto. constructor.
  - constructor.
    + rewrite in_app_iff. cbn. intros [H|[H|[]]]; auto.
    + apply IH. auto.
Qed.
Lemma fs_mem_false x a : fs_mem x a = false -> ~ In (mkey x) (map mkey a).
Proof.
  intros E H. apply in_map_iff in H as (z & Kz & Hz). assert (fs_mem x a = true) by (apply fs_mem_iff; eauto). congruence.
Qed.
Lemma fs_ok_add a x : fs_ok a -> fs_ok (fs_add a x).
Proof.
  intros H. rewrite fs_add_eq. destruct (fs_mem x a) eqn:E; auto. unfold fs_ok. rewrite map_app. cbn [map].
  apply NoDup_snoc; auto. now apply fs_mem_false.
Qed.
Lemma fs_ok_union b : forall a, fs_ok a -> fs_ok (fs_union a b).
Proof. induction b as [|x b IH]; intros a H; auto. rewrite fs_union_cons. apply IH. now apply fs_ok_add. Qed.
Lemma fs_ok_of l : fs_ok (fs_of l).
Proof. apply fs_ok_union. constructor. Qed.

(* frozenset equality *)
Lemma fs_ok_length a b : fs_ok a -> fs_ok b -> (forall y, fs_mem y a = fs_mem y b) -> length a = length b.
Proof.
  intros Ha Hb H. rewrite <- (map_length mkey a), <- (map_length mkey b). apply Permutation_length.
  apply NoDup_Permutation; auto. intros k. split; intros Hk; apply in_map_iff in Hk as (z & <- & Hz).
  - assert (E : fs_mem z a = true) by (apply fs_mem_iff; eauto). rewrite H in E. apply fs_mem_iff in E as (w & Hw & Kw).
    apply in_map_iff. eauto.
  - assert (E : fs_mem z b = true) by (apply fs_mem_iff; eauto). rewrite <- H in E. apply fs_mem_iff in E as (w & Hw & Kw).
    apply in_map_iff. eauto.
Qed.
Lemma fs_eqb_true a b : fs_ok a -> fs_ok b -> (forall y, fs_mem y a = fs_mem y b) -> fs_eqb a b = true.
Proof.
  intros Ha Hb H. unfold fs_eqb. rewrite (fs_ok_length a b Ha Hb H), Nat.eqb_refl. cbn [andb].
  apply forallb_forall. intros m Hm. rewrite <- H. apply fs_mem_iff. eauto.
Qed.
Theorem fs_union_comm a b : fs_ok a -> fs_ok b -> fs_eqb (fs_union a b) (fs_union b a) = true.
Proof.
  intros Ha Hb. apply fs_eqb_true; auto using fs_ok_union. intros y. rewrite !fs_mem_fs_union. apply orb_comm.
Qed.
Lemma fs_eqb_refl a : fs_eqb a a = true.
Proof.
  unfold fs_eqb. rewrite Nat.eqb_refl. cbn [andb]. apply forallb_forall. intros m Hm. apply fs_mem_iff. eauto.
Qed.
(* a set that is already a frozenset is unchanged by frozenset() *)
Lemma novel_nil_ok l : forall s, NoDup (map mkey (s ++ l)) -> novel s l = l.
Proof.
  induction l as [|x l IH]; intros s H; cbn [novel]; auto.
  destruct (fs_mem x s) eqn:E.
  - exfalso. apply fs_mem_iff in E as (z & Hz & Kz). rewrite map_app in H. cbn [map] in H.
    apply NoDup_remove_2 in H. apply H. rewrite in_app_iff. left. rewrite <- Kz. now apply in_map.
  - f_equal. apply IH. now rewrite <- app_assoc.
Qed.
Lemma fs_of_ok l : fs_ok l -> fs_of l = l.
Proof. intros H. rewrite fs_of_novel. now apply novel_nil_ok. Qed.
Print Assumptions fs_union_assoc.
