(* Histories over objects with identity (SetsWorld): after ANY sequence of constructions, & , assignments to a set's override,
   assignments to a member object's override (through any alias) and reads,
     - no read changes anything; membership of existing sets and the _spec of existing Specifier objects never change;
     - the override of every object is its latest assignment (else the constructor's), whichever other objects were assigned meanwhile;
     - hence every output depends only on the latest override of the set and the latest override of each of its member objects;
     - a & b holds the operands' member OBJECTS: at any later moment its members are fs_union of the operands' current members, so an
       assignment made through a is seen through a & b (and vice versa). *)
From Coq Require Import List Arith NArith Bool Lia.
Import ListNotations.
Require Import S1 VParse Py VMeaning SpecModel SpecParse SpecContains SetModel SetsModel SetsFs SetsWorld.
Open Scope nat_scope.

(* ---------------------------------------------------------------- list update *)
Lemma set_nth_length {A} (f : A -> A) l : forall n, length (set_nth n f l) = length l.
Proof. induction l as [|x l IH]; intros [|n]; cbn; auto. Qed.
Lemma nth_set_nth_eq {A} (f : A -> A) d l : forall n, n < length l -> nth n (set_nth n f l) d = f (nth n l d).
Proof. induction l as [|x l IH]; intros [|n]; cbn; intros H; try lia; auto. apply IH. lia. Qed.
Lemma nth_set_nth_neq {A} (f : A -> A) d l : forall n k, k <> n -> nth k (set_nth n f l) d = nth k l d.
Proof. induction l as [|x l IH]; intros [|n] [|k] H; cbn; auto; try congruence. Qed.

(* ---------------------------------------------------------------- latest assignment *)
Definition latest_cell (a : nat) (ops : list wop) (d : option bool) : option bool :=
  fold_left (fun d o => match o with
                        | WCellOv a' p | WReadCell a' (OpSet p) => if Nat.eqb a' a then p else d
                        | _ => d end) ops d.
Definition latest_set (i : nat) (ops : list wop) (d : option bool) : option bool :=
  fold_left (fun d o => match o with
                        | WSetOv i' p | WRead i' (OpSet p) => if Nat.eqb i' i then p else d
                        | _ => d end) ops d.

(* what one step does to the objects that already exist *)
Definition frame (w w' : world) (ops : list wop) : Prop :=
  length (cells w) <= length (cells w') /\ length (sets w) <= length (sets w') /\
  (forall a, a < length (cells w) ->
     c_sp (cell_at w' a) = c_sp (cell_at w a) /\ c_ov (cell_at w' a) = latest_cell a ops (c_ov (cell_at w a))) /\
  (forall i, i < length (sets w) ->
     h_ms (set_at w' i) = h_ms (set_at w i) /\ h_ov (set_at w' i) = latest_set i ops (h_ov (set_at w i))).

Lemma frame_set_ov w i p :
  frame w {| cells := cells w; sets := set_nth i (fun h => {| h_ms := h_ms h; h_ov := p |}) (sets w) |} [WSetOv i p].
Proof.
  unfold frame, latest_cell, latest_set, cell_at, set_at. cbn [fold_left cells sets].
  rewrite set_nth_length. split; [lia|]. split; [lia|]. split; [intros k Hk; auto|]. intros k Hk.
  destruct (Nat.eqb_spec i k) as [->|N]; [rewrite nth_set_nth_eq by lia | rewrite nth_set_nth_neq by congruence]; split; reflexivity.
Qed.
Lemma frame_cell_ov w a p :
  frame w {| cells := set_nth a (fun c => {| c_sp := c_sp c; c_ov := p |}) (cells w); sets := sets w |} [WCellOv a p].
Proof.
  unfold frame, latest_cell, latest_set, cell_at, set_at. cbn [fold_left cells sets].
  rewrite set_nth_length. split; [lia|]. split; [lia|]. split; [|intros k Hk; auto]. intros k Hk.
  destruct (Nat.eqb_spec a k) as [->|N]; [rewrite nth_set_nth_eq by lia | rewrite nth_set_nth_neq by congruence]; split; reflexivity.
Qed.
Lemma frame_same w o : (forall d a, latest_cell a [o] d = d) -> (forall d i, latest_set i [o] d = d) -> frame w w [o].
Proof. intros A B. unfold frame. repeat split; auto; now rewrite ?A, ?B. Qed.
Lemma frame_step w o : frame w (fst (wstep w o)) [o].
Proof.
  destruct o as [sp ov'|addrs p|i j|i p|a p|i o'|a o']; cbn [wstep fst].
  - unfold frame, latest_cell, latest_set, cell_at, set_at. cbn [fold_left cells sets].
    rewrite app_length. cbn. repeat split; try lia; intros; rewrite ?app_nth1 by lia; auto.
  - unfold frame, latest_cell, latest_set, cell_at, set_at. cbn [fold_left cells sets].
    rewrite app_length. cbn. repeat split; try lia; intros; rewrite ?app_nth1 by lia; auto.
  - destruct (SetModel.merge _ _); cbn [fst]; [|now apply frame_same].
    unfold frame, latest_cell, latest_set, cell_at, set_at. cbn [fold_left cells sets].
    rewrite app_length. cbn. repeat split; try lia; intros; rewrite ?app_nth1 by lia; auto.
  - apply frame_set_ov.
  - apply frame_cell_ov.
  - destruct o'; cbn [fst]; try (now apply frame_same). apply (frame_set_ov w i p).
  - destruct o'; cbn [fst]; try (now apply frame_same). apply (frame_cell_ov w a p).
Qed.
Lemma latest_cell_cons a o ops d : latest_cell a (o :: ops) d = latest_cell a ops (latest_cell a [o] d).
Proof. reflexivity. Qed.
Lemma latest_set_cons i o ops d : latest_set i (o :: ops) d = latest_set i ops (latest_set i [o] d).
Proof. reflexivity. Qed.
(* THE STATE THEOREM: after any history every pre-existing object has its latest assignment as override and is otherwise unchanged *)
Theorem world_history ops : forall w, frame w (wrun w ops) ops.
Proof.
  induction ops as [|o ops IH]; intros w.
  - unfold frame. cbn. repeat split; auto.
  - change (wrun w (o :: ops)) with (wrun (fst (wstep w o)) ops).
    destruct (frame_step w o) as (L1 & L2 & C1 & S1). destruct (IH (fst (wstep w o))) as (L1' & L2' & C2 & S2).
    unfold frame. repeat split; try lia.
    + destruct (C1 a H) as [E _]. destruct (C2 a ltac:(lia)) as [E' _]. congruence.
    + destruct (C1 a H) as [_ E]. destruct (C2 a ltac:(lia)) as [_ E']. rewrite latest_cell_cons. congruence.
    + destruct (S1 i H) as [E _]. destruct (S2 i ltac:(lia)) as [E' _]. congruence.
    + destruct (S1 i H) as [_ E]. destruct (S2 i ltac:(lia)) as [_ E']. rewrite latest_set_cons. congruence.
Qed.
(* reads change nothing at all: contains / in / filter / .prereleases on a set or on a Specifier object leave every object as it was.
   (In the model this holds by the way wstep is written - the second component of the state is returned untouched; that the real
   contains/filter/prereleases do not write _prereleases is what the s.world correspondence stream checks.) *)
Theorem reads_do_not_write w i a o : is_read o = true -> fst (wstep w (WRead i o)) = w /\ fst (wstep w (WReadCell a o)) = w.
Proof. destruct o; cbn [is_read]; intros H; try discriminate; split; reflexivity. Qed.
(* an assignment spelled as an op on the object is the assignment *)
Lemma read_opset_is_assignment w i a p : wstep w (WRead i (OpSet p)) = wstep w (WSetOv i p) /\ wstep w (WReadCell a (OpSet p)) = wstep w (WCellOv a p).
Proof. split; reflexivity. Qed.

(* ---------------------------------------------------------------- outputs depend only on the latest overrides *)
Definition wf_world (w : world) : Prop := forall i, i < length (sets w) -> Forall (fun a => a < length (cells w)) (h_ms (set_at w i)).
Theorem resolve_after ops w i : wf_world w -> i < length (sets w) ->
  resolve (wrun w ops) i =
  {| ms := map (fun a => {| m_sp := c_sp (cell_at w a); m_ov := latest_cell a ops (c_ov (cell_at w a)) |}) (h_ms (set_at w i));
     ov := latest_set i ops (h_ov (set_at w i)) |}.
Proof.
  intros W Hi. destruct (world_history ops w) as (_ & _ & C & S). destruct (S i Hi) as [M O]. unfold resolve. rewrite M, O. f_equal.
  apply map_ext_in. intros a Ha. specialize (W i Hi). rewrite Forall_forall in W. destruct (C a (W a Ha)) as [E1 E2].
  unfold member_at. now rewrite E1, E2.
Qed.
Theorem reads_depend_on_latest w ops ops' i o : wf_world w -> i < length (sets w) ->
  latest_set i ops (h_ov (set_at w i)) = latest_set i ops' (h_ov (set_at w i)) ->
  (forall a, In a (h_ms (set_at w i)) -> latest_cell a ops (c_ov (cell_at w a)) = latest_cell a ops' (c_ov (cell_at w a))) ->
  snd (wstep (wrun w ops) (WRead i o)) = snd (wstep (wrun w ops') (WRead i o)).
Proof.
  intros W Hi ES EC. assert (R : resolve (wrun w ops) i = resolve (wrun w ops') i); [|destruct o; cbn [wstep snd]; now rewrite ?R].
  rewrite !resolve_after by assumption. rewrite ES.
  assert (X : map (fun a => {| m_sp := c_sp (cell_at w a); m_ov := latest_cell a ops (c_ov (cell_at w a)) |}) (h_ms (set_at w i)) =
              map (fun a => {| m_sp := c_sp (cell_at w a); m_ov := latest_cell a ops' (c_ov (cell_at w a)) |}) (h_ms (set_at w i))).
  { apply map_ext_in. intros a Ha. now rewrite (EC a Ha). }
  now rewrite X.
Qed.
Theorem cell_reads_depend_on_latest w ops ops' a o : a < length (cells w) ->
  latest_cell a ops (c_ov (cell_at w a)) = latest_cell a ops' (c_ov (cell_at w a)) ->
  snd (wstep (wrun w ops) (WReadCell a o)) = snd (wstep (wrun w ops') (WReadCell a o)).
Proof.
  intros Ha E. destruct (world_history ops w) as (_ & _ & C & _). destruct (world_history ops' w) as (_ & _ & C' & _).
  destruct (C a Ha) as [E1 E2], (C' a Ha) as [E1' E2']. destruct o; cbn [wstep snd]; now rewrite ?E1, ?E2, ?E1', ?E2', ?E.
Qed.

(* ---------------------------------------------------------------- construction and & share the member objects *)
Lemma existsb_map' {X Y} (f : Y -> bool) (g : X -> Y) l : existsb f (map g l) = existsb (fun x => f (g x)) l.
Proof. induction l as [|x l IH]; cbn; auto. now rewrite IH. Qed.
Lemma existsb_ext_in' {X} (p q : X -> bool) l : (forall a, In a l -> p a = q a) -> existsb p l = existsb q l.
Proof. induction l as [|x l IH]; cbn; auto. intros H. rewrite (H x), IH; auto. Qed.
Lemma m_eqb_sp x y x' y' : m_sp x = m_sp x' -> m_sp y = m_sp y' -> m_eqb x y = m_eqb x' y'.
Proof. unfold m_eqb. now intros -> ->. Qed.
Lemma a_add_resolve w w' acc x : (forall y, In y (x :: acc) -> c_sp (cell_at w' y) = c_sp (cell_at w y)) ->
  map (member_at w') (a_add w acc x) = fs_add (map (member_at w') acc) (member_at w' x).
Proof.
  intros H. unfold a_add, fs_add. rewrite existsb_map'.
  rewrite (existsb_ext_in' (fun y => m_eqb (member_at w' y) (member_at w' x)) (fun y => m_eqb (member_at w y) (member_at w x)) acc).
  - destruct (existsb _ acc); auto. now rewrite map_app.
  - intros y Hy. apply m_eqb_sp; cbn [member_at m_sp]; apply H; cbn; auto.
Qed.
Lemma in_a_add w acc x y : In y (a_add w acc x) -> In y acc \/ y = x.
Proof. unfold a_add. destruct (existsb _ acc); auto. rewrite in_app_iff. cbn. intuition. Qed.
Lemma a_union_resolve w w' b : forall a, (forall y, In y (a ++ b) -> c_sp (cell_at w' y) = c_sp (cell_at w y)) ->
  map (member_at w') (a_union w a b) = fs_union (map (member_at w') a) (map (member_at w') b).
Proof.
  induction b as [|x b IH]; intros a H; [reflexivity|].
  change (a_union w a (x :: b)) with (a_union w (a_add w a x) b). cbn [map]. rewrite fs_union_cons. rewrite IH.
  - f_equal. apply a_add_resolve. intros y Hy. apply H. rewrite in_app_iff. cbn in *. intuition.
  - intros y Hy. apply H. rewrite in_app_iff in *. destruct Hy as [Hy|Hy]; [|cbn; auto]. apply in_a_add in Hy as [Hy| ->]; cbn; auto.
Qed.
Lemma in_a_union w b : forall a y, In y (a_union w a b) -> In y a \/ In y b.
Proof.
  induction b as [|x b IH]; intros a y; [auto|]. change (a_union w a (x :: b)) with (a_union w (a_add w a x) b). intros H.
  apply IH in H as [H|H]; [|cbn; auto]. apply in_a_add in H as [H| ->]; cbn; auto.
Qed.

Lemma set_at_new w h : set_at {| cells := cells w; sets := sets w ++ [h] |} (length (sets w)) = h.
Proof. unfold set_at. cbn [sets]. rewrite app_nth2 by lia. now rewrite Nat.sub_diag. Qed.
Lemma set_at_old w h i : i < length (sets w) -> set_at {| cells := cells w; sets := sets w ++ [h] |} i = set_at w i.
Proof. intros H. unfold set_at. cbn [sets]. now rewrite app_nth1. Qed.
Lemma wf_world_new w h : wf_world w -> Forall (fun a => a < length (cells w)) (h_ms h) -> wf_world {| cells := cells w; sets := sets w ++ [h] |}.
Proof.
  intros W H i Hi. cbn [sets cells] in *. rewrite app_length in Hi. cbn in Hi. destruct (Nat.eq_dec i (length (sets w))) as [->|N].
  - now rewrite set_at_new.
  - rewrite set_at_old by lia. apply W. lia.
Qed.

(* well-addressed programs keep the world well-formed; in particular every world reached from the empty one by such a program *)
Lemma wf_world_cells w cs : length (cells w) <= length cs -> wf_world w -> wf_world {| cells := cs; sets := sets w |}.
Proof.
  intros L W i Hi. cbn [sets cells] in *. specialize (W i Hi). unfold set_at in *. cbn [sets]. rewrite Forall_forall in *. intros a Ha.
  specialize (W a Ha). lia.
Qed.
Lemma wf_world_set_ov w i p : wf_world w -> wf_world {| cells := cells w; sets := set_nth i (fun h => {| h_ms := h_ms h; h_ov := p |}) (sets w) |}.
Proof.
  intros W k Hk. cbn [sets cells] in *. rewrite set_nth_length in Hk. unfold set_at. cbn [sets].
  destruct (Nat.eq_dec k i) as [->|N]; [rewrite nth_set_nth_eq by lia | rewrite nth_set_nth_neq by congruence]; apply (W _ Hk).
Qed.
Lemma wf_world_step w o : wf_world w -> wf_op w o -> wf_world (fst (wstep w o)).
Proof.
  intros W F. destruct o as [sp ov'|addrs p|i j|i p|a p|i o'|a o']; cbn [wstep fst wf_op] in *.
  - apply wf_world_cells; auto. rewrite app_length. lia.
  - apply wf_world_new; auto. apply Forall_forall. intros a Ha. apply in_a_union in Ha as [[]|Ha]. rewrite Forall_forall in F. auto.
  - destruct F as [Hi Hj]. destruct (SetModel.merge _ _); cbn [fst]; auto. apply wf_world_new; auto.
    apply Forall_forall. intros a Ha. pose proof (W i Hi) as Fi. pose proof (W j Hj) as Fj. rewrite Forall_forall in Fi, Fj.
    apply in_a_union in Ha as [Ha|Ha]; auto.
  - now apply wf_world_set_ov.
  - apply wf_world_cells; auto. now rewrite set_nth_length.
  - destruct o'; cbn [fst]; auto. now apply wf_world_set_ov.
  - destruct o'; cbn [fst]; auto. apply wf_world_cells; auto. now rewrite set_nth_length.
Qed.
Theorem wf_world_run ops : forall w, wf_world w -> wf_ops w ops -> wf_world (wrun w ops).
Proof.
  induction ops as [|o ops IH]; intros w W F; [exact W|]. destruct F as [F1 F2].
  change (wrun w (o :: ops)) with (wrun (fst (wstep w o)) ops). apply IH; auto. now apply wf_world_step.
Qed.
Corollary wf_world_from_empty ops : wf_ops empty_world ops -> wf_world (wrun empty_world ops).
Proof. apply wf_world_run. intros i Hi. cbn in Hi. lia. Qed.

(* sets[i] & sets[j], then any history: the result's members are, at every later moment, the union of the operands' CURRENT members
   (the very objects), and its override is the merged one unless re-assigned *)
Theorem and_shares_members w i j o ops : wf_world w -> i < length (sets w) -> j < length (sets w) ->
  SetModel.merge (h_ov (set_at w i)) (h_ov (set_at w j)) = Some o ->
  let k := length (sets w) in
  let w' := wrun w (WAnd i j :: ops) in
  ms (resolve w' k) = fs_union (ms (resolve w' i)) (ms (resolve w' j)) /\ ov (resolve w' k) = latest_set k ops o.
Proof.
  intros W Hi Hj M k w'. subst k w'. change (wrun w (WAnd i j :: ops)) with (wrun (fst (wstep w (WAnd i j))) ops).
  cbn [wstep]. rewrite M. cbn [fst].
  set (h := {| h_ms := a_union w (h_ms (set_at w i)) (h_ms (set_at w j)); h_ov := o |}).
  set (w1 := {| cells := cells w; sets := sets w ++ [h] |}).
  assert (Fi := W i Hi). assert (Fj := W j Hj). rewrite Forall_forall in Fi, Fj.
  assert (Fh : Forall (fun a => a < length (cells w)) (h_ms h)).
  { apply Forall_forall. intros a Ha. apply in_a_union in Ha as [Ha|Ha]; auto. }
  assert (W1 : wf_world w1) by now apply wf_world_new.
  destruct (world_history ops w1) as (_ & _ & C & HS).
  assert (L1 : length (sets w1) = S (length (sets w))) by (cbn; rewrite app_length; cbn; lia).
  destruct (HS (length (sets w)) ltac:(lia)) as [Mk Ok]. destruct (HS i ltac:(lia)) as [Mi _]. destruct (HS j ltac:(lia)) as [Mj _].
  subst w1. rewrite set_at_new in Mk, Ok. rewrite set_at_old in Mi, Mj by assumption.
  unfold resolve. cbn [ms ov]. rewrite Mk, Ok, Mi, Mj. split; [|reflexivity]. cbn [h h_ms].
  apply a_union_resolve. intros y Hy. assert (Ly : y < length (cells w)) by (apply in_app_iff in Hy as [Hy|Hy]; auto).
  destruct (C y Ly) as [E _]. exact E.
Qed.
(* SpecifierSet([objects]) likewise holds the objects themselves *)
Theorem set_shares_members w addrs p ops : Forall (fun a => a < length (cells w)) addrs ->
  let k := length (sets w) in
  let w' := wrun w (WSet addrs p :: ops) in
  resolve w' k = SpecifierSet_of (map (member_at w') addrs) (latest_set k ops p).
Proof.
  intros F k w'. subst k w'. change (wrun w (WSet addrs p :: ops)) with (wrun (fst (wstep w (WSet addrs p))) ops). cbn [wstep fst].
  set (h := {| h_ms := a_union w [] addrs; h_ov := p |}). set (w1 := {| cells := cells w; sets := sets w ++ [h] |}).
  destruct (world_history ops w1) as (_ & _ & C & HS).
  assert (L1 : length (sets w1) = S (length (sets w))) by (cbn; rewrite app_length; cbn; lia).
  destruct (HS (length (sets w)) ltac:(lia)) as [Mk Ok]. subst w1. rewrite set_at_new in Mk, Ok.
  unfold resolve, SpecifierSet_of. rewrite Mk, Ok. f_equal. cbn [h h_ms]. unfold fs_of.
  change (@nil member) with (map (member_at (wrun {| cells := cells w; sets := sets w ++ [h] |} ops)) []). apply a_union_resolve.
  intros y Hy. cbn [app] in Hy. rewrite Forall_forall in F. destruct (C y (F y Hy)) as [E _]. exact E.
Qed.

(* non-vacuity: a = {>=1.0}, b = {<3}, c = a & b; then the member of a gets prereleases=True; c (never touched) now matches 2.0a1 *)
Definition sharing_check : bool :=
  let ge := {| sp_op := OGe; sp_text := [49;46;48]%N |} in
  let lt := {| sp_op := OLt; sp_text := [51]%N |} in
  let build := [WCell ge None; WCell lt None; WSet [0] None; WSet [1] None; WAnd 0 1] in
  let q := WRead 2 (OpContains None None [50;46;48;97;49]%N) in
  match snd (wstep (wrun empty_world build) q), snd (wstep (wrun empty_world (build ++ [WCellOv 0 (Some true)])) q) with
  | WObs (ObsC (Ans false)), WObs (ObsC (Ans true)) => true
  | _, _ => false
  end.
Example sharing_nonvacuous : sharing_check = true.
Proof. vm_compute. reflexivity. Qed.

(* the build program of the example is well-addressed, so the worlds it reaches satisfy the premise wf_world of the theorems above *)
Example sharing_program_wf :
  wf_ops empty_world [WCell {| sp_op := OGe; sp_text := [49;46;48]%N |} None; WCell {| sp_op := OLt; sp_text := [51]%N |} None;
                      WSet [0] None; WSet [1] None; WAnd 0 1; WCellOv 0 (Some true)].
Proof. cbn. repeat split; repeat constructor. Qed.
Print Assumptions wf_world_from_empty.
Print Assumptions world_history.
Print Assumptions reads_depend_on_latest.
Print Assumptions and_shares_members.
Print Assumptions set_shares_members.
