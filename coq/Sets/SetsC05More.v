(* C05, second round: the conjunction for every way of enabling pre-releases; order / duplication invariance for ANY call argument;
   a & b on final releases under any argument (and why pre-releases are excluded there); a & "text"; set == "text";
   spacing inside a clause. *)
From Coq Require Import List Arith NArith Bool Lia Permutation.
Import ListNotations.
Require SpecEqual SetsFilter.
Require Import S1 VParse Py VMeaning SpecModel SpecParse SpecSound Prefix SpecContains SpecSem SpecLink SetModel SetsModel SetsOps SetsBridge SetsFs SetsParse
               SetsLaws SetsLink SetsC10 SetsEqual SetsReparse VKeyEq.
Open Scope N_scope.
Arguments N.eqb : simpl never.
Arguments N.leb : simpl never.

(* ---------------------------------------------------------------- 1. conjunction, however pre-releases were enabled *)
(* the effective setting of the call is true in exactly three ways: the argument; else the set's override; else a member's own default *)
Lemma enabled_iff S arg : truthy (eff_arg S arg) = true <->
  arg = Some true \/ (arg = None /\ ov S = Some true) \/ (arg = None /\ ov S = None /\ existsb m_pre (ms S) = true).
Proof.
  unfold eff_arg, set_pre. destruct arg as [[|]|]; cbn [truthy].
  - split; auto.
  - split; [discriminate|]. intros [H|[[H _]|[H _]]]; discriminate.
  - destruct (ov S) as [[|]|]; cbn [truthy].
    + split; auto.
    + split; [discriminate|]. intros [H|[[_ H]|[_ [H _]]]]; discriminate.
    + destruct (ms S) as [|m l]; cbn [truthy].
      * split; [discriminate|]. intros [H|[[_ H]|[_ [_ H]]]]; discriminate.
      * split; auto. intros [H|[[_ H]|[_ [_ H]]]]; try discriminate; auto.
Qed.
Theorem set_conjunction_enabled S arg item c : wf_set S -> Version item = Some c -> truthy (eff_arg S arg) = true ->
  set_contains S arg None item = Ans (forallb (fun m => accepts m item) (ms S)).
Proof.
  intros W V T. pose proof W as W0. unfold wf_set in W0. rewrite Forall_forall in W0.
  rewrite set_contains_split, V, set_contains_v_ans by eauto using Version_wf. f_equal.
  rewrite T. cbn [truthy]. unfold set_cont. rewrite SetModel.C05_conjunction.
  apply forallb_ext_in. intros m Hm. unfold accepts. rewrite (member_contains_true m item c); auto.
  destruct (mmatch m c); reflexivity.
Qed.
(* with installed=True the same holds for the base version of a pre-release candidate *)
Theorem set_conjunction_enabled_installed S arg item c : wf_set S -> Version item = Some c -> truthy (eff_arg S arg) = true ->
  set_contains S arg (Some true) item =
  Ans (forallb (fun m => accepts m (if is_prerelease c then base_str c else item)) (ms S)).
Proof.
  intros W V T. destruct (is_prerelease c) eqn:P.
  - assert (Wc := Version_wf _ _ V).
    assert (E : set_contains S arg (Some true) item = set_contains S arg None (base_str c)).
    { unfold set_contains. rewrite V, (Version_base c Wc). unfold set_contains_v. fold (eff_arg S arg). rewrite T, P, (Version_base c Wc).
      cbn [negb andb truthy]. reflexivity. }
    rewrite E. apply (set_conjunction_enabled S arg (base_str c) (base_of c)); auto. now apply Version_base.
  - assert (E : set_contains S arg (Some true) item = set_contains S arg None item).
    { unfold set_contains. rewrite V. unfold set_contains_v. rewrite P, !andb_false_r. reflexivity. }
    rewrite E. now apply (set_conjunction_enabled S arg item c).
Qed.

(* ---------------------------------------------------------------- 2. order / duplication / spacing: ANY argument *)
Lemma fs_mem_fs_of y l : fs_mem y (fs_of l) = fs_mem y l.
Proof. unfold fs_of. rewrite fs_mem_fs_union. reflexivity. Qed.
Lemma fs_mem_same_elements y l l' : (forall m, In m l <-> In m l') -> fs_mem y l = fs_mem y l'.
Proof.
  intros H. destruct (fs_mem y l) eqn:A, (fs_mem y l') eqn:B; auto.
  - apply fs_mem_iff in A as (x & Hx & Kx). assert (fs_mem y l' = true) by (apply fs_mem_iff; exists x; split; auto; now apply H). congruence.
  - apply fs_mem_iff in B as (x & Hx & Kx). assert (fs_mem y l = true) by (apply fs_mem_iff; exists x; split; auto; now apply H). congruence.
Qed.
(* the frozensets built from two lists with the same elements are == *)
Theorem fs_of_same_elements l l' : (forall m, In m l <-> In m l') -> fs_eqb (fs_of l) (fs_of l') = true.
Proof.
  intros H. apply fs_eqb_true; auto using fs_ok_of. intros y. rewrite !fs_mem_fs_of. now apply fs_mem_same_elements.
Qed.
Lemma same_clauses_same_members s s' l : map_opt Specifier (clauses s) = Some l -> (forall t, In t (clauses s) <-> In t (clauses s')) ->
  exists l', map_opt Specifier (clauses s') = Some l' /\ forall m, In m (map mk_member l) <-> In m (map mk_member l').
Proof.
  intros M H. destruct (map_opt Specifier (clauses s')) as [l'|] eqn:M'.
  - exists l'. split; auto. intros m. rewrite !in_map_iff. split; intros (sp & <- & Hsp); exists sp; split; auto.
    + destruct (map_opt_in _ _ _ M sp Hsp) as (t & Ht & Ft). apply (map_opt_in_rev _ _ _ M' t sp); auto. now apply H.
    + destruct (map_opt_in _ _ _ M' sp Hsp) as (t & Ht & Ft). apply (map_opt_in_rev _ _ _ M t sp); auto. now apply H.
  - exfalso. apply map_opt_none_iff in M' as (t & Ht & Ft). apply H in Ht.
    assert (X : map_opt Specifier (clauses s) = None) by (apply map_opt_none_iff; eauto). congruence.
Qed.
(* two texts with the same clauses up to order, duplication, spacing and stray commas, built with the same override:
   both parse, the sets are ==, and they answer alike for EVERY call argument (None included), installed flag and candidate;
   filter() and .prereleases agree too *)
Theorem text_order_dup_irrelevant_any_arg s s' p S :
  SpecifierSet s p = Some S -> (forall t, In t (clauses s) <-> In t (clauses s')) ->
  exists S', SpecifierSet s' p = Some S' /\ set_eqb S S' = true /\
    (forall arg inst item, set_contains S arg inst item = set_contains S' arg inst item) /\
    (forall arg texts, set_filter S arg texts = set_filter S' arg texts) /\ set_pre S = set_pre S'.
Proof.
  intros HS H. pose proof HS as HS0. unfold SpecifierSet in HS0. destruct (map_opt Specifier (clauses s)) as [l|] eqn:M; [|discriminate].
  destruct (same_clauses_same_members s s' l M H) as (l' & M' & EL).
  assert (HS' : SpecifierSet s' p = Some {| ms := fs_of (map mk_member l'); ov := p |}) by (unfold SpecifierSet; now rewrite M').
  eexists. split; [exact HS'|].
  assert (E : set_eqb S {| ms := fs_of (map mk_member l'); ov := p |} = true).
  { inversion HS0; subst S. unfold set_eqb. cbn [ms]. now apply fs_of_same_elements. }
  split; [exact E|]. exact (equal_text_sets_behave_alike s s' p _ _ HS HS' E).
Qed.

(* ---------------------------------------------------------------- 3. a & b on final releases, any argument *)
Lemma set_contains_final S arg arg' inst inst' item c : Version item = Some c -> is_prerelease c = false ->
  set_contains S arg inst item = set_contains S arg' inst' item.
Proof.
  intros V P. unfold set_contains, set_contains_v. rewrite V, P, !andb_false_r. now apply SetsFilter.all_members_final.
Qed.
(* a final release is matched by a & b exactly when both match it - whatever the argument (None included) on each of the three calls *)
Theorem and_is_both_final A B C arg1 arg2 arg3 inst item c : set_and A B = Some C -> wf_set A -> wf_set B -> respects (ms A ++ ms B) ->
  Version item = Some c -> is_prerelease c = false ->
  exists x y, set_contains A arg1 inst item = Ans x /\ set_contains B arg2 inst item = Ans y /\
              set_contains C arg3 inst item = Ans (x && y).
Proof.
  intros E WA WB R V P. destruct (and_is_both A B C true inst item c E WA WB R V) as (x & y & HA & HB & HC).
  exists x, y. rewrite (set_contains_final A arg1 (Some true) inst inst item c V P), (set_contains_final B arg2 (Some true) inst inst item c V P),
    (set_contains_final C arg3 (Some true) inst inst item c V P). auto.
Qed.
Theorem and_is_both_final_text a b pa pb A B C arg1 arg2 arg3 inst item c : SpecifierSet a pa = Some A -> SpecifierSet b pb = Some B ->
  set_and A B = Some C -> Version item = Some c -> is_prerelease c = false ->
  exists x y, set_contains A arg1 inst item = Ans x /\ set_contains B arg2 inst item = Ans y /\
              set_contains C arg3 inst item = Ans (x && y).
Proof.
  intros HA HB E V P. apply (and_is_both_final A B C arg1 arg2 arg3 inst item c E); eauto using SpecifierSet_wf.
  apply built_respects. apply Forall_app. split; eapply SpecifierSet_built; eauto.
Qed.
(* the restriction to final releases is needed when no argument is given: ">=1.0a1" & "<2" on 1.5a1.
   The left operand names a pre-release and accepts 1.5a1; the right one does not and rejects it; the intersection inherits the
   left operand's default and accepts it. *)
Definition and_prerelease_counterexample : bool :=
  match SpecifierSet [62;61;49;46;48;97;49] None, SpecifierSet [60;50] None with
  | Some A, Some B =>
      match set_and A B with
      | Some C =>
          match set_contains A None None [49;46;53;97;49], set_contains B None None [49;46;53;97;49], set_contains C None None [49;46;53;97;49] with
          | Ans true, Ans false, Ans true => true
          | _, _, _ => false
          end
      | None => false
      end
  | _, _ => false
  end.
Example and_is_both_refuted_for_prerelease_without_argument : and_prerelease_counterexample = true.
Proof. vm_compute. reflexivity. Qed.

(* ---------------------------------------------------------------- 4. a & "text" ; set == "text" *)
Theorem and_str_invalid_iff A t : set_and_str A t = AndInvalid <-> SpecifierSet t None = None.
Proof.
  unfold set_and_str. destruct (SpecifierSet t None) as [B|]; [|tauto]. destruct (set_and A B); split; discriminate.
Qed.
Theorem and_str_never_conflicts A t : set_and_str A t <> AndConflict.
Proof.
  unfold set_and_str. destruct (SpecifierSet t None) as [B|] eqn:E; [|discriminate].
  destruct (SpecifierSet_fs_ok t None B E) as (_ & O & _). unfold set_and. rewrite O. destruct (ov A) as [[|]|]; discriminate.
Qed.
(* a & "text" is a & SpecifierSet("text"); the override of a is kept *)
Theorem and_str_is_and A t B : SpecifierSet t None = Some B ->
  exists C, set_and_str A t = AndOk C /\ set_and A B = Some C /\ ov C = ov A /\ ms C = fs_union (ms A) (ms B).
Proof.
  intros E. unfold set_and_str. rewrite E. destruct (SpecifierSet_fs_ok t None B E) as (_ & O & _).
  unfold set_and. rewrite O. destruct (ov A) as [[|]|] eqn:OA; cbn [SetModel.merge]; eexists; (split; [reflexivity|]); (split; [reflexivity|]); cbn [ov ms]; auto.
Qed.
(* ... and it is literally the set parsed from the concatenated texts, under a's override *)
Theorem and_str_is_concat a pa A t : SpecifierSet a pa = Some A -> SpecifierSet t None <> None ->
  exists C, SpecifierSet (a ++ 44 :: t) pa = Some C /\ set_and_str A t = AndOk C.
Proof.
  intros HA HT. destruct (SpecifierSet t None) as [B|] eqn:HB; [|congruence].
  destruct (and_is_concat a t pa None A B HA HB) as (C & HC & OK & _).
  assert (M : SetModel.merge pa None = Some pa) by (destruct pa as [[|]|]; reflexivity).
  specialize (OK pa M). exists {| ms := ms C; ov := pa |}. split.
  - unfold SpecifierSet in *. destruct (map_opt Specifier (clauses (a ++ 44 :: t))); [|discriminate]. inversion HC; subst C. reflexivity.
  - unfold set_and_str. rewrite HB, OK. reflexivity.
Qed.
(* conversely an invalid text on the right makes & raise InvalidSpecifier whatever the left operand *)
Corollary and_str_invalid_text A t x : In x (clauses t) -> Specifier x = None -> set_and_str A t = AndInvalid.
Proof.
  intros Hx Fx. apply and_str_invalid_iff. unfold SpecifierSet.
  assert (X : map_opt Specifier (clauses t) = None) by (apply map_opt_none_iff; eauto). now rewrite X.
Qed.
(* set == "text" compares with the set parsed from the text (and raises InvalidSpecifier when the text does not parse);
   set == str(set) holds for every set built from a text *)
Theorem eq_str_is_eq A t B : SpecifierSet t None = Some B -> set_eq_str A t = Some (set_eqb A B).
Proof. intros E. unfold set_eq_str. now rewrite E. Qed.
Theorem eq_str_of_own_str s p S : SpecifierSet s p = Some S -> set_eq_str S (set_str S) = Some true.
Proof.
  intros H. destruct (str_reparse_text s p S None H) as (S' & E & Q & _). unfold set_eq_str. now rewrite E, Q.
Qed.
Theorem eq_str_of_own_text s p S : SpecifierSet s p = Some S -> set_eq_str S s = Some true.
Proof.
  intros H. unfold set_eq_str. unfold SpecifierSet in *. destruct (map_opt Specifier (clauses s)); [|discriminate].
  inversion H; subst S. f_equal. apply fs_eqb_refl.
Qed.

(* ---------------------------------------------------------------- 5. spacing inside a clause *)
(* every accepted clause text is its canonical string (operator immediately followed by the version text) with white space
   before the operator, between operator and version, and after the version; the canonical string parses to the same Specifier *)
Theorem Specifier_spacing s sp : Specifier s = Some sp ->
  exists wl wm wr, all_ws wl = true /\ all_ws wm = true /\ all_ws wr = true /\
    s = wl ++ op_txt (sp_op sp) ++ wm ++ sp_text sp ++ wr /\ Specifier (op_txt (sp_op sp) ++ sp_text sp) = Some sp.
Proof.
  intros H. pose proof (Specifier_str_roundtrip s sp H) as RT. unfold spec_str in RT.
  unfold Specifier in H. destruct (parse_specifier s) as [spx|] eqn:E; [|discriminate]. inversion H; subst sp. cbn [sp_op sp_text] in *.
  destruct (C12_spec_sound s spx E) as (R & W1 & W2 & W3 & _). exists (s_wl spx), (s_ws spx), (s_wr spx).
  unfold all_ws. repeat split; auto.
Qed.
(* hence two clause texts that differ only in that spacing are the same Specifier ... *)
Corollary Specifier_spacing_irrelevant s s' sp sp' : Specifier s = Some sp -> Specifier s' = Some sp' ->
  spec_str sp = spec_str sp' -> sp = sp'.
Proof.
  intros H H' E. pose proof (Specifier_str_roundtrip s sp H) as A. pose proof (Specifier_str_roundtrip s' sp' H') as B. rewrite E in A. congruence.
Qed.
(* ... and a set text may be rewritten clause by clause into the canonical spacing without changing the set that is built *)
Theorem set_clause_spacing_irrelevant s p S : SpecifierSet s p = Some S ->
  exists l, map_opt Specifier (clauses s) = Some l /\ SpecifierSet (join_with [44] (map spec_str l)) p = Some S.
Proof.
  intros H. pose proof H as H0. unfold SpecifierSet in H0. destruct (map_opt Specifier (clauses s)) as [l|] eqn:M; [|discriminate].
  exists l. split; auto. inversion H0; subst S. unfold SpecifierSet.
  assert (F : forall sp, In sp l -> Specifier (spec_str sp) = Some sp /\ py_strip (spec_str sp) = spec_str sp /\ nochar 44 (spec_str sp) = true).
  { intros sp Hsp. destruct (map_opt_in _ _ _ M sp Hsp) as (t & Ht & Ft).
    split; [eapply Specifier_str_roundtrip; eauto|]. split; [eapply Specifier_str_stripped; eauto|].
    apply (Specifier_nochar t _ Ft). now apply (clauses_nochar s). }
  rewrite clauses_join. 2:{ apply Forall_forall. intros x Hx. apply in_map_iff in Hx as (sp & <- & Hsp). apply (F sp Hsp). }
  rewrite (map_id_in py_strip). 2:{ intros x Hx. apply in_map_iff in Hx as (sp & <- & Hsp). apply (F sp Hsp). }
  rewrite filter_id. 2:{ intros x Hx. apply in_map_iff in Hx as (sp & <- & Hsp). destruct (F sp Hsp) as (E & _).
    destruct (spec_str sp); [rewrite Specifier_nil in E; discriminate|reflexivity]. }
  rewrite (map_opt_section Specifier spec_str l). 2:{ intros sp Hsp. apply (F sp Hsp). }
  reflexivity.
Qed.

(* ---------------------------------------------------------------- 6. what & preserves *)
(* the invariants under which == sets behave alike (SetsEqual: frozenset, constructor-built members, no member override) and the
   premises of C05_and_comm hold again for the RESULT of &, so the theorems apply to sets built by any nesting of & over text-built sets *)
Theorem and_invariants A B C : set_and A B = Some C ->
  (fs_ok (ms A) -> fs_ok (ms B) -> fs_ok (ms C)) /\ (wf_set A -> wf_set B -> wf_set C) /\
  (all_built A -> all_built B -> all_built C) /\ (plain A -> plain B -> plain C).
Proof.
  intros E. assert (M : ms C = fs_union (ms A) (ms B)) by (unfold set_and in E; destruct (SetModel.merge (ov A) (ov B)); inversion E; reflexivity).
  split; [|split; [|split]].
  - intros OA _. rewrite M. now apply fs_ok_union.
  - now apply wf_set_and.
  - unfold all_built. rewrite M, !Forall_forall. intros HA HB m Hm. apply in_fs_union in Hm as [Hm|Hm]; auto.
  - unfold plain. rewrite M, !Forall_forall. intros HA HB m Hm. apply in_fs_union in Hm as [Hm|Hm]; auto.
Qed.

(* non-vacuity *)
Definition c05more_check : bool :=
  match SpecifierSet [62;61;32;49;46;48;44;60;50] (Some true), SpecifierSet [60;32;50;32;44;44;62;61;49;46;48;44;60;50] (Some true) with
  | Some A, Some B =>
      set_eqb A B && (match set_contains A None None [49;46;53;97;49] with Ans true => true | _ => false end)
      && (match set_and_str A [61;61;49;46;53] with AndOk C => Nat.eqb (length (ms C)) 3 | _ => false end)
      && (match set_and_str A [102;111;111] with AndInvalid => true | _ => false end)
      && (match set_eq_str A [60;50;44;62;61;49;46;48] with Some true => true | _ => false end)
  | _, _ => false
  end.
Example c05more_nonvacuous : c05more_check = true.
Proof. vm_compute. reflexivity. Qed.

Print Assumptions set_conjunction_enabled.
Print Assumptions text_order_dup_irrelevant_any_arg.
Print Assumptions and_is_both_final_text.
Print Assumptions and_str_is_concat.
Print Assumptions and_invariants.
Print Assumptions set_clause_spacing_irrelevant.
