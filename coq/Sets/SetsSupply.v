(* Independence from the order in which the clauses / Specifier objects were SUPPLIED (C05 str clause, C20 determinism clause).
   The member list of a set is fs_of (supplied list): the first occurrence of every class of == specifiers, so the supplied order can
   show through (a) the representative spelling (D33) and (b) the representative's own pre-release override.  Both are excluded by
   a premise on the supplied list:
     literal l   - == members of l carry the same _spec (no two spellings of one clause): str() is then independent of the order;
     coherent l  - == members of l carry the same override: prereleases / contains / filter are then independent of the order
                   (for constructor-built members; what they match is independent of the spelling by C10).
   Also: str() is the comma-joined SORTED list of the member strings. *)
From Coq Require Import List Arith NArith Bool Lia Permutation Sorted.
Import ListNotations.
Require SpecEqual SetsFilter.
Require Import S1 VParse Py VMeaning Order Canon VCmp SpecModel SpecParse SpecContains SpecSem SpecLink SortPerm SetModel SetsModel SetsBridge SetsFs SetsParse
               SetsLaws SetsLink SetsC10 SetsEqual SetsC05More VKeyEq.
Open Scope N_scope.
Arguments N.eqb : simpl never.
Arguments N.leb : simpl never.

(* ---------------------------------------------------------------- sorted() really sorts *)
Section SortMore.
Context {A : Type} (cmp : A -> A -> comparison).
Hypothesis cmp_sym : forall a b, cmp b a = CompOpp (cmp a b).
Definition cle (a b : A) : Prop := cmp a b <> Gt.
Lemma leb_cle a b : SortPerm.leb cmp a b = true <-> cle a b.
Proof. unfold SortPerm.leb, cle. destruct (cmp a b); split; intros; try discriminate; auto; congruence. Qed.
Lemma leb_false_cle a b : SortPerm.leb cmp a b = false -> cle b a.
Proof. unfold SortPerm.leb, cle. rewrite (cmp_sym a b). destruct (cmp a b); cbn; intros; discriminate. Qed.
Lemma insert_hdrel y x l : cle y x -> HdRel cle y l -> HdRel cle y (insert cmp x l).
Proof.
  intros Hx H. destruct l as [|z l]; cbn [insert]; [constructor; auto|].
  destruct (SortPerm.leb cmp x z); constructor; auto. now inversion H.
Qed.
Lemma insert_sorted x l : Sorted cle l -> Sorted cle (insert cmp x l).
Proof.
  induction 1 as [|y l S IH H]; cbn [insert]; [repeat constructor|].
  destruct (SortPerm.leb cmp x y) eqn:E.
  - constructor; [constructor; auto|]. constructor. now apply leb_cle.
  - constructor; auto. apply insert_hdrel; auto. now apply leb_false_cle.
Qed.
Theorem isort_sorted l : Sorted cle (isort cmp l).
Proof. induction l as [|x l IH]; cbn [isort]; [constructor|]. now apply insert_sorted. Qed.
End SortMore.

(* str(S) is the comma-joined list of the member strings, each exactly once, in non-decreasing code-point order *)
Theorem set_str_sorted S : exists strs, set_str S = join_with [44] strs /\
  Permutation strs (map (fun m => spec_str (m_sp m)) (ms S)) /\ Sorted (cle str_cmp) strs.
Proof.
  exists (isort str_cmp (map (fun m => spec_str (m_sp m)) (ms S))). split; [reflexivity|]. split.
  - apply Permutation_sym, isort_perm.
  - apply isort_sorted. exact (ok_sym _ str_cmp_ok).
Qed.

(* ---------------------------------------------------------------- str() and the supplied order *)
Lemma mkey_of_sp x y : m_sp x = m_sp y -> mkey x = mkey y.
Proof. unfold mkey. now intros ->. Qed.
Lemma NoDup_map_sp l : fs_ok l -> NoDup (map m_sp l).
Proof. unfold fs_ok, mkey. rewrite <- (map_map m_sp canonical_spec). apply NoDup_map_inv. Qed.
Lemma fs_of_sp_elements l : literal l -> forall sp, In sp (map m_sp (fs_of l)) <-> In sp (map m_sp l).
Proof.
  intros L sp. rewrite !in_map_iff. split; intros (x & <- & Hx).
  - exists x. split; auto. now apply in_fs_of.
  - assert (M : fs_mem x (fs_of l) = true).
    { rewrite fs_mem_fs_of. apply fs_mem_iff. eauto. }
    apply fs_mem_iff in M as (z & Hz & Kz). exists z. split; auto.
    apply L; auto using in_fs_of. now apply m_eqb_eq.
Qed.
(* the general form: the two supplied lists hold the same specifiers (their overrides and multiplicities may differ) *)
Theorem set_str_supply_elements l l' p p' : (forall sp, In sp (map m_sp l) <-> In sp (map m_sp l')) -> literal l -> literal l' ->
  set_str (SpecifierSet_of l p) = set_str (SpecifierSet_of l' p').
Proof.
  intros H L L'. unfold set_str. cbn [SpecifierSet_of ms]. f_equal.
  apply (isort_perm_invariant str_cmp (ok_refl _ str_cmp_ok) str_cmp_eq (ok_sym _ str_cmp_ok) str_cmp_trans_lt).
  rewrite <- !(map_map m_sp spec_str). apply Permutation_map.
  apply NoDup_Permutation; auto using NoDup_map_sp, fs_ok_of.
  intros sp. rewrite (fs_of_sp_elements l L), (fs_of_sp_elements l' L'). apply H.
Qed.
Lemma literal_perm l l' : Permutation l l' -> literal l -> literal l'.
Proof.
  intros P L x y Hx Hy. apply L; apply (Permutation_in _ (Permutation_sym P)); assumption.
Qed.
(* THE C20 FORM: permuting the supplied clause list does not change str(), for lists without two spellings of one clause *)
Theorem set_str_supply_order l l' p : Permutation l l' -> literal l ->
  set_str (SpecifierSet_of l p) = set_str (SpecifierSet_of l' p).
Proof.
  intros P L. apply set_str_supply_elements; auto; [|eapply literal_perm; eauto].
  intros sp. split; apply Permutation_in; [|apply Permutation_sym]; now apply Permutation_map.
Qed.
(* the same for same elements up to duplication, and on texts *)
Theorem set_str_supply_dup l l' p p' : (forall m, In m l <-> In m l') -> literal l ->
  set_str (SpecifierSet_of l p) = set_str (SpecifierSet_of l' p').
Proof.
  intros H L. apply set_str_supply_elements; auto.
  - intros sp. rewrite !in_map_iff. split; intros (x & <- & Hx); exists x; split; auto; now apply H.
  - intros x y Hx Hy. apply L; now apply H.
Qed.
Theorem set_str_text_supply_order s s' p p' S l : SpecifierSet s p = Some S -> map_opt Specifier (clauses s) = Some l ->
  literal (map mk_member l) -> (forall t, In t (clauses s) <-> In t (clauses s')) ->
  exists S', SpecifierSet s' p' = Some S' /\ set_str S = set_str S'.
Proof.
  intros HS M L H. destruct (same_clauses_same_members s s' l M H) as (l' & M' & EL).
  unfold SpecifierSet in *. rewrite M in HS. rewrite M'. inversion HS; subst S. eexists. split; [reflexivity|].
  exact (set_str_supply_dup (map mk_member l) (map mk_member l') p p' EL L).
Qed.
(* the premise `literal` is needed: D33 (known finding, filed under C20) *)
Definition d33_check : bool :=
  match SpecifierSet [61;61;49;46;48;44;61;61;49;46;48;46;48] None, SpecifierSet [61;61;49;46;48;46;48;44;61;61;49;46;48] None with
  | Some A, Some B => set_eqb A B && negb (VMeaning.str_eqb (set_str A) (set_str B))
  | _, _ => false
  end.
Example set_str_supply_order_refuted_D33 : d33_check = true.
Proof. vm_compute. reflexivity. Qed.

(* ---------------------------------------------------------------- prereleases / contains / filter and the supplied order *)
Definition coherent (l : list member) : Prop := forall x y, In x l -> In y l -> m_eqb x y = true -> m_ov x = m_ov y.
Lemma plain_coherent l : Forall (fun m => m_ov m = None) l -> coherent l.
Proof. intros P x y Hx Hy _. rewrite Forall_forall in P. now rewrite (P x Hx), (P y Hy). Qed.

(* == sets whose == members carry the same override behave alike (generalises SetsEqual, where no member has an override) *)
Section EqualCoherent.
Variables A B : sset.
Hypothesis E : set_eqb A B = true.
Hypothesis OA : fs_ok (ms A).
Hypothesis OB : fs_ok (ms B).
Hypothesis OV : ov A = ov B.
Hypothesis BA : all_built A.
Hypothesis BB : all_built B.
Hypothesis CO : coherent (ms A ++ ms B).

Lemma E'_co : set_eqb B A = true.
Proof. exact (set_eqb_sym A B OA OB E). Qed.
Lemma WA_co : wf_set A.
Proof. exact (built_wf _ BA). Qed.
Lemma WB_co : wf_set B.
Proof. exact (built_wf _ BB). Qed.
Lemma R_co : respects (ms A ++ ms B).
Proof. apply built_respects. apply Forall_app. split; assumption. Qed.
Lemma same_length_co : length (ms A) = length (ms B).
Proof. pose proof E as E0. unfold set_eqb, fs_eqb in E0. apply andb_prop in E0 as [L _]. now apply Nat.eqb_eq in L. Qed.
Lemma forallb_equal_co (P : member -> bool) :
  (forall x y, In x (ms A ++ ms B) -> In y (ms A ++ ms B) -> m_eqb x y = true -> P x = P y) ->
  forallb P (ms A) = forallb P (ms B).
Proof.
  intros RP. apply bool_both; apply forallb_partner; intros x Hx.
  - destruct (partner _ _ E'_co x Hx) as (y & Hy & Q). exists y. split; auto. apply RP; auto; rewrite in_app_iff; auto.
  - destruct (partner _ _ E x Hx) as (y & Hy & Q). exists y. split; auto. apply RP; auto; rewrite in_app_iff; auto.
Qed.
Lemma m_pre_equal_co x y : In x (ms A ++ ms B) -> In y (ms A ++ ms B) -> m_eqb x y = true -> m_pre x = m_pre y.
Proof.
  intros Hx Hy Q. assert (Bl : Forall built (ms A ++ ms B)) by (apply Forall_app; split; assumption).
  rewrite Forall_forall in Bl. unfold m_pre. rewrite (CO x y Hx Hy Q). destruct (m_ov y); cbn [effective_pre]; auto.
  destruct (Bl x Hx) as (tx & Tx), (Bl y Hy) as (ty & Ty). apply (auto_pre_equal_keys tx ty); auto. now apply m_eqb_eq in Q.
Qed.
Theorem coherent_sets_same_prereleases : set_pre A = set_pre B.
Proof.
  apply set_pre_eq; auto using same_length_co.
  apply bool_both; apply existsb_partner; intros x Hx.
  - destruct (partner _ _ E x Hx) as (y & Hy & Q). exists y. split; auto. apply m_pre_equal_co; auto; rewrite in_app_iff; auto.
  - destruct (partner _ _ E'_co x Hx) as (y & Hy & Q). exists y. split; auto. apply m_pre_equal_co; auto; rewrite in_app_iff; auto.
Qed.
Theorem coherent_sets_same_contains_v arg inst c : VMeaning.wf_version c -> set_contains_v A arg inst c = set_contains_v B arg inst c.
Proof.
  intros Wc. rewrite !set_contains_v_ans by (auto using WA_co, WB_co). f_equal. unfold eff_arg. rewrite coherent_sets_same_prereleases.
  apply set_cont_members; auto. intros p c' Wc'. apply forallb_equal_co. apply s_cont_respects; auto using R_co.
Qed.
Theorem coherent_sets_same_contains arg inst item : set_contains A arg inst item = set_contains B arg inst item.
Proof.
  rewrite !set_contains_split. destruct (Version item) as [c|] eqn:V; auto. apply coherent_sets_same_contains_v. eapply Version_wf; eauto.
Qed.
Lemma coherent_sets_same_filter_v arg xs : SetsFilter.wf_items xs -> set_filter_v A arg xs = set_filter_v B arg xs.
Proof.
  intros WI. pose proof same_length_co as L. destruct (nil_or_not (ms A)) as [EA|NA].
  - assert (EB : ms B = []) by (rewrite EA in L; destruct (ms B); [auto|discriminate]).
    unfold set_filter_v. now rewrite EA, EB, coherent_sets_same_prereleases.
  - assert (NB : ms B <> []) by (intros EB; rewrite EB in L; destruct (ms A); [congruence|discriminate]).
    rewrite (SetsFilter.set_filter_exact A arg xs) by (auto using WA_co). rewrite (SetsFilter.set_filter_exact B arg xs) by (auto using WB_co).
    f_equal. unfold SetsFilter.wf_items in WI. rewrite Forall_forall in WI. apply SetsFilter.filter_ext_in'. intros x Hx.
    now rewrite coherent_sets_same_contains_v by auto.
Qed.
Theorem coherent_sets_same_filter arg texts : set_filter A arg texts = set_filter B arg texts.
Proof.
  unfold set_filter, lift_filter. destruct (coerce_from 0 texts) as [xs|] eqn:C; auto.
  destruct (SetsFilter.coerce_spec _ _ _ C) as (WI & _). now rewrite coherent_sets_same_filter_v.
Qed.
End EqualCoherent.

Lemma coherent_sub l l' : (forall m, In m l' -> In m l) -> coherent l -> coherent l'.
Proof. intros H C x y Hx Hy. apply C; auto. Qed.
(* THE C20 COMPANION: sets built from Specifier objects supplied in two orders (or with other multiplicities) have the same
   .prereleases, contains() for every argument / installed flag / candidate, and filter() - provided == members carry the same override *)
Theorem supply_order_behaviour l l' p : (forall m, In m l <-> In m l') -> Forall built l -> coherent l ->
  set_pre (SpecifierSet_of l p) = set_pre (SpecifierSet_of l' p) /\
  (forall arg inst item, set_contains (SpecifierSet_of l p) arg inst item = set_contains (SpecifierSet_of l' p) arg inst item) /\
  (forall arg texts, set_filter (SpecifierSet_of l p) arg texts = set_filter (SpecifierSet_of l' p) arg texts).
Proof.
  intros H Bl C.
  assert (E : set_eqb (SpecifierSet_of l p) (SpecifierSet_of l' p) = true) by (unfold set_eqb; cbn [SpecifierSet_of ms]; now apply fs_of_same_elements).
  assert (B1 : all_built (SpecifierSet_of l p)).
  { unfold all_built. cbn [SpecifierSet_of ms]. rewrite Forall_forall in *. intros m Hm. apply Bl. now apply in_fs_of. }
  assert (B2 : all_built (SpecifierSet_of l' p)).
  { unfold all_built. cbn [SpecifierSet_of ms]. rewrite Forall_forall in *. intros m Hm. apply Bl. apply H. now apply in_fs_of. }
  assert (CO : coherent (ms (SpecifierSet_of l p) ++ ms (SpecifierSet_of l' p))).
  { apply (coherent_sub l); auto. cbn [SpecifierSet_of ms]. intros m Hm. apply in_app_iff in Hm as [Hm|Hm]; [|apply H]; now apply in_fs_of. }
  assert (O1 : fs_ok (ms (SpecifierSet_of l p))) by apply fs_ok_of.
  assert (O2 : fs_ok (ms (SpecifierSet_of l' p))) by apply fs_ok_of.
  split; [|split]; intros;
    [apply coherent_sets_same_prereleases | apply coherent_sets_same_contains | apply coherent_sets_same_filter]; auto.
Qed.
Corollary supply_order_behaviour_perm l l' p : Permutation l l' -> Forall built l -> coherent l ->
  set_pre (SpecifierSet_of l p) = set_pre (SpecifierSet_of l' p) /\
  (forall arg inst item, set_contains (SpecifierSet_of l p) arg inst item = set_contains (SpecifierSet_of l' p) arg inst item) /\
  (forall arg texts, set_filter (SpecifierSet_of l p) arg texts = set_filter (SpecifierSet_of l' p) arg texts).
Proof.
  intros P. apply supply_order_behaviour. intros m. split; apply Permutation_in; [|apply Permutation_sym]; assumption.
Qed.
(* a & b and b & a behave alike (not only ==) under the same premise on the members of both operands *)
Theorem and_comm_behaviour A B C C' : set_and A B = Some C -> set_and B A = Some C' -> fs_ok (ms A) -> fs_ok (ms B) ->
  all_built A -> all_built B -> coherent (ms A ++ ms B) ->
  set_pre C = set_pre C' /\ (forall arg inst item, set_contains C arg inst item = set_contains C' arg inst item) /\
  (forall arg texts, set_filter C arg texts = set_filter C' arg texts).
Proof.
  intros HC HC' OA OB BA BB CO. pose proof (and_comm A B OA OB) as X. rewrite HC, HC' in X. destruct X as [OV E].
  assert (MC : ms C = fs_union (ms A) (ms B)) by (unfold set_and in HC; destruct (SetModel.merge (ov A) (ov B)); inversion HC; reflexivity).
  assert (MC' : ms C' = fs_union (ms B) (ms A)) by (unfold set_and in HC'; destruct (SetModel.merge (ov B) (ov A)); inversion HC'; reflexivity).
  assert (IN : forall m, In m (ms C ++ ms C') -> In m (ms A ++ ms B)).
  { intros m Hm. rewrite MC, MC' in Hm. rewrite in_app_iff in *. destruct Hm as [Hm|Hm]; apply in_fs_union in Hm; tauto. }
  assert (BC : all_built C).
  { unfold all_built in *. rewrite Forall_forall in *. intros m Hm. assert (X : In m (ms A ++ ms B)) by (apply IN; rewrite in_app_iff; auto).
    apply in_app_iff in X as [X|X]; auto. }
  assert (BC' : all_built C').
  { unfold all_built in *. rewrite Forall_forall in *. intros m Hm. assert (X : In m (ms A ++ ms B)) by (apply IN; rewrite in_app_iff; auto).
    apply in_app_iff in X as [X|X]; auto. }
  assert (OC : fs_ok (ms C)) by (rewrite MC; now apply fs_ok_union).
  assert (OC' : fs_ok (ms C')) by (rewrite MC'; now apply fs_ok_union).
  assert (CC : coherent (ms C ++ ms C')) by (apply (coherent_sub (ms A ++ ms B)); auto).
  split; [|split]; intros;
    [apply coherent_sets_same_prereleases | apply coherent_sets_same_contains | apply coherent_sets_same_filter]; auto.
Qed.
(* the premise `coherent` is needed: Specifier(">=1", prereleases=True) and Specifier(">=1.0") are ==, and whichever is supplied first
   decides .prereleases and whether 2.0a1 is matched *)
Definition supply_order_check : bool :=
  let a := {| m_sp := {| sp_op := OGe; sp_text := [49] |}; m_ov := Some true |} in
  let b := {| m_sp := {| sp_op := OGe; sp_text := [49;46;48] |}; m_ov := None |} in
  m_eqb a b &&
  match set_pre (SpecifierSet_of [a; b] None), set_pre (SpecifierSet_of [b; a] None),
        set_contains (SpecifierSet_of [a; b] None) None None [50;46;48;97;49], set_contains (SpecifierSet_of [b; a] None) None None [50;46;48;97;49] with
  | Some true, Some false, Ans true, Ans false => true
  | _, _, _, _ => false
  end.
Example supply_order_refuted_without_coherent : supply_order_check = true.
Proof. vm_compute. reflexivity. Qed.

(* ... and it is satisfiable with overrides that are not None: [>=1 (True); >=1.0 (True); <3 (False)] is coherent, and both supply orders
   give the same .prereleases and the same answer on 2.0a1 *)
Definition coherent_check : bool :=
  let a := {| m_sp := {| sp_op := OGe; sp_text := [49] |}; m_ov := Some true |} in
  let b := {| m_sp := {| sp_op := OGe; sp_text := [49;46;48] |}; m_ov := Some true |} in
  let c := {| m_sp := {| sp_op := OLt; sp_text := [51] |}; m_ov := Some false |} in
  m_eqb a b && negb (m_eqb a c) &&
  match set_pre (SpecifierSet_of [a; b; c] None), set_pre (SpecifierSet_of [c; b; a] None),
        set_contains (SpecifierSet_of [a; b; c] None) None None [50;46;48;97;49], set_contains (SpecifierSet_of [c; b; a] None) None None [50;46;48;97;49] with
  | Some true, Some true, Ans true, Ans true => true
  | _, _, _, _ => false
  end.
Example coherent_nonvacuous : coherent_check = true.
Proof. vm_compute. reflexivity. Qed.
Example coherent_instance :
  coherent [{| m_sp := {| sp_op := OGe; sp_text := [49] |}; m_ov := Some true |}; {| m_sp := {| sp_op := OGe; sp_text := [49;46;48] |}; m_ov := Some true |};
            {| m_sp := {| sp_op := OLt; sp_text := [51] |}; m_ov := Some false |}].
Proof.
  intros x y [<-|[<-|[<-|[]]]] [<-|[<-|[<-|[]]]]; cbn [m_ov]; intros E; auto; vm_compute in E; discriminate.
Qed.

Print Assumptions set_str_sorted.
Print Assumptions set_str_supply_order.
Print Assumptions supply_order_behaviour.
Print Assumptions and_comm_behaviour.
