(* str(Specifier) parses back to the same Specifier: Specifier(op ++ text) = (op, text) for everything the constructor accepted,
   the string is stripped, and (outside '===' texts with a comma, D19) comma-free.  Discharges `reparses` of C05_str_reparse. *)
From Coq Require Import List Arith NArith Bool Lia.
Import ListNotations.
Require Import S1 VParse VComplete VTop VTop2 VDec Py VMeaning VCanon VAscii SpecModel SpecParse SpecSound SpecCut SpecLink Prefix SpecContains.
Require Import SetsModel SetsParse SetsLaws.
Open Scope N_scope.
Arguments N.eqb : simpl never.
Arguments N.leb : simpl never.

(* ---- characters of the grammar are not whitespace ---- *)
Definition notws (c : char) : bool := negb (is_ws c).
Lemma range_not_ws c : 33 <= c -> c <= 126 -> is_ws c = false.
Proof. intros A B. unfold is_ws, ws_table. cbn [existsb]. neqb. reflexivity. Qed.
Lemma notws_digit c : is_digit c = true -> notws c = true.
Proof. intros H. unfold notws. now rewrite digit_not_ws. Qed.
Lemma notws_sep c : is_sep c = true -> notws c = true.
Proof.
  unfold is_sep, notws. intros H. rewrite range_not_ws; auto;
  (apply orb_prop in H as [H|H]; [apply orb_prop in H as [H|H]|]; apply N.eqb_eq in H; lia).
Qed.
Lemma notws_letter c : is_lower (lc c) = true -> notws c = true.
Proof.
  unfold notws, lc, is_lower. intros H. rewrite range_not_ws; auto.
  - destruct ((65 <=? c) && (c <=? 90)) eqn:U.
    + apply andb_prop in U as [A B]. apply N.leb_le in A. lia.
    + apply andb_prop in H as [A B]. apply N.leb_le in A. lia.
  - destruct ((65 <=? c) && (c <=? 90)) eqn:U.
    + apply andb_prop in U as [A B]. apply N.leb_le in B. lia.
    + apply andb_prop in H as [A B]. apply N.leb_le in B. lia.
Qed.
Lemma pub_loc_notws q lo : wf_pub q -> match lo with Some l => wf_loc l = true | None => True end ->
  forallb notws (r_pub q ++ r_opt r_loc lo) = true.
Proof.
  intros W L. rewrite <- core_sp_of. apply (core_P notws notws_digit notws_sep notws_letter); try reflexivity. now apply wf_sp_of.
Qed.
Lemma forallb_impl' {A} (p q : A -> bool) l : (forall x, p x = true -> q x = true) -> forallb p l = true -> forallb q l = true.
Proof. intros H. rewrite !forallb_forall. auto. Qed.
Lemma body_notws o b : wf_body o b -> forallb notws (r_body b) = true.
Proof.
  intros W. destruct b as [t|v e r0 rs|q lo]; cbn [r_body].
  - destruct o; cbn [wf_body] in W; try contradiction. revert W. apply forallb_impl'. intros c H. unfold arb_char in H.
    apply andb_prop in H as [H _]. apply andb_prop in H as [H _]. exact H.
  - assert (X : (match v with Some c => lc c = 118 | None => True end) /\ (match e with Some x => wf_digits x = true | None => True end) /\
                wf_digits r0 = true /\ forallb wf_digits rs = true) by (destruct o; cbn [wf_body] in W; try contradiction; exact W).
    destruct X as (A & B & C & D).
    set (q := {| q_v := v; q_ep := e; q_rel0 := r0; q_rels := rs; q_pre := None; q_post := None; q_dev := None |}).
    assert (Wq : wf_pub q) by (unfold wf_pub, q; cbn; repeat split; auto).
    pose proof (pub_loc_notws q None Wq I) as N. cbn [r_opt] in N. rewrite app_nil_r in N. rewrite (r_pub_plain q eq_refl) in N. cbn [q q_v q_ep q_rel0 q_rels] in N.
    rewrite !app_assoc. rewrite forallb_app. rewrite <- !app_assoc, N. reflexivity.
  - assert (X : wf_pub q /\ match lo with Some l => wf_loc l = true | None => True end).
    { destruct o, lo; cbn [wf_body] in W; try contradiction; try (destruct W; split; auto; fail); split; auto. }
    destruct X. now apply pub_loc_notws.
Qed.
Lemma op_notws o : forallb notws (op_txt o) = true.
Proof. destruct o; reflexivity. Qed.
Lemma dropws_notws s : forallb notws s = true -> dropws s = s.
Proof. destruct s as [|c s]; cbn [forallb dropws]; auto. intros H. apply andb_prop in H as [H _]. unfold notws in H. apply negb_true_iff in H. now rewrite H. Qed.
Lemma py_strip_notws s : forallb notws s = true -> py_strip s = s.
Proof.
  intros H. unfold py_strip. rewrite (dropws_notws s H). rewrite dropws_notws; [apply rev_involutive|].
  rewrite forallb_forall in *. intros x Hx. apply H. now apply in_rev.
Qed.

(* ---- the scanner of the version part does not depend on the trailing whitespace it leaves ---- *)
Lemma hd2_ws c0 p x w : c0 = 46 -> (forall c, is_ws c = true -> p c = false) -> all_ws w = true ->
  hd2_is c0 p (x ++ w) = hd2_is c0 p x.
Proof.
  intros -> Hp Hw. destruct x as [|a [|b x]]; cbn [app hd2_is hd_is].
  - destruct w as [|c w]; auto. cbn [hd2_is]. cbn [all_ws forallb] in Hw. apply andb_prop in Hw as [Hc _].
    destruct (c =? 46) eqn:E; auto. apply N.eqb_eq in E. subst. discriminate Hc.
  - destruct w as [|c w]; auto. cbn [hd_is]. cbn [all_ws forallb] in Hw. apply andb_prop in Hw as [Hc _]. now rewrite (Hp c Hc), andb_false_r.
  - reflexivity.
Qed.
Lemma star_not_ws c : is_ws c = true -> (42 =? c) = false.
Proof. destruct (42 =? c) eqn:E; auto. apply N.eqb_eq in E. subst. discriminate. Qed.

Lemma p_body_strip o u w b : all_ws w = true -> p_body o (u ++ w) = Some (b, w) -> p_body o u = Some (b, []).
Proof.
  intros Hw. unfold p_body. destruct o.
  - (* ~= *) destruct (p_pub (u ++ w)) as [[q r]|] eqn:P; [|discriminate]. destruct (q_rels q) eqn:R; [discriminate|]. intros [= <- ->].
    destruct (p_pub_cut u w q w P (le_n _)) as (x & Ex & ->). apply app_self_nil in Ex. subst x. now rewrite R.
  - (* == *) destruct (p_pub (u ++ w)) as [[q r]|] eqn:P; [|discriminate].
    destruct (is_plain q && hd2_is 46 (N.eqb 42) r) eqn:Wd.
    + intros [= <- E]. apply andb_prop in Wd as [Pl Hd]. apply hd2_is_true in Hd as (d & t & -> & Hd). apply N.eqb_eq in Hd. subst d. cbn [tl] in E. subst t.
      destruct (p_pub_cut u w q (46 :: 42 :: w) P ltac:(cbn; lia)) as (x & Ex & ->).
      change (46 :: 42 :: w) with ([46; 42] ++ w) in Ex. apply app_inv_tail in Ex. subst x. rewrite Pl. reflexivity.
    + destruct (p_opt p_loc r) as [lo r'] eqn:Lc. intros [= <- ->].
      pose proof (p_opt_shrink _ p_loc_shrink _ _ _ Lc) as L.
      destruct (p_pub_cut u w q r P L) as (x & -> & ->).
      rewrite (hd2_ws 46 (N.eqb 42) x w eq_refl star_not_ws Hw) in Wd. rewrite Wd.
      destruct (p_opt_cut _ p_loc_cut x w lo w Lc (le_n _)) as (y & Ey & ->). apply app_self_nil in Ey. now subst y.
  - (* != *) destruct (p_pub (u ++ w)) as [[q r]|] eqn:P; [|discriminate].
    destruct (is_plain q && hd2_is 46 (N.eqb 42) r) eqn:Wd.
    + intros [= <- E]. apply andb_prop in Wd as [Pl Hd]. apply hd2_is_true in Hd as (d & t & -> & Hd). apply N.eqb_eq in Hd. subst d. cbn [tl] in E. subst t.
      destruct (p_pub_cut u w q (46 :: 42 :: w) P ltac:(cbn; lia)) as (x & Ex & ->).
      change (46 :: 42 :: w) with ([46; 42] ++ w) in Ex. apply app_inv_tail in Ex. subst x. rewrite Pl. reflexivity.
    + destruct (p_opt p_loc r) as [lo r'] eqn:Lc. intros [= <- ->].
      pose proof (p_opt_shrink _ p_loc_shrink _ _ _ Lc) as L.
      destruct (p_pub_cut u w q r P L) as (x & -> & ->).
      rewrite (hd2_ws 46 (N.eqb 42) x w eq_refl star_not_ws Hw) in Wd. rewrite Wd.
      destruct (p_opt_cut _ p_loc_cut x w lo w Lc (le_n _)) as (y & Ey & ->). apply app_self_nil in Ey. now subst y.
  - destruct (p_pub (u ++ w)) as [[q r]|] eqn:P; [|discriminate]. intros [= <- ->].
    destruct (p_pub_cut u w q w P (le_n _)) as (x & Ex & ->). apply app_self_nil in Ex. now subst x.
  - destruct (p_pub (u ++ w)) as [[q r]|] eqn:P; [|discriminate]. intros [= <- ->].
    destruct (p_pub_cut u w q w P (le_n _)) as (x & Ex & ->). apply app_self_nil in Ex. now subst x.
  - destruct (p_pub (u ++ w)) as [[q r]|] eqn:P; [|discriminate]. intros [= <- ->].
    destruct (p_pub_cut u w q w P (le_n _)) as (x & Ex & ->). apply app_self_nil in Ex. now subst x.
  - destruct (p_pub (u ++ w)) as [[q r]|] eqn:P; [|discriminate]. intros [= <- ->].
    destruct (p_pub_cut u w q w P (le_n _)) as (x & Ex & ->). apply app_self_nil in Ex. now subst x.
  - (* === *) destruct (span arb_char (u ++ w)) as [t r] eqn:E. intros [= <- ->].
    destruct (span_cut arb_char u w t w E (le_n _)) as (x & Ex & ->). apply app_self_nil in Ex. now subst x.
Qed.

(* ---- the operator alternation ---- *)
Lemma try_ops_inv ops wl s0 spx : try_ops ops wl s0 = Some spx ->
  exists s1 s2, SpecParse.starts (op_txt (s_op spx)) s0 = Some s1 /\ span is_ws s1 = (s_ws spx, s2) /\
                p_body (s_op spx) s2 = Some (s_body spx, s_wr spx) /\ SpecParse.all_ws (s_wr spx) = true.
Proof.
  induction ops as [|o ops IH]; cbn [try_ops]; [discriminate|].
  destruct (SpecParse.starts (op_txt o) s0) as [s1|] eqn:E1; [|exact IH].
  destruct (span is_ws s1) as [ws s2] eqn:E2. destruct (p_body o s2) as [[b r]|] eqn:E3; [|exact IH].
  destruct (SpecParse.all_ws r) eqn:E4; [|exact IH]. intros [= <-]. cbn [s_op s_ws s_body s_wr]. exists s1, s2. auto.
Qed.
Lemma starts_self w r : SpecParse.starts w (w ++ r) = Some r.
Proof. induction w as [|p w IH]; cbn [app SpecParse.starts]; auto. now rewrite N.eqb_refl. Qed.
Lemma try_skip o' rest wl s : SpecParse.starts (op_txt o') s = None -> try_ops (o' :: rest) wl s = try_ops rest wl s.
Proof. cbn [try_ops]. now intros ->. Qed.
Lemma try_hit o rest body b : span is_ws body = ([], body) -> p_body o body = Some (b, []) ->
  try_ops (o :: rest) [] (op_txt o ++ body) = Some {| s_wl := []; s_op := o; s_ws := []; s_body := b; s_wr := [] |}.
Proof. intros A B. cbn [try_ops]. now rewrite starts_self, A, B. Qed.
Lemma pub_hd_not_eq q t : wf_pub q -> SpecParse.starts [61] (r_pub q ++ t) = None.
Proof.
  intros (Hv & He & Hr & _). unfold r_pub.
  assert (D : forall d x, wf_digits d = true -> SpecParse.starts [61] (d ++ x) = None).
  { intros d x H. unfold wf_digits in H. destruct d as [|c d]; [discriminate|]. cbn in H. apply andb_prop in H as [H _].
    apply digit_range in H. cbn [app SpecParse.starts]. now rewrite (proj2 (N.eqb_neq c 61)) by lia. }
  destruct (q_v q) as [c|]; cbn [r_osep app].
  - cbn [SpecParse.starts]. destruct (c =? 61) eqn:E; auto. apply N.eqb_eq in E. subst. discriminate Hv.
  - destruct (q_ep q) as [e|]; cbn [r_opt].
    + unfold r_ep. rewrite <- !app_assoc. now apply D.
    + cbn [app]. rewrite <- !app_assoc. now apply D.
Qed.
Lemma try_eq_arb rest t : try_ops (OEq :: rest) [] (op_txt OArb ++ t) = try_ops rest [] (op_txt OArb ++ t).
Proof.
  cbn [try_ops]. change (SpecParse.starts (op_txt OEq) (op_txt OArb ++ t)) with (Some (61 :: t)). cbv iota beta.
  change (span is_ws (61 :: t)) with (@nil N, 61 :: t). cbv iota beta.
  assert (E : p_body OEq (61 :: t) = None) by reflexivity. now rewrite E.
Qed.
Lemma notws_hd s : forallb notws s = true -> hd_is is_ws s = false.
Proof. destruct s as [|c s]; cbn [forallb hd_is]; auto. intros H. apply andb_prop in H as [H _]. unfold notws in H. now apply negb_true_iff in H. Qed.

Theorem parse_specifier_canonical s spx : parse_specifier s = Some spx ->
  parse_specifier (op_txt (s_op spx) ++ r_body (s_body spx)) =
  Some {| s_wl := []; s_op := s_op spx; s_ws := []; s_body := s_body spx; s_wr := [] |}.
Proof.
  intros E. unfold parse_specifier in E. destruct (span is_ws s) as [wl s0]. destruct (try_ops_inv _ _ _ _ E) as (s1 & s2 & _ & _ & PB & AW).
  destruct (p_body_sound _ _ _ _ PB) as [-> WB].
  pose proof (p_body_strip _ _ _ _ AW PB) as PB0.
  pose proof (body_notws _ _ WB) as NW. pose proof (VTop.span_none is_ws _ (notws_hd _ NW)) as SP.
  set (o := s_op spx) in *. set (b := s_body spx) in *. set (body := r_body b) in *.
  unfold parse_specifier.
  assert (H0 : span is_ws (op_txt o ++ body) = ([], op_txt o ++ body)) by (apply VTop.span_none; destruct o; reflexivity).
  rewrite H0. unfold ops_in_order.
  destruct o eqn:O.
  - now apply try_hit.
  - rewrite try_skip by reflexivity. now apply try_hit.
  - rewrite !try_skip by reflexivity. now apply try_hit.
  - rewrite !try_skip by reflexivity. now apply try_hit.
  - rewrite !try_skip by reflexivity. now apply try_hit.
  - (* < : the alternative <= must not fire *)
    rewrite !try_skip by reflexivity.
    assert (Q : exists q, body = r_pub q ++ [] /\ wf_pub q).
    { subst body. destruct b as [t|? ? ? ?|q lo]; cbn [wf_body] in WB; try contradiction. destruct lo; [contradiction|]. exists q. auto. }
    destruct Q as (q & Eq & Wq).
    rewrite try_skip by (change (SpecParse.starts (op_txt OLe) (op_txt OLt ++ body)) with (SpecParse.starts [61] body); rewrite Eq; now apply pub_hd_not_eq).
    rewrite try_skip by reflexivity. now apply try_hit.
  - (* > : the alternative >= must not fire *)
    rewrite !try_skip by reflexivity.
    assert (Q : exists q, body = r_pub q ++ [] /\ wf_pub q).
    { subst body. destruct b as [t|? ? ? ?|q lo]; cbn [wf_body] in WB; try contradiction. destruct lo; [contradiction|]. exists q. auto. }
    destruct Q as (q & Eq & Wq).
    rewrite try_skip by (change (SpecParse.starts (op_txt OGe) (op_txt OGt ++ body)) with (SpecParse.starts [61] body); rewrite Eq; now apply pub_hd_not_eq).
    rewrite try_skip by reflexivity. now apply try_hit.
  - (* === : == matches the first two characters and then fails on the third '=' *)
    rewrite try_skip by reflexivity. rewrite try_eq_arb. rewrite !try_skip by reflexivity. now apply try_hit.
Qed.

Theorem Specifier_str_roundtrip s sp : Specifier s = Some sp -> Specifier (spec_str sp) = Some sp.
Proof.
  unfold Specifier. destruct (parse_specifier s) as [spx|] eqn:E; [|discriminate]. intros [= <-].
  unfold spec_str. cbn [sp_op sp_text]. now rewrite (parse_specifier_canonical s spx E).
Qed.
Theorem Specifier_str_stripped s sp : Specifier s = Some sp -> py_strip (spec_str sp) = spec_str sp.
Proof.
  unfold Specifier. destruct (parse_specifier s) as [spx|] eqn:E; [|discriminate]. intros [= <-].
  unfold spec_str. cbn [sp_op sp_text]. apply py_strip_notws. rewrite forallb_app, op_notws. cbn [andb].
  unfold parse_specifier in E. destruct (span is_ws s) as [wl s0]. destruct (try_ops_inv _ _ _ _ E) as (s1 & s2 & _ & _ & PB & _).
  destruct (p_body_sound _ _ _ _ PB) as [_ WB]. now apply (body_notws _ _ WB).
Qed.
(* every constructor-accepted specifier whose string has no comma satisfies `reparses` *)
Theorem built_reparses s sp : Specifier s = Some sp -> nochar 44 (spec_str sp) = true -> reparses sp.
Proof. intros H N. split; [eapply Specifier_str_roundtrip; eauto|]. split; [eapply Specifier_str_stripped; eauto|exact N]. Qed.
(* only '===' can carry a comma *)
Theorem comma_only_in_arbitrary s sp : Specifier s = Some sp -> sp_op sp <> OArb -> nochar 44 (spec_str sp) = true.
Proof.
  unfold Specifier. destruct (parse_specifier s) as [spx|] eqn:E; [|discriminate]. intros [= <-]. cbn [sp_op]. intros NA.
  unfold spec_str. cbn [sp_op sp_text]. unfold nochar. rewrite forallb_app.
  assert (A : forallb (fun c => negb (c =? 44)) (op_txt (s_op spx)) = true) by (destruct (s_op spx); reflexivity). rewrite A. cbn [andb].
  unfold parse_specifier in E. destruct (span is_ws s) as [wl s0]. destruct (try_ops_inv _ _ _ _ E) as (s1 & s2 & _ & _ & PB & _).
  destruct (p_body_sound _ _ _ _ PB) as [_ WB].
  assert (NC : forall q lo, wf_pub q -> match lo with Some l => wf_loc l = true | None => True end ->
               forallb (fun c => negb (c =? 44)) (r_pub q ++ r_opt r_loc lo) = true).
  { intros q lo W L. rewrite <- core_sp_of.
    apply (core_P (fun c => negb (c =? 44))); try reflexivity; try now apply wf_sp_of.
    - intros c H. apply digit_range in H. apply negb_true_iff, N.eqb_neq. lia.
    - intros c H. unfold is_sep in H. apply negb_true_iff, N.eqb_neq.
      apply orb_prop in H as [H|H]; [apply orb_prop in H as [H|H]|]; apply N.eqb_eq in H; lia.
    - intros c H. apply negb_true_iff, N.eqb_neq. intros ->. discriminate H. }
  destruct (s_body spx) as [t|v e r0 rs|q lo]; cbn [r_body].
  - destruct (s_op spx); cbn [wf_body] in WB; try contradiction; congruence.
  - assert (X : (match v with Some c => lc c = 118 | None => True end) /\ (match e with Some x => wf_digits x = true | None => True end) /\
                wf_digits r0 = true /\ forallb wf_digits rs = true) by (destruct (s_op spx); cbn [wf_body] in WB; try contradiction; exact WB).
    destruct X as (A1 & B1 & C1 & D1).
    set (q := {| q_v := v; q_ep := e; q_rel0 := r0; q_rels := rs; q_pre := None; q_post := None; q_dev := None |}).
    assert (Wq : wf_pub q) by (unfold wf_pub, q; cbn; repeat split; auto).
    pose proof (NC q None Wq I) as N. cbn [r_opt] in N. rewrite app_nil_r in N. rewrite (r_pub_plain q eq_refl) in N. cbn [q q_v q_ep q_rel0 q_rels] in N.
    rewrite !app_assoc. rewrite forallb_app. rewrite <- !app_assoc, N. reflexivity.
  - assert (X : wf_pub q /\ match lo with Some l => wf_loc l = true | None => True end).
    { destruct (s_op spx), lo; cbn [wf_body] in WB; try contradiction; try (destruct WB; split; auto; fail); split; auto. }
    destruct X. now apply NC.
Qed.

(* ---- str(S) parses back: for sets of constructor-built members outside D19, and for every set built from a text ---- *)
Require Import SetsFs SetsLink.
Definition no_comma_arbitrary (m : member) : Prop := sp_op (m_sp m) = OArb -> nochar 44 (sp_text (m_sp m)) = true.
Lemma built_member_reparses m : built m -> no_comma_arbitrary m -> reparses (m_sp m).
Proof.
  intros (t & Ht) NC. apply (built_reparses t _ Ht).
  destruct (sp_op (m_sp m)) eqn:O; try (apply (comma_only_in_arbitrary t _ Ht); congruence).
  unfold spec_str, nochar. rewrite O, forallb_app. cbn [op_txt forallb andb]. apply NC. exact O.
Qed.
Theorem str_reparse_built S p : fs_ok (ms S) -> Forall built (ms S) -> Forall no_comma_arbitrary (ms S) ->
  exists S', SpecifierSet (set_str S) p = Some S' /\ set_eqb S S' = true /\ ov S' = p /\ set_str S' = set_str S.
Proof.
  intros OK B NC. apply str_reparse; auto. rewrite Forall_forall in *. intros m Hm. apply built_member_reparses; auto.
Qed.
Lemma split_on_nochar c0 s : Forall (fun p => nochar c0 p = true) (Prefix.split_on c0 s).
Proof.
  induction s as [|c t IH]; cbn [Prefix.split_on]; [repeat constructor|].
  destruct (c =? c0) eqn:E; [constructor; auto|].
  destruct (Prefix.split_on c0 t) as [|h r]; [repeat constructor; cbn; now rewrite E|].
  inversion IH; subst. constructor; auto. cbn. now rewrite E.
Qed.
Lemma dropws_in x s : In x (dropws s) -> In x s.
Proof. induction s as [|c s IH]; cbn [dropws]; auto. destruct (is_ws c); cbn; auto. Qed.
Lemma py_strip_nochar c0 s : nochar c0 s = true -> nochar c0 (py_strip s) = true.
Proof.
  unfold nochar, py_strip. rewrite !forallb_forall. intros H x Hx. apply H.
  apply in_rev in Hx. apply dropws_in in Hx. apply in_rev in Hx. now apply dropws_in in Hx.
Qed.
Lemma clauses_nochar s t : In t (clauses s) -> nochar 44 t = true.
Proof.
  unfold clauses. intros H. apply filter_In in H as [H _]. apply in_map_iff in H as (p & <- & Hp).
  apply py_strip_nochar. pose proof (split_on_nochar 44 s) as F. rewrite Forall_forall in F. now apply F.
Qed.
Lemma Specifier_nochar t sp : Specifier t = Some sp -> nochar 44 t = true -> nochar 44 (spec_str sp) = true.
Proof.
  unfold Specifier. destruct (parse_specifier t) as [spx|] eqn:E; [|discriminate]. intros [= <-] N.
  destruct (C12_spec_sound _ _ E) as (R & _). unfold render_spec in R. rewrite <- R in N. unfold nochar in *. rewrite !forallb_app in N.
  unfold spec_str. cbn [sp_op sp_text]. rewrite forallb_app.
  apply andb_prop in N as [_ N]. apply andb_prop in N as [N1 N]. apply andb_prop in N as [_ N]. apply andb_prop in N as [N2 _].
  now rewrite N1, N2.
Qed.
(* for a set built from a text there is nothing to exclude: the pieces between the commas contain no comma *)
Theorem str_reparse_text s p S p' : SpecifierSet s p = Some S ->
  exists S', SpecifierSet (set_str S) p' = Some S' /\ set_eqb S S' = true /\ ov S' = p' /\ set_str S' = set_str S.
Proof.
  intros H. destruct (SpecifierSet_fs_ok s p S H) as (OK & _ & _). apply str_reparse; auto.
  apply Forall_forall. intros m Hm. destruct (SpecifierSet_members s p S H m Hm) as (t & Ht & St).
  apply (built_reparses t _ St). apply (Specifier_nochar t _ St). now apply (clauses_nochar s).
Qed.
Print Assumptions built_reparses.
Print Assumptions str_reparse_text.
Print Assumptions comma_only_in_arbitrary.
