From Coq Require Import List Bool Lia Permutation.
Import ListNotations.

Section S.
Variables spec item : Type.
Variable is_pre : item -> bool.
Variable matches : spec -> item -> bool.        (* operator semantics with pre-releases enabled (C03) *)
Variable base : item -> item.                   (* Version(item.base_version) *)

(* Specifier.contains(item, prereleases=p) *)
Definition s_contains (p : bool) (s : spec) (x : item) : bool := if is_pre x && negb p then false else matches s x.
(* SpecifierSet.contains(item, prereleases=eff, installed) once the effective setting is known *)
Definition set_contains (eff installed : bool) (S : list spec) (x : item) : bool :=
  if negb eff && is_pre x then false
  else let x' := if installed && is_pre x then base x else x in forallb (fun s => s_contains eff s x') S.

Lemma forallb_ext' {A} (p q : A -> bool) l : (forall a, p a = q a) -> forallb p l = forallb q l.
Proof. intros H. induction l; cbn; auto. now rewrite H, IHl. Qed.
Theorem C05_conjunction S x : set_contains true false S x = forallb (fun s => matches s x) S.
Proof.
  unfold set_contains, s_contains. cbn. apply forallb_ext'. intros s. now rewrite andb_false_r.
Qed.
Lemma forallb_perm {A} (p : A -> bool) l l' : Permutation l l' -> forallb p l = forallb p l'.
Proof. induction 1; cbn; auto; try congruence. now rewrite !andb_assoc, (andb_comm (p y)). Qed.
Theorem C05_perm_invariant eff inst S S' x : Permutation S S' -> set_contains eff inst S x = set_contains eff inst S' x.
Proof. intros P. unfold set_contains. destruct (negb eff && is_pre x); auto. now apply forallb_perm. Qed.
Theorem C05_dup_invariant eff inst S s x : In s S -> set_contains eff inst (s :: S) x = set_contains eff inst S x.
Proof.
  intros H. unfold set_contains. destruct (negb eff && is_pre x); auto. cbn [forallb].
  destruct (forallb _ S) eqn:E; [|apply andb_false_r]. rewrite andb_true_r. rewrite forallb_forall in E. now apply E.
Qed.
(* a & b : union of the member sets *)
Theorem C05_and_is_both eff inst A B x :
  set_contains eff inst (A ++ B) x = set_contains eff inst A x && set_contains eff inst B x.
Proof. unfold set_contains. destruct (negb eff && is_pre x); auto. apply forallb_app. Qed.

(* the override merge of __and__ : None = ValueError *)
Definition merge (a b : option bool) : option (option bool) :=
  match a, b with
  | None, _ => Some b | _, None => Some a
  | Some x, Some y => if Bool.eqb x y then Some a else None end.
Theorem C05_merge_comm a b : merge a b = merge b a.
Proof. destruct a as [[|]|], b as [[|]|]; reflexivity. Qed.
Theorem C05_merge_error_iff a b : merge a b = None <-> (a = Some true /\ b = Some false) \/ (a = Some false /\ b = Some true).
Proof. destruct a as [[|]|], b as [[|]|]; cbn; split; intros H; try discriminate; auto; destruct H as [[? ?]|[? ?]]; congruence. Qed.
Definition merge3 (a b c : option bool) : option (option bool) := match merge a b with Some ab => merge ab c | None => None end.
Theorem C05_merge_assoc a b c :
  merge3 a b c = match merge b c with Some bc => merge a bc | None => None end \/
  (merge3 a b c = None /\ match merge b c with Some bc => merge a bc | None => None end = None).
Proof. destruct a as [[|]|], b as [[|]|], c as [[|]|]; cbn; auto. Qed.

(* pre-release gate (C06) *)
Theorem C06_gate eff inst S x : is_pre x = true -> eff = false -> set_contains eff inst S x = false.
Proof. intros H ->. unfold set_contains. now rewrite H. Qed.
Theorem C06_final_unaffected e1 e2 inst S x : is_pre x = false -> set_contains e1 inst S x = set_contains e2 inst S x.
Proof.
  intros H. unfold set_contains, s_contains. rewrite H, !andb_false_r. cbn. apply forallb_ext'. intros s. now rewrite H.
Qed.
Theorem C06_enable_monotone inst S x : set_contains false inst S x = true -> set_contains true inst S x = true.
Proof.
  unfold set_contains. cbn [negb andb]. destruct (is_pre x) eqn:P; [discriminate|]. intros H. rewrite <- H.
  rewrite andb_false_r. apply forallb_ext'. intros s. unfold s_contains. now rewrite P.
Qed.

(* SpecifierSet.filter, non-empty set, as a chain of member filters (each member filter with an explicit argument is an exact filter, C06
   single).  That is the shape the code had before /repo 70278f0; the code is now one pass over the items, which is the right-hand side of
   chain_filter / C06_set_filter_exact below; on the string-level model the two are proved equal without premise (SetsFilter.chain_is_one_pass). *)
Definition chain (eff : bool) (S : list spec) (xs : list item) : list item :=
  fold_left (fun acc s => filter (s_contains eff s) acc) S xs.
Lemma chain_filter eff S : forall xs, chain eff S xs = filter (fun x => forallb (fun s => s_contains eff s x) S) xs.
Proof.
  induction S as [|s S IH]; intros xs; cbn [chain fold_left forallb].
  - induction xs; cbn; congruence.
  - fold (chain eff S (filter (s_contains eff s) xs)). rewrite IH.
    induction xs as [|x xs IHx]; cbn; auto. destruct (s_contains eff s x); cbn; [destruct (forallb _ S)|]; now rewrite ?IHx.
Qed.
Theorem C06_set_filter_exact eff s S xs : chain eff (s :: S) xs = filter (set_contains eff false (s :: S)) xs.
Proof.
  rewrite chain_filter. apply filter_ext. intros x. unfold set_contains. cbn [andb forallb].
  destruct (negb eff && is_pre x) eqn:E; auto.
  unfold s_contains at 1. apply andb_prop in E as [E1 E2]. apply negb_true_iff in E1. subst. now rewrite E2.
Qed.
Theorem C06_chain_order_irrelevant eff S S' xs : Permutation S S' -> chain eff S xs = chain eff S' xs.
Proof. intros P. rewrite !chain_filter. apply filter_ext. intros x. now apply forallb_perm. Qed.
End S.
