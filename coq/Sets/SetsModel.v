(* String-level model of SpecifierSet (C05) and of the pre-release policy / filter() of Specifier and SpecifierSet (C06),
   as written in src/packaging/specifiers.py after the fix: commits.  Definitions only (this file is extracted).

   Conventions.  A member of a set is a Specifier object: its _spec (SpecContains.specifier) and its own _prereleases
   override (None for members built from a string).  A frozenset is modelled as the list of FIRST occurrences under
   Specifier.__eq__ (= equality of _canonical_spec), in insertion order; iteration order of the real frozenset is an
   arbitrary permutation of that list, so every theorem about results is stated invariant under Permutation.
   Items handed to contains()/filter() are strings or Version objects; the model sees the version they coerce to,
   tagged with the position in the input list (identity of the object). *)
From Coq Require Import List Arith NArith Bool.
Import ListNotations.
Require Import S1 VParse VDec Py VMeaning VCmp SpecModel SpecParse Prefix Canon SpecContains SortPerm SetModel.
Open Scope N_scope.

Definition truthy (o : option bool) : bool := match o with Some b => b | None => false end.     (* bool(x) for x in {None, True, False} *)
Definition is_none {A} (o : option A) : bool := match o with None => true | Some _ => false end.

(* ---------------------------------------------------------------- Specifier.contains on a coerced Version *)
Definition contains_v (sp : specifier) (override arg : option bool) (c : version) : outcome :=
  let pre := match arg with Some b => b | None => effective_pre override sp end in
  if is_prerelease c && negb pre then Ans false
  else match compare_op (sp_op sp) c (sp_text sp) with Some b => Ans b | None => Escaped end.

(* ---------------------------------------------------------------- members, _canonical_spec, frozenset *)
Record member := { m_sp : specifier; m_ov : option bool }.
Definition m_pre (m : member) : bool := effective_pre (m_ov m) (m_sp m).          (* member.prereleases *)
Definition mk_member (sp : specifier) : member := {| m_sp := sp; m_ov := None |}.

Definition oper_eqb (a b : oper) : bool :=
  match a, b with
  | OCompat, OCompat | OEq, OEq | ONe, ONe | OLe, OLe | OGe, OGe | OLt, OLt | OGt, OGt | OArb, OArb => true
  | _, _ => false
  end.
(* Specifier._canonical_spec: '===' raw; otherwise canonicalize_version(text, strip_trailing_zero = (op != "~=")) *)
Definition canonical_spec (sp : specifier) : oper * str :=
  match sp_op sp with
  | OArb => (OArb, sp_text sp)
  | OCompat => (OCompat, canon false (sp_text sp))
  | o => (o, canon true (sp_text sp))
  end.
Definition key_eqb (a b : oper * str) : bool := oper_eqb (fst a) (fst b) && VMeaning.str_eqb (snd a) (snd b).
Definition sp_eqb (a b : specifier) : bool := key_eqb (canonical_spec a) (canonical_spec b).     (* Specifier.__eq__ *)
Definition m_eqb (a b : member) : bool := sp_eqb (m_sp a) (m_sp b).                              (* override ignored *)

(* inserting into a set keeps the element already present *)
Definition fs_add (acc : list member) (m : member) : list member :=
  if existsb (fun x => m_eqb x m) acc then acc else acc ++ [m].
Definition fs_union (a b : list member) : list member := fold_left fs_add b a.     (* a | b : elements of a win *)
Definition fs_of (l : list member) : list member := fs_union [] l.                 (* frozenset(iterable) *)
Definition fs_mem (m : member) (l : list member) : bool := existsb (fun x => m_eqb x m) l.
Definition fs_eqb (a b : list member) : bool :=                                    (* frozenset.__eq__ *)
  Nat.eqb (length a) (length b) && forallb (fun m => fs_mem m b) a.

(* ---------------------------------------------------------------- SpecifierSet *)
Record sset := { ms : list member; ov : option bool }.

Fixpoint dropws (s : str) : str := match s with c :: t => if is_ws c then dropws t else s | [] => [] end.
Definition py_strip (s : str) : str := rev (dropws (rev (dropws s))).                (* str.strip() *)
(* [s.strip() for s in specifiers.split(",") if s.strip()] *)
Definition clauses (s : str) : list str := filter nonempty (map py_strip (Prefix.split_on 44 s)).
Fixpoint map_opt {A B} (f : A -> option B) (l : list A) : option (list B) :=
  match l with
  | [] => Some []
  | a :: t => match f a with Some b => option_map (cons b) (map_opt f t) | None => None end
  end.
(* SpecifierSet(text, prereleases=p); None = InvalidSpecifier *)
Definition SpecifierSet (s : str) (p : option bool) : option sset :=
  match map_opt Specifier (clauses s) with
  | Some l => Some {| ms := fs_of (map mk_member l); ov := p |}
  | None => None
  end.
(* SpecifierSet(iterable of Specifier objects, prereleases=p) *)
Definition SpecifierSet_of (l : list member) (p : option bool) : sset := {| ms := fs_of l; ov := p |}.

(* the .prereleases property *)
Definition set_pre (S : sset) : option bool :=
  match ov S with
  | Some b => Some b
  | None => match ms S with [] => None | l => Some (existsb m_pre l) end
  end.
Definition set_override (S : sset) (p : option bool) : sset := {| ms := ms S; ov := p |}.       (* the setter *)

(* all(s.contains(item, prereleases=pre) for s in self._specs), evaluated left to right with short circuit *)
Fixpoint all_members (pre : option bool) (c : version) (l : list member) : outcome :=
  match l with
  | [] => Ans true
  | m :: t => match contains_v (m_sp m) (m_ov m) pre c with Ans true => all_members pre c t | o => o end
  end.
(* SpecifierSet.contains(item, prereleases=arg, installed=installed) once the item is a Version *)
Definition set_contains_v (S : sset) (arg installed : option bool) (c : version) : outcome :=
  let pre := match arg with Some _ => arg | None => set_pre S end in
  if negb (truthy pre) && is_prerelease c then Ans false
  else match (if truthy installed && is_prerelease c then Version (base_str c) else Some c) with
       | None => BadItem
       | Some c' => all_members pre c' (ms S)
       end.
Definition set_contains (S : sset) (arg installed : option bool) (item : str) : outcome :=
  match Version item with None => BadItem | Some c => set_contains_v S arg installed c end.

(* str(): ",".join(sorted(str(s) for s in self._specs)) - code-point order *)
Fixpoint join_with (sep : str) (l : list str) : str :=
  match l with [] => [] | [x] => x | x :: t => x ++ sep ++ join_with sep t end.
Definition set_str (S : sset) : str := join_with [44] (SortPerm.isort str_cmp (map (fun m => spec_str (m_sp m)) (ms S))).

(* a & b ; None = ValueError *)
Definition set_and (A B : sset) : option sset :=
  match SetModel.merge (ov A) (ov B) with
  | Some o => Some {| ms := fs_union (ms A) (ms B); ov := o |}
  | None => None
  end.
Definition set_eqb (A B : sset) : bool := fs_eqb (ms A) (ms B).          (* __eq__ : overrides ignored *)
Definition set_len (S : sset) : nat := length (ms S).

(* ---------------------------------------------------------------- filter() *)
Definition item := (nat * version)%type.        (* position in the input list (object identity), coerced version *)
Definition it_pre (x : item) : bool := is_prerelease (snd x).
Definition fstate := (bool * list item * list item)%type.     (* yielded?, yielded so far (reversed), found_prereleases (reversed) *)

(* the loop of Specifier.filter; None = an exception other than InvalidVersion escapes *)
Fixpoint sf_loop (sp : specifier) (o prer : option bool) (kw : bool) (xs : list item) (st : fstate) : option fstate :=
  match xs with
  | [] => Some st
  | x :: t =>
      let '(yielded, out, deferred) := st in
      match contains_v sp o (Some kw) (snd x) with
      | Ans true =>
          if it_pre x && negb (truthy prer || effective_pre o sp)
          then sf_loop sp o prer kw t (yielded, out, x :: deferred)
          else sf_loop sp o prer kw t (true, x :: out, deferred)
      | Ans false => sf_loop sp o prer kw t st
      | _ => None
      end
  end.
Definition spec_filter_v (sp : specifier) (o arg : option bool) (xs : list item) : option (list item) :=
  let prer := match arg with Some _ => arg | None => o end in            (* "an explicit setting on the specifier is as binding" *)
  let kw := match prer with Some b => b | None => true end in
  match sf_loop sp o prer kw xs (false, [], []) with
  | Some (yielded, out, deferred) => Some (if negb yielded then rev out ++ rev deferred else rev out)
  | None => None
  end.

(* the empty-set branch of SpecifierSet.filter *)
Definition nonempty_l {A} (l : list A) : bool := match l with [] => false | _ => true end.
Definition ef_step (pre : option bool) (st : list item * list item) (x : item) : list item * list item :=
  let '(filtered, found) := st in
  if it_pre x && negb (truthy pre) then (if nonempty_l filtered then st else (filtered, x :: found))
  else (x :: filtered, found).
Definition empty_filter (pre : option bool) (xs : list item) : list item :=
  let '(filtered, found) := fold_left (ef_step pre) xs ([], []) in
  if negb (nonempty_l filtered) && nonempty_l found && is_none pre then rev found else rev filtered.
(* SpecifierSet.filter, non-empty set, as the code is since 70278f0 - ONE pass over the items:
     allow = bool(prereleases); (item for item in iterable if all(spec.contains(item, prereleases=allow) for spec in specs))
   None = an exception other than InvalidVersion escapes from a member's contains *)
Fixpoint one_pass (b : bool) (l : list member) (xs : list item) : option (list item) :=
  match xs with
  | [] => Some []
  | x :: t => match all_members (Some b) (snd x) l with
              | Ans true => option_map (cons x) (one_pass b l t)
              | Ans false => one_pass b l t
              | _ => None
              end
  end.
(* the code BEFORE 70278f0: for spec in self._specs: iterable = spec.filter(iterable, prereleases=bool(prereleases)) - a chain of member
   filters.  No longer what runs; kept because it is extensionally the same function (SetsFilter.chain_is_one_pass, no premise) and the
   proofs about the set filter were developed on it. *)
Fixpoint chain_filter (b : bool) (l : list member) (xs : list item) : option (list item) :=
  match l with
  | [] => Some xs
  | m :: t => match spec_filter_v (m_sp m) (m_ov m) (Some b) xs with Some ys => chain_filter b t ys | None => None end
  end.
Definition set_filter_v (S : sset) (arg : option bool) (xs : list item) : option (list item) :=
  let pre := match arg with Some _ => arg | None => set_pre S end in
  match ms S with
  | [] => Some (empty_filter pre xs)
  | l => one_pass (truthy pre) l xs
  end.

(* coercion of the input list: _coerce_version on every item while the generator is drained; None = InvalidVersion *)
Fixpoint coerce_from (i : nat) (l : list str) : option (list item) :=
  match l with
  | [] => Some []
  | t :: r => match Version t with Some c => option_map (cons (i, c)) (coerce_from (S i) r) | None => None end
  end.
Inductive fout := FOk (positions : list nat) | FBad | FEsc.
Definition lift_filter (f : list item -> option (list item)) (texts : list str) : fout :=
  match coerce_from 0 texts with
  | None => FBad
  | Some xs => match f xs with Some ys => FOk (map fst ys) | None => FEsc end
  end.
Definition spec_filter (sp : specifier) (o arg : option bool) (texts : list str) : fout := lift_filter (spec_filter_v sp o arg) texts.
Definition set_filter (S : sset) (arg : option bool) (texts : list str) : fout := lift_filter (set_filter_v S arg) texts.

(* ---------------------------------------------------------------- objects with a mutable override; operation histories (C06) *)
Inductive obj := OSpec (sp : specifier) (o : option bool) | OSet (A : sset).
Inductive op :=
| OpSet (p : option bool)                                 (* obj.prereleases = p *)
| OpContains (arg inst : option bool) (item : str)        (* obj.contains(item, prereleases=arg[, installed=inst]) *)
| OpIn (item : str)                                       (* item in obj *)
| OpFilter (arg : option bool) (items : list str)         (* list(obj.filter(items, prereleases=arg)) *)
| OpPre.                                                  (* obj.prereleases *)
Inductive obs := ObsNone | ObsC (r : outcome) | ObsF (r : fout) | ObsP (p : option bool).
Definition obj_override (x : obj) : option bool := match x with OSpec _ o => o | OSet A => ov A end.
Definition with_override (x : obj) (p : option bool) : obj :=
  match x with OSpec sp _ => OSpec sp p | OSet A => OSet (set_override A p) end.
Definition step (x : obj) (o : op) : obj * obs :=
  match o with
  | OpSet p => (with_override x p, ObsNone)
  | OpContains arg inst item =>
      (x, ObsC (match x with OSpec sp o' => contains sp o' arg item | OSet A => set_contains A arg inst item end))
  | OpIn item => (x, ObsC (match x with OSpec sp o' => contains sp o' None item | OSet A => set_contains A None None item end))
  | OpFilter arg items => (x, ObsF (match x with OSpec sp o' => spec_filter sp o' arg items | OSet A => set_filter A arg items end))
  | OpPre => (x, ObsP (match x with OSpec sp o' => Some (effective_pre o' sp) | OSet A => set_pre A end))
  end.
