(* C10 for SpecifierSet on the string-level model (SetsModel): __eq__ compares the member frozensets (set_eqb / fs_eqb over
   Specifier.__eq__ = equality of _canonical_spec), __hash__ is hash(self._specs).  On frozensets (fs_ok: no two equal members, which is
   what the constructors and & establish: C05_constructor_invariant, fs_ok_of, fs_ok_union) equality is an equivalence, is the same as
   "the canonical keys are permutations of each other" (so every order-independent function of the keys - the hash - agrees), and equal
   sets of constructor-built members answer alike.  Equality ignores the set's pre-release override and the members' own overrides by
   documented design, hence the premises `ov A = ov B` and `plain` (members without their own override, as in every set built from text). *)
From Coq Require Import List Arith NArith Bool Lia Permutation.
Import ListNotations.
Require SpecEqual SetsFilter.
Require Import S1 VParse Py VMeaning SpecModel SpecParse SpecContains SpecSem SpecLink SetModel SetsModel SetsBridge SetsFs SetsLaws SetsLink SetsC10 VKeyEq.
Open Scope N_scope.

(* the model's canonical key is SpecContains.spec_key *)
Lemma canonical_spec_is_spec_key sp : canonical_spec sp = spec_key sp.
Proof. reflexivity. Qed.
Definition keys (S : sset) : list (oper * str) := map mkey (ms S).
Lemma mkey_is_spec_key m : mkey m = spec_key (m_sp m).
Proof. reflexivity. Qed.

(* ---------------------------------------------------------------- equality = same keys *)
Lemma fs_eqb_perm a b : fs_ok a -> fs_ok b -> (fs_eqb a b = true <-> Permutation (map mkey a) (map mkey b)).
Proof.
  intros Ha Hb. split.
  - unfold fs_eqb. intros H. apply andb_prop in H as [L I]. apply Nat.eqb_eq in L. rewrite forallb_forall in I.
    apply NoDup_Permutation_bis; auto.
    + rewrite !map_length. lia.
    + intros k Hk. apply in_map_iff in Hk as (x & <- & Hx). specialize (I x Hx). apply fs_mem_iff in I as (y & Hy & Ky).
      rewrite <- Ky. now apply in_map.
  - intros P. apply fs_eqb_true; auto. intros y. apply fs_mem_keys. intros k. split; intros Hk.
    + apply (Permutation_in k P Hk).
    + apply (Permutation_in k (Permutation_sym P) Hk).
Qed.
Theorem set_eqb_keys A B : fs_ok (ms A) -> fs_ok (ms B) -> (set_eqb A B = true <-> Permutation (keys A) (keys B)).
Proof. intros HA HB. unfold set_eqb, keys. now apply fs_eqb_perm. Qed.

(* (1) an equivalence on frozensets *)
Theorem set_eqb_refl A : set_eqb A A = true.
Proof. apply fs_eqb_refl. Qed.
Theorem set_eqb_sym A B : fs_ok (ms A) -> fs_ok (ms B) -> set_eqb A B = true -> set_eqb B A = true.
Proof. intros HA HB H. apply (set_eqb_keys B A HB HA). apply Permutation_sym. now apply (set_eqb_keys A B HA HB). Qed.
Theorem set_eqb_trans A B C : fs_ok (ms A) -> fs_ok (ms B) -> fs_ok (ms C) ->
  set_eqb A B = true -> set_eqb B C = true -> set_eqb A C = true.
Proof.
  intros HA HB HC H1 H2. apply (set_eqb_keys A C HA HC). eapply perm_trans; [apply (set_eqb_keys A B HA HB) | apply (set_eqb_keys B C HB HC)]; assumption.
Qed.
Theorem set_eqb_symmetric A B : fs_ok (ms A) -> fs_ok (ms B) -> set_eqb A B = set_eqb B A.
Proof.
  intros HA HB. destruct (set_eqb A B) eqn:E, (set_eqb B A) eqn:F; auto.
  - rewrite (set_eqb_sym A B HA HB E) in F. discriminate.
  - rewrite (set_eqb_sym B A HB HA F) in E. discriminate.
Qed.
(* == ignores the overrides: of the set and of the members *)
Theorem set_eqb_ignores_override A p : set_eqb A (set_override A p) = true.
Proof. apply fs_eqb_refl. Qed.

(* (2) equal sets hash alike: any function of the key collection that does not depend on the order agrees *)
Theorem set_eqb_hash {H : Type} (h : list (oper * str) -> H) A B :
  (forall l l', Permutation l l' -> h l = h l') -> fs_ok (ms A) -> fs_ok (ms B) -> set_eqb A B = true -> h (keys A) = h (keys B).
Proof. intros Inv HA HB E. apply Inv. now apply (set_eqb_keys A B HA HB). Qed.

(* ---------------------------------------------------------------- (3) equal sets behave alike *)
Definition plain (S : sset) : Prop := Forall (fun m => m_ov m = None) (ms S).
Definition all_built (S : sset) : Prop := Forall built (ms S).

Lemma partner a b : fs_eqb a b = true -> forall x, In x a -> exists y, In y b /\ m_eqb x y = true.
Proof.
  unfold fs_eqb. intros H x Hx. apply andb_prop in H as [_ I]. rewrite forallb_forall in I. specialize (I x Hx).
  apply fs_mem_iff in I as (y & Hy & Ky). exists y. split; auto. apply m_eqb_eq. congruence.
Qed.
Lemma forallb_partner (P : member -> bool) a b :
  (forall x, In x a -> exists y, In y b /\ P x = P y) -> forallb P b = true -> forallb P a = true.
Proof. rewrite !forallb_forall. intros H F x Hx. destruct (H x Hx) as (y & Hy & E). rewrite E. auto. Qed.
Lemma existsb_partner (P : member -> bool) a b :
  (forall x, In x a -> exists y, In y b /\ P x = P y) -> existsb P a = true -> existsb P b = true.
Proof. rewrite !existsb_exists. intros H (x & Hx & Px). destruct (H x Hx) as (y & Hy & E). exists y. split; auto. congruence. Qed.
Lemma bool_both (u v : bool) : (u = true -> v = true) -> (v = true -> u = true) -> u = v.
Proof. destruct u, v; intuition. Qed.

(* a member specifier's own default (what its text names) is the same for equal constructor-built specifiers *)
Lemma auto_pre_equal_keys a b sp sp' : Specifier a = Some sp -> Specifier b = Some sp' -> spec_key sp = spec_key sp' -> auto_pre sp = auto_pre sp'.
Proof.
  intros Sa Sb K. destruct (Specifier_interp a sp Sa) as (f & I & F). destruct (Specifier_interp b sp' Sb) as (f' & I' & F').
  destruct (SpecEqual.equal_keys_equiv_forms sp sp' f f' I F I' F' K) as [O Q].
  rewrite (SpecEqual.auto_pre_is_form sp f I F), (SpecEqual.auto_pre_is_form sp' f' I' F'), <- O. now apply SpecEqual.auto_pre_equiv.
Qed.

Lemma nil_or_not {X} (l : list X) : l = [] \/ l <> [].
Proof. destruct l; [left; auto | right; discriminate]. Qed.
Lemma set_pre_eq (A B : sset) : ov A = ov B -> length (ms A) = length (ms B) -> existsb m_pre (ms A) = existsb m_pre (ms B) ->
  set_pre A = set_pre B.
Proof.
  unfold set_pre. intros -> L X. destruct (ov B); auto. destruct (ms A), (ms B); try discriminate; auto. now rewrite X.
Qed.

Section Equal.
Variables A B : sset.
Hypothesis E : set_eqb A B = true.
Hypothesis OA : fs_ok (ms A).
Hypothesis OB : fs_ok (ms B).
Hypothesis OV : ov A = ov B.
Hypothesis BA : all_built A.
Hypothesis BB : all_built B.
Hypothesis PA : plain A.
Hypothesis PB : plain B.

Lemma E' : set_eqb B A = true.
Proof. exact (set_eqb_sym A B OA OB E). Qed.
Lemma WA : wf_set A.
Proof. exact (built_wf _ BA). Qed.
Lemma WB : wf_set B.
Proof. exact (built_wf _ BB). Qed.
Lemma R : respects (ms A ++ ms B).
Proof. apply built_respects. apply Forall_app. split; assumption. Qed.

Lemma same_length : length (ms A) = length (ms B).
Proof. pose proof E as E0. unfold set_eqb, fs_eqb in E0. apply andb_prop in E0 as [L _]. now apply Nat.eqb_eq in L. Qed.
Lemma forallb_equal (P : member -> bool) :
  (forall x y, In x (ms A ++ ms B) -> In y (ms A ++ ms B) -> m_eqb x y = true -> P x = P y) ->
  forallb P (ms A) = forallb P (ms B).
Proof.
  intros RP. apply bool_both; apply forallb_partner; intros x Hx.
  - destruct (partner _ _ E' x Hx) as (y & Hy & Q). exists y. split; auto. apply RP; auto; rewrite in_app_iff; auto.
  - destruct (partner _ _ E x Hx) as (y & Hy & Q). exists y. split; auto. apply RP; auto; rewrite in_app_iff; auto.
Qed.
Lemma m_pre_equal x y : In x (ms A ++ ms B) -> In y (ms A ++ ms B) -> m_eqb x y = true -> m_pre x = m_pre y.
Proof.
  intros Hx Hy Q. assert (P : Forall (fun m => m_ov m = None) (ms A ++ ms B)) by (apply Forall_app; split; assumption).
  assert (Bl : Forall built (ms A ++ ms B)) by (apply Forall_app; split; assumption).
  rewrite Forall_forall in P, Bl. unfold m_pre. rewrite (P x Hx), (P y Hy). cbn [effective_pre].
  destruct (Bl x Hx) as (tx & Tx), (Bl y Hy) as (ty & Ty). apply (auto_pre_equal_keys tx ty); auto. now apply m_eqb_eq in Q.
Qed.
Theorem equal_sets_same_prereleases : set_pre A = set_pre B.
Proof.
  apply set_pre_eq; auto using same_length.
  apply bool_both; apply existsb_partner; intros x Hx.
  - destruct (partner _ _ E x Hx) as (y & Hy & Q). exists y. split; auto. apply m_pre_equal; auto; rewrite in_app_iff; auto.
  - destruct (partner _ _ E' x Hx) as (y & Hy & Q). exists y. split; auto. apply m_pre_equal; auto; rewrite in_app_iff; auto.
Qed.
Theorem equal_sets_same_contains_v arg inst c : VMeaning.wf_version c -> set_contains_v A arg inst c = set_contains_v B arg inst c.
Proof.
  intros Wc. rewrite !set_contains_v_ans by (auto using WA, WB). f_equal. unfold eff_arg. rewrite equal_sets_same_prereleases.
  apply set_cont_members; auto. intros p c' Wc'. apply forallb_equal. apply s_cont_respects; auto using R.
Qed.
(* THE MAIN ONE: equal sets match the same candidates, for every call argument and installed flag (and raise alike on a non-version) *)
Theorem equal_sets_same_contains arg inst item : set_contains A arg inst item = set_contains B arg inst item.
Proof.
  rewrite !set_contains_split. destruct (Version item) as [c|] eqn:V; auto. apply equal_sets_same_contains_v. eapply Version_wf; eauto.
Qed.
Lemma equal_sets_same_filter_v arg xs : SetsFilter.wf_items xs -> set_filter_v A arg xs = set_filter_v B arg xs.
Proof.
  intros WI. pose proof same_length as L. destruct (nil_or_not (ms A)) as [EA|NA].
  - assert (EB : ms B = []) by (rewrite EA in L; destruct (ms B); [auto|discriminate]).
    unfold set_filter_v. now rewrite EA, EB, equal_sets_same_prereleases.
  - assert (NB : ms B <> []) by (intros EB; rewrite EB in L; destruct (ms A); [congruence|discriminate]).
    rewrite (SetsFilter.set_filter_exact A arg xs) by (auto using WA). rewrite (SetsFilter.set_filter_exact B arg xs) by (auto using WB).
    f_equal. unfold SetsFilter.wf_items in WI. rewrite Forall_forall in WI. apply SetsFilter.filter_ext_in'. intros x Hx.
    now rewrite equal_sets_same_contains_v by auto.
Qed.
(* ... and filter alike: the same positions of the input list, or InvalidVersion alike *)
Theorem equal_sets_same_filter arg texts : set_filter A arg texts = set_filter B arg texts.
Proof.
  unfold set_filter, lift_filter. destruct (coerce_from 0 texts) as [xs|] eqn:C; auto.
  destruct (SetsFilter.coerce_spec _ _ _ C) as (WI & _). now rewrite equal_sets_same_filter_v.
Qed.
End Equal.

(* the premises hold for every set built from a text *)
Theorem text_set_invariants s p S : SpecifierSet s p = Some S -> fs_ok (ms S) /\ all_built S /\ plain S /\ ov S = p.
Proof.
  intros H. destruct (SpecifierSet_fs_ok s p S H) as (OK & O & P). repeat split; auto. eapply SpecifierSet_built; eauto.
Qed.
Corollary equal_text_sets_behave_alike a b p A B : SpecifierSet a p = Some A -> SpecifierSet b p = Some B -> set_eqb A B = true ->
  (forall arg inst item, set_contains A arg inst item = set_contains B arg inst item) /\
  (forall arg texts, set_filter A arg texts = set_filter B arg texts) /\ set_pre A = set_pre B.
Proof.
  intros HA HB E. destruct (text_set_invariants a p A HA) as (OA & BA & PA & VA). destruct (text_set_invariants b p B HB) as (OB & BB & PB & VB).
  assert (OV : ov A = ov B) by congruence.
  split; [|split]; intros; [apply equal_sets_same_contains | apply equal_sets_same_filter | apply equal_sets_same_prereleases]; auto.
Qed.

(* non-vacuity: ">=1.0, ==2.0.0" and "==2.0,>=1" (other order, other spellings) are equal sets *)
Example equal_sets_nonvacuous :
  exists A B, SpecifierSet [62;61;49;46;48;44;32;61;61;50;46;48;46;48] None = Some A /\ SpecifierSet [61;61;50;46;48;44;62;61;49] None = Some B /\
              set_eqb A B = true /\ ms A <> ms B.
Proof. do 2 eexists. split; [vm_compute; reflexivity|]. split; [vm_compute; reflexivity|]. split; [vm_compute; reflexivity|]. vm_compute. discriminate. Qed.

Print Assumptions set_eqb_trans.
Print Assumptions set_eqb_symmetric.
Print Assumptions set_eqb_hash.
Print Assumptions equal_sets_same_contains.
Print Assumptions equal_sets_same_filter.
Print Assumptions equal_sets_same_prereleases.
Print Assumptions equal_text_sets_behave_alike.
