(* C05 on the string-level model: conjunction, order/duplicate invariance, &, str. *)
From Coq Require Import List Arith NArith Bool Lia Permutation.
Import ListNotations.
Require Import S1 VParse VDec Py VMeaning VCmp SpecModel SpecParse Prefix Prefix4 Canon Order SpecContains SortPerm SetModel SetsModel SetsBridge SetsFs SetsParse VKeyEq.
Open Scope N_scope.
Arguments N.eqb : simpl never.
Arguments N.leb : simpl never.

(* ---------------------------------------------------------------- conjunction *)
Definition accepts (m : member) (item : str) : bool :=
  match contains (m_sp m) (m_ov m) (Some true) item with Ans true => true | _ => false end.

Lemma member_contains_true m item c : wf_member (m_sp m) -> Version item = Some c ->
  contains (m_sp m) (m_ov m) (Some true) item = Ans (mmatch m c).
Proof.
  intros W E. rewrite contains_split, E, contains_v_ans by eauto using Version_wf.
  unfold s_cont, SetModel.s_contains. now rewrite andb_false_r.
Qed.
Lemma forallb_ext_in {A} (p q : A -> bool) l : (forall a, In a l -> p a = q a) -> forallb p l = forallb q l.
Proof. induction l as [|x l IH]; cbn; auto. intros H. rewrite (H x), IH; auto. Qed.
Theorem set_conjunction S item c : wf_set S -> Version item = Some c ->
  set_contains S (Some true) None item = Ans (forallb (fun m => accepts m item) (ms S)) /\
  (forall m, In m (ms S) -> exists b, contains (m_sp m) (m_ov m) (Some true) item = Ans b).
Proof.
  intros W E. unfold wf_set in W. rewrite Forall_forall in W. split.
  - rewrite set_contains_split, E, set_contains_v_ans by (eauto using Version_wf; now apply Forall_forall). f_equal.
    unfold set_cont. cbn [eff_arg truthy]. rewrite SetModel.C05_conjunction.
    apply forallb_ext_in. intros m Hm. unfold accepts. rewrite (member_contains_true m item c); auto.
    destruct (mmatch m c); reflexivity.
  - intros m Hm. eexists. apply (member_contains_true m item c); auto.
Qed.
Corollary empty_set_matches_everything S b inst item c : ms S = [] -> Version item = Some c ->
  set_contains S (Some true) inst item = Ans true /\ (is_prerelease c = false -> set_contains S b inst item = Ans true).
Proof.
  intros E V. assert (W : wf_set S) by (unfold wf_set; rewrite E; constructor).
  rewrite !set_contains_split, V, !set_contains_v_ans by eauto using Version_wf. unfold set_cont, SetModel.set_contains. rewrite E.
  cbn [eff_arg truthy negb andb forallb]. split; auto. intros P. rewrite P, andb_false_r. reflexivity.
Qed.

(* ---------------------------------------------------------------- iteration order *)
Lemma existsb_perm {A} (p : A -> bool) l l' : Permutation l l' -> existsb p l = existsb p l'.
Proof. induction 1; cbn; auto; try congruence. now rewrite !orb_assoc, (orb_comm (p y)). Qed.
Lemma set_pre_perm S S' : Permutation (ms S) (ms S') -> ov S = ov S' -> set_pre S = set_pre S'.
Proof.
  intros P E. unfold set_pre. rewrite E. destruct (ov S'); auto.
  destruct (ms S) as [|x l] eqn:A, (ms S') as [|y l'] eqn:B; auto.
  - apply Permutation_nil in P. discriminate.
  - apply Permutation_sym, Permutation_nil in P. discriminate.
  - now rewrite (existsb_perm m_pre _ _ P).
Qed.
Lemma wf_set_perm S S' : Permutation (ms S) (ms S') -> wf_set S -> wf_set S'.
Proof. unfold wf_set. intros P W. rewrite Forall_forall in *. intros m Hm. apply W. apply (Permutation_in m (Permutation_sym P) Hm). Qed.
Theorem contains_perm_invariant S S' arg inst item : Permutation (ms S) (ms S') -> ov S = ov S' -> wf_set S ->
  set_contains S arg inst item = set_contains S' arg inst item.
Proof.
  intros P E W. rewrite !set_contains_split. destruct (Version item) as [c|] eqn:V; auto.
  rewrite !set_contains_v_ans by eauto using Version_wf, wf_set_perm. f_equal.
  unfold eff_arg. rewrite (set_pre_perm S S' P E). now apply SetModel.C05_perm_invariant.
Qed.

(* ---------------------------------------------------------------- duplicates and the clause list *)
(* [respects l]: members of l that are equal as Specifier objects match the same candidates.  It holds when equality is
   respected by the operator semantics in general (that is C10's clause), and trivially when l holds no two different
   spellings of equal clauses. *)
Definition respects (l : list member) : Prop :=
  forall x y, In x l -> In y l -> m_eqb x y = true -> forall c, VMeaning.wf_version c -> mmatch x c = mmatch y c.
Definition eq_respected : Prop :=
  forall a b c, sp_eqb a b = true -> wf_member a -> wf_member b -> VMeaning.wf_version c -> matches a c = matches b c.
Definition literal (l : list member) : Prop := forall x y, In x l -> In y l -> m_eqb x y = true -> m_sp x = m_sp y.
Lemma respects_of_eq l : eq_respected -> Forall (fun m => wf_member (m_sp m)) l -> respects l.
Proof. intros R W x y Hx Hy E c Wc. rewrite Forall_forall in W. apply R; auto. Qed.
Lemma respects_of_literal l : literal l -> respects l.
Proof. intros L x y Hx Hy E c _. unfold mmatch. now rewrite (L x y Hx Hy E). Qed.

Lemma s_cont_respects l p c : respects l -> VMeaning.wf_version c ->
  forall x y, In x l -> In y l -> m_eqb x y = true -> s_cont p x c = s_cont p y c.
Proof. intros R Wc x y Hx Hy E. unfold s_cont, SetModel.s_contains. now rewrite (R x y Hx Hy E c Wc). Qed.

Lemma set_cont_members eff inst l l' c : VMeaning.wf_version c ->
  (forall p c', VMeaning.wf_version c' -> forallb (fun m => s_cont p m c') l = forallb (fun m => s_cont p m c') l') ->
  set_cont eff inst l c = set_cont eff inst l' c.
Proof.
  intros Wc H. unfold set_cont, SetModel.set_contains. destruct (negb eff && is_prerelease c); auto.
  destruct (inst && is_prerelease c); apply H; auto using wf_base.
Qed.
(* building the set from a clause list: with an explicit setting the answer is the conjunction over ALL supplied clauses *)
Theorem contains_of_clause_list l p b inst item c : respects l -> Forall (fun m => wf_member (m_sp m)) l -> Version item = Some c ->
  set_contains (SpecifierSet_of l p) (Some b) inst item = Ans (set_cont b (truthy inst) l c).
Proof.
  intros R W V. assert (Wc := Version_wf _ _ V).
  assert (W' : wf_set (SpecifierSet_of l p)).
  { unfold wf_set. cbn [SpecifierSet_of ms]. rewrite Forall_forall in *. intros m Hm. apply W. now apply in_fs_of. }
  rewrite set_contains_split, V, set_contains_v_ans by auto. f_equal. cbn [eff_arg truthy SpecifierSet_of ms].
  apply set_cont_members; auto. intros q c' Wc'. apply forallb_fs_of. now apply s_cont_respects.
Qed.
Lemma set_cont_same_elements eff inst l l' c : (forall m, In m l <-> In m l') -> set_cont eff inst l c = set_cont eff inst l' c.
Proof.
  intros H. unfold set_cont, SetModel.set_contains. destruct (negb eff && is_prerelease c); auto.
  set (P := fun s => SetModel.s_contains member version is_prerelease mmatch eff s (if inst && is_prerelease c then base_of c else c)).
  destruct (forallb P l) eqn:A, (forallb P l') eqn:B; auto.
  - rewrite forallb_forall in A. assert (forallb P l' = true) by (apply forallb_forall; intros m Hm; apply A; apply (proj2 (H m)); exact Hm). congruence.
  - rewrite forallb_forall in B. assert (forallb P l = true) by (apply forallb_forall; intros m Hm; apply B; apply (proj1 (H m)); exact Hm). congruence.
Qed.
(* order and duplication of the supplied clauses are irrelevant *)
Theorem clause_order_dup_irrelevant l l' p p' b inst item :
  (forall m, In m l <-> In m l') -> respects l -> Forall (fun m => wf_member (m_sp m)) l ->
  set_contains (SpecifierSet_of l p) (Some b) inst item = set_contains (SpecifierSet_of l' p') (Some b) inst item.
Proof.
  intros H R W. destruct (Version item) as [c|] eqn:V.
  - rewrite (contains_of_clause_list l p b inst item c), (contains_of_clause_list l' p' b inst item c); auto.
    + f_equal. now apply set_cont_same_elements.
    + intros x y Hx Hy. apply R; [apply (proj2 (H x)) | apply (proj2 (H y))]; assumption.
    + rewrite Forall_forall in *. intros m Hm. apply W. apply (proj2 (H m)). exact Hm.
  - rewrite !set_contains_split, V. reflexivity.
Qed.

(* ---------------------------------------------------------------- a & b *)
Lemma wf_set_and A B C : set_and A B = Some C -> wf_set A -> wf_set B -> wf_set C.
Proof.
  unfold set_and. destruct (SetModel.merge (ov A) (ov B)); [|discriminate]. intros [= <-] WA WB. unfold wf_set in *. cbn [ms].
  rewrite Forall_forall in *. intros m Hm. apply in_fs_union in Hm as [Hm|Hm]; auto.
Qed.
Theorem and_is_both A B C b inst item c : set_and A B = Some C -> wf_set A -> wf_set B -> respects (ms A ++ ms B) ->
  Version item = Some c ->
  exists x y, set_contains A (Some b) inst item = Ans x /\ set_contains B (Some b) inst item = Ans y /\
              set_contains C (Some b) inst item = Ans (x && y).
Proof.
  intros E WA WB R V. assert (Wc := Version_wf _ _ V). assert (WC := wf_set_and A B C E WA WB).
  rewrite !set_contains_split, V, !set_contains_v_ans by auto. do 2 eexists. split; [reflexivity|]. split; [reflexivity|]. f_equal.
  cbn [eff_arg truthy]. unfold set_and in E. destruct (SetModel.merge (ov A) (ov B)); [|discriminate]. inversion E; subst C. cbn [ms].
  unfold set_cont. rewrite <- SetModel.C05_and_is_both. apply set_cont_members; auto.
  intros q c' Wc'. rewrite forallb_fs_union, forallb_app; auto. now apply s_cont_respects.
Qed.
Theorem and_error_iff A B : set_and A B = None <-> (ov A = Some true /\ ov B = Some false) \/ (ov A = Some false /\ ov B = Some true).
Proof.
  unfold set_and. rewrite <- SetModel.C05_merge_error_iff. destruct (SetModel.merge (ov A) (ov B)); split; congruence.
Qed.
Theorem and_override_carried A B C : set_and A B = Some C ->
  ov C = match ov A with Some x => Some x | None => ov B end.
Proof.
  unfold set_and. destruct (ov A) as [[|]|], (ov B) as [[|]|]; cbn; intros [= <-]; reflexivity.
Qed.
Theorem and_comm A B : fs_ok (ms A) -> fs_ok (ms B) ->
  match set_and A B, set_and B A with
  | Some C, Some C' => ov C = ov C' /\ set_eqb C C' = true
  | None, None => True
  | _, _ => False
  end.
Proof.
  intros HA HB. unfold set_and. rewrite (SetModel.C05_merge_comm (ov B) (ov A)).
  destruct (SetModel.merge (ov A) (ov B)); auto. split; auto. unfold set_eqb. cbn [ms]. now apply fs_union_comm.
Qed.
Definition obind {A B} (x : option A) (f : A -> option B) : option B := match x with Some a => f a | None => None end.
Theorem and_assoc A B C : obind (set_and A B) (fun AB => set_and AB C) = obind (set_and B C) (fun BC => set_and A BC).
Proof.
  unfold set_and, obind.
  destruct (ov A) as [[|]|], (ov B) as [[|]|], (ov C) as [[|]|]; cbn [SetModel.merge Bool.eqb ov ms]; try reflexivity;
    now rewrite fs_union_assoc.
Qed.
(* a & b is the set parsed from the concatenated clauses *)
Theorem and_is_concat a b pa pb A B : SpecifierSet a pa = Some A -> SpecifierSet b pb = Some B ->
  exists C, SpecifierSet (a ++ 44 :: b) None = Some C /\
            (forall o, SetModel.merge pa pb = Some o -> set_and A B = Some {| ms := ms C; ov := o |}) /\
            (SetModel.merge pa pb = None -> set_and A B = None).
Proof.
  unfold SpecifierSet. rewrite clauses_cat, map_opt_app.
  destruct (map_opt Specifier (clauses a)) as [la|]; [|discriminate]. destruct (map_opt Specifier (clauses b)) as [lb|]; [|discriminate].
  intros [= <-] [= <-]. eexists. split; [reflexivity|]. unfold set_and. cbn [ms ov]. split.
  - intros o ->. now rewrite map_app, fs_of_app.
  - intros ->. reflexivity.
Qed.
Theorem SpecifierSet_fs_ok s p S : SpecifierSet s p = Some S -> fs_ok (ms S) /\ ov S = p /\ Forall (fun m => m_ov m = None) (ms S).
Proof.
  unfold SpecifierSet. destruct (map_opt Specifier (clauses s)) as [l|]; [|discriminate]. intros [= <-]. cbn [ms ov].
  split; [apply fs_ok_of|]. split; auto. apply Forall_forall. intros m Hm. apply in_fs_of, in_map_iff in Hm as (sp & <- & _). reflexivity.
Qed.
Theorem SpecifierSet_members s p S : SpecifierSet s p = Some S ->
  forall m, In m (ms S) -> exists t, In t (clauses s) /\ Specifier t = Some (m_sp m).
Proof.
  unfold SpecifierSet. destruct (map_opt Specifier (clauses s)) as [l|] eqn:E; [|discriminate]. intros [= <-] m Hm. cbn [ms] in Hm.
  apply in_fs_of, in_map_iff in Hm as (sp & <- & Hsp). destruct (map_opt_in _ _ _ E sp Hsp) as (t & Ht & Ft). exists t. auto.
Qed.

(* the same on texts: two texts with the same clauses up to order, duplication, spacing and stray commas *)
Lemma map_opt_none_iff {A B} (f : A -> option B) l : map_opt f l = None <-> exists x, In x l /\ f x = None.
Proof.
  induction l as [|x l IH]; cbn [map_opt].
  - split; [discriminate|]. intros (x & [] & _).
  - destruct (f x) as [b|] eqn:E.
    + destruct (map_opt f l) as [r|]; cbn.
      * split; [discriminate|]. intros (y & [<-|Hy] & Fy); [congruence|].
        assert (X : Some r = None) by (apply (proj2 IH); eauto). discriminate.
      * split; auto. intros _. destruct (proj1 IH eq_refl) as (y & Hy & Fy). exists y. cbn; auto.
    + split; auto. intros _. exists x. cbn; auto.
Qed.
Lemma map_opt_in_rev {A B} (f : A -> option B) l : forall r, map_opt f l = Some r -> forall x y, In x l -> f x = Some y -> In y r.
Proof.
  induction l as [|a l IH]; intros r; cbn [map_opt]; [intros _ x y []|].
  destruct (f a) as [b|] eqn:E; [|discriminate]. destruct (map_opt f l) as [r'|]; [|discriminate]. cbn. intros [= <-] x y [<-|Hx] Fx.
  - left. congruence.
  - right. eapply IH; eauto.
Qed.
Theorem text_order_dup_irrelevant s s' p p' l :
  map_opt Specifier (clauses s) = Some l -> (forall t, In t (clauses s) <-> In t (clauses s')) ->
  respects (map mk_member l) -> Forall wf_member l ->
  exists S S', SpecifierSet s p = Some S /\ SpecifierSet s' p' = Some S' /\
    forall b inst item, set_contains S (Some b) inst item = set_contains S' (Some b) inst item.
Proof.
  intros M H R W. unfold SpecifierSet. rewrite M.
  destruct (map_opt Specifier (clauses s')) as [l'|] eqn:M'.
  - do 2 eexists. split; [reflexivity|]. split; [reflexivity|]. intros b inst item.
    apply (clause_order_dup_irrelevant (map mk_member l) (map mk_member l') p p' b inst item); auto.
    + intros m. rewrite !in_map_iff. split; intros (sp & <- & Hsp); exists sp; split; auto.
      * destruct (map_opt_in _ _ _ M sp Hsp) as (t & Ht & Ft). apply (map_opt_in_rev _ _ _ M' t sp); auto. now apply H.
      * destruct (map_opt_in _ _ _ M' sp Hsp) as (t & Ht & Ft). apply (map_opt_in_rev _ _ _ M t sp); auto. now apply H.
    + apply Forall_forall. intros m Hm. apply in_map_iff in Hm as (sp & <- & Hsp). rewrite Forall_forall in W. now apply W.
  - exfalso. apply map_opt_none_iff in M' as (t & Ht & Ft). apply H in Ht.
    assert (X : map_opt Specifier (clauses s) = None) by (apply map_opt_none_iff; eauto). congruence.
Qed.

(* ---------------------------------------------------------------- str() *)
Lemma str_cmp_trans_lt a b c : str_cmp a b = Lt -> str_cmp b c = Lt -> str_cmp a c = Lt.
Proof. intros H1 H2. apply (ok_trans_lt _ str_cmp_ok a b c H1). congruence. Qed.
Theorem str_deterministic S S' : Permutation (ms S) (ms S') -> set_str S = set_str S'.
Proof.
  intros P. unfold set_str. f_equal.
  apply (isort_perm_invariant str_cmp (ok_refl _ str_cmp_ok) str_cmp_eq (ok_sym _ str_cmp_ok) str_cmp_trans_lt).
  now apply Permutation_map.
Qed.

(* str(S) parses back to an equal set, provided every member's own string does (parser completeness on the canonical
   layout, C12) and contains no comma (D19: the text of '===' may contain one) *)
Definition reparses (sp : specifier) : Prop :=
  Specifier (spec_str sp) = Some sp /\ py_strip (spec_str sp) = spec_str sp /\ nochar 44 (spec_str sp) = true.

Lemma map_opt_perm {A B} (f : A -> option B) l l' : Permutation l l' ->
  forall r, map_opt f l = Some r -> exists r', map_opt f l' = Some r' /\ Permutation r r'.
Proof.
  induction 1 as [|x l l' P IH|x y l|l l' l'' P1 IH1 P2 IH2]; intros r; cbn [map_opt].
  - intros [= <-]. exists []. auto.
  - destruct (f x) as [b|]; [|discriminate]. destruct (map_opt f l) as [r0|]; [|discriminate]. cbn. intros [= <-].
    destruct (IH r0 eq_refl) as (r0' & E & Q). rewrite E. cbn. eexists. split; [reflexivity|]. now constructor.
  - destruct (f y) as [b|]; [|discriminate]. destruct (f x) as [a|]; [|discriminate]. destruct (map_opt f l) as [r0|]; [|discriminate].
    cbn. intros [= <-]. eexists. split; [reflexivity|]. apply perm_swap.
  - intros E. destruct (IH1 r E) as (r1 & E1 & Q1). destruct (IH2 r1 E1) as (r2 & E2 & Q2). exists r2. split; auto.
    eapply perm_trans; eauto.
Qed.
Lemma map_opt_section {A B} (f : A -> option B) (g : B -> A) l : (forall x, In x l -> f (g x) = Some x) -> map_opt f (map g l) = Some l.
Proof.
  induction l as [|x l IH]; intros H; cbn [map map_opt]; auto. rewrite (H x) by (cbn; auto). rewrite IH; auto.
  intros y Hy. apply H. cbn; auto.
Qed.
Lemma fs_mem_keys y l l' : (forall k, In k (map mkey l) <-> In k (map mkey l')) -> fs_mem y l = fs_mem y l'.
Proof.
  intros H. destruct (fs_mem y l) eqn:A, (fs_mem y l') eqn:B; auto.
  - apply fs_mem_iff in A as (x & Hx & Kx). assert (I : In (mkey y) (map mkey l')) by (apply H; rewrite <- Kx; now apply in_map).
    apply in_map_iff in I as (z & Kz & Hz). assert (fs_mem y l' = true) by (apply fs_mem_iff; eauto). congruence.
  - apply fs_mem_iff in B as (x & Hx & Kx). assert (I : In (mkey y) (map mkey l)) by (apply H; rewrite <- Kx; now apply in_map).
    apply in_map_iff in I as (z & Kz & Hz). assert (fs_mem y l = true) by (apply fs_mem_iff; eauto). congruence.
Qed.
Lemma Specifier_nil : Specifier [] = None.
Proof. reflexivity. Qed.
Lemma filter_id {A} (p : A -> bool) l : (forall x, In x l -> p x = true) -> filter p l = l.
Proof. induction l as [|x l IH]; cbn; auto. intros H. rewrite (H x), IH; auto. Qed.
Lemma map_id_in {A} (f : A -> A) l : (forall x, In x l -> f x = x) -> map f l = l.
Proof. induction l as [|x l IH]; cbn; auto. intros H. rewrite (H x), IH; auto. Qed.

Theorem str_reparse S p : fs_ok (ms S) -> Forall (fun m => reparses (m_sp m)) (ms S) ->
  exists S', SpecifierSet (set_str S) p = Some S' /\ set_eqb S S' = true /\ ov S' = p /\ set_str S' = set_str S.
Proof.
  intros OK RP. rewrite Forall_forall in RP.
  set (strs := map (fun m => spec_str (m_sp m)) (ms S)).
  set (sorted := SortPerm.isort str_cmp strs).
  assert (PS : Permutation strs sorted) by apply isort_perm.
  assert (IN : forall t, In t sorted -> exists m, In m (ms S) /\ t = spec_str (m_sp m)).
  { intros t Ht. apply (Permutation_in t (Permutation_sym PS)) in Ht. apply in_map_iff in Ht as (m & <- & Hm). eauto. }
  assert (CL : clauses (set_str S) = sorted).
  { unfold set_str. fold strs. fold sorted. rewrite clauses_join.
    - rewrite map_id_in. 2:{ intros t Ht. destruct (IN t Ht) as (m & Hm & ->). apply (RP m Hm). }
      apply filter_id. intros t Ht. destruct (IN t Ht) as (m & Hm & ->). destruct (RP m Hm) as (E & _).
      destruct (spec_str (m_sp m)); [rewrite Specifier_nil in E; discriminate|reflexivity].
    - apply Forall_forall. intros t Ht. destruct (IN t Ht) as (m & Hm & ->). apply (RP m Hm). }
  assert (M0 : map_opt Specifier strs = Some (map m_sp (ms S))).
  { unfold strs. rewrite <- (map_map m_sp spec_str). apply map_opt_section. intros sp Hsp. apply in_map_iff in Hsp as (m & <- & Hm). apply (RP m Hm). }
  destruct (map_opt_perm Specifier strs sorted PS _ M0) as (r' & M1 & PR).
  assert (OK' : fs_ok (map mk_member r')).
  { unfold fs_ok. rewrite map_map. apply (Permutation_NoDup (l := map mkey (ms S))); auto.
    rewrite <- (map_map m_sp canonical_spec). apply Permutation_map. exact PR. }
  unfold SpecifierSet. rewrite CL, M1. eexists. split; [reflexivity|]. rewrite (fs_of_ok _ OK'). cbn [ov ms]. split; [|split; auto].
  - unfold set_eqb. cbn [ms]. apply fs_eqb_true; auto. intros y. apply fs_mem_keys. intros k.
    assert (PK : Permutation (map mkey (ms S)) (map mkey (map mk_member r'))).
    { rewrite map_map. change (fun x => mkey (mk_member x)) with canonical_spec. rewrite <- (map_map m_sp canonical_spec). now apply Permutation_map. }
    split; intros Hk; [apply (Permutation_in k PK Hk) | apply (Permutation_in k (Permutation_sym PK) Hk)].
  - unfold set_str. cbn [ms]. f_equal.
    apply (isort_perm_invariant str_cmp (ok_refl _ str_cmp_ok) str_cmp_eq (ok_sym _ str_cmp_ok) str_cmp_trans_lt).
    rewrite map_map. cbn [mk_member m_sp]. rewrite <- (map_map m_sp spec_str). apply Permutation_map, Permutation_sym, PR.
Qed.
(* D19: the exclusion is needed *)
Definition d19_member : specifier := {| sp_op := OArb; sp_text := [97; 44; 98] |}.       (* ===a,b *)
Lemma d19_is_a_specifier : Specifier [61;61;61;97;44;98] = Some d19_member.
Proof. vm_compute. reflexivity. Qed.
Theorem str_reparse_refuted_D19 :
  let S := SpecifierSet_of [mk_member d19_member] None in SpecifierSet (set_str S) None = None.
Proof. vm_compute. reflexivity. Qed.
Print Assumptions and_is_both.
Print Assumptions str_reparse.
