(* Bridge between the string-level model (SetsModel) and the abstract set-level development (SetModel, Filter):
   for members on which no operator method can fail (wf_member), every outcome is `Ans` of the boolean function. *)
From Coq Require Import List Arith NArith Bool Lia Permutation.
Import ListNotations.
Require Import S1 VParse VDec Py VMeaning VCmp SpecModel SpecParse Prefix Canon SpecContains SortPerm SetModel SetsModel VKeyEq.
Open Scope N_scope.
Arguments N.eqb : simpl never.
Arguments N.leb : simpl never.

(* no operator method raises on this specifier (discharged for everything the constructor accepts by SpecLink.compare_op_total) *)
Definition wf_member (sp : specifier) : Prop :=
  forall c, VMeaning.wf_version c -> compare_op (sp_op sp) c (sp_text sp) <> None.
Definition wf_set (S : sset) : Prop := Forall (fun m => wf_member (m_sp m)) (ms S).

(* the operator semantics with pre-releases enabled, as a boolean *)
Definition matches (sp : specifier) (c : version) : bool :=
  match compare_op (sp_op sp) c (sp_text sp) with Some b => b | None => false end.
Definition mmatch (m : member) (c : version) : bool := matches (m_sp m) c.
Definition s_cont (p : bool) (m : member) (c : version) : bool := SetModel.s_contains member version is_prerelease mmatch p m c.
Definition set_cont (eff inst : bool) (l : list member) (c : version) : bool :=
  SetModel.set_contains member version is_prerelease mmatch base_of eff inst l c.

Lemma contains_split sp o arg item :
  contains sp o arg item = match Version item with None => BadItem | Some c => contains_v sp o arg c end.
Proof. unfold contains, contains_v. destruct (Version item); reflexivity. Qed.

Lemma contains_v_ans m arg c : wf_member (m_sp m) -> VMeaning.wf_version c ->
  contains_v (m_sp m) (m_ov m) arg c = Ans (s_cont (match arg with Some b => b | None => m_pre m end) m c).
Proof.
  intros W Wc. unfold contains_v, s_cont, SetModel.s_contains, mmatch, matches, m_pre.
  destruct (is_prerelease c && negb _); auto.
  specialize (W c Wc). destruct (compare_op _ c _); [reflexivity|congruence].
Qed.

Lemma s_cont_final p q m c : is_prerelease c = false -> s_cont p m c = s_cont q m c.
Proof. intros H. unfold s_cont, SetModel.s_contains. now rewrite H. Qed.

Lemma all_members_ans pre c l : Forall (fun m => wf_member (m_sp m)) l -> VMeaning.wf_version c ->
  (pre <> None \/ is_prerelease c = false) ->
  all_members pre c l = Ans (forallb (fun m => s_cont (truthy pre) m c) l).
Proof.
  intros W Wc Hp. induction W as [|m l Wm W IH]; cbn [all_members forallb]; auto.
  rewrite (contains_v_ans m pre c Wm Wc).
  assert (E : s_cont (match pre with Some b => b | None => m_pre m end) m c = s_cont (truthy pre) m c).
  { destruct pre as [b|]; [reflexivity|]. destruct Hp as [Hp|Hp]; [congruence|]. now apply s_cont_final. }
  rewrite E. destruct (s_cont (truthy pre) m c); cbn [andb]; auto.
Qed.

Lemma base_not_pre c : is_prerelease (base_of c) = false.
Proof. reflexivity. Qed.

Definition eff_arg (S : sset) (arg : option bool) : option bool := match arg with Some _ => arg | None => set_pre S end.

Theorem set_contains_v_ans S arg inst c : wf_set S -> VMeaning.wf_version c ->
  set_contains_v S arg inst c = Ans (set_cont (truthy (eff_arg S arg)) (truthy inst) (ms S) c).
Proof.
  intros W Wc. unfold set_contains_v, set_cont, SetModel.set_contains. fold (eff_arg S arg).
  destruct (negb (truthy (eff_arg S arg)) && is_prerelease c) eqn:G; auto.
  destruct (truthy inst && is_prerelease c) eqn:I.
  - rewrite (Version_base c Wc). apply all_members_ans; auto using wf_base.
  - apply all_members_ans; auto.
    destruct (eff_arg S arg); [left; discriminate|]. right. cbn in G. exact G.
Qed.

Lemma set_contains_split S arg inst item :
  set_contains S arg inst item = match Version item with None => BadItem | Some c => set_contains_v S arg inst c end.
Proof. reflexivity. Qed.
