From Coq Require Import List Arith NArith Bool Lia Permutation.
Import ListNotations.
Open Scope N_scope.

(* sorted() over a comparison that is a total order with Eq meaning identical (code-point order on str) *)
Section Sort.
Context {A : Type} (cmp : A -> A -> comparison).
Hypothesis cmp_refl : forall a, cmp a a = Eq.
Hypothesis cmp_eq : forall a b, cmp a b = Eq -> a = b.
Hypothesis cmp_sym : forall a b, cmp b a = CompOpp (cmp a b).
Hypothesis cmp_trans_lt : forall a b c, cmp a b = Lt -> cmp b c = Lt -> cmp a c = Lt.

Definition leb (a b : A) : bool := match cmp a b with Gt => false | _ => true end.
Fixpoint insert (x : A) (l : list A) : list A :=
  match l with [] => [x] | y :: t => if leb x y then x :: l else y :: insert x t end.
Fixpoint isort (l : list A) : list A := match l with [] => [] | x :: t => insert x (isort t) end.

Lemma leb_total a b : leb a b = false -> leb b a = true.
Proof. unfold leb. rewrite (cmp_sym a b). destruct (cmp a b); cbn; auto; discriminate. Qed.
Lemma leb_antisym a b : leb a b = true -> leb b a = true -> a = b.
Proof.
  unfold leb. rewrite (cmp_sym a b). destruct (cmp a b) eqn:E; cbn; try discriminate; auto.
Qed.
Lemma leb_trans a b c : leb a b = true -> leb b c = true -> leb a c = true.
Proof.
  unfold leb. destruct (cmp a b) eqn:E1; try discriminate; destruct (cmp b c) eqn:E2; try discriminate; intros _ _.
  - apply cmp_eq in E1, E2. subst. now rewrite cmp_refl.
  - apply cmp_eq in E1. subst. now rewrite E2.
  - apply cmp_eq in E2. subst. now rewrite E1.
  - now rewrite (cmp_trans_lt a b c).
Qed.

Lemma insert_comm x y l : insert x (insert y l) = insert y (insert x l).
Proof.
  induction l as [|z l IH]; cbn [insert].
  - destruct (leb x y) eqn:Ha, (leb y x) eqn:Hb; auto.
    + now rewrite (leb_antisym x y Ha Hb).
    + apply leb_total in Ha. congruence.
  - destruct (leb y z) eqn:Hy, (leb x z) eqn:Hx; cbn [insert]; rewrite ?Hy, ?Hx.
    + destruct (leb x y) eqn:Ha, (leb y x) eqn:Hb; rewrite ?Hx, ?Hy; auto.
      * now rewrite (leb_antisym x y Ha Hb).
      * apply leb_total in Ha. congruence.
    + (* y <= z < x *) assert (leb x y = false).
      { destruct (leb x y) eqn:Ha; auto. rewrite (leb_trans x y z Ha Hy) in Hx. discriminate. }
      rewrite H. reflexivity.
    + assert (leb y x = false).
      { destruct (leb y x) eqn:Ha; auto. rewrite (leb_trans y x z Ha Hx) in Hy. discriminate. }
      rewrite H. reflexivity.
    + now rewrite IH.
Qed.

Theorem isort_perm_invariant l l' : Permutation l l' -> isort l = isort l'.
Proof.
  induction 1; cbn [isort]; auto.
  - now rewrite IHPermutation.
  - apply insert_comm.
  - congruence.
Qed.
Lemma insert_perm x l : Permutation (x :: l) (insert x l).
Proof.
  induction l as [|y l IH]; cbn; auto. destruct (leb x y); auto.
  eapply perm_trans; [apply perm_swap|]. now constructor.
Qed.
Lemma isort_perm l : Permutation l (isort l).
Proof. induction l; cbn; auto. eapply perm_trans; [|apply insert_perm]. now constructor. Qed.
End Sort.
Print Assumptions isort_perm_invariant.
