(* Objects with identity (C06, histories): Specifier objects live in a heap of cells, a SpecifierSet holds ADDRESSES of cells, so that
   one Specifier object can be a member of several sets (a, and a & b) and an assignment to its .prereleases is seen through every set
   that holds it.  The address list of a set is the list of first occurrences under Specifier.__eq__ (which ignores the override), as in
   SetsModel.fs_of / fs_union.  Reading a set resolves the addresses against the current heap and then runs the very functions of
   SetsModel (step on OSet).  Definitions only (this file is extracted; RunSets.wexec runs wstep). *)
From Coq Require Import List Arith NArith Bool.
Import ListNotations.
Require Import S1 VParse Py VMeaning SpecModel SpecParse SpecContains SetModel SetsModel.
Open Scope N_scope.

Record cell := { c_sp : specifier; c_ov : option bool }.
Record hset := { h_ms : list nat; h_ov : option bool }.
Record world := { cells : list cell; sets : list hset }.
Definition dcell : cell := {| c_sp := {| sp_op := OArb; sp_text := [] |}; c_ov := None |}.
Definition dset : hset := {| h_ms := []; h_ov := None |}.
Definition cell_at (w : world) (a : nat) : cell := nth a (cells w) dcell.
Definition set_at (w : world) (i : nat) : hset := nth i (sets w) dset.
Definition member_at (w : world) (a : nat) : member := {| m_sp := c_sp (cell_at w a); m_ov := c_ov (cell_at w a) |}.
(* the set as SetsModel sees it at this moment *)
Definition resolve (w : world) (i : nat) : sset := {| ms := map (member_at w) (h_ms (set_at w i)); ov := h_ov (set_at w i) |}.

(* frozenset(iterable) / a | b on object references: the object already present is kept *)
Definition a_add (w : world) (acc : list nat) (a : nat) : list nat :=
  if existsb (fun x => m_eqb (member_at w x) (member_at w a)) acc then acc else acc ++ [a].
Definition a_union (w : world) (a b : list nat) : list nat := fold_left (a_add w) b a.

Fixpoint set_nth {A} (n : nat) (f : A -> A) (l : list A) : list A :=
  match l with
  | [] => []
  | x :: t => match n with O => f x :: t | S n' => x :: set_nth n' f t end
  end.

Inductive wop :=
| WCell (sp : specifier) (o : option bool)        (* x = Specifier(text, prereleases=o) *)
| WSet (addrs : list nat) (p : option bool)       (* SpecifierSet([those objects], prereleases=p) *)
| WAnd (i j : nat)                                (* sets[i] & sets[j] *)
| WSetOv (i : nat) (p : option bool)              (* sets[i].prereleases = p *)
| WCellOv (a : nat) (p : option bool)             (* cells[a].prereleases = p - a member object, through whatever alias *)
| WRead (i : nat) (o : op)                        (* contains / in / filter / .prereleases on sets[i]; with OpSet p it is WSetOv i p *)
| WReadCell (a : nat) (o : op).                   (* the same on the Specifier object cells[a] *)
Inductive wobs := WNone | WObs (r : obs) | WValueError.

Definition wstep (w : world) (o : wop) : world * wobs :=
  match o with
  | WCell sp ov' => ({| cells := cells w ++ [{| c_sp := sp; c_ov := ov' |}]; sets := sets w |}, WNone)
  | WSet addrs p => ({| cells := cells w; sets := sets w ++ [{| h_ms := a_union w [] addrs; h_ov := p |}] |}, WNone)
  | WAnd i j =>
      match SetModel.merge (h_ov (set_at w i)) (h_ov (set_at w j)) with
      | Some o' => ({| cells := cells w;
                       sets := sets w ++ [{| h_ms := a_union w (h_ms (set_at w i)) (h_ms (set_at w j)); h_ov := o' |}] |}, WNone)
      | None => (w, WValueError)
      end
  | WSetOv i p => ({| cells := cells w; sets := set_nth i (fun h => {| h_ms := h_ms h; h_ov := p |}) (sets w) |}, WNone)
  | WCellOv a p => ({| cells := set_nth a (fun c => {| c_sp := c_sp c; c_ov := p |}) (cells w); sets := sets w |}, WNone)
  | WRead i o' =>
      match o' with
      | OpSet p => ({| cells := cells w; sets := set_nth i (fun h => {| h_ms := h_ms h; h_ov := p |}) (sets w) |}, WNone)   (* = WSetOv i p *)
      | _ => (w, WObs (snd (step (OSet (resolve w i)) o')))
      end
  | WReadCell a o' =>
      match o' with
      | OpSet p => ({| cells := set_nth a (fun c => {| c_sp := c_sp c; c_ov := p |}) (cells w); sets := sets w |}, WNone)   (* = WCellOv a p *)
      | _ => (w, WObs (snd (step (OSpec (c_sp (cell_at w a)) (c_ov (cell_at w a))) o')))
      end
  end.
(* the ops of SetsModel.op that only read: everything but the assignment *)
Definition is_read (o : op) : bool := match o with OpSet _ => false | _ => true end.
(* every address / index an op mentions exists (what the harness generates; Python raises IndexError otherwise) *)
Definition wf_op (w : world) (o : wop) : Prop :=
  match o with
  | WSet addrs _ => Forall (fun a => (a < length (cells w))%nat) addrs
  | WAnd i j => (i < length (sets w))%nat /\ (j < length (sets w))%nat
  | _ => True
  end.
Fixpoint wf_ops (w : world) (ops : list wop) : Prop :=
  match ops with [] => True | o :: r => wf_op w o /\ wf_ops (fst (wstep w o)) r end.
Definition wrun (w : world) (ops : list wop) : world := fold_left (fun w o => fst (wstep w o)) ops w.
Definition empty_world : world := {| cells := []; sets := [] |}.
