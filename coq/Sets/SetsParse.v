(* The text of a SpecifierSet: split on ",", strip, drop empties. *)
From Coq Require Import List Arith NArith Bool Lia Permutation.
Import ListNotations.
Require Import S1 VParse VDec Py VMeaning VCmp SpecModel SpecParse Prefix Prefix4 Canon SpecContains SetModel SetsModel SetsFs.
Open Scope N_scope.
Arguments N.eqb : simpl never.
Arguments N.leb : simpl never.

Lemma split_on_nonnil c0 s : Prefix.split_on c0 s <> [].
Proof. destruct s as [|c t]; cbn; [discriminate|]. destruct (c =? c0); [discriminate|]. destruct (Prefix.split_on c0 t); discriminate. Qed.
Lemma split_on_cat c0 a b : Prefix.split_on c0 (a ++ c0 :: b) = Prefix.split_on c0 a ++ Prefix.split_on c0 b.
Proof.
  induction a as [|x a IH]; cbn [app Prefix.split_on].
  - now rewrite N.eqb_refl.
  - destruct (x =? c0); [now rewrite IH|]. rewrite IH.
    destruct (Prefix.split_on c0 a) as [|h r] eqn:E; [now apply split_on_nonnil in E|]. reflexivity.
Qed.
Theorem clauses_cat a b : clauses (a ++ 44 :: b) = clauses a ++ clauses b.
Proof. unfold clauses. now rewrite split_on_cat, map_app, filter_app. Qed.

Lemma map_opt_app {A B} (f : A -> option B) l1 l2 :
  map_opt f (l1 ++ l2) = match map_opt f l1, map_opt f l2 with Some a, Some b => Some (a ++ b) | _, _ => None end.
Proof.
  induction l1 as [|x l1 IH]; cbn [app map_opt].
  - destruct (map_opt f l2); reflexivity.
  - destruct (f x); auto. rewrite IH. destruct (map_opt f l1), (map_opt f l2); reflexivity.
Qed.
Lemma map_opt_in {A B} (f : A -> option B) l r : map_opt f l = Some r -> forall y, In y r -> exists x, In x l /\ f x = Some y.
Proof.
  revert r. induction l as [|x l IH]; intros r; cbn [map_opt].
  - intros [= <-] y [].
  - destruct (f x) as [b|] eqn:E; [|discriminate]. destruct (map_opt f l) as [r'|]; [|discriminate]. cbn. intros [= <-] y [<-|H].
    + exists x. auto.
    + destruct (IH r' eq_refl y H) as (z & Hz & Fz). exists z. auto.
Qed.
Lemma map_opt_map {A B} (f : A -> option B) l r : map_opt f l = Some r -> map f l = map Some r.
Proof.
  revert r. induction l as [|x l IH]; intros r; cbn [map_opt].
  - now intros [= <-].
  - destruct (f x) as [b|] eqn:E; [|discriminate]. destruct (map_opt f l) as [r'|]; [|discriminate]. cbn. intros [= <-].
    cbn. now rewrite E, (IH r').
Qed.

(* ---- spacing ---- *)
Definition all_ws (s : str) : bool := forallb is_ws s.
Lemma dropws_ws w s : all_ws w = true -> dropws (w ++ s) = dropws s.
Proof. induction w as [|c w IH]; cbn [app dropws all_ws forallb]; auto. intros H. apply andb_prop in H as [H1 H2]. rewrite H1. auto. Qed.
Lemma dropws_all w : all_ws w = true -> dropws w = [].
Proof. intros H. rewrite <- (app_nil_r w). now rewrite dropws_ws. Qed.
Lemma dropws_snoc s w : all_ws w = true -> dropws (s ++ w) = match dropws s with [] => [] | l => l ++ w end.
Proof.
  intros H. induction s as [|c s IH]; cbn [app dropws].
  - now apply dropws_all.
  - destruct (is_ws c); auto.
Qed.
Lemma all_ws_rev w : all_ws (rev w) = all_ws w.
Proof.
  unfold all_ws. induction w as [|c w IH]; cbn [rev forallb]; auto. rewrite forallb_app. cbn [forallb]. rewrite IH, andb_true_r. apply andb_comm.
Qed.
Theorem py_strip_pad w1 s w2 : all_ws w1 = true -> all_ws w2 = true -> py_strip (w1 ++ s ++ w2) = py_strip s.
Proof.
  intros H1 H2. unfold py_strip. rewrite dropws_ws by assumption. rewrite dropws_snoc by assumption.
  destruct (dropws s) as [|c l] eqn:E; auto.
  rewrite rev_app_distr, dropws_ws; auto. now rewrite all_ws_rev.
Qed.
Lemma ws_not_comma c : is_ws c = true -> (c =? 44) = false.
Proof.
  destruct (c =? 44) eqn:E; auto. apply N.eqb_eq in E. subst. vm_compute. discriminate.
Qed.

(* ---- a text assembled from comma-free pieces ---- *)
Lemma split_join ps : ps <> [] -> Forall (fun p => nochar 44 p = true) ps -> Prefix.split_on 44 (join_with [44] ps) = ps.
Proof.
  intros NE H. induction H as [|x l Hx Hl IH]; [congruence|].
  destruct l as [|y t].
  - cbn [join_with]. now apply split_on_none.
  - change (join_with [44] (x :: y :: t)) with (x ++ 44 :: join_with [44] (y :: t)).
    rewrite split_on_app by assumption. f_equal. apply IH. discriminate.
Qed.
Theorem clauses_join ps : Forall (fun p => nochar 44 p = true) ps -> clauses (join_with [44] ps) = filter nonempty (map py_strip ps).
Proof.
  intros H. destruct ps as [|x l]; [reflexivity|]. unfold clauses. rewrite split_join; auto. discriminate.
Qed.
(* the constructor sees a text only through its stripped, non-empty pieces: spacing and stray commas are irrelevant *)
Theorem SpecifierSet_layout ps qs p :
  Forall (fun x => nochar 44 x = true) ps -> Forall (fun x => nochar 44 x = true) qs ->
  filter nonempty (map py_strip ps) = filter nonempty (map py_strip qs) ->
  SpecifierSet (join_with [44] ps) p = SpecifierSet (join_with [44] qs) p.
Proof. intros Hp Hq E. unfold SpecifierSet. now rewrite !clauses_join, E. Qed.
Print Assumptions SpecifierSet_layout.
