(* Equal Specifier objects (equal _canonical_spec) match the same candidates - for specifiers the constructor accepts.
   This is the clause of C10 that C05 needs for differently spelled duplicates ("==1.0,==1.0.0"). *)
From Coq Require Import List Arith NArith Bool Lia Permutation.
Import ListNotations.
Require Import S1 VParse VTop VDec Py VMeaning VCmp VAscii SpecModel SpecOps SpecOps2 Prefix Prefix4 Compat SpecParse SpecContains SpecSem SpecMain SpecLink SpecEq Canon CanonLaws Order VKeyEq.
Require Import SetModel SetsModel SetsBridge SetsFs SetsLaws SetsLink.
Open Scope N_scope.
Arguments N.eqb : simpl never.
Arguments N.leb : simpl never.

Lemma ws_nostar c : is_ws c = true -> nostar c = true.
Proof. unfold nostar. destruct (c =? 42) eqn:E; auto. apply N.eqb_eq in E. subst. vm_compute. discriminate. Qed.
Lemma forallb_impl {A} (p q : A -> bool) l : (forall x, p x = true -> q x = true) -> forallb p l = true -> forallb q l = true.
Proof. intros H. rewrite !forallb_forall. auto. Qed.
Lemma Version_nostar t v : Version t = Some v -> forallb nostar t = true.
Proof.
  unfold Version. destruct (parse_spelling t) as [sp|] eqn:E; [|discriminate]. intros _.
  destruct (parse_spelling_sound _ _ E) as [R W]. rewrite <- R, render_core, !forallb_app.
  assert (C : forallb nostar (core sp) = true) by (apply (core_P nostar nostar_digit nostar_sep nostar_letter); try reflexivity; exact W).
  destruct W as (W1 & W2 & _). rewrite C, (forallb_impl _ _ _ ws_nostar W1), (forallb_impl _ _ _ ws_nostar W2). reflexivity.
Qed.
Lemma Version_not_dotstar t v : Version t = Some v -> ends_dotstar t = false.
Proof. intros H. apply ends_dotstar_nostar. eapply Version_nostar; eauto. Qed.
Lemma dotstar_not_version t : ends_dotstar t = true -> Version t = None.
Proof. intros H. destruct (Version t) eqn:E; auto. apply Version_not_dotstar in E. congruence. Qed.
Lemma canon_not_dotstar z t v : Version t = Some v -> ends_dotstar (canon z t) = false.
Proof.
  intros E. pose proof (Version_wf _ _ E) as W. unfold canon. rewrite E. destruct z.
  - apply (Version_not_dotstar _ (trim v)). apply Version_vstr. now apply wf_trim.
  - apply (Version_not_dotstar _ v). now apply Version_vstr.
Qed.

Lemma specifier_eta a b : sp_op a = sp_op b -> sp_text a = sp_text b -> a = b.
Proof. destruct a, b; cbn. congruence. Qed.

Theorem equal_specifiers_match_alike sa sb a b c : Specifier sa = Some a -> Specifier sb = Some b ->
  sp_eqb a b = true -> VMeaning.wf_version c -> matches a c = matches b c.
Proof.
  intros Ha Hb E Wc. destruct (Specifier_interp _ _ Ha) as (fa & Ia & Fa). destruct (Specifier_interp _ _ Hb) as (fb & Ib & Fb).
  unfold matches. rewrite (compare_op_spec a fa c Wc Ia Fa), (compare_op_spec b fb c Wc Ib Fb).
  apply key_eqb_eq in E. unfold canonical_spec in E.
  destruct (sp_op a) eqn:Oa; destruct (sp_op b) eqn:Ob; try (inversion E; fail); injection E as E.
  - (* ~= *) destruct fa as [V| |]; cbn [form_ok] in Fa; try contradiction. destruct fb as [V'| |]; cbn [form_ok] in Fb; try contradiction.
    destruct (interp_ver a V Ia) as [PV _], (interp_ver b V' Ib) as [PV' _]. destruct Fa as (W & _), Fb as (W' & _).
    now rewrite (C10_compat_texts _ _ V V' PV PV' W W' E).
  - (* == *) destruct fa as [V|V|]; cbn [form_ok] in Fa; try contradiction; destruct fb as [V'|V'|]; cbn [form_ok] in Fb; try contradiction.
    + destruct (interp_ver a V Ia) as [PV _], (interp_ver b V' Ib) as [PV' _]. cbn [sem].
      now rewrite (C10_eq_congr V V' Fa Fb (C10_equal_canonical_texts_equal_versions _ _ V V' PV PV' Fa Fb E) c).
    + exfalso. destruct (interp_ver a V Ia) as [PV _], (interp_wild b V' Ib) as (_ & D & _).
      pose proof (canon_not_dotstar true _ _ PV) as N. rewrite E in N. unfold canon in N. rewrite (dotstar_not_version _ D) in N. congruence.
    + exfalso. destruct (interp_wild a V Ia) as (_ & D & _), (interp_ver b V' Ib) as [PV' _].
      pose proof (canon_not_dotstar true _ _ PV') as N. rewrite <- E in N. unfold canon in N. rewrite (dotstar_not_version _ D) in N. congruence.
    + destruct (interp_wild a V Ia) as (_ & D & _), (interp_wild b V' Ib) as (_ & D' & _).
      unfold canon in E. rewrite (dotstar_not_version _ D), (dotstar_not_version _ D') in E.
      assert (X : a = b) by (apply specifier_eta; congruence). subst b. rewrite Ia in Ib. now inversion Ib.
  - (* != *) destruct fa as [V|V|]; cbn [form_ok] in Fa; try contradiction; destruct fb as [V'|V'|]; cbn [form_ok] in Fb; try contradiction.
    + destruct (interp_ver a V Ia) as [PV _], (interp_ver b V' Ib) as [PV' _]. cbn [sem].
      now rewrite (C10_eq_congr V V' Fa Fb (C10_equal_canonical_texts_equal_versions _ _ V V' PV PV' Fa Fb E) c).
    + exfalso. destruct (interp_ver a V Ia) as [PV _], (interp_wild b V' Ib) as (_ & D & _).
      pose proof (canon_not_dotstar true _ _ PV) as N. rewrite E in N. unfold canon in N. rewrite (dotstar_not_version _ D) in N. congruence.
    + exfalso. destruct (interp_wild a V Ia) as (_ & D & _), (interp_ver b V' Ib) as [PV' _].
      pose proof (canon_not_dotstar true _ _ PV') as N. rewrite <- E in N. unfold canon in N. rewrite (dotstar_not_version _ D) in N. congruence.
    + destruct (interp_wild a V Ia) as (_ & D & _), (interp_wild b V' Ib) as (_ & D' & _).
      unfold canon in E. rewrite (dotstar_not_version _ D), (dotstar_not_version _ D') in E.
      assert (X : a = b) by (apply specifier_eta; congruence). subst b. rewrite Ia in Ib. now inversion Ib.
  - (* <= *) destruct fa as [V| |]; cbn [form_ok] in Fa; try contradiction. destruct fb as [V'| |]; cbn [form_ok] in Fb; try contradiction.
    destruct (interp_ver a V Ia) as [PV _], (interp_ver b V' Ib) as [PV' _]. destruct Fa as (W & _), Fb as (W' & _). cbn [sem].
    now rewrite (C10_le_congr V V' (C10_equal_canonical_texts_equal_versions _ _ V V' PV PV' W W' E) c).
  - (* >= *) destruct fa as [V| |]; cbn [form_ok] in Fa; try contradiction. destruct fb as [V'| |]; cbn [form_ok] in Fb; try contradiction.
    destruct (interp_ver a V Ia) as [PV _], (interp_ver b V' Ib) as [PV' _]. destruct Fa as (W & _), Fb as (W' & _). cbn [sem].
    now rewrite (C10_ge_congr V V' (C10_equal_canonical_texts_equal_versions _ _ V V' PV PV' W W' E) c).
  - (* < *) destruct fa as [V| |]; cbn [form_ok] in Fa; try contradiction. destruct fb as [V'| |]; cbn [form_ok] in Fb; try contradiction.
    destruct (interp_ver a V Ia) as [PV _], (interp_ver b V' Ib) as [PV' _]. destruct Fa as (W & _), Fb as (W' & _). cbn [sem].
    now rewrite (C10_lt_congr V V' W W' (C10_equal_canonical_texts_equal_versions _ _ V V' PV PV' W W' E) c).
  - (* > *) destruct fa as [V| |]; cbn [form_ok] in Fa; try contradiction. destruct fb as [V'| |]; cbn [form_ok] in Fb; try contradiction.
    destruct (interp_ver a V Ia) as [PV _], (interp_ver b V' Ib) as [PV' _]. destruct Fa as (W & _), Fb as (W' & _). cbn [sem].
    now rewrite (C10_gt_congr V V' W W' (C10_equal_canonical_texts_equal_versions _ _ V V' PV PV' W W' E) c).
  - (* === *) assert (X : a = b) by (apply specifier_eta; congruence). subst b. rewrite Ia in Ib. now inversion Ib.
Qed.
(* hence every list of constructor-built members satisfies the premise of the C05 duplicate / & theorems *)
Theorem built_respects l : Forall built l -> respects l.
Proof.
  intros H x y Hx Hy E c Wc. rewrite Forall_forall in H. destruct (H x Hx) as (tx & Tx), (H y Hy) as (ty & Ty).
  unfold mmatch. eapply equal_specifiers_match_alike; eauto.
Qed.
Lemma SpecifierSet_built s p S : SpecifierSet s p = Some S -> Forall built (ms S).
Proof.
  intros H. apply Forall_forall. intros m Hm. destruct (SpecifierSet_members s p S H m Hm) as (t & _ & Ht). exists t. exact Ht.
Qed.
Lemma map_opt_built ts l : map_opt Specifier ts = Some l -> Forall built (map mk_member l).
Proof.
  intros H. apply Forall_forall. intros m Hm. apply in_map_iff in Hm as (sp & <- & Hsp).
  destruct (SetsParse.map_opt_in _ _ _ H sp Hsp) as (t & _ & Ht). exists t. exact Ht.
Qed.
(* the C05 theorems about duplicates and & without any premise, for sets built from texts *)
Theorem and_is_both_text a b pa pb A B C x inst item c : SpecifierSet a pa = Some A -> SpecifierSet b pb = Some B ->
  set_and A B = Some C -> Version item = Some c ->
  exists u v, set_contains A (Some x) inst item = Ans u /\ set_contains B (Some x) inst item = Ans v /\
              set_contains C (Some x) inst item = Ans (u && v).
Proof.
  intros HA HB E V. apply (and_is_both A B C x inst item c E); eauto using SpecifierSet_wf.
  apply built_respects. apply Forall_app. split; eapply SpecifierSet_built; eauto.
Qed.
Theorem text_order_dup_irrelevant_text s s' p p' S :
  SpecifierSet s p = Some S -> (forall t, In t (clauses s) <-> In t (clauses s')) ->
  exists S', SpecifierSet s' p' = Some S' /\
    forall b inst item, set_contains S (Some b) inst item = set_contains S' (Some b) inst item.
Proof.
  intros H I. unfold SpecifierSet in H. destruct (map_opt Specifier (clauses s)) as [l|] eqn:M; [|discriminate].
  destruct (text_order_dup_irrelevant s s' p p' l M I) as (S1 & S2 & E1 & E2 & Q).
  - apply built_respects. eapply map_opt_built; eauto.
  - pose proof (map_opt_built _ _ M) as B. apply built_wf in B. rewrite Forall_forall in *. intros sp Hsp.
    apply (B (mk_member sp)). now apply in_map.
  - exists S2. split; auto. unfold SpecifierSet in E1. rewrite M in E1. inversion H; inversion E1; subst. exact Q.
Qed.
Print Assumptions built_respects.
Print Assumptions and_is_both_text.

