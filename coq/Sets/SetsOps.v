(* Further operations of SpecifierSet as written in specifiers.py: a & "text", set == "text", set == Specifier.
   Definitions only (this file is extracted; RunSets.exec calls these functions). *)
From Coq Require Import List Arith NArith Bool.
Import ListNotations.
Require Import S1 VParse Py VMeaning SpecModel SpecParse SpecContains SetModel SetsModel.
Open Scope N_scope.

(* SpecifierSet.__and__(self, other : str):  other = SpecifierSet(other)  [InvalidSpecifier]  then the merge  [ValueError] *)
Inductive and_result := AndOk (C : sset) | AndInvalid | AndConflict.
Definition set_and_str (A : sset) (t : str) : and_result :=
  match SpecifierSet t None with
  | None => AndInvalid
  | Some B => match set_and A B with Some C => AndOk C | None => AndConflict end
  end.

(* SpecifierSet.__eq__(self, other : str | Specifier):  other = SpecifierSet(str(other)) ; None = InvalidSpecifier escapes from == *)
Definition set_eq_str (A : sset) (t : str) : option bool :=
  match SpecifierSet t None with Some B => Some (set_eqb A B) | None => None end.
Definition set_eq_spec (A : sset) (sp : specifier) : option bool := set_eq_str A (spec_str sp).
