#!/bin/sh
# Offline cold build of the framework: Coq development (full .vo) + extraction + OCaml driver.
D=$(cd "$(dirname "$0")" && pwd)
PY=python3-vt; command -v $PY >/dev/null 2>&1 || PY=python3
exec $PY - <<PYEOF
import sys
sys.path.insert(0, "$D/harness")
import core
b = core.build()
print("build ok" if b["ok"] else "BUILD FAILED", b.get("stage"), round(b.get("wall", 0), 1), "s")
if not b["ok"]:
    print(b.get("log", "")[-3000:]); print(b.get("errors"))
    sys.exit(1)
PYEOF
