"""Generators for single specifiers and related candidates (C03, C04, C12)."""
from dataclasses import replace
import gen

OPS = ["~=", "==", "!=", "<=", ">=", "<", ">", "==="]
WS = ["", "", "", " ", "  ", "\t", " ", "\n"]


def spec_version(rng, op, v=None, admissible_p=0.9):
    """(text, structured V or None, wildcard?) for operator op; mostly admissible forms."""
    v = v or gen.rand_v(rng, local_p=0.25)
    adm = rng.random() < admissible_p
    wild = False
    if op in ("==", "!="):
        if rng.random() < 0.3:
            wild = True
            v = gen.V(v.epoch, v.release, None, None, None, None) if adm else v
        elif not adm and rng.random() < 0.5:
            pass
    elif op == "~=":
        if adm:
            v = replace(v, local=None)
            if len(v.release) < 2: v = replace(v, release=v.release + (rng.choice(gen.SMALL),))
        else:
            v = replace(v, release=v.release[:1]) if rng.random() < 0.5 else v
    elif op == "===":
        pass
    else:
        if adm: v = replace(v, local=None)
    txt = gen.spell(rng, v, ws=False)
    if wild: txt += ".*"
    return txt, v, wild


def spec_string(rng, op=None, v=None, admissible_p=0.9):
    op = op or rng.choice(OPS)
    if op == "===" and rng.random() < 0.6:
        V3 = v or gen.rand_v(rng, local_p=0.3)
        return rng.choice(WS) + op + rng.choice(WS) + gen.rand_case(rng, gen.vstr(V3)) + rng.choice(WS), op, V3, False
    if op == "===" and rng.random() < 0.5:
        txt = rng.choice(["foo", "1.0", "1.0.0", "1.0A1", "v1", "a,b", "1.0+X", "x" * rng.randrange(1, 4), "*", "1.0.post1", "1.0a1"])
        return rng.choice(WS) + op + rng.choice(WS) + txt + rng.choice(WS), op, None, False
    txt, V, wild = spec_version(rng, op, v, admissible_p)
    return rng.choice(WS) + op + rng.choice(WS) + txt + rng.choice(WS), op, V, wild


def related_candidates(rng, V, n=3):
    """Candidates near the specifier's version: equal spellings, locals, neighbours, a few unrelated."""
    out = []
    if V is None:
        return [gen.spell(rng, gen.rand_v(rng)) for _ in range(n)]
    nb = gen.neighbours(rng, V) + [V, gen.rand_v(rng)]
    for _ in range(n):
        c = rng.choice(nb)
        if rng.random() < 0.3: c = rng.choice(gen.neighbours(rng, c))
        out.append(gen.spell(rng, c, ws=rng.random() < 0.3))
    return out
