"""Generators for single specifiers and related candidates (C03, C04, C12)."""
from dataclasses import replace
import gen

OPS = ["~=", "==", "!=", "<=", ">=", "<", ">", "==="]
WS = ["", "", "", " ", "  ", "\t", " ", "\n"]
# every code point Python's \s / str.strip() treats as whitespace (the 29 entries of VParse.ws_table), beyond the ASCII ones above
WS_UNI = ["\x0b", "\x0c", "\r", "\x1c", "\x1d", "\x1e", "\x1f", "\x85", "\xa0", "\u1680", "\u2000", "\u2001", "\u2002", "\u2003", "\u2004",
          "\u2005", "\u2006", "\u2007", "\u2008", "\u2009", "\u200a", "\u2028", "\u2029", "\u202f", "\u205f", "\u3000"]
WS_U = WS + WS + WS_UNI + [a + b for a in ("\u2003", "\x85", " ") for b in ("\xa0", "\x1f", "\t")]      # ~1/3 empty, ~1/2 with a non-ASCII space


def spec_version(rng, op, v=None, admissible_p=0.9):
    """(text, structured V or None, wildcard?) for operator op; mostly admissible forms."""
    v = v or gen.rand_v(rng, local_p=0.25)
    adm = rng.random() < admissible_p
    wild = False
    if op in ("==", "!="):
        if rng.random() < 0.3:
            wild = True
            v = gen.V(v.epoch, v.release, None, None, None, None) if adm else v
        elif not adm and rng.random() < 0.5:
            pass
    elif op == "~=":
        if adm:
            v = replace(v, local=None)
            if len(v.release) < 2: v = replace(v, release=v.release + (rng.choice(gen.SMALL),))
        else:
            v = replace(v, release=v.release[:1]) if rng.random() < 0.5 else v
    elif op == "===":
        pass
    else:
        if adm: v = replace(v, local=None)
    txt = gen.spell(rng, v, ws=False)
    if wild: txt += ".*"
    return txt, v, wild


def spec_string(rng, op=None, v=None, admissible_p=0.9, ws=None):
    """ws: the pool the three whitespace positions are drawn from (default: the ASCII pool WS; WS_U adds every Unicode space)."""
    WS = ws or globals()["WS"]
    op = op or rng.choice(OPS)
    if op == "===" and rng.random() < 0.6:
        V3 = v or gen.rand_v(rng, local_p=0.3)
        return rng.choice(WS) + op + rng.choice(WS) + gen.rand_case(rng, gen.vstr(V3)) + rng.choice(WS), op, V3, False
    if op == "===" and rng.random() < 0.5:
        txt = rng.choice(["foo", "1.0", "1.0.0", "1.0A1", "v1", "a,b", "1.0+X", "x" * rng.randrange(1, 4), "*", "1.0.post1", "1.0a1"])
        return rng.choice(WS) + op + rng.choice(WS) + txt + rng.choice(WS), op, None, False
    txt, V, wild = spec_version(rng, op, v, admissible_p)
    return rng.choice(WS) + op + rng.choice(WS) + txt + rng.choice(WS), op, V, wild


def related_candidates(rng, V, n=3):
    """Candidates near the specifier's version: equal spellings, locals, neighbours, a few unrelated."""
    out = []
    if V is None:
        return [gen.spell(rng, gen.rand_v(rng)) for _ in range(n)]
    nb = gen.neighbours(rng, V) + [V, gen.rand_v(rng)]
    for _ in range(n):
        c = rng.choice(nb)
        if rng.random() < 0.3: c = rng.choice(gen.neighbours(rng, c))
        out.append(gen.spell(rng, c, ws=rng.random() < 0.3))
    return out


# ---------------------------------------------------------------------------------------------- wider input classes (C03/C04 audit)
def pad_ws(rng, text, p=0.5):
    """Surround a candidate text with whitespace Version() strips, Unicode spaces included."""
    if rng.random() >= p: return text
    return rng.choice(WS_U) + text + rng.choice(WS_U)


def zero_tail(rng, v):
    """v with 1-4 zero components appended to its release: a ==V.* prefix that only a zero-padded candidate can match."""
    return replace(v, release=v.release + (0,) * rng.choice([1, 2, 2, 3, 4]))


def long_release(rng, v):
    """a release of 9-14 components"""
    n = rng.randrange(9, 15)
    return replace(v, release=(v.release + tuple(gen.small(rng) for _ in range(n)))[:n])


def related_structured(rng, V, n=3):
    """Structured candidates near V: neighbours, equal shapes, releases cut back into / padded beyond V's zero tail, a few unrelated."""
    if V is None: return [gen.rand_v(rng) for _ in range(n)]
    nb = gen.neighbours(rng, V) + [V, gen.rand_v(rng)]
    rel = list(V.release)
    k = len(rel)
    while k > 1 and rel[k - 1] == 0: k -= 1
    trunc = []
    for j in range(k, len(rel)):                                      # every truncation inside the zero tail (multi-zero padding must succeed)
        trunc.append(replace(V, release=tuple(rel[:j])))
        trunc.append(replace(V, release=tuple(rel[:j]), pre=rng.choice([None, ("rc", 1)]), post=rng.choice([None, 0]), local=rng.choice([None, ("x",)])))
    if len(rel) > 2: nb.append(replace(V, release=tuple(rel[:rng.randrange(1, len(rel) - 1)])))       # a proper prefix (matches only if the rest is zero)
    nb.append(replace(V, release=V.release + (0,) * rng.randrange(3, 8)))                             # far longer than the specifier
    nb.append(replace(V, release=V.release + (0,) * rng.randrange(1, 4) + (1,)))
    out = []
    for _ in range(n):
        if trunc and rng.random() < 0.4: c = rng.choice(trunc)
        else:
            c = rng.choice(nb)
            if rng.random() < 0.3: c = rng.choice(gen.neighbours(rng, c))
        out.append(gen.fix_local(c))
    return out


CONFUSABLE = {"k": "\u212a", "K": "\u212a", "i": "\u0130", "I": "\u0130", "s": "\u017f", "S": "\u017f"}


def confuse(rng, text, only=None):
    """Replace some k/i/s by U+212A KELVIN SIGN / U+0130 / U+017F (the non-ASCII characters re.IGNORECASE or str.lower() relate to ASCII letters).
    Returns (text', set of the substitutes used)."""
    out, used = [], set()
    for ch in text:
        r = CONFUSABLE.get(ch)
        if r is not None and (only is None or r in only) and rng.random() < 0.6:
            out.append(r); used.add(r)
        else: out.append(ch)
    return "".join(out), used


# ---- an independent structured reading of the statement of C03 (third leg: neither the implementation nor the Coq model/sem) ----
def _pub(c): return replace(c, local=None)
def _is_pre(v): return v.pre is not None or v.dev is not None
def _is_post(v): return v.post is not None
def _base(v): return gen.rank(gen.V(v.epoch, v.release, None, None, None, None))


def oracle(op, V, wild, c):
    """contains(c, prereleases=True) of the specifier op V (op V.* if wild), from the structured versions only."""
    R = gen.rank
    if op in ("==", "!="):
        if wild:
            n = len(V.release)
            padded = (tuple(c.release) + (0,) * n)[:n]
            r = c.epoch == V.epoch and padded == tuple(V.release)
        elif V.local is None: r = R(_pub(c)) == R(V)
        else: r = R(c) == R(V)
        return r if op == "==" else not r
    if op == "~=":
        P = gen.V(V.epoch, V.release[:-1], None, None, None, None)
        return oracle(">=", V, False, c) and oracle("==", P, True, c)
    if op == "<=": return R(_pub(c)) <= R(V)
    if op == ">=": return R(_pub(c)) >= R(V)
    if op == "<":
        if not R(c) < R(V): return False
        return not (not _is_pre(V) and _is_pre(c) and _base(c) == _base(V))
    if op == ">":
        if not R(_pub(c)) > R(V): return False                                # a local version of V is not greater than V here
        return not (not _is_post(V) and _is_post(c) and _base(c) == _base(V))
    raise ValueError(op)
