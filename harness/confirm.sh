#!/bin/bash
# confirm.sh <id> <checks...> : suite + demo on a worktree with seeded/<id>/patch.diff, then the checks
ID=$1; shift; WT=/tmp/confirm_$ID
git -C /repo worktree remove --force $WT 2>/dev/null; git -C /repo worktree add -q $WT HEAD
(cd $WT && git apply /verif/seeded/$ID/patch.diff) || { echo "$ID: PATCH FAILED"; git -C /repo worktree remove --force $WT; exit; }
S=$(cd $WT && PYTHONPATH=$WT/src /venv/bin/python -m pytest -q -p no:cacheprovider -x 2>&1 | tail -1)
D1=$(cd /verif/seeded/$ID && PYTHONPATH=$WT/src /venv/bin/python demo.py >/dev/null 2>&1; echo $?)
D0=$(cd /verif/seeded/$ID && PYTHONPATH=/repo/src /venv/bin/python demo.py >/dev/null 2>&1; echo $?)
printf "%s: suite[%s] demo changed=%s unchanged=%s " $ID "$S" $D1 $D0
for c in "$@"; do out=$(cd /verif && VERIF_REPO=$WT ./check $c 2>&1); n=$(echo "$out" | grep -c "^VIOLATION"); printf "%s violations: %s " $c $n
  if [ $n -gt 0 ]; then F=$(echo "$out" | grep -m1 "^VIOLATION" | sed "s/.*replay=\([^ ]*\).*/\1/"); cp "$F" /verif/seeded/$ID/caught_by_$c.json; fi; done; echo
git -C /repo worktree remove --force $WT
