"""Runs in the implementation interpreter: dumps the data tables of the working tree into coq/Gen/*.v."""
import os, sys
out = sys.argv[1]
os.makedirs(out, exist_ok=True)
def write(name, text):
    p = os.path.join(out, name)
    if not os.path.exists(p) or open(p).read() != text:
        open(p, "w").write(text)
