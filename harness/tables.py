"""Runs in the implementation interpreter: dumps the data tables of the working tree into coq/Gen/*.v.
Each harness/tables_*.py module defines dump(write) and is called with write(name, text) (rewrites only on change)."""
import glob, importlib, os, sys
out = sys.argv[1]
os.makedirs(out, exist_ok=True)
def write(name, text):
    p = os.path.join(out, name)
    if not os.path.exists(p) or open(p).read() != text:
        open(p, "w").write(text)
here = os.path.dirname(os.path.abspath(__file__))
sys.path.insert(0, here)
for f in sorted(glob.glob(os.path.join(here, "tables_*.py"))):
    importlib.import_module(os.path.basename(f)[:-3]).dump(write)
