#!/bin/bash
# quickpass.sh <logfile>: every check once on the unchanged tree, four at a time; one line per check
cd /verif
LOG="$1"
: > "$LOG"
run() { for p in "$@"; do out=$(./check $p 2>&1); rc=$?; echo "$(echo "$out" | grep -v '^KNOWN-FINDING' | tail -1) | exit=$rc violations=$(echo "$out" | grep -c '^VIOLATION') known-findings=$(echo "$out" | grep -c '^KNOWN-FINDING')" >> "$LOG"; done; }
run C01 C05 C09 C13 C17 & run C02 C06 C10 C14 C18 & run C03 C07 C11 C15 C19 & run C04 C08 C12 C16 C20 & wait
sort -o "$LOG" "$LOG"
