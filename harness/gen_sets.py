"""Generators of the specifier-set domain (C05, C06): clauses, clause lists, layouts, candidates related to the clauses."""
from dataclasses import replace
import gen

OPS = ["==", "!=", "~=", "<=", ">=", "<", ">", "===", "==*", "!=*"]
TRI = ["N", "N", "T", "F"]
# with the non-bool values the code reads by truthiness: ints for overrides (1 == True, so `&` still sees them as equal), ints and strs for call arguments
TRI_OV = ["N", "N", "N", "T", "T", "F", "F", "1", "0"]
TRI_ARG = ["N", "N", "N", "T", "T", "F", "F", "1", "0", "S", "E"]
# separators / padding: ASCII, NBSP, EM SPACE, and the code points str.strip() and the regex \s treat as space that are easy to forget:
# U+0085 NEL, U+2028 LINE SEPARATOR, U+001C FILE SEPARATOR
SEP = [",", ",", ", ", " , ", " ,", ",,", ",\n", ",\t ", ",\u00a0", "\u2003, ", ",\x85", "\u2028,", ",\x1c ", "\x85,\u2028", ",\x85,", ",\x1c\u2028,"]
LEAD = ["", "", "", " ", ",", ", ", "\n", "\x85", "\u2028 ", "\x1c"]
TAIL = ["", "", "", " ", ",", ",, ", " \t", "\x85", " \u2028", "\x1c"]
# texts of '===' (any run of non-space characters): plain, version-like, with a comma (D19), case-fold confusables whose str.lower() is
# special (U+017F, U+212A KELVIN SIGN -> k, U+0130 -> i + U+0307), upper-case local labels
ARB = ["foo", "1.0", "1.0.0", "1.0a1", "a,b", "1.0+LOCAL", "v1", "1.0.dev0", "x;y", "\u017f", ">=1", "1.0,>=2",
       "\u212a", "\u0130", "1.0+K", "1.0+\u212a", "1.0+\u0130", "1.0+k", "1.0RC1"]
ARB_CANDS = ["1.0+k", "1.0+K", "1.0+i", "1.0rc1", "1.0", "1.0+local"]


def base(v): return gen.V(v.epoch, v.release, None, None, None, None)
def public(v): return replace(v, local=None)


def small_v(rng):
    """versions from a deliberately tiny space so that clauses and candidates collide often"""
    rel = tuple(rng.choice([0, 1, 1, 2]) for _ in range(rng.choice([1, 2, 2, 3])))
    return gen.V(rng.choice([0, 0, 0, 0, 1]), rel, rng.choice([None, None, None, ("a", 1), ("rc", 0)]), rng.choice([None, None, None, 0, 1]),
                 rng.choice([None, None, None, 0]), rng.choice([None, None, None, None, ("x",), (1,)]))


def rand_v(rng):
    return small_v(rng) if rng.random() < 0.6 else gen.rand_v(rng)


def clause_of(rng, v, op=None, plain=False):
    op = op or rng.choice(OPS)
    w = op.endswith("*"); op = op.rstrip("*")
    if op == "===":
        if rng.random() < 0.4: return "===" + rng.choice(["", " ", "\x85"]) + rng.choice(ARB)
        return "===" + gen.vstr(v)
    if w: v = base(v)
    if op not in ("==", "!="): v = public(v)
    if op == "~=" and len(v.release) < 2: v = replace(v, release=v.release + (0,))
    if plain or rng.random() < 0.55: t = gen.vstr(v)
    else: t = gen.spell(rng, v, ws=False)
    return op + rng.choice(["", "", "", " ", "\t", "\u2028", "\x1c\x85"]) + t + (".*" if w else "")


def clause(rng, pool=None):
    v = rng.choice(pool) if pool and rng.random() < 0.7 else rand_v(rng)
    if pool and rng.random() < 0.3: v = rng.choice(gen.neighbours(rng, v))
    return clause_of(rng, v)


def respell(rng, cl):
    """another spelling of a clause that is equal under Specifier.__eq__ (padding zeros, case, spacing) - used for the D33 stream"""
    for op in ("===", "~=", "==", "!=", "<=", ">=", "<", ">"):
        if cl.startswith(op): break
    t = cl[len(op):].strip()
    if op == "===" or t.endswith(".*"): return cl
    k = rng.random()
    if k < 0.4 and op != "~=":
        # pad the release with a zero
        i = 0
        while i < len(t) and (t[i].isdigit() or t[i] in ".!vV"): i += 1
        head = t[:i].rstrip(".")
        if head and head[-1].isdigit(): return op + head + ".0" + t[len(head):]
    if k < 0.7: return op + " " + t.upper()
    return op + t.replace("rc", "c") if "rc" in t else op + "v" + t.lstrip("vV")


def layout(rng, clauses):
    return rng.choice(LEAD) + rng.choice(SEP).join(clauses) + rng.choice(TAIL) if clauses else rng.choice(["", " ", ",", " , ,", "\n"])


def pool_of(rng, n=2):
    out = []
    for _ in range(n):
        v = rand_v(rng); out.append(v)
        out += rng.sample(gen.neighbours(rng, v), 2)
    return out


def candidate(rng, pool, valid=0.95):
    if rng.random() < 0.04: return rng.choice(ARB_CANDS)
    v = rng.choice(pool) if rng.random() < 0.75 else rand_v(rng)
    k = rng.random()
    if k < 0.35: v = rng.choice(gen.neighbours(rng, v))
    elif k < 0.5: v = replace(v, pre=rng.choice([("a", 0), ("b", 1), ("rc", 1)]))
    elif k < 0.6: v = replace(v, dev=rng.choice([0, 1]))
    elif k < 0.7: v = base(v)
    s = gen.vstr(v) if rng.random() < 0.6 else gen.spell(rng, v)
    if rng.random() > valid: s = gen.mutate(rng, s) if rng.random() < 0.7 else rng.choice(["", "foo", "1.0.*", ">=1", "1.0+", " "])
    return s


def items(rng, pool, n, valid=0.97):
    """(kind, text) pairs; about half Version objects"""
    out = []
    for _ in range(n):
        out += [rng.choice("sv"), candidate(rng, pool, valid)]
    return out
