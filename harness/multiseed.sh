#!/bin/bash
# multiseed.sh <logfile> <seeds> <checks...>: the given checks on the unchanged tree under several generator seeds (checks in parallel, seeds in turn)
cd /verif
LOG="$1"; SEEDS="$2"; shift; shift
: > "$LOG"
one() { p=$1; for s in $SEEDS; do out=$(VERIF_SEED=$s ./check $p 2>&1); rc=$?; echo "seed=$s $(echo "$out" | grep -v '^KNOWN-FINDING' | tail -1) | exit=$rc violations=$(echo "$out" | grep -c '^VIOLATION')" >> "$LOG"; done; }
for p in "$@"; do one $p & done
wait
sort -o "$LOG" "$LOG"
