"""Gen/MetaTable.v: the data metadata.py is parametrised by, obtained *behaviourally* from the working tree through the public API
(Metadata.from_raw probed with one valid value per field under each candidate metadata version; parse_email probed with candidate
header names).  No private name of packaging.metadata is read.  Runs in the implementation interpreter."""

CANDIDATE_VERSIONS = ["0.9", "1.0", "1.1", "1.2", "1.3", "2.0", "2.1", "2.2", "2.3", "2.4", "2.5", "3.0"]
# one valid value per field, in core-metadata order (the order of the generated table)
VALID = [
    ("metadata_version", None), ("name", None), ("version", None),
    ("platforms", ["x"]), ("summary", "s"), ("description", "d"), ("keywords", ["k"]), ("home_page", "h"), ("author", "a"),
    ("author_email", "e"), ("license", "l"),
    ("supported_platforms", ["x"]), ("download_url", "u"), ("classifiers", ["c"]), ("requires", ["r"]), ("provides", ["p"]),
    ("obsoletes", ["o"]),
    ("maintainer", "m"), ("maintainer_email", "e"), ("requires_dist", ["a>1"]), ("provides_dist", ["p"]), ("obsoletes_dist", ["o"]),
    ("requires_python", ">=3"), ("requires_external", ["x"]), ("project_urls", {"a": "b"}),
    ("description_content_type", "text/plain"), ("provides_extra", ["x"]),
    ("dynamic", ["summary"]),
    ("license_expression", "MIT"), ("license_files", ["LICENSE"]),
]


def coq_str(s):
    return "[" + ";".join(str(ord(c)) for c in s) + "]"


def probe():
    from packaging.metadata import Metadata, parse_email, ExceptionGroup, RawMetadata

    def accepts(d):
        try:
            Metadata.from_raw(d)
            return True
        except ExceptionGroup:
            return False

    versions = [mv for mv in CANDIDATE_VERSIONS if accepts({"metadata_version": mv, "name": "n", "version": "1"})]
    fields = list(VALID)
    # a field the class declares that this list does not know yet: probe it with a generic value so that the table (and the lemma) changes
    for k, t in getattr(RawMetadata, "__annotations__", {}).items():
        if k not in dict(VALID):
            ts = str(t)
            fields.append((k, {} if "dict" in ts else ["x"] if "list" in ts else "x"))
    rows = []
    for f, v in fields:
        if v is None:
            ok = versions[:] if all(accepts({"metadata_version": mv, "name": "n", "version": "1"}) for mv in versions) else []
        else:
            ok = [mv for mv in versions if accepts({"metadata_version": mv, "name": "n", "version": "1", f: v})]
        # "added in": the first accepting version, provided acceptance is upward closed; "?" otherwise
        added = ok[0] if ok and ok == versions[versions.index(ok[0]):] else "?"
        base = f.replace("_", "-")
        cands = [base, base[:-1] if base.endswith("s") else base, base.rstrip("s"), "classifier" if f == "classifiers" else base]
        email_name, kind = "?", 9
        for cand in dict.fromkeys(cands):
            raw, unparsed = parse_email("%s: x, y\n" % cand)
            if f in raw:
                email_name = cand
                val = raw[f]
                kind = 0 if val == "x, y" else 1 if val == ["x, y"] else 2 if val == ["x", "y"] else 3 if val == {"x": "y"} else 9
        rows.append((f, email_name, added, kind))
    return versions, rows


def render(versions, rows):
    out = ["(* GENERATED on every run by harness/tables_meta.py from the working tree (behavioural probes of Metadata.from_raw and",
           "   parse_email through the public API).  Do not edit.  Kinds: 0 string, 1 list, 2 keywords (comma-split list), 3 label->url dict. *)",
           "From Coq Require Import List NArith.", "Import ListNotations.", "Open Scope N_scope.", "",
           "Definition gen_valid_versions : list (list N) :=",
           "  [ " + ";\n    ".join("%s (* %s *)" % (coq_str(v), v) for v in versions) + " ].", "",
           "(* raw key, (email header name (lower case), (added in, kind)) *)",
           "Definition gen_fields : list (list N * (list N * (list N * N))) :=",
           "  [ " + ";\n    ".join("(%s, (%s, (%s, %d))) (* %s  %s  %s *)" % (coq_str(f), coq_str(e), coq_str(a), k, f, e, a) for f, e, a, k in rows) + " ].", ""]
    return "\n".join(out)


def dump(write):
    versions, rows = probe()
    write("MetaTable.v", render(versions, rows))


if __name__ == "__main__":
    v, r = probe()
    print(render(v, r))
