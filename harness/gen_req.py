"""Structured generators for PEP 508 requirements (C08): name x extras x (clause list | @ url) x marker x whitespace layout.
Every random choice comes from the rng passed in.  A generated requirement is a dict (the structure) plus render(rng, R, layout)."""
import gen

NAMES = ["a", "A", "foo", "Foo.Bar", "foo_bar-baz", "a1", "1a", "x-y.z_w", "pkg9", "FOO", "f", "0", "a.b", "a--b", "a_.-b", "zope.interface",
         "Django", "typing_extensions", "ruamel.yaml.clib", "A-B_C.D", "x" * 40, "a_", "foo_", "Foo.Bar-_"]
EXTRAS = ["x", "Y", "a-b", "a_b.c", "e1", "X", "y", "A_B", "security", "socks", "1", "a.-_b", "x_", "a-b_"]
URLS = ["http://x.y/z", "https://a/b#egg=c", "file:///tmp/x", "git+https://g/h@v1.0", "http://x/;y", "x", "-", "http://h/p?q=1&r=(2)", "a,b",
        "https://e.org/[x]", "u;python_version<'3'", "===1", ">=1", "éè", "http://x/a|b"]
VARS = ["python_version", "python_full_version", "os_name", "sys_platform", "platform_release", "platform_system", "platform_version",
        "platform_machine", "platform_python_implementation", "implementation_name", "implementation_version", "extra",
        "os.name", "sys.platform", "platform.version", "platform.machine", "platform.python_implementation", "python_implementation"]
MOPS = ["==", "!=", "<", "<=", ">", ">=", "~=", "===", "in", "not in"]
LITS = ["3.8", "3", "2.7.*", "posix", "win32", "Linux", "x86_64", "CPython", "cpython", "1.0.0", "", " ", "a b", "it's", 'say "hi"', "Foo_Bar",
        "foo.bar", "a--b", "X", "x", "e1", "linux2", "3.10", "#1 SMP", "é", "a;b", "a)b", "(", "or", "and"]
BLANKS = ["", "", "", " ", "  ", "\t", " \t"]
# every character of Python's \s (str patterns) / str.strip(): the whitespace allowed between an operator and its version
WS_ALL = [chr(c) for c in (9, 10, 11, 12, 13, 28, 29, 30, 31, 32, 133, 160, 5760, 8192, 8193, 8194, 8195, 8196, 8197, 8198, 8199, 8200, 8201,
                           8202, 8232, 8233, 8239, 8287, 12288)]
URL_CH = list("abcxyz019:/?#[]@!$&'()*+,;=-._~%|<>\"{}^`") + ["é", "\n", "\x0b", "\xa0", "\u2003", "İ", "ſ", "\x00"]


def ws(rng):
    return rng.choice(BLANKS)


def clause_ws(rng):
    """whitespace between the operator and the version: mostly none / blanks, sometimes 1-2 characters of the full \\s table"""
    k = rng.random()
    if k < 0.55: return ""
    if k < 0.8: return rng.choice([" ", "\t", "  "])
    return "".join(rng.choice(WS_ALL) for _ in range(rng.choice([1, 1, 2])))


def rand_url(rng):
    """a URL token: [^ \\t]+ - a realistic literal, or 1..13 random non-blank characters (incl. newline, \\v, NBSP, non-ASCII)"""
    if rng.random() < 0.5: return rng.choice(URLS)
    return "".join(rng.choice(URL_CH) for _ in range(rng.choice([1, 2, 3, 5, 8, 13])))


def rand_ident(rng):
    if rng.random() < 0.7: return rng.choice(NAMES)
    n = rng.choice([1, 2, 3, 5, 8])
    first = rng.choice("abzAZ09")
    if n == 1: return first
    mid = "".join(rng.choice("abzAZ019._-") for _ in range(n - 2))
    return first + mid + rng.choice("abzAZ09abzAZ09_")          # the IDENTIFIER rule also takes a final "_" (a \w character)


def name_variant(rng, name):
    """another spelling of the same PEP 503 name: case changes, separator runs replaced by other runs (ends stay alphanumeric)"""
    out, i = [], 0
    while i < len(name):
        c = name[i]
        if c in "._-":
            j = i
            while j < len(name) and name[j] in "._-": j += 1
            if j == len(name): out.append(rng.choice(["_", "-_", "._", "__", name[i:j]]))      # a final run must end in "_" to stay one token
            else: out.append(rng.choice(["-", "_", ".", "--", "-_", "._.", name[i:j]]))
            i = j
        else:
            out.append(c.upper() if rng.random() < 0.3 else c.lower() if rng.random() < 0.3 else c)
            i += 1
    return "".join(out)


def drop_local(v): return gen.replace(v, local=None)
def base_of(v): return gen.V(v.epoch, v.release, None, None, None, None)


def rand_clause(rng, arb_p=0.08):
    """(operator, inner whitespace, version text); valid per PEP 440's operator table about 97 % of the time"""
    v = gen.rand_v(rng)
    if rng.random() < arb_p:
        t = rng.choice([gen.vstr(v), "foo", "1.0-x_y", "z", "1.0+ubuntu", "A.B", "1.0.*", "é", "=1", "x(y"])
        return ("===", clause_ws(rng), t)
    op = rng.choice(["==", "!=", "~=", "<=", ">=", "<", ">", "==", ">=", "==*", "!=*"])
    wild = op.endswith("*"); op = op.rstrip("*")
    if wild: v = base_of(v)
    if op not in ("==", "!=") and rng.random() < 0.97: v = drop_local(v)
    if op == "~=" and len(v.release) < 2 and rng.random() < 0.95: v = gen.replace(v, release=v.release + (0,))
    if rng.random() < 0.5: t = gen.vstr(v)
    else: t = gen.spell(rng, v, ws=False, vprefix=rng.random() < 0.3)
    return (op, clause_ws(rng), t + (".*" if wild else ""))


def raw_key(c):
    """clauses whose canonical key is (operator, raw text): '===' and prefix matches (canonicalize_version leaves 'V.*' alone)"""
    return c[0] == "===" or c[2].endswith(".*")


def clause_variant(rng, c):
    """another spelling of an equal clause (same operator, equal version): trailing zeros, v prefix, alternate words"""
    op, w, t = c
    if raw_key(c): return (op, clause_ws(rng), t)
    k = rng.random()
    if k < 0.3 and "+" not in t and not any(ch.isalpha() for ch in t) and op != "~=": return (op, clause_ws(rng), t + ".0")
    if k < 0.5: return (op, clause_ws(rng), "v" + t if not t.startswith(("v", "V")) else t)
    if k < 0.7: return (op, clause_ws(rng), t.upper())
    return (op, clause_ws(rng), t)


def raw_text_variant(rng, c):
    """a DIFFERENT text for a clause compared by raw text: what would be an equal version elsewhere (trailing zero, case, v prefix,
    leading zero) is a different clause under '===' and for prefix matches"""
    op, w, t = c
    wild = t.endswith(".*") and op != "==="
    base = t[:-2] if wild else t
    cands = [base + ".0", base.swapcase(), "v" + base, "0" + base, base.upper(), base.lower(), base + "0"]
    if base.endswith(".0"): cands.append(base[:-2])
    cands = [x for x in cands if x != base and x and not any(ch in x for ch in " \t,;)")]
    if not cands: cands = [base + ".0"]
    return (op, clause_ws(rng), rng.choice(cands) + (".*" if wild else ""))


def rand_side(rng, want_var):
    if want_var: return ("var", rng.choice(VARS))
    return ("lit", rng.choice(LITS))


def rand_marker_tree(rng, depth):
    """list alternating atoms and 'and'/'or'; atom = ('item', l, op, r) | ('group', tree)"""
    n = rng.choice([1, 1, 1, 2, 2, 3])
    out = []
    for i in range(n):
        if i: out.append(rng.choice(["and", "or"]))
        if depth > 0 and rng.random() < 0.3:
            out.append(("group", rand_marker_tree(rng, depth - 1)))
        else:
            k = rng.random()
            if k < 0.6: l, r = rand_side(rng, True), rand_side(rng, False)
            elif k < 0.85: l, r = rand_side(rng, False), rand_side(rng, True)
            elif k < 0.93: l, r = rand_side(rng, True), rand_side(rng, True)
            else: l, r = rand_side(rng, False), rand_side(rng, False)
            if rng.random() < 0.25:
                ex = ("var", "extra"); lit = ("lit", rng.choice(["Foo_Bar", "foo-bar", "X", "x", "a.-_b", "e1", "A--B", ""]))
                l, r = (ex, lit) if rng.random() < 0.7 else (lit, ex)
            out.append(("item", l, rng.choice(MOPS), r))
    return out


def quote(rng, v):
    if '"' in v and "'" in v: v = v.replace("'", "")
    if '"' in v: return "'" + v + "'"
    if "'" in v: return '"' + v + '"'
    q = rng.choice("\"'")
    return q + v + q


def render_side(rng, s):
    return s[1] if s[0] == "var" else quote(rng, s[1])


def render_marker(rng, tree, canonical=False):
    w = (lambda: "") if canonical else (lambda: ws(rng))
    sp = (lambda: " ") if canonical else (lambda: rng.choice([" ", " ", "  ", "\t"]))
    out = []
    for e in tree:
        if isinstance(e, str):
            out.append(sp() + e + sp())
        elif e[0] == "group":
            out.append(w() + "(" + w() + render_marker(rng, e[1], canonical) + w() + ")" + w())
        else:
            _, l, op, r = e
            o = op if op != "not in" or canonical else "not" + sp() + "in"
            # word operators need a separator next to a variable name; symbolic ones do not
            g = sp if op in ("in", "not in") else (lambda: " " if canonical else rng.choice(["", " ", "  "]))
            out.append(w() + render_side(rng, l) + g() + o + g() + render_side(rng, r) + w())
    return "".join(out)


def rand_req(rng, url_p=0.2, marker_p=0.4):
    R = {"name": rand_ident(rng)}
    R["extras"] = [rng.choice(EXTRAS) if rng.random() < 0.8 else rand_ident(rng) for _ in range(rng.choice([0, 0, 1, 1, 2, 2, 3, 4, 6, 9]))] if rng.random() < 0.5 else None
    if rng.random() < url_p:
        R["url"] = rand_url(rng); R["clauses"] = []; R["paren"] = False
    else:
        R["url"] = None
        R["clauses"] = [rand_clause(rng) for _ in range(rng.choice([0, 1, 1, 1, 2, 2, 2, 3, 3, 5, 8, 12]))]
        R["paren"] = rng.random() < 0.3
    R["marker"] = rand_marker_tree(rng, rng.choice([1, 2, 2, 2, 3, 4])) if rng.random() < marker_p else None
    return R


def d7_class(R, lay):
    """a '===' clause immediately followed by a comma (no whitespace in between): the SPECIFIER token swallows the comma"""
    cl = R["clauses"]
    return any(cl[i][0] == "===" and lay["cw"][i][1] == "" for i in range(len(cl) - 1))


def chain_ok(R, lay):
    """the exact D7 condition (ReqExactP.rq_chain_okb false items): a '===' token directly followed by the comma swallows the following
    clauses up to the next blank; the requirement is still read correctly iff every swallowed clause has no blank after its comma and
    no whitespace after its operator.  Theorem C08_requirement_render_exact demands acceptance when this holds, C08_D7_rejected
    rejection when it does not (for valid clause lists)."""
    cl = R["clauses"]
    chain = False
    for i, c in enumerate(cl):
        a, b = lay["cw"][i]
        if chain and (a != "" or c[1] != ""): return False
        if i == len(cl) - 1: break
        chain = (chain or c[0] == "===") and b == ""
    return True


def rand_layout(rng, R, canonical=False):
    w = (lambda: "") if canonical else (lambda: ws(rng))
    n = len(R["clauses"]); m = len(R["extras"] or [])
    return {"w": [w() for _ in range(12)], "cw": [(w(), w()) for _ in range(n)], "ew": [(w(), w()) for _ in range(m)],
            "uw": " " if canonical else rng.choice([" ", "  ", "\t", " \t "]), "canonical": canonical, "mseed": rng.randrange(1 << 30)}


def clause_text(c): return c[0] + c[1] + c[2]


def render(R, lay, marker_text=None):
    """the PEP 508 string of structure R under whitespace layout lay; marker_text (already rendered) is appended after ';'"""
    import random
    w = lay["w"]
    s = w[0] + R["name"] + w[1]
    if R["extras"] is not None:
        s += "[" + w[2] + ",".join(a + e + b for e, (a, b) in zip(R["extras"], lay["ew"])) + "]" + w[3]
    if marker_text is None and R["marker"] is not None:
        marker_text = render_marker(random.Random(lay["mseed"]), R["marker"], lay["canonical"])
    if R["url"] is not None:
        s += "@" + (" " if lay["canonical"] else w[4]) + R["url"]
        if marker_text is not None: s += lay["uw"] + ";" + (" " if lay["canonical"] else w[5]) + marker_text + w[6]
        else: s += w[7]
    else:
        body = ",".join(a + clause_text(c) + b for c, (a, b) in zip(R["clauses"], lay["cw"]))
        if R["paren"]: body = "(" + w[8] + body + ")"
        s += body + w[9]
        if marker_text is not None: s += ";" + (" " if lay["canonical"] else w[5]) + marker_text + w[6]
    return s


MUT_CH = list("()[]@;,\"' =<>!~.*+-_a1xvV0\t\n") + ["ſ", "ı", "İ", "K", "é", "ª", "١", " ", " ", "\x0b", "\x00", "|"]


def mutate(rng, s):
    return gen.mutate(rng, s, MUT_CH)
