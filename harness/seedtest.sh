#!/bin/bash
# seedtest.sh <out-dir with patch.diff demo.py meta.json> <seeded-id> <check ids...>
# Confirms a seeded change in a fresh scratch worktree (suite passes, demo fails with / passes without), then runs the named checks against that
# worktree (VERIF_REPO) and stores everything under /verif/seeded/<id>/.
set -u
OUT=$1; ID=$2; shift 2
WT=/tmp/seedverify_$ID
git -C /repo worktree remove --force $WT 2>/dev/null
git -C /repo worktree add -q $WT HEAD || exit 2
( cd $WT && git apply $OUT/patch.diff ) || { echo "PATCH DOES NOT APPLY"; git -C /repo worktree remove --force $WT; exit 2; }
echo "== suite with the change"
SUITE=$(cd $WT && PYTHONPATH=$WT/src /venv/bin/python -m pytest -q -p no:cacheprovider --timeout=900 2>&1 | tail -1)
echo "$SUITE"
echo "== demo on unchanged /repo"; (cd $OUT && PYTHONPATH=/repo/src /venv/bin/python demo.py > /tmp/seed_demo_ok.txt 2>&1); RC0=$?; tail -2 /tmp/seed_demo_ok.txt; echo "exit $RC0"
echo "== demo on changed tree"; (cd $OUT && PYTHONPATH=$WT/src /venv/bin/python demo.py > /tmp/seed_demo_bad.txt 2>&1); RC1=$?; tail -2 /tmp/seed_demo_bad.txt; echo "exit $RC1"
mkdir -p /verif/seeded/$ID
cp $OUT/patch.diff $OUT/demo.py /verif/seeded/$ID/
RES=""
for c in "$@"; do
  echo "== check $c against the changed tree"
  (cd /verif && VERIF_REPO=$WT ./check $c > /tmp/seed_check_$c.txt 2>&1); RC=$?
  grep -c "^VIOLATION" /tmp/seed_check_$c.txt | sed "s/^/violations: /"; tail -1 /tmp/seed_check_$c.txt | cut -c1-200
  FIRST=$(grep -m1 "^VIOLATION" /tmp/seed_check_$c.txt | sed 's/.*replay=//; s/ .*//')
  if [ -n "$FIRST" ] && [ -f "$FIRST" ]; then cp "$FIRST" /verif/seeded/$ID/caught_by_$c.json; fi
  RES="$RES $c:exit$RC"
done
python3 - "$OUT" "$ID" "$SUITE" "$RC0" "$RC1" "$RES" <<'PY'
import json, sys
out, sid, suite, rc0, rc1, res = sys.argv[1:7]
m = json.load(open(out + "/meta.json"))
m.update({"seeded_id": sid, "confirmed": {"suite_with_change": suite, "demo_exit_unchanged": int(rc0), "demo_exit_changed": int(rc1)},
          "checks_run_against_changed_tree": res.split(), "how": "harness/seedtest.sh: fresh worktree of /repo HEAD + patch.diff; suite; demo on both trees; ./check with VERIF_REPO=<worktree>"})
json.dump(m, open("/verif/seeded/%s/meta.json" % sid, "w"), indent=1)
PY
git -C /repo worktree remove --force $WT
# the checks rewrote evidence/replay against the scratch tree: restore by re-running them on the real tree is the caller's job
