#!/bin/bash
# recheck.sh <seed-id> <checks...>: apply seeded/<id>/patch.diff to a scratch worktree and run the checks
ID=$1; shift
WT=/tmp/recheck_$ID
git -C /repo worktree remove --force $WT 2>/dev/null
git -C /repo worktree add -q $WT HEAD >/dev/null 2>&1
(cd $WT && git apply /verif/seeded/$ID/patch.diff) || { echo "$ID: PATCH FAILED"; git -C /repo worktree remove --force $WT; exit; }
printf "%s: " $ID
for c in "$@"; do
  out=$(cd /verif && VERIF_REPO=$WT ./check $c 2>&1)
  n=$(echo "$out" | grep -c "^VIOLATION")
  printf "%s violations: %s " $c $n
  if [ $n -gt 0 ]; then F=$(echo "$out" | grep -m1 "^VIOLATION" | sed "s/.*replay=\([^ ]*\).*/\1/"); cp "$F" /verif/seeded/$ID/caught_by_$c.json; fi
done
echo
git -C /repo worktree remove --force $WT
