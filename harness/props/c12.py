"""C12 Accepted version and specifier languages are exactly PEP 440's."""
from core import Case
import gen, gen_spec

IMPL_MODULE = "spec_impl"
RULE = ("bounded-exhaustive strings over class-representative alphabets (one representative per character class the patterns distinguish, incl. the four "
        "IGNORECASE confusables, a non-ASCII letter and digit, U+00A0, newline) + generated/mutated specifiers and versions; acceptance and stored "
        "operator/text compared with the scanner model; clause-inside-requirement law on the implementation; non-trivial = accepted; the exhaustive "
        "sub-streams enumerate their finite space completely")
ALPHA_V = ["1", "0", ".", "a", "r", "c", "-", "+", "!", "v", " ", "p", "ſ", "é", "١", " ", "\n", "*"]
ALPHA_S = ["=", "~", "<", "!", "1", ".", "*", "a", "+", " ", "x", ";", "ſ", " "]

def streams(rng, tier):
    q = tier == "quick"
    out = []
    for s in gen.exhaustive(ALPHA_V, 4 if q else 5):
        out.append(Case("exh-version", "v.parse", [s]))
    for s in gen.exhaustive(ALPHA_S, 4 if q else 6):
        out.append(Case("exh-specifier", "sp.parse", [s]))
    heads = ["1.0", "1!2", "1.0a", "1.0.post", "1.0-", "1.0.dev", "1.0+a", "v1"]
    for h in heads:
        for t in gen.exhaustive(ALPHA_V, 2):
            out.append(Case("exh-version-tail", "v.parse", [h + t]))
            for op in ("==", "~=", ">", "==="):
                out.append(Case("exh-specifier-tail", "sp.parse", [op + h + t]))
    for _ in range(3000 if q else 60000):
        s, op, V, wild = gen_spec.spec_string(rng, admissible_p=0.7)
        if rng.random() < 0.3: s = gen.mutate(rng, s)
        out.append(Case("gen-specifier", "sp.parse", [s]))
        st = s.strip()
        if st and st[0] in "~=!<>" and "," not in st and ";" not in st:
            out.append(Case("law-embedded", "law.sp.embedded", [st], kind="law"))
        if rng.random() < 0.3:
            v = gen.spell(rng, gen.rand_v(rng))
            if rng.random() < 0.5: v = gen.mutate(rng, v)
            out.append(Case("gen-version", "v.parse", [v]))
    return out

def nontrivial(c, i):
    return c.kind == "law" or (i != "E" and not i.startswith("!"))
