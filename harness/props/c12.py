"""C12 Accepted version and specifier languages are exactly PEP 440's."""
from core import Case
import gen, gen_spec

IMPL_MODULE = "spec_impl"
RULE = ("bounded-exhaustive strings over class-representative alphabets (one representative per character class the patterns distinguish, incl. the four "
        "IGNORECASE confusables, a non-ASCII letter and digit, U+00A0, newline, '_', upper case); word stems continued by every 2-letter tail over the "
        "letters of the pre/post/dev words; all 29 whitespace code points and their neighbours in 10 positions; '(' ')' '>' in the specifier alphabet; a code-point sweep (quick: U+0000-30FF, "
        "thorough: every non-surrogate code point in one of them) through 4-6 templates + generated/mutated specifiers and versions; acceptance and stored "
        "operator/text compared with the scanner model; clause-inside-requirement law on the implementation (names from a pool; plain, spaced, parenthesised and after-extras forms; mutations with parentheses, brackets, quotes and all Unicode blanks); non-trivial = accepted; the exhaustive "
        "sub-streams enumerate their finite space completely")
ALPHA_V = ["1", "0", ".", "a", "r", "c", "-", "+", "!", "v", " ", "p", "ſ", "é", "١", " ", "\n", "*"]
ALPHA_V0 = list(ALPHA_V)
ALPHA_V = ALPHA_V + ["_", "A", "e", "\u0131", "\u0130", "\u212a"]      # + separator '_', an upper-case letter, 'e', and the other three IGNORECASE confusables
# letters of every pre/post/dev word + a digit and two separators: tails of word stems are enumerated over this alphabet
ALPHA_W = list("alphbetrviwcosd") + ["1", ".", "-"]
WORD_STEMS = ["1.0al", "1.0alph", "1.0be", "1.0bet", "1.0p", "1.0pr", "1.0prev", "1.0previ", "1.0previe", "1.0po", "1.0pos", "1.0r", "1.0re",
              "1.0d", "1.0de", "1.0.PO", "1.0-De", "1.0_aLp", "1.0a1.de", "1.0rc.po"]
NEAR_WS = [0x1b, 0x20, 0x7f, 0x84, 0x86, 0x9f, 0xa1, 0x180e, 0x1fff, 0x200b, 0x200c, 0x2027, 0x202a, 0x2060, 0x2fff, 0x3001, 0xfeff, 0x1a0]
ALPHA_S = ["=", "~", "<", "!", "1", ".", "*", "a", "+", " ", "x", ";", "ſ", " "]
ALPHA_S0 = list(ALPHA_S)
ALPHA_S = ALPHA_S + [")", ">", "_", "A"]      # follow-up round: the character === text excludes, the remaining operator character, '_', upper case
REQ_NAMES = ["x", "A", "a1", "Z9", "a-b", "a.b_c", "pkg-name", "N_m.9", "0", "x--y"]
CLAUSE_MUT = [c for c in gen.MUT_CH if c not in ",;"] + ["(", ")", "(", ")", "[", "]", "'", '"', "@", "A", "_"] + gen.WS_ALL

def streams(rng, tier):
    q = tier == "quick"
    out = []
    for s in gen.exhaustive(ALPHA_V, 4):
        out.append(Case("exh-version", "v.parse", [s]))
    if not q:
        for s in gen.exhaustive(ALPHA_V0, 5):       # length 5 over the 18 original class representatives (as before the alphabet was extended)
            out.append(Case("exh-version", "v.parse", [s]))
    for s in gen.exhaustive(ALPHA_S, 4):
        out.append(Case("exh-specifier", "sp.parse", [s]))
    if not q:
        for s in gen.exhaustive(ALPHA_S0, 6):       # length 6 over the 14 original class representatives (as before the alphabet was extended)
            out.append(Case("exh-specifier", "sp.parse", [s]))
    heads = ["1.0", "1!2", "1.0a", "1.0.post", "1.0-", "1.0.dev", "1.0+a", "v1"]
    for h in heads:
        for t in gen.exhaustive(ALPHA_V, 2):
            out.append(Case("exh-version-tail", "v.parse", [h + t]))
            for op in ("==", "~=", ">", "==="):
                out.append(Case("exh-specifier-tail", "sp.parse", [op + h + t]))
    # ---- improvement round (version language): word stems, every whitespace code point and its neighbours, '(' ')' '>' in the specifier alphabet; a code-point sweep ----
    for h in WORD_STEMS:
        for t in gen.exhaustive(ALPHA_W, 2):
            out.append(Case("exh-word-tail", "v.parse", [h + t]))
    for c in [ord(x) for x in gen.WS_ALL] + NEAR_WS:
        for tpl in ["%s1.0", "1.0%s", "%sv1.0rc1%s", "1%s0", "1.0%sa1", "1.0+a%s", "1.0+%sa", "%s", "1.0 %s", "%s 1.0"]:
            out.append(Case("ws-all", "v.parse", [tpl.replace("%s", chr(c))]))
    cps = list(range(0, 0x3100)) if q else [c for c in range(0x110000) if not 0xD800 <= c <= 0xDFFF]
    for k, tpl in enumerate(["1.0%s", "1.0+%s", "%s1", "1.0.p%sst", "1%s0", "1.0a%s"]):
        if q and k >= 4: break
        for c in (cps if k < 1 else range(0, 0x3100)):      # thorough: the first template over every code point
            out.append(Case("sweep-codepoint", "v.parse", [tpl.replace("%s", chr(c))]))
    for tpl in (["1.%s"] if q else ["1.%s", "%s", "1.0+%s", "1.post%s", "%s!1"]):       # finding D10: beyond int()'s digit limit (the model takes seconds for each)
        out.append(Case("digit-limit", "v.parse", [tpl % ("9" * 4301)]))
    for _ in range(600 if q else 12000):
        v = gen.rand_v_wide(rng); sv = gen.spell_wide(rng, v)
        if rng.random() < 0.5: sv = gen.mutate(rng, sv, gen.MUT_CH + gen.WS_ALL + ["A", "Z", "_", "e", "(", ")"])
        out.append(Case("gen-version-wide", "v.parse", [sv]))
        if rng.random() < 0.3:
            sk = gen.confuse_letter(rng, gen.spell(rng, gen.rand_v_with_k(rng) if rng.random() < 0.6 else gen.rand_v(rng, local_p=0.5)))
            if sk is not None:
                out.append(Case("letter-confusable", "v.parse", [sk]))
                for op in ("==", "===", "!="): out.append(Case("letter-confusable", "sp.parse", [op + sk.strip()]))
    for _ in range(3000 if q else 60000):
        s, op, V, wild = gen_spec.spec_string(rng, admissible_p=0.7)
        if rng.random() < 0.3: s = gen.mutate(rng, s)
        out.append(Case("gen-specifier", "sp.parse", [s]))
        st = s.strip()
        if st and st[0] in "~=!<>" and "," not in st and ";" not in st:
            out.append(Case("law-embedded", "law.sp.embedded", [st], kind="law"))
            # follow-up round: names from a pool, the clause attached in every way the grammar allows, mutations with parentheses / Unicode blanks
            st2 = gen.mutate(rng, st, CLAUSE_MUT).strip() if rng.random() < 0.6 else st
            if st2 and st2[0] in "~=!<>" and "," not in st2 and ";" not in st2:
                form = rng.choice(["plain", "plain", "space", "paren", "parenx", "extra"])
                out.append(Case("law-embedded", "law.sp.embedded", [st2, rng.choice(REQ_NAMES), form], kind="law"))
                if rng.random() < 0.3: out.append(Case("gen-specifier", "sp.parse", [st2]))
        if rng.random() < 0.3:
            v = gen.spell(rng, gen.rand_v(rng))
            if rng.random() < 0.5: v = gen.mutate(rng, v)
            out.append(Case("gen-version", "v.parse", [v]))
    return out

def match_d10_language(case, impl, model):
    """D10: a component of more than 4300 digits is in the language (the model accepts) but Version() rejects it: int() has a digit limit."""
    import re
    return (case.cmd == "v.parse" and re.search(r"[0-9]{4301,}", case.args[0]) is not None and impl == "E"
            and isinstance(model, str) and model.startswith("OK"))


def nontrivial(c, i):
    return c.kind == "law" or (i != "E" and not i.startswith("!"))
