"""C19 License expressions are validated and canonicalised per SPDX (canonicalize_license_expression)."""
import os, re, subprocess, json
import gen_lic
from core import Case, IMPL_PY, impl_env

IMPL_MODULE = "lic_impl"
RULE = ("expressions drawn from the SPDX grammar over the bundled tables (random case, Unicode whitespace layout, redundant parentheses, '+', "
        "WITH, LicenseRef-), token-level damage (missing/extra operands, operators, parentheses, '+', WITH placement), character-level "
        "mutations incl. case-fold confusables, valid expressions with one arbitrary code point (any of U+0000..U+10FFFF, lone surrogates "
        "included) inserted anywhere, long flat expressions, whitespace-only strings, the Python reading of the property compared directly with "
        "the Coq specification (l.spec), nesting depths around CPython's parser limits with the exact first rejected depth pinned for six "
        "shapes, bounded-exhaustive sweeps (every token "
        "sequence up to a length bound over {MIT,or,AND,(,)} and over {MIT,or,AND,(,),WITH,389-exception}; every string up to a length "
        "bound over a 9-character alphabet), each sweep chunk counted as one case; non-trivial = accepted; distinct by input text")
ASSUMPTIONS = [
    "eval() of the False/or/and/(/) skeleton is modelled by the automaton LicModel.pyrun; exact up to nesting depth 100 and above 200; "
    "for depth 101..200 the model answers 'accepted or rejected, interpreter dependent' (CPython parser stack / 200-parentheses limit) "
    "and the comparison allows both",
    "str.lower(): ASCII exact, U+0130 -> 'i'+U+0307, U+212A -> 'k'; every other non-ASCII code point lower-cases to non-ASCII, "
    "non-whitespace text (probed over all code points on every run), which cannot make a token acceptable",
    "the reading of the property used by the direct law check takes 'any letter case' as ASCII case (a token spelled with U+212A KELVIN "
    "SIGN or any other non-ASCII character is no identifier; the code rejects it since fix 9992710)",
    "whether 'LicenseRef-x+' is well-formed is not fixed by the property text: both readings are allowed",
    "the idstring of a LicenseRef is not empty (SPDX Annex D: 1*(...)): 'LicenseRef-' and 'licenseref-+' are rejected since fix 8e6ceae; "
    "law.l.strictref checks it with such a token in every operand position",
    "'GPL-2.0++' is license-id '+' with the deprecated table id 'GPL-2.0+': well-formed in SPDX proper, accepted",
    "Annex D forms the code rejects and the property text does not name - 'DocumentRef-x:LicenseRef-y', 'AdditionRef-x' after WITH, the "
    "words NONE / NOASSERTION - are taken as not well-formed (spec, model and law.l.simple agree with the code on this)",
    "the argument is a str (an int raises AttributeError, bytes TypeError: outside the domain); every str, lone surrogates included, is inside",
    "first rejected nesting depth per shape (law.l.evaldepth) is recorded for CPython 3.12 only; on another interpreter the law checks "
    "agreement of the function with eval() on its skeleton, monotonicity and the band 101..201",
]
TRUSTED_EXTRA = [
    "CPython eval()/compile() on the skeleton string: modelled as an automaton, validated exhaustively against the real function over all "
    "token sequences up to the length bound of this run (streams sweep5/sweep7) and by law.l.evalprobe for the depth limits",
    "str.split()/str.lower()/str.replace()/re.match of CPython: modelled by hand; tables probed over all code points (law.l.lowerprobe)",
    "coq/Gen/SpdxTable.v is produced by harness/tables_spdx.py from the working tree on every run",
    "the l.spec stream compares two automaton readings of the property (Python gen_lic.spec, Coq LicSpec/LicAuto); the inductive grammar "
    "LicGrammar.expr is tied to the automaton by proof only (C19_spdx_automaton_is_the_grammar) and is never executed; law.l.simple is a third, "
    "regex-based reading of single tokens (lic_impl.simple_reading) that ties LicIds.strict_simple / ref_with_plus to the code",
]

_tables = None


def tables():
    """(license ids, exception ids) of the working tree, read in the implementation interpreter."""
    global _tables
    if _tables is None:
        r = subprocess.run([IMPL_PY, "-c", "import json;from packaging.licenses._spdx import LICENSES as L, EXCEPTIONS as E;"
                            "print(json.dumps([[v['id'] for v in L.values()],[v['id'] for v in E.values()]]))"],
                           capture_output=True, text=True, env=impl_env(), cwd="/")
        _tables = json.loads(r.stdout)
    return _tables


WS_IN = [" ", " ", " ", " ", "  ", "\t", "\n", " ", " ", "\x1f", "\x0b", "\x85", " ", " ", "\r\n"]
SHORT = ["MIT", "gd", "SL", "ISC", "W3C", "Apache-2.0", "GPL-2.0", "GPL-2.0+", "GPL-2.0-or-later", "0BSD", "Kazlib", "BSD-3-Clause", "zlib"]
REFS = ["LicenseRef-x", "LicenseRef-My.Lic-1", "LicenseRef-A", "LicenseRef-a", "LicenseRef-", "LicenseRef-WITH", "LicenseRef-or", "LicenseRef-3", "LicenseRef-Kk"]
BAD_IDS = ["bogus", "LicenseRef-a_b", "LicenseRef-é", "MIT-", "mi", "False", "True", "not", "None", "0", "x=1", "lambda:0", "LicenseRef", "licenseref", "with+", "or+", "+",
           "__import__", "1/0", "[]", ",", "MIT,", "\"MIT\"", "#", "\\", "LicenseRef-xK", "Kazlib", "MİT", "mıt", "MIṪ", "ſl", "LicenseRef-ſ"]


def rcase(rng, w):
    k = rng.random()
    if k < 0.25: return w
    if k < 0.4: return w.lower()
    if k < 0.55: return w.upper()
    return "".join(c.upper() if rng.random() < 0.5 else c.lower() for c in w)


def rref(rng, w):         # the prefix is case-insensitive, the suffix is kept
    return rcase(rng, w[:11]) + w[11:]


def simple(rng, valid_p=0.975):
    lic, exc = tables()
    k = rng.random()
    if k > valid_p: t = rng.choice(BAD_IDS)
    elif k < 0.2: t = rref(rng, rng.choice(REFS))
    elif k < 0.6: t = rcase(rng, rng.choice(SHORT))
    else: t = rcase(rng, rng.choice(lic))
    if rng.random() < 0.2: t += "+"
    if rng.random() < 0.25:
        e = rng.choice(exc) if rng.random() < 0.96 else rng.choice(["bogus-exc", "mit", "389-exception+", "LicenseRef-x"])
        t += rng.choice(WS_IN) + rcase(rng, "WITH") + rng.choice(WS_IN) + rcase(rng, e)
    return t


def expr(rng, depth=0, maxd=3):
    k = rng.random()
    if depth >= maxd or k < 0.4: return simple(rng)
    if k < 0.62:
        return rng.choice(["(", "( ", " (", "(\n"]) + expr(rng, depth + 1, maxd) + rng.choice([")", " )", ") ", "\t)"])
    op = rcase(rng, rng.choice(["AND", "OR"]))
    return expr(rng, depth + 1, maxd) + rng.choice(WS_IN) + op + rng.choice(WS_IN) + expr(rng, depth + 1, maxd)


def tokenize(s):
    return s.replace("(", " ( ").replace(")", " ) ").split()


def damage(rng, s):
    toks = tokenize(s)
    if not toks: return s
    for _ in range(rng.choice([1, 1, 1, 2])):
        i = rng.randrange(len(toks)); k = rng.random()
        if k < 0.25: del toks[i]
        elif k < 0.55: toks.insert(i, rng.choice(["AND", "or", "WITH", "with", "(", ")", "()", "+", "MIT", "389-exception", "LicenseRef-q"]))
        elif k < 0.7 and len(toks) > 1: toks[i], toks[i - 1] = toks[i - 1], toks[i]
        elif k < 0.85: toks[i] = toks[i] + rng.choice(["+", "-", "(", ")", "++", "̇", "."])
        else: toks[i] = rng.choice(["+", ""]) + toks[i]
        if not toks: break
    out = ""
    for i, t in enumerate(toks):
        tight = i and (t in "()" or toks[i - 1] in "()") and rng.random() < 0.5
        out += ("" if (tight or not i) else rng.choice(WS_IN)) + t
    return out


MUT_CH = list("()+ -.aAmMiItTorORwWhHxX0_,\n\t") + ["K", "İ", "ı", "ſ", "é", " ", " ", "\x1c", "\x85", "​", "\x00", "Σ", "Ｍ", "\U0001d40c"]


def mutate(rng, s):
    s = list(s)
    for _ in range(rng.choice([1, 1, 2])):
        k = rng.random(); i = rng.randrange(len(s) + 1)
        if k < 0.3 and s: del s[min(i, len(s) - 1)]
        elif k < 0.7: s.insert(i, rng.choice(MUT_CH))
        elif k < 0.8 and s: s.insert(i, s[min(i, len(s) - 1)])
        elif k < 0.9 and len(s) > 1:
            j = min(i, len(s) - 2); s[j], s[j + 1] = s[j + 1], s[j]
        elif s: s[min(i, len(s) - 1)] = rng.choice(MUT_CH)
    return "".join(s)


def valid_simple(rng):
    lic, exc = tables()
    k = rng.random()
    if k < 0.2: t = rref(rng, rng.choice([r for r in REFS if r != "LicenseRef-"]))
    elif k < 0.6: t = rcase(rng, rng.choice(SHORT))
    else: t = rcase(rng, rng.choice(lic))
    if rng.random() < 0.2: t += "+"
    if rng.random() < 0.25: t += rng.choice(WS_IN) + rcase(rng, "WITH") + rng.choice(WS_IN) + rcase(rng, rng.choice(exc))
    return t


def valid_expr(rng, depth=0, maxd=3):
    """Always well-formed (every identifier known)."""
    k = rng.random()
    if depth >= maxd or k < 0.4: return valid_simple(rng)
    if k < 0.62:
        return rng.choice(["(", "( ", " (", "(\n"]) + valid_expr(rng, depth + 1, maxd) + rng.choice([")", " )", ") ", "\t)"])
    op = rcase(rng, rng.choice(["AND", "OR"]))
    return valid_expr(rng, depth + 1, maxd) + rng.choice(WS_IN) + op + rng.choice(WS_IN) + valid_expr(rng, depth + 1, maxd)


def any_codepoint(rng):
    """One code point: mostly uniform over everything CPython's str can hold (lone surrogates included)."""
    k = rng.random()
    if k < 0.30: return chr(rng.randrange(0x110000))
    if k < 0.55: return chr(rng.randrange(0x10000))
    if k < 0.65: return chr(rng.randrange(0xD800, 0xE000))
    if k < 0.85: return chr(rng.choice(gen_lic.WS))
    if k < 0.95: return chr(rng.randrange(0x100))
    return rng.choice(["\u0130", "\u0131", "\u212a", "\u017f", "\u03a3", "\u1e9e", "\ufb01", "\u2028", "\u200b", "\ufeff", "\u180e", "\x00"])


def with_codepoint(rng):
    s = valid_expr(rng, 0, rng.choice([0, 1, 2, 3]))
    i = rng.randrange(len(s) + 1)
    return s[:i] + any_codepoint(rng) + s[i:]


def flat(rng, n):
    """n operands, no nesting."""
    out = valid_simple(rng)
    for _ in range(n - 1):
        out += rng.choice([" ", "\n", "  "]) + rng.choice(["AND", "or", "Or", "and"]) + " " + (rng.choice(SHORT) if rng.random() < 0.8 else valid_simple(rng))
    return out


FIXED2 = ["LicenseRef-a+b", "LicenseRef-a+b+", "licenseref-+a", "LicenseRef-a+ WITH llgpl", "LicenseRef-.", "LicenseRef--", "LICENSEREF-", "licenseref-+", "LicenseRef-++",
          "(LicenseRef-)", "MIT WITH LicenseRef-", "LicenseRef- WITH llgpl", "LicenseRef-\n", "LicenseRef-a\x0b", "\ud800", "MIT OR \udfff", "\ud83d\ude00", "MIT\ud800", "M\udc00IT",
          "MIT\x1cOR\x85gd", "MIT AND\u200bgd", "\ufeffMIT", "\uff2dIT", "\U0001d40cIT", "MIT \U0001f600", "\u2028", "\u3000\u2003\x1f", "\u3000MIT\u2003", "\u180eMIT", "MIT\x00",
          "GPL-2.0++ WITH llgpl", "gpl-2.0+ OR gpl-2.0++", "MIT\u0130", "mit or\u2029(gd)\u205f", "(", "((", "))", ")(", "MIT)", "(MIT", "( ( MIT )", "W\u0130TH", "mit w\u0131th llgpl"]


def deep(rng, n):
    """n levels of nesting, with random surroundings."""
    k = rng.random()
    if k < 0.3: return "(" * n + "MIT" + ")" * n
    pre = [rng.choice(["(", "(MIT or ", "(mit AND ", "(MIT OR gd and ", "( ", "(MIT WITH llgpl or "]) for _ in range(n)]
    mid = rng.choice(["MIT", "mit or gd", "LicenseRef-a"])
    tail = rng.choice(["", " or ISC", " AND (gd)"])
    return "".join(pre) + mid + ")" * n + tail


FIXED = ["", " ", "\n", "()", "( )", "(", ")", "MIT", "mit", " MIT ", "(MIT)", "((MIT))", "( ( MIT ) )", "MIT OR", "OR MIT", "MIT MIT", "MIT (MIT)", "(MIT) MIT", "(MIT)(MIT)",
         "() OR MIT", "MIT OR ()", "(MIT WITH 389-exception) AND ()", "MIT AND OR MIT", "MIT WITH", "WITH 389-exception", "MIT WITH 389-exception",
         "(MIT) WITH 389-exception", "MIT WITH (389-exception)", "MIT WITH 389-exception WITH 389-exception", "MIT WITH MIT", "MIT+ WITH 389-exception",
         "MIT OR WITH 389-exception", "MIT AND WITH", "LicenseRef-foo+", "LicenseRef-foo", "licenseref-FOO", "LICENSEREF-Foo OR licenseref-fOO", "LicenseRef-A OR LicenseRef-a",
         "LicenseRef-", "LicenseRef-+", "LicenseRef-a++", "LicenseRef-a_b", "LicenseRef-a b", "LicenseRef-x WITH 389-exception", "LicenseRef-x+ WITH llgpl",
         "MIT WITH LicenseRef-x", "GPL-2.0+", "GPL-2.0++", "GPL-2.0+++", "gpl-2.0-or-later+", "+", "++", "MIT+", "MIT++", "MIT +", "+MIT", "or", "and", "with", "OR+", "(+)", "mit or gd",
         "Kazlib", "KAZLIB+", "MİT", "LicenseRef-K", "MIT WİTH llgpl", "MIT K", "mit\x1for\x1cgd", "mit​or gd", "MIT oR gd aNd (isc Or sl)",
         "MIT AND gd OR ISC AND (sl OR w3c+) WITH llgpl", "((MIT OR gd) AND ISC)", "(MIT OR gd) AND (ISC)", "MIT AND (gd", "MIT AND gd)", ")MIT(", "(MIT))(", "False", "True or MIT",
         "not MIT", "MIT if MIT else MIT", "MIT,gd", "MIT or gd,", "lambda: MIT", "MIT or __import__('os')", "MIT\x00", "MIT#", "MIT or 1/0", "MIT or [", "mit or\\\ngd", "MIT;gd",
         "(MIT\n)", "(\nMIT)", "MIT\tOR\tgd", "  (  MIT  )  ", "(((((((((((MIT)))))))))))", "MIT OR (gd AND (isc OR (sl AND (w3c))))"]


def count_guard_passing(n):
    """Number of skeletons of length <= n over False/or/and/(/) that pass the two guards of the first loop."""
    tot, st = 1, {None: 1}
    for _ in range(n):
        new = {}
        for last, k in st.items():
            for t in "Foa()":
                if t == "(" and last is not None and last not in "oa(": continue
                if t == ")" and last == "(": continue
                new[t] = new.get(t, 0) + k
        st = new; tot += sum(st.values())
    return tot


def sweep_cases(stream, joiner, words, total_len, prefix_len, mode):
    """Every sequence over `words` of length 0..total_len, in chunks by prefix."""
    out = [Case(stream, "l.sweep", [mode, joiner, str(min(prefix_len - 1, total_len)), ""] + words)]
    if total_len >= prefix_len:
        import itertools
        for p in itertools.product(range(len(words)), repeat=prefix_len):
            out.append(Case(stream, "l.sweep", [mode, joiner, str(total_len - prefix_len), "".join(map(str, p))] + words))
    return out


def streams(rng, tier):
    q = tier == "quick"
    out = [Case("fixed", "l.canon", [s]) for s in FIXED]
    out += [Case("law-fixed", "law.l.spec", [s], kind="law") for s in FIXED]
    out.append(Case("probe-eval-limits", "law.l.evalprobe", [], kind="law"))
    out.append(Case("probe-lower-split-tables", "law.l.lowerprobe", [], kind="law"))
    lic, exc = tables()
    for i in lic:                                   # every table entry, once plain and once recased, and as WITH operand
        out.append(Case("table", "l.canon", [i])); out.append(Case("table", "l.canon", [rcase(rng, i) + rng.choice(["", "+"])]))
    for e in exc:
        out.append(Case("table", "l.canon", [rng.choice(SHORT) + " with " + rcase(rng, e)])); out.append(Case("table", "l.canon", [e]))
    # identifiers are ASCII: every table entry with a k, spelled with U+212A KELVIN SIGN (str.lower() maps it to "k"), in its position
    for i in lic:
        if "k" in i.lower():
            j = rng.choice([n for n, c in enumerate(i) if c in "kK"])
            sfx = rng.choice(["", "+", " or MIT"])
            # the ASCII spelling directly before its look-alike: an answer remembered for the one must not be served for the other
            out.append(Case("kelvin", "l.canon", [i + sfx]))
            out.append(Case("kelvin", "l.canon", [i[:j] + gen_lic.KELVIN + i[j + 1:] + sfx]))
    for e in exc:
        if "k" in e.lower():
            j = rng.choice([n for n, c in enumerate(e) if c in "kK"])
            sh = rng.choice(SHORT)
            out.append(Case("kelvin", "l.canon", [sh + " WITH " + e]))
            out.append(Case("kelvin", "l.canon", [sh + " WITH " + e[:j] + gen_lic.KELVIN + e[j + 1:]]))
            out.append(Case("law-kelvin", "law.l.spec", ["(" + rng.choice(SHORT) + " with " + rcase(rng, e[:j]) + gen_lic.KELVIN + e[j + 1:] + ")"], kind="law"))
    for _ in range(4000 if q else 100000):
        s = expr(rng, 0, rng.choice([1, 2, 3, 3, 4]))
        if rng.random() < 0.04 and ("k" in s or "K" in s):          # one k written as KELVIN SIGN
            out.append(Case("grammar", "l.canon", [s]))
            j = rng.choice([n for n, c in enumerate(s) if c in "kK"]); s = s[:j] + gen_lic.KELVIN + s[j + 1:]
        k = rng.random()
        if k < 0.15: s = damage(rng, s)
        elif k < 0.22: s = mutate(rng, s)
        out.append(Case("grammar", "l.canon", [s]))
        if rng.random() < 0.5: out.append(Case("law-spec", "law.l.spec", [s], kind="law"))
        if rng.random() < 0.25: out.append(Case("law-layout", "law.l.layout", [str(rng.randrange(10 ** 6)), s], kind="law"))
    for _ in range(600 if q else 12000):              # arbitrary short strings over the mutation alphabet
        s = "".join(rng.choice(MUT_CH) for _ in range(rng.choice([1, 2, 3, 5, 8])))
        out.append(Case("arbitrary", "l.canon", [s]))
    for n in [1, 50, 99, 100, 101, 102, 150, 199, 200, 201, 202, 250] + ([] if q else [rng.randrange(90, 210) for _ in range(40)]):
        for _ in range(3 if q else 6):
            out.append(Case("deep", "l.canon", [deep(rng, n)]))
    # nesting that exhausts CPython's parser stack before its 200-parentheses limit (MemoryError inside eval, must surface as rejection)
    for pre in ["(MIT or ", "(MIT and ", "(MIT or gd and ", "(MIT WITH llgpl or gd and ", "(gd and MIT or ISC and "]:
        for n in [150, 170, 180, 185, 188, 190, 195, 199, 200]:
            out.append(Case("deep-parser-stack", "l.canon", [pre * n + "MIT" + ")" * n]))
    # bounded-exhaustive sweeps (one case per chunk)
    W5 = ["MIT", "or", "AND", "(", ")"]
    W7 = W5 + ["WITH", "389-exception"]
    n5, n7, nc, ne = (8, 5, 5, 7) if q else (10, 7, 7, 9)
    # the eval() component alone against the automaton LicModel.py_eval: every skeleton the first loop can produce, up to length ne
    import itertools
    ename = "eval-exhaustive:all-guard-passing-skeletons-len<=%d(%d)" % (ne, count_guard_passing(ne))
    out.append(Case(ename, "l.evalsweep", ["1", ""]))
    for pfx in itertools.product("01234", repeat=2):
        out.append(Case(ename, "l.evalsweep", [str(ne - 2), "".join(pfx)]))
    out += sweep_cases("sweep5:all-token-seqs-len<=%d(%d)" % (n5, sum(5 ** i for i in range(n5 + 1))), " ", W5, n5, 2 if q else 3, "b")
    out += sweep_cases("sweep7:all-token-seqs-len<=%d(%d)" % (n7, sum(7 ** i for i in range(n7 + 1))), " ", W7, n7, 2, "o")
    CH = ["g", "D", "+", "(", ")", " ", "o", "R", "\n"]
    out += sweep_cases("sweepchars:all-strings-len<=%d(%d)" % (nc, sum(9 ** i for i in range(nc + 1))), "", CH, nc, 2, "o")
    # ---- round-5 additions (appended, so that the streams above see the same random sequence as before)
    out.append(Case("probe-eval-depth-per-shape", "law.l.evaldepth", [], kind="law"))
    for s in FIXED2:
        out.append(Case("fixed2", "l.canon", [s])); out.append(Case("law-fixed2", "law.l.spec", [s], kind="law"))
        out.append(Case("spec-vs-spec", "l.spec", [s]))
    for s in FIXED: out.append(Case("spec-vs-spec", "l.spec", [s]))
    # a valid expression with one arbitrary code point inserted: accepted iff the code point is whitespace (or, rarely, fits the grammar)
    for _ in range(2500 if q else 60000):
        s = with_codepoint(rng)
        out.append(Case("codepoint", "l.canon", [s]))
        k = rng.random()
        if k < 0.3: out.append(Case("law-codepoint", "law.l.spec", [s], kind="law"))
        elif k < 0.5: out.append(Case("spec-vs-spec", "l.spec", [s]))
    # the Python reading of the property against the Coq specification, directly (neither side is the implementation)
    for _ in range(1500 if q else 30000):
        s = expr(rng, 0, rng.choice([1, 2, 3, 3, 4]))
        k = rng.random()
        if k < 0.25: s = damage(rng, s)
        elif k < 0.4: s = mutate(rng, s)
        out.append(Case("spec-vs-spec", "l.spec", [s]))
    for n in [99, 100, 101, 150, 200, 201, 202]:
        for _ in range(2): out.append(Case("spec-vs-spec", "l.spec", [deep(rng, n)]))
    # long flat expressions (no nesting): no length limit anywhere
    for n in ([40, 300, 1500] if q else [40, 300, 1500, 5000, 20000]):
        s = flat(rng, n)
        out.append(Case("flat", "l.canon", [s])); out.append(Case("law-flat", "law.l.spec", [s], kind="law"))
        out.append(Case("flat", "l.canon", [s + " and"]))
    # whitespace only, over all 29 separators
    for _ in range(60 if q else 600):
        s = "".join(chr(rng.choice(gen_lic.WS)) for _ in range(rng.choice([1, 1, 2, 3, 6])))
        out.append(Case("ws-only", "l.canon", [s]))
    for c in gen_lic.WS:
        out.append(Case("ws-only", "l.canon", [chr(c)])); out.append(Case("ws-each", "l.canon", ["mit" + chr(c) + "or" + chr(c) + chr(c) + "(gd" + chr(c) + ")"]))
    # arbitrary strings of tokens, separators and several arbitrary code points (non-BMP and lone surrogates included)
    for _ in range(400 if q else 8000):
        parts = []
        for _ in range(rng.choice([1, 2, 3, 5, 8])):
            k = rng.random()
            if k < 0.45: parts.append(any_codepoint(rng))
            elif k < 0.7: parts.append(rng.choice(["MIT", "gd", "or", "AND", "with", "(", ")", "+", "LicenseRef-", "llgpl", "LicenseRef-a"]))
            else: parts.append(chr(rng.choice(gen_lic.WS)))
        s = "".join(parts)
        out.append(Case("arbitrary-codepoints", "l.canon", [s]))
        if rng.random() < 0.3: out.append(Case("spec-vs-spec", "l.spec", [s]))
    # single tokens against an Annex D reading written independently of gen_lic.spec (lic_impl.simple_reading = LicIds.strict_simple /
    # ref_with_plus): alone and after WITH
    SIMPLE_FIXED = ["MIT", "mit+", "MIT++", "GPL-2.0+", "gpl-2.0++", "GPL-2.0+++", "LicenseRef-a", "licenseref-A+", "LicenseRef-a++", "LicenseRef-", "LicenseRef-+",
                    "LicenseRef-.", "LicenseRef--+", "LicenseRef-a+b", "LicenseRef-a_b", "LicenseRef-\u00e9", "licen\u017feref-a", "LICENSEREF-K", "LicenseRef-\u212a",
                    "DocumentRef-a:LicenseRef-b", "DocumentRef-a:LicenseRef-b+", "documentref-a", "AdditionRef-x", "LicenseRef", "licenseref", "LicenseRef_a",
                    "llgpl", "LLGPL+", "389-exception", "or", "WITH", "and+", "+", "++", "\u212aazlib", "Kazlib", "kazlib+", "LicenseRef-a:b", "NONE", "NOASSERTION"]
    for t in SIMPLE_FIXED: out.append(Case("law-simple", "law.l.simple", [t], kind="law"))
    lic, exc = tables()
    for _ in range(1200 if q else 25000):
        k = rng.random()
        if k < 0.35: t = rcase(rng, rng.choice(lic))
        elif k < 0.45: t = rcase(rng, rng.choice(exc))
        elif k < 0.6: t = rcase(rng, rng.choice(SHORT))
        else:
            t = rcase(rng, "LicenseRef-") + "".join(rng.choice("aZ09.-aBc") for _ in range(rng.choice([0, 1, 1, 2, 4, 9])))
        t += rng.choice(["", "", "", "+", "+", "++"])
        if rng.random() < 0.3:
            i = rng.randrange(len(t) + 1)
            c = rng.choice(["+", "-", ".", "_", ":", "a", "K", "\u212a", "\u0130", "\u017f", "\u00e9", "\x00", "DocumentRef-x:", "AdditionRef-"]) if rng.random() < 0.7 else any_codepoint(rng)
            t = t[:i] + c + t[i:] if rng.random() < 0.8 else t[:i] + t[i + 1:]
        out.append(Case("law-simple", "law.l.simple", [t], kind="law"))
    for s in ["DocumentRef-a:LicenseRef-b", "MIT WITH AdditionRef-x", "DocumentRef-spdx-tool-1.2:LicenseRef-MIT-Style-2 OR MIT", "MIT OR AdditionRef-x", "NONE", "NOASSERTION"]:
        out.append(Case("fixed2", "l.canon", [s])); out.append(Case("spec-vs-spec", "l.spec", [s]))
    # the idstring of a LicenseRef is not empty (fix 8e6ceae): an empty-idstring ref in every operand position of a valid expression
    for s in ["LicenseRef-", "licenseref-+", "MIT OR LICENSEREF-", "(LicenseRef-) AND gd", "LicenseRef- WITH llgpl", "LicenseRef-a", "LicenseRef-.", "MIT"]:
        out.append(Case("law-strictref", "law.l.strictref", [s], kind="law")); out.append(Case("strictref", "l.canon", [s]))
    for _ in range(150 if q else 3000):
        s = valid_expr(rng, 0, rng.choice([0, 1, 2, 3]))
        toks = tokenize(s)
        cand = [i for i, t in enumerate(toks) if t not in "()" and t.lower() not in ("and", "or", "with") and (i == 0 or toks[i - 1].lower() != "with")]
        i = rng.choice(cand)
        toks[i] = rref(rng, "LicenseRef-") + rng.choice(["", "", "+"])
        s = " ".join(toks)
        out.append(Case("law-strictref", "law.l.strictref", [s], kind="law")); out.append(Case("strictref", "l.canon", [s]))
        if rng.random() < 0.3: out.append(Case("spec-vs-spec", "l.spec", [s]))
    return out


def compare(case, impl, model):
    if impl == model: return None
    if isinstance(model, str) and model.startswith("L|"):
        # nesting depth 101..200: CPython may or may not run out of parser stack; either way only the documented exception / this value
        if impl == "E" or impl == "OK|" + model[2:]: return None
        return "implementation differs from model (depth 101..200: expected rejection or the model's value)"
    if case.cmd == "l.spec":
        return "the Python reading of the property (gen_lic.spec) and the Coq specification (LicSpec.spec_canon) differ"
    if case.cmd == "l.evalsweep":
        return "eval() and the automaton differ on the guard-passing skeletons with this prefix (impl %s..., model %s...)" % (impl[:40], model[:40])
    if case.cmd == "l.sweep":
        a, b = impl.split("|", 1)[0], model.split("|", 1)[0]
        for n, (x, y) in enumerate(zip(a, b)):
            if x != y: return "sweep differs at sequence #%d of the chunk (impl %s, model %s)" % (n, x, y)
        return "sweep outputs differ"
    return "implementation differs from model"


def nontrivial(case, impl):
    if case.kind == "law": return True
    if case.cmd == "l.spec": return isinstance(impl, str) and impl.startswith("S|")
    if case.cmd == "l.sweep": return "1" in impl.split("|", 1)[0]
    if case.cmd == "l.evalsweep": return "1" in impl
    return isinstance(impl, str) and impl.startswith("OK|")


_folded = None


def _spec(s):
    """The harness-side reading of the property (harness/gen_lic.py) over the tables of the working tree."""
    global _folded
    if _folded is None: _folded = gen_lic.fold_tables(*tables())
    return gen_lic.spec(s, True, *_folded)


def match_deep(case, impl, model):
    """Proposed known finding: a well-formed expression nested deeper than CPython's eval() takes is rejected.
    Instance = well-formed per the property, nesting depth > 100, implementation rejects, and the faithful model says
    'rejected' (depth > 200) or 'interpreter dependent' (101..200)."""
    if case.cmd != "l.canon" or impl != "E": return False
    r = _spec(case.args[0])
    if r is None or r[1] <= 100: return False
    return model == "E" if r[1] > 200 else (isinstance(model, str) and model == "L|" + r[0])
