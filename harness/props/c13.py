"""C13 Name normalisation is PEP 503; is_normalized_name is its fixed-point test."""
from core import Case
import gen_names as g

IMPL_MODULE = "names_impl"
RULE = ("every string up to length L over a 12-symbol class-representative alphabet (lower, upper, digit, the three separators, newline, space, "
        "non-ASCII letter, the case-fold confusables U+017F U+212A U+0130) + strings of non-ASCII cased letters (upper/lower/title case, "
        "one-to-many and ASCII images, astral) with U+03A3 in final / medial / initial position and case-ignorable neighbours + a sweep of "
        "str.lower() over every code point the interpreter changes, its image, its neighbours and the class boundaries of the Final_Sigma rule "
        "+ segment/separator-run structured names (one- and two-character "
        "first segments, mixed runs, trailing newline/separator damage, confusables) + related pairs (respelled / near-miss names) for the laws; "
        "non-trivial = accepted by validate or is_normalized_name, or changed by canonicalize_name; distinct by input text")
ASSUMPTIONS = [
    "str.lower() beyond ASCII: the model (NamesX) uses the table coq/Gen/LowerTable.v generated from the running interpreter (every code point "
    "whose lower() differs from itself; the cased / case-ignorable classes of the Final_Sigma rule obtained by probing lower() around U+03A3); "
    "law.n.lowertable re-validates the generated file and the three table facts the theorems use against the interpreter for every code point; "
    "str.lower() being per code point apart from U+03A3 is CPython's do_lower, exercised by the n.lower / cased streams",
    "lone surrogates are not generated (text transport)",
]
TRUSTED_EXTRA = ["re engine on the two .match patterns: Names/NamesRegex.v gives a backtracking matcher for the fragment in use and proves that the hand-written "
                 "recognisers are what it computes on a hand transcription of the patterns (C13_validate_regex_is_recogniser, C13_normalized_regex_is_recogniser); "
                 "trusted are the transcription of the two pattern strings (flags included) and CPython's re implementing that semantics - both exercised: the "
                 "matcher itself is extracted and run on the transcribed terms against the real patterns (n.re on the bounded-exhaustive streams and the fixed "
                 "cases), next to the recognisers on the bounded-exhaustive stream and per-code-point sweeps over all 0x110000 code points in seven or more contexts (law.n.allcp)",
                 "re.sub on [-_.]+ (leftmost, greedy, non-overlapping) is modelled by Names.sub_runs directly"]


def streams(rng, tier):
    q = tier == "quick"
    out = []
    for s in g.exhaustive(g.NAME_ALPHA, 4 if q else 5):
        out.append(Case("exhaustive", "n.name", [s])); out.append(Case("exhaustive-re", "n.re", [s]))
    if not q:
        for s in g.exhaustive(g.NAME_ALPHA_ASCII, 7):
            if len(s) >= 6: out.append(Case("exhaustive-ascii", "n.name", [s])); out.append(Case("exhaustive-re", "n.re", [s]))
    for _ in range(6000 if q else 150000):
        s = g.rand_name(rng)
        out.append(Case("structured", "n.name", [s]))
        r = rng.random()
        if r < 0.25:
            out.append(Case("law-pair", "law.n.pair", [s, g.respell_name(rng, s)], kind="law"))
        elif r < 0.4:
            out.append(Case("law-pair", "law.n.pair", [s, g.near_name(rng, s)], kind="law"))
        elif r < 0.5:
            out.append(Case("law-pair", "law.n.pair", [s, g.rand_name(rng)], kind="law"))
        elif r < 0.6:
            out.append(Case("mutated", "n.name", [g.mutate(rng, s)]))
    for s in g.exhaustive(["a", "B", "-", "_", "\n", "K"], 3 if q else 4):
        for t in g.exhaustive(["a", "b", "-", ".", "0"], 2 if q else 3):
            if rng.random() < (0.2 if q else 0.5): out.append(Case("law-pair-small", "law.n.pair", [s, t], kind="law"))
    for s in ["", "a", "A", "-", "a-", "-a", "a--b", "a-b", "a_b", "a.b", "a-_.b", "foo\n", "foo\n\n", "a\n--b", "\n--", "ab--c", "a-b--c", "ſ", "K",
              "İ", "aİb", "Foo.Bar_baz", "A" * 300 + "-" * 40 + "b", "x" + "-_." * 100 + "y", "0", "00", "a b", "a\x00b", "a\rb", "a\x0bb"]:
        out.append(Case("fixed", "n.name", [s])); out.append(Case("fixed-law", "law.n.pair", [s, s.lower()], kind="law")); out.append(Case("fixed-re", "n.re", [s]))
    # ---- non-ASCII cased letters and U+03A3 through the exact model (NamesX.canon_full), and the same strings through the laws
    for _ in range(3000 if q else 60000):
        s = g.rand_cased_name(rng)
        out.append(Case("cased", "n.name", [s]))
        r = rng.random()
        if r < 0.3: out.append(Case("cased-lower", "n.lower", [s]))
        elif r < 0.6: out.append(Case("law-pair-cased", "law.n.pair", [s, g.respell_cased(rng, s)], kind="law"))
        elif r < 0.75: out.append(Case("law-pair-cased", "law.n.pair", [s, g.near_name(rng, s)], kind="law"))
        elif r < 0.85: out.append(Case("cased", "n.name", [g.mutate(rng, s, chars=g.MUT + g.CASED + g.IGNORABLE)]))
    for s in ["aΣ", "aΣ.b", "Σa", "aΣb", "Σ", "ΣΣ", "aΣΣ", "a'Σ", "aΣ'", "aΣ'b", "a.Σ", "a-Σ", "1Σ", "aΣ1", "ʰΣ", "aʰΣ", "aΣʰ", "aΣʰb", "ΌΣΟΣ", "É", "Éé", "ǅ", "ẞß", "İ", "aİΣ",
              "𐐀𐐨", "Ω_.Ω", "aΣ-_.Σa", "a\u0301Σ\u0301", "\u0345Σ", "a\u0345Σ"]:
        out.append(Case("fixed-cased", "n.name", [s])); out.append(Case("fixed-cased", "n.lower", [s]))
        out.append(Case("fixed-law-cased", "law.n.pair", [s, s.lower()], kind="law")); out.append(Case("fixed-law-cased", "law.n.pair", [s, s.swapcase()], kind="law"))
    pts = g.lower_sweep_points(rng, 2000 if q else 60000)
    for i in range(0, len(pts), 64):            # 64 code points per case; U+03A3 gets its own contexts above
        chunk = "".join(chr(p) for p in pts[i:i + 64] if p != 0x3A3)
        out.append(Case("lower-sweep", "n.lower", [chunk])); out.append(Case("lower-sweep", "n.name", [chunk]))
    for p in pts:                                # Final_Sigma classes: each swept code point after and before a sigma
        if rng.random() < (0.25 if q else 1.0):
            out.append(Case("sigma-sweep", "n.lower", ["aΣ" + chr(p)])); out.append(Case("sigma-sweep", "n.lower", ["aΣ" + chr(p) + "a"]))
            out.append(Case("sigma-sweep", "n.lower", [chr(p) + "Σ"])); out.append(Case("sigma-sweep", "n.lower", ["a" + chr(p) + "Σ"]))
            out.append(Case("sigma-sweep", "n.lower", ["a" + chr(p) + "Σ" + chr(p) + "a"]))
    big = "Ab" * 30000 + "-_." * 10000 + "É" * 10000 + "Σ"
    out.append(Case("long", "n.name", [big])); out.append(Case("long", "law.n.pair", [big, big.lower()], kind="law"))
    for ctx in ["{}", "a{}", "{}a", "a{}a", "a-{}", "{}.a", "A{}"] + ([] if q else ["a{}-b", "É{}", "{}Σ", "a_{}.", "{0}{0}"]):
        out.append(Case("law-allcp", "law.n.allcp", [ctx], kind="law"))
    out.append(Case("law-lowertable", "law.n.lowertable", [], kind="law"))
    return out


def nontrivial(c, i):
    if c.kind == "law": return True
    return isinstance(i, str) and len(i) >= 4 and (i[0] == "T" or i[2] == "T" or i[4:] != c.args[0])
