"""C13 Name normalisation is PEP 503; is_normalized_name is its fixed-point test."""
from core import Case
import gen_names as g

IMPL_MODULE = "names_impl"
RULE = ("every string up to length L over a 12-symbol class-representative alphabet (lower, upper, digit, the three separators, newline, space, "
        "non-ASCII letter, the case-fold confusables U+017F U+212A U+0130) + segment/separator-run structured names (one- and two-character "
        "first segments, mixed runs, trailing newline/separator damage, confusables) + related pairs (respelled / near-miss names) for the laws; "
        "non-trivial = accepted by validate or is_normalized_name, or changed by canonicalize_name; distinct by input text")
ASSUMPTIONS = [
    "str.lower() beyond ASCII: the model carries U+0130 -> 'i'+U+0307 and U+212A -> 'k' and treats every other non-ASCII code point as fixed; "
    "generated non-ASCII code points are drawn from a pool with that behaviour (checked for every code point by the law.n.lowertable case: no other "
    "non-ASCII code point lower-cases to text containing an ASCII character or a separator); non-ASCII upper-case letters and the "
    "final-sigma rule are outside the generated and the modelled domain",
]
TRUSTED_EXTRA = ["re engine on the three name patterns: tied to the hand-written recognisers by the bounded-exhaustive stream and by per-code-point sweeps "
                 "over all 0x110000 code points in four contexts (law.n.allcp)"]


def streams(rng, tier):
    q = tier == "quick"
    out = []
    for s in g.exhaustive(g.NAME_ALPHA, 4 if q else 5):
        out.append(Case("exhaustive", "n.name", [s]))
    if not q:
        for s in g.exhaustive(g.NAME_ALPHA_ASCII, 7):
            if len(s) >= 6: out.append(Case("exhaustive-ascii", "n.name", [s]))
    for _ in range(6000 if q else 150000):
        s = g.rand_name(rng)
        out.append(Case("structured", "n.name", [s]))
        r = rng.random()
        if r < 0.25:
            out.append(Case("law-pair", "law.n.pair", [s, g.respell_name(rng, s)], kind="law"))
        elif r < 0.4:
            out.append(Case("law-pair", "law.n.pair", [s, g.near_name(rng, s)], kind="law"))
        elif r < 0.5:
            out.append(Case("law-pair", "law.n.pair", [s, g.rand_name(rng)], kind="law"))
        elif r < 0.6:
            out.append(Case("mutated", "n.name", [g.mutate(rng, s)]))
    for s in g.exhaustive(["a", "B", "-", "_", "\n", "K"], 3 if q else 4):
        for t in g.exhaustive(["a", "b", "-", ".", "0"], 2 if q else 3):
            if rng.random() < (0.2 if q else 0.5): out.append(Case("law-pair-small", "law.n.pair", [s, t], kind="law"))
    for s in ["", "a", "A", "-", "a-", "-a", "a--b", "a-b", "a_b", "a.b", "a-_.b", "foo\n", "foo\n\n", "a\n--b", "\n--", "ab--c", "a-b--c", "ſ", "K",
              "İ", "aİb", "Foo.Bar_baz", "A" * 300 + "-" * 40 + "b", "x" + "-_." * 100 + "y", "0", "00", "a b", "a\x00b", "a\rb", "a\x0bb"]:
        out.append(Case("fixed", "n.name", [s])); out.append(Case("fixed-law", "law.n.pair", [s, s.lower()], kind="law"))
    for ctx in ["{}", "a{}", "{}a", "a{}a"]:
        out.append(Case("law-allcp", "law.n.allcp", [ctx], kind="law"))
    out.append(Case("law-lowertable", "law.n.lowertable", [], kind="law"))
    return out


def nontrivial(c, i):
    if c.kind == "law": return True
    return isinstance(i, str) and len(i) >= 4 and (i[0] == "T" or i[2] == "T" or i[4:] != c.args[0])
