"""C02 Version components and normal forms are faithful and canonical."""
from core import Case
import gen

IMPL_MODULE = "version_impl"
RULE = ("spellings of structured versions (all alternate spellings, separators, case, leading zeros, implicit numbers, v prefix, whitespace), "
        "mutations of them, and pairs (neighbours and independent random ones) for the canonical-string invariant; wide spellings (zero runs up to 50, "
        "releases up to 40 components, big epochs / local integers, random alphanumeric local segments, all 29 whitespace code points); law-reading "
        "compares every attribute with the structured version the spelling was generated from; non-trivial = accepted by Version; distinct by input text")
ASSUMPTIONS = ["the model has no digit limit (finding D10, recorded under C12): numbers of more than 4300 digits, which the real Version() rejects with "
               "InvalidVersion, are outside the generated domain of this check (largest generated: 4101 digits + a zero run of 50, thorough tier)"]

def streams(rng, tier):
    q = tier == "quick"
    out = []
    for _ in range(5000 if q else 150000):
        v = gen.rand_v(rng)
        s = gen.spell(rng, v)
        if rng.random() < 0.25: s = gen.mutate(rng, s)
        out.append(Case("parse", "v.parse", [s]))
        if rng.random() < 0.3:
            out.append(Case("law-roundtrip", "law.v.roundtrip", [s], kind="law"))
        if rng.random() < 0.4:
            out.append(Case("canon", "v.canon", [rng.choice("TF"), s]))
        if rng.random() < 0.3:
            w = rng.choice(gen.neighbours(rng, v))
            t = gen.spell(rng, w)
            out.append(Case("law-canon", "law.v.canon", [s, t], kind="law"))
    # ---- improvement round: independent oracle (the structured version a spelling was generated from) and wider spellings ----
    import json
    for _ in range(2500 if q else 60000):
        wide = rng.random() < 0.6
        v = gen.fix_local(gen.rand_v_wide(rng) if wide else gen.rand_v(rng))
        s = gen.spell_wide(rng, v) if wide or rng.random() < 0.3 else gen.spell(rng, v)
        out.append(Case("law-reading", "law.v.reading", [s, json.dumps(gen.reading(v))], kind="law"))
        if rng.random() < 0.5: out.append(Case("parse-wide", "v.parse", [s]))
        if rng.random() < 0.2: out.append(Case("canon-wide", "v.canon", [rng.choice("TF"), s]))
        if rng.random() < 0.15: out.append(Case("law-roundtrip", "law.v.roundtrip", [s], kind="law"))
        if rng.random() < 0.3:
            k = rng.random()
            w = rng.choice(gen.neighbours_wide(rng, v)) if k < 0.6 else gen.rand_v_wide(rng) if k < 0.8 else gen.rand_v(rng)
            out.append(Case("law-canon", "law.v.canon", [s, gen.spell_wide(rng, w)], kind="law"))
    # digits that str.isdigit()/int() accept but the (?a:) pattern does not: such strings are non-versions and must pass through unchanged
    for _ in range(300 if q else 6000):
        s = gen.spell(rng, gen.rand_v(rng, local_p=0.15), ws=rng.random() < 0.3, vprefix=rng.random() < 0.3)
        pos = [i for i, ch in enumerate(s) if ch.isdigit()]
        i = rng.choice(pos)
        s = s[:i] + rng.choice(["\u0661", "\uff11", "\u00b2", "\u0967", "\u2460", "\U0001d7d9"]) + s[i + 1:]
        out.append(Case("digit-confusable", "v.parse", [s])); out.append(Case("digit-confusable", "v.canon", [rng.choice("TF"), s]))
    for _ in range(400 if q else 8000):
        # one letter replaced by a look-alike (U+212A lower-cases to "k", U+017F case-folds to "s", ...): never a version, passes through unchanged
        v = gen.rand_v_with_k(rng) if rng.random() < 0.5 else gen.rand_v(rng, local_p=0.5)
        s0 = gen.spell(rng, v, ws=rng.random() < 0.3, vprefix=rng.random() < 0.3)
        s = gen.confuse_letter(rng, s0)
        if s is None: continue
        out.append(Case("letter-confusable", "v.parse", [s0])); out.append(Case("letter-confusable", "v.parse", [s]))
        out.append(Case("letter-confusable", "v.canon", [rng.choice("TF"), s]))
    if not q:       # magnitudes just below CPython's 4300-digit int() limit (thorough tier only: the model takes seconds for each)
        for x in gen.HUGE4K:
            for tpl in ["%d", "0001.%d.0", "%d!1", "1+%d", "1.post%d", "1a%d"]:
                out.append(Case("parse-4k", "v.parse", [tpl % x])); out.append(Case("parse-4k", "v.canon", ["T", tpl % x]))
    for c in gen.WS_ALL:
        for s in [c + "1.0", "1.0" + c, c + "v1.0rc1" + c, "1" + c + "0", "1.0" + c + "a1", c]:
            out.append(Case("ws-all", "v.parse", [s])); out.append(Case("ws-all", "v.canon", ["T", s]))
    for s in ["", " ", "1", "1.0a-1", "1.0-1", "1.0-1-", "1.0a", "1.0.post", "1!0", "0!1", "v1", "1.0+a.b", "1.0+a..b", "1.0.dev", "1.0-r", "1.0c1", "1.0-preview-1", "not a version", "1.0.*", "1.0+", "1..0"]:
        out.append(Case("fixed", "v.parse", [s])); out.append(Case("fixed", "v.canon", ["T", s])); out.append(Case("fixed", "v.canon", ["F", s]))
    return out
