"""C02 Version components and normal forms are faithful and canonical."""
from core import Case
import gen

IMPL_MODULE = "version_impl"
RULE = ("spellings of structured versions (all alternate spellings, separators, case, leading zeros, implicit numbers, v prefix, whitespace), "
        "mutations of them, and pairs for the canonical-string invariant; non-trivial = accepted by Version; distinct by input text")
ASSUMPTIONS = ["integers beyond CPython's int/str digit limit are outside the generated domain (known finding D10, reported under C11)"]

def streams(rng, tier):
    q = tier == "quick"
    out = []
    for _ in range(5000 if q else 150000):
        v = gen.rand_v(rng)
        s = gen.spell(rng, v)
        if rng.random() < 0.25: s = gen.mutate(rng, s)
        out.append(Case("parse", "v.parse", [s]))
        if rng.random() < 0.3:
            out.append(Case("law-roundtrip", "law.v.roundtrip", [s], kind="law"))
        if rng.random() < 0.4:
            out.append(Case("canon", "v.canon", [rng.choice("TF"), s]))
        if rng.random() < 0.3:
            w = rng.choice(gen.neighbours(rng, v))
            t = gen.spell(rng, w)
            out.append(Case("law-canon", "law.v.canon", [s, t], kind="law"))
    for s in ["", " ", "1", "1.0a-1", "1.0-1", "1.0-1-", "1.0a", "1.0.post", "1!0", "0!1", "v1", "1.0+a.b", "1.0+a..b", "1.0.dev", "1.0-r", "1.0c1", "1.0-preview-1", "not a version", "1.0.*", "1.0+", "1..0"]:
        out.append(Case("fixed", "v.parse", [s])); out.append(Case("fixed", "v.canon", ["T", s])); out.append(Case("fixed", "v.canon", ["F", s]))
    return out
