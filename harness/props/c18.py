"""C18 parse_email is a lossless, typed partition of the document."""
import json
import core
from core import Case
import gen

IMPL_MODULE = "email_impl"
RULE = ("header documents: multisets of the 30 known header names (random case) and unknown names, repeated single-use headers, duplicate "
        "Project-URL labels, values with commas / non-ASCII / RFC 2047 words / folded lines / surrounding blanks, str and bytes input "
        "(UTF-8, Latin-1 and damaged bytes), with/without body, multipart and transfer-encoded bodies, structural damage; the model is fed "
        "what the email package delivers for the same document; serialise->parse round trips of well-formed RawMetadata dicts; "
        "non-trivial = at least one header or a body reached one of the two dicts; distinct by document")
ASSUMPTIONS = [
    "everything inside the stdlib email package (header splitting, folding, RFC 2047 decoding, surrogate escapes, transfer encodings, "
    "multipart) is an oracle: the model starts from the header list and payload it returns",
    "round trip: values are well formed (single line, no surrounding white space, non-empty lists/dicts/description, keywords and "
    "Project-URL labels without commas)",
]
TRUSTED_EXTRA = ["email.parser.Parser/BytesParser(policy=compat32), Message.items/get_payload, email.header.decode_header/make_header: "
                 "harness/impl/email_impl.py extract() repeats parse_email's calls to obtain the model's input"]

KNOWN = ["Metadata-Version", "Name", "Version", "Platform", "Summary", "Description", "Keywords", "Home-page", "Author", "Author-email", "License",
         "Supported-Platform", "Download-URL", "Classifier", "Requires", "Provides", "Obsoletes", "Maintainer", "Maintainer-email", "Requires-Dist",
         "Provides-Dist", "Obsoletes-Dist", "Requires-Python", "Requires-External", "Project-URL", "Description-Content-Type", "Provides-Extra", "Dynamic",
         "License-Expression", "License-File"]
MULTI = {"Platform", "Supported-Platform", "Classifier", "Requires", "Provides", "Obsoletes", "Requires-Dist", "Provides-Dist", "Obsoletes-Dist",
         "Requires-External", "Project-URL", "Provides-Extra", "Dynamic", "License-File"}
UNKNOWN_H = ["X-Foo", "bar", "Descriptions", "Project-URLs", "Name_", "Licence", "Content-Type", "X", "Keyword", "License-Files", "metadata_version"]
VALS = ["x", "a b", "café", "1.0", "a, b", "k1,k2 , k3", "lbl, http://u", "lbl2,http://v", "lbl, http://other", "nolabel", "", "ünï", "x; y=z",
        "=?utf-8?q?caf=C3=A9?=", "=?utf-8?b?Y2Fmw6k=?= tail", "  padded  ", "a,\n b", "folded\n\tline", ",", ",,", " , x", "lbl ,", " x", "tab\tin",
        "=?latin-1?q?caf=E9?=", "=?utf-8?q?=ff?=", "\x0b,\x0c", "　k　, j", ":", "a: b", "=?bogus?q?x?="]
BODIES = ["", "", "", "body text\nmore", "x", "\n", "café\n", "  ", "line\n\nline", "0"]


def rand_doc(rng):
    hs = []
    for _ in range(rng.choice([0, 1, 2, 3, 4, 7, 10])):
        nm = rng.choice(KNOWN) if rng.random() < 0.85 else rng.choice(UNKNOWN_H)
        reps = rng.choice([1, 1, 1, 2, 3]) if (nm in MULTI or rng.random() < 0.15) else 1
        for _ in range(reps):
            name = nm if rng.random() < 0.5 else gen.rand_case(rng, nm.lower()) if rng.random() < 0.7 else nm.upper()
            hs.append((name, rng.choice(VALS)))
    rng.shuffle(hs)
    body = rng.choice(BODIES)
    sep = rng.choice([": ", ": ", ":", ":  ", " : "]) if rng.random() < 0.2 else ": "
    nl = "\r\n" if rng.random() < 0.08 else "\n"
    lines = ["%s%s%s" % (n, sep, v) for n, v in hs]
    doc = "".join(l + nl for l in lines)
    r = rng.random()
    if r < 0.04: doc = "Content-Type: multipart/mixed; boundary=x" + nl + doc; body = "--x\n\nhi\n--x--\n"
    elif r < 0.08: doc = "Content-Transfer-Encoding: base64" + nl + doc; body = rng.choice(["aGVsbG8=", "aGVsbG8", "/w==", "!!", "w6k="])
    elif r < 0.10: doc = "Content-Transfer-Encoding: quoted-printable" + nl + doc; body = rng.choice(["caf=C3=A9", "x=FFy", "a=\nb"])
    elif r < 0.12: doc = "From someone\n" + doc
    elif r < 0.14 and lines: i = rng.randrange(len(lines) + 1); ls = lines[:]; ls.insert(i, rng.choice(["no colon here", " leading blank: x", ": noname", "bad name: x", "é: x"])); doc = "".join(l + nl for l in ls)
    if body or rng.random() < 0.1: doc += nl + body
    return doc


def to_source(rng, doc):
    """-> (kind, text) where text is the str document or the bytes document as Latin-1 text"""
    r = rng.random()
    if r < 0.5: return "s", doc
    if r < 0.85: data = doc.encode("utf-8")
    elif r < 0.93: data = doc.encode("latin-1", "replace")
    else:
        data = bytearray(doc.encode("utf-8"))
        for _ in range(rng.choice([1, 2])):
            data.insert(rng.randrange(len(data) + 1), rng.choice([0xff, 0xc3, 0x80, 0xe9]))
        data = bytes(data)
    return "b", data.decode("latin-1")


# ---- well-formed RawMetadata for the round trip
RT_S = ["x", "a b", "café", "1.0", "ünï", "http://u/v?w=1", "text/markdown; variant=GFM", ">=3.8", "", "a, b", "x:y", "tab\tin", "日本",
        "=?utf-8?q?caf=C3=A9?=", "=?utf-8?q?x?= é", "a  b", "x =?bogus", "{x}"]
RT_K = ["k1", "k 2", "é", "x:y", "a;b"]
RT_L = ["Home", "Docs", "Bug Tracker", "é", "x:y", ""]
STRING_K = ["metadata_version", "name", "version", "summary", "description", "home_page", "author", "author_email", "license", "download_url", "maintainer",
            "maintainer_email", "requires_python", "description_content_type", "license_expression"]
LIST_K = ["platforms", "supported_platforms", "classifiers", "requires", "provides", "obsoletes", "requires_dist", "provides_dist", "obsoletes_dist",
          "requires_external", "provides_extra", "dynamic", "license_files"]


def rand_raw(rng):
    d = {}
    for k in rng.sample(STRING_K + LIST_K + ["keywords", "project_urls"], rng.choice([0, 1, 3, 6, 12, 20])):
        if k in LIST_K: d[k] = [rng.choice(RT_S) for _ in range(rng.choice([1, 2, 3]))]
        elif k == "keywords": d[k] = [rng.choice(RT_K) for _ in range(rng.choice([1, 2, 3]))]
        elif k == "project_urls": d[k] = {l: rng.choice(RT_S) for l in rng.sample(RT_L, rng.choice([1, 2, 3]))}
        elif k == "description": d[k] = rng.choice(["desc", "multi\nline\n\ndesc", "ünï", " leading", "x\n", "Name: not a header\n"])
        else: d[k] = rng.choice(RT_S)
    return d


def enc_dict(d):
    out = []
    for k, v in d.items():
        out.append("K" + k)
        if isinstance(v, str): out.append("S" + v)
        elif isinstance(v, list): out += ["L"] + ["I" + x for x in v]
        else:
            out.append("D")
            for a, b in v.items(): out += ["P" + a, "Q" + b]
    return out


def streams(rng, tier):
    q = tier == "quick"
    docs = []
    for _ in range(4000 if q else 250000):
        docs.append(("documents",) + to_source(rng, rand_doc(rng)))
    # small exhaustive sweep: every pair of header lines over a small set of names x values, with and without body
    names = ["Name", "name", "Keywords", "Project-URL", "Description", "Classifier", "X-Y"]
    vals = ["a", "a, b", "l, u"]
    for n1 in names:
        for v1 in vals:
            for n2 in names:
                for v2 in (vals if not q else vals[:2]):
                    for body in ("", "B"):
                        docs.append(("sweep-pairs", "s", "%s: %s\n%s: %s\n" % (n1, v1, n2, v2) + ("\n" + body if body else "")))
    # mutations of a realistic METADATA file
    base = ("Metadata-Version: 2.1\nName: sample\nVersion: 1.0\nSummary: A sample\nKeywords: a,b, c\nProject-URL: Home, https://x\nProject-URL: Docs, https://y\n"
            "Classifier: A :: B\nClassifier: C\nRequires-Dist: foo>=1\nDescription-Content-Type: text/markdown;\n variant=GFM\n\nLong description\nhere\n")
    for _ in range(800 if q else 50000):
        docs.append(("mutations",) + to_source(rng, gen.mutate(rng, base, list(":\n ,=?-") + ["Name", "é", "\t", "\r"])))
    ext = core.run_impl(IMPL_MODULE, [("e.extract", [k, t]) for _, k, t in docs])
    cases = []
    for (stream, kind, text), toks in zip(docs, ext):
        if toks.startswith("!"):
            # the e-mail package itself fails on this document: parse_email must then not be blamed by the model; the law case still records it
            cases.append(Case(stream + "-law", "law.e.spec", [kind, text], kind="law"))
            continue
        cases.append(Case(stream, "e.parse", [("X" if kind == "s" else "B") + text] + json.loads(toks)))
        if stream != "sweep-pairs" or not q: cases.append(Case(stream + "-law", "law.e.spec", [kind, text], kind="law"))
    for _ in range(2000 if q else 100000):
        cases.append(Case("law-roundtrip", "law.e.roundtrip", enc_dict(rand_raw(rng)), kind="law"))
    return cases


def compare(case, impl, model):
    if impl.startswith("!EXC"): return "parse_email raised: " + impl
    return None if impl == model else "implementation differs from model"


def nontrivial(case, impl):
    return impl not in ("|", "ok") or case.kind == "law"
