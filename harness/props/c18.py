"""C18 parse_email is a lossless, typed partition of the document."""
import json
import core
from core import Case
import gen

IMPL_MODULE = "email_impl"
RULE = ("header documents: multisets of the 30 known header names (random case) and unknown names, repeated single-use headers, duplicate "
        "Project-URL labels, values with commas / non-ASCII / RFC 2047 words / folded lines / surrounding blanks, str and bytes input "
        "(UTF-8, Latin-1 and damaged bytes), with/without body, multipart and transfer-encoded bodies, structural damage; the model is fed "
        "what the email package delivers for the same document; serialise->parse round trips of well-formed RawMetadata dicts; "
        "non-trivial = at least one header or a body reached one of the two dicts; distinct by document; "
        "improvement round: str documents with surrogate-escaped bytes (U+DC80..DCFF) and astral characters; e.lines: the email package "
        "against the line-level parser of the text round-trip theorem on documents of plain 'Name: value' lines; laws: str input == UTF-8 bytes "
        "input, the generator's own (name, value) list against the two dicts, round trips under random header capitalisation, and the "
        "pinned results of round trips OUTSIDE the well-formedness domain")
ASSUMPTIONS = [
    "everything inside the stdlib email package (header splitting, folding, RFC 2047 decoding, surrogate escapes, transfer encodings, "
    "multipart) is an oracle: the model starts from the header list and payload it returns",
    "round trip: values are well formed (no line-break character of str.splitlines, no leading blank, non-empty lists/dicts/description, "
    "keywords and Project-URL labels without commas and surrounding white space) - coq: wf_text; outside it the round trip fails as pinned by law.e.roundtrip-neg",
    "str input is text: lone surrogates U+D800..DBFF / U+DC00..DC7F are outside the domain (the email package raises UnicodeEncodeError); "
    "U+DC80..DCFF (surrogate-escaped bytes) are accepted by the package in otherwise ASCII documents and generated there, but only for the "
    "correspondence with the model (mixed with real non-ASCII text in one header value or body the package raises UnicodeEncodeError)",
]
TRUSTED_EXTRA = ["email.parser.Parser/BytesParser(policy=compat32), Message.items/get_payload, email.header.decode_header/make_header: "
                 "harness/impl/email_impl.py extract() repeats parse_email's calls to obtain the model's input"]

KNOWN = ["Metadata-Version", "Name", "Version", "Platform", "Summary", "Description", "Keywords", "Home-page", "Author", "Author-email", "License",
         "Supported-Platform", "Download-URL", "Classifier", "Requires", "Provides", "Obsoletes", "Maintainer", "Maintainer-email", "Requires-Dist",
         "Provides-Dist", "Obsoletes-Dist", "Requires-Python", "Requires-External", "Project-URL", "Description-Content-Type", "Provides-Extra", "Dynamic",
         "License-Expression", "License-File"]
MULTI = {"Platform", "Supported-Platform", "Classifier", "Requires", "Provides", "Obsoletes", "Requires-Dist", "Provides-Dist", "Obsoletes-Dist",
         "Requires-External", "Project-URL", "Provides-Extra", "Dynamic", "License-File"}
UNKNOWN_H = ["X-Foo", "bar", "Descriptions", "Project-URLs", "Name_", "Licence", "Content-Type", "X", "Keyword", "License-Files", "metadata_version"]
VALS = ["x", "a b", "café", "1.0", "a, b", "k1,k2 , k3", "lbl, http://u", "lbl2,http://v", "lbl, http://other", "nolabel", "", "ünï", "x; y=z",
        "=?utf-8?q?caf=C3=A9?=", "=?utf-8?b?Y2Fmw6k=?= tail", "  padded  ", "a,\n b", "folded\n\tline", ",", ",,", " , x", "lbl ,", " x", "tab\tin",
        "=?latin-1?q?caf=E9?=", "=?utf-8?q?=ff?=", "\x0b,\x0c", "　k　, j", ":", "a: b", "=?bogus?q?x?="]
BODIES = ["", "", "", "body text\nmore", "x", "\n", "café\n", "  ", "line\n\nline", "0", "\U0001F600", "x\udcffy", "caf\udcc3\udca9", "a\r\nb", "Name: x"]


def rand_doc(rng):
    hs = []
    for _ in range(rng.choice([0, 1, 2, 3, 4, 7, 10])):
        nm = rng.choice(KNOWN) if rng.random() < 0.85 else rng.choice(UNKNOWN_H)
        reps = rng.choice([1, 1, 1, 2, 3]) if (nm in MULTI or rng.random() < 0.15) else 1
        for _ in range(reps):
            name = nm if rng.random() < 0.5 else gen.rand_case(rng, nm.lower()) if rng.random() < 0.7 else nm.upper()
            hs.append((name, rng.choice(VALS)))
    rng.shuffle(hs)
    body = rng.choice(BODIES)
    sep = rng.choice([": ", ": ", ":", ":  ", " : "]) if rng.random() < 0.2 else ": "
    nl = "\r\n" if rng.random() < 0.08 else "\n"
    lines = ["%s%s%s" % (n, sep, v) for n, v in hs]
    doc = "".join(l + nl for l in lines)
    r = rng.random()
    if r < 0.04: doc = "Content-Type: multipart/mixed; boundary=x" + nl + doc; body = "--x\n\nhi\n--x--\n"
    elif r < 0.08: doc = "Content-Transfer-Encoding: base64" + nl + doc; body = rng.choice(["aGVsbG8=", "aGVsbG8", "/w==", "!!", "w6k="])
    elif r < 0.10: doc = "Content-Transfer-Encoding: quoted-printable" + nl + doc; body = rng.choice(["caf=C3=A9", "x=FFy", "a=\nb"])
    elif r < 0.12: doc = "From someone\n" + doc
    elif r < 0.14 and lines: i = rng.randrange(len(lines) + 1); ls = lines[:]; ls.insert(i, rng.choice(["no colon here", " leading blank: x", ": noname", "bad name: x", "é: x"])); doc = "".join(l + nl for l in ls)
    if body or rng.random() < 0.1: doc += nl + body
    if has_surrogate(doc) and any(ord(c) > 127 and not 0xD800 <= ord(c) < 0xE000 for c in doc):
        # a header value or body mixing surrogate-escaped bytes with real non-ASCII text is not a str the email package can take
        # (UnicodeEncodeError): outside the domain, see ASSUMPTIONS
        doc = "".join("?" if 0xD800 <= ord(c) < 0xE000 else c for c in doc)
    return doc


def has_surrogate(s):
    return any(0xD800 <= ord(c) < 0xE000 for c in s)


def simple_doc(rng):
    """-> (headers [(name, value)], body, text): plain 'Name: value' lines (any capitalisation, blanks after the colon), blank line, body"""
    hs = []
    for _ in range(rng.choice([0, 1, 2, 3, 5, 8])):
        nm = rng.choice(KNOWN) if rng.random() < 0.85 else rng.choice(UNKNOWN_H)
        for _ in range(rng.choice([1, 1, 1, 2, 3]) if (nm in MULTI or rng.random() < 0.15) else 1):
            name = nm if rng.random() < 0.5 else gen.rand_case(rng, nm.lower()) if rng.random() < 0.7 else nm.upper()
            v = rng.choice(SIMPLE_VALS)
            hs.append((name, v))
    rng.shuffle(hs)
    body = rng.choice(["", "", "body text\nmore", "x", "\n", "café\n", "  ", "line\n\nline", "0", "\U0001F600", "a\r\nb", "Name: x", " x", "\x0b"])
    text = "".join("%s:%s%s\n" % (n, rng.choice([" ", " ", "", "  ", "\t", " \t "]), v) for n, v in hs)
    if body or rng.random() < 0.1: text += "\n" + body
    return hs, body, text


def to_source(rng, doc):
    """-> (kind, text) where text is the str document or the bytes document as Latin-1 text"""
    r = rng.random()
    if r < 0.5 or has_surrogate(doc): return "s", doc
    if r < 0.85: data = doc.encode("utf-8")
    elif r < 0.93: data = doc.encode("latin-1", "replace")
    else:
        data = bytearray(doc.encode("utf-8"))
        for _ in range(rng.choice([1, 2])):
            data.insert(rng.randrange(len(data) + 1), rng.choice([0xff, 0xc3, 0x80, 0xe9]))
        data = bytes(data)
    return "b", data.decode("latin-1")


SIMPLE_VALS = [v for v in VALS if not has_surrogate(v) and not any(c in v for c in "\n\r\x0b\x0c\x1c\x1d\x1e\x85\u2028\u2029")] + ["x ", "a\tb", "\xa0x", "=?utf-8?q?a?= =?utf-8?q?b?="]

# round trips outside the well-formedness domain: (raw dict, what parse_email returns for its serialisation) - observed, pinned
ROUNDTRIP_NEG = [
    ({"name": " x"}, ({"name": "x"}, {})),
    ({"name": "\tx"}, ({"name": "x"}, {})),
    ({"summary": "a\nb"}, ({"summary": "a", "description": "b\n"}, {})),
    ({"classifiers": ["x\r"]}, ({"classifiers": ["x"]}, {})),
    ({"keywords": ["a,b"]}, ({"keywords": ["a", "b"]}, {})),
    ({"keywords": [" a"]}, ({"keywords": ["a"]}, {})),
    ({"keywords": []}, ({"keywords": [""]}, {})),
    ({"classifiers": []}, ({}, {})),
    ({"description": ""}, ({}, {})),
    ({"project_urls": {}}, ({}, {})),
    ({"project_urls": {"a,b": "u"}}, ({"project_urls": {"a": "b, u"}}, {})),
    ({"project_urls": {"a": " u "}}, ({"project_urls": {"a": "u"}}, {})),
    ({"project_urls": {" a": "u"}}, ({"project_urls": {"a": "u"}}, {})),
    # surrogate code points (outside wf_text: text_str): str input only
    ({"name": "caf\udcc3\udca9"}, ({"name": "caf\u00e9"}, {})),
    ({"name": "x\udc80"}, ({}, {"name": ["x\x80"]})),
    ({"description": "x\udcff"}, ({"description": "x\ufffd"}, {})),
    ({"classifiers": ["\udcc3\udca9"]}, ({"classifiers": ["\u00e9"]}, {})),
]

# ---- well-formed RawMetadata for the round trip
RT_S = ["x", "a b", "café", "1.0", "ünï", "http://u/v?w=1", "text/markdown; variant=GFM", ">=3.8", "", "a, b", "x:y", "tab\tin", "日本",
        "=?utf-8?q?caf=C3=A9?=", "=?utf-8?q?x?= é", "a  b", "x =?bogus", "{x}", "trailing ", "x\t", "\U0001F600", "a\U00010000b", "\xa0nbsp\xa0", ": x", "x:"]
RT_U = [v for v in RT_S if v == v.strip()]          # URLs come back stripped
RT_K = ["k1", "k 2", "é", "x:y", "a;b"]
RT_L = ["Home", "Docs", "Bug Tracker", "é", "x:y", ""]
STRING_K = ["metadata_version", "name", "version", "summary", "description", "home_page", "author", "author_email", "license", "download_url", "maintainer",
            "maintainer_email", "requires_python", "description_content_type", "license_expression"]
LIST_K = ["platforms", "supported_platforms", "classifiers", "requires", "provides", "obsoletes", "requires_dist", "provides_dist", "obsoletes_dist",
          "requires_external", "provides_extra", "dynamic", "license_files"]


def rand_raw(rng):
    d = {}
    for k in rng.sample(STRING_K + LIST_K + ["keywords", "project_urls"], rng.choice([0, 1, 3, 6, 12, 20])):
        if k in LIST_K: d[k] = [rng.choice(RT_S) for _ in range(rng.choice([1, 2, 3]))]
        elif k == "keywords": d[k] = [rng.choice(RT_K) for _ in range(rng.choice([1, 2, 3]))]
        elif k == "project_urls": d[k] = {l: rng.choice(RT_U) for l in rng.sample(RT_L, rng.choice([1, 2, 3]))}
        elif k == "description": d[k] = rng.choice(["desc", "multi\nline\n\ndesc", "ünï", " leading", "x\n", "Name: not a header\n", "\n", "a\r\nb", "\U0001F600", "x\x0by\u2028z", "\n\nx"])
        else: d[k] = rng.choice(RT_S)
    return d


def enc_dict(d):
    out = []
    for k, v in d.items():
        out.append("K" + k)
        if isinstance(v, str): out.append("S" + v)
        elif isinstance(v, list): out += ["L"] + ["I" + x for x in v]
        else:
            out.append("D")
            for a, b in v.items(): out += ["P" + a, "Q" + b]
    return out


def streams(rng, tier):
    q = tier == "quick"
    docs = []
    for _ in range(4000 if q else 250000):
        docs.append(("documents",) + to_source(rng, rand_doc(rng)))
    # small exhaustive sweep: every pair of header lines over a small set of names x values, with and without body
    names = ["Name", "name", "Keywords", "Project-URL", "Description", "Classifier", "X-Y"]
    vals = ["a", "a, b", "l, u"]
    for n1 in names:
        for v1 in vals:
            for n2 in names:
                for v2 in (vals if not q else vals[:2]):
                    for body in ("", "B"):
                        docs.append(("sweep-pairs", "s", "%s: %s\n%s: %s\n" % (n1, v1, n2, v2) + ("\n" + body if body else "")))
    # mutations of a realistic METADATA file
    base = ("Metadata-Version: 2.1\nName: sample\nVersion: 1.0\nSummary: A sample\nKeywords: a,b, c\nProject-URL: Home, https://x\nProject-URL: Docs, https://y\n"
            "Classifier: A :: B\nClassifier: C\nRequires-Dist: foo>=1\nDescription-Content-Type: text/markdown;\n variant=GFM\n\nLong description\nhere\n")
    for _ in range(800 if q else 50000):
        docs.append(("mutations",) + to_source(rng, gen.mutate(rng, base, list(":\n ,=?-") + ["Name", "é", "\t", "\r"])))
    ext = core.run_impl(IMPL_MODULE, [("e.extract", [k, t]) for _, k, t in docs])
    cases = []
    for (stream, kind, text), toks in zip(docs, ext):
        if toks.startswith("!"):
            # the e-mail package itself fails on this document: parse_email must then not be blamed by the model; the law case still records it
            cases.append(Case(stream + "-law", "law.e.spec", [kind, text], kind="law"))
            continue
        cases.append(Case(stream, "e.parse", [("X" if kind == "s" else "B") + text] + json.loads(toks)))
        if stream != "sweep-pairs" or not q: cases.append(Case(stream + "-law", "law.e.spec", [kind, text], kind="law"))
    for _ in range(2000 if q else 100000):
        cases.append(Case("law-roundtrip", "law.e.roundtrip", enc_dict(rand_raw(rng)), kind="law"))
    # round trip with every header line in its own random capitalisation
    for _ in range(1000 if q else 50000):
        cases.append(Case("law-roundtrip-spelling", "law.e.roundtrip2", [str(rng.randrange(10 ** 9))] + enc_dict(rand_raw(rng)), kind="law"))
    # necessity of the well-formedness conditions: the pinned results outside them
    for raw, want in ROUNDTRIP_NEG:
        cases.append(Case("law-roundtrip-neg", "law.e.roundtrip-neg", [json.dumps(raw), json.dumps(want)], kind="law"))
    # the email package against parse_lines (the line-level parser of the text round-trip theorem); "?" = not a document of the simple shape
    lines_docs = [t for _, k, t in docs if k == "s" and not has_surrogate(t)]          # text only: parse_lines says nothing about surrogates
    simple = [simple_doc(rng) for _ in range(1500 if q else 80000)]
    lines_docs += [t for _, _, t in simple]
    for _ in range(500 if q else 30000):
        lines_docs.append(gen.mutate(rng, rng.choice(simple)[2] or "Name: x\n", list(":\n \t,") + ["\r", "\x0b", "\x1c", "\x85", "\u2028", "é", "Content-Type", "\n\n"]))
    for t in lines_docs:
        cases.append(Case("lines", "e.lines", [t]))
    # str input == UTF-8 bytes input (documents without surrogates, Content-Type and Content-Transfer-Encoding); independent of extract()
    for t in lines_docs:
        if not has_surrogate(t) and "content-t" not in t.lower():
            cases.append(Case("law-str-bytes", "law.e.strbytes", [t], kind="law"))
    # the generator's own (name, value) list against the two dicts; independent of extract()
    for hs, body, text in simple:
        cases.append(Case("law-pairs", "law.e.pairs", [json.dumps(hs), body, text], kind="law"))
    return cases


def compare(case, impl, model):
    if case.cmd == "e.lines":
        if impl.startswith("!EXC"): return "the email package raised on a str document: " + impl
        return None if model == "?" or impl == model else "the email package does not deliver what parse_lines says for a document of plain header lines"
    if impl.startswith("!EXC"): return "parse_email raised: " + impl
    return None if impl == model else "implementation differs from model"


def nontrivial(case, impl):
    return impl not in ("|", "ok", '|""') or case.kind == "law"
