"""C10 Equality is an equivalence, agrees with hash, and implies same behaviour (Version, Specifier, SpecifierSet, Marker, Requirement, Tag)."""
from core import Case
import gen, gen_spec, gen_misc
import gen_sets as G

IMPL_MODULE = "eq_impl"
RULE = ("triples of objects of one type built from inputs that differ only by spelling, trailing zeros, case, clause order, quote style or name normalisation "
        "(plus unrelated ones): reflexive/symmetric/transitive, != consistent, hash and set/dict collapse, and equal => same behaviour "
        "(matches on a candidate battery under every pre-release setting, evaluation on an environment battery, parts, fields), all on the real objects; "
        "Version and Specifier equality also compared with the model; non-trivial = at least two objects constructed")

def v_triple(rng):
    v = gen.rand_v(rng)
    nb = [v, gen.V(v.epoch, v.release + (0,), v.pre, v.post, v.dev, v.local), rng.choice(gen.neighbours(rng, v)), gen.rand_v(rng)]
    return [gen.spell(rng, rng.choice(nb)) for _ in range(3)]

def sp_triple(rng):
    s, op, V, wild = gen_spec.spec_string(rng)
    out = [s]
    for _ in range(2):
        k = rng.random()
        if V is not None and k < 0.6:
            nb = [V, gen.V(V.epoch, V.release + (0,), V.pre, V.post, V.dev, V.local), rng.choice(gen.neighbours(rng, V))]
            out.append(gen_spec.spec_string(rng, op=op if rng.random() < 0.8 else None, v=rng.choice(nb))[0])
        elif k < 0.8: out.append(s.strip())
        else: out.append(gen_spec.spec_string(rng)[0])
    return out

def clause_variant(rng, c):
    """another spelling of the same clause (same operator, an equal version spelled differently); None when the clause has no structured version"""
    s, op, V, wild = c
    if V is None or op == "===" or (wild and V.local is not None): return s.strip()
    if wild:
        return op + gen.spell(rng, gen.V(V.epoch, V.release, None, None, None, None), ws=False) + ".*"
    W = rng.choice([V, gen.V(V.epoch, V.release + (0,), V.pre, V.post, V.dev, V.local)]) if op != "~=" else V
    return rng.choice(["", " "]) + op + rng.choice(["", " "]) + gen.spell(rng, W, ws=False)

def set_triple(rng):
    n = rng.choice([0, 1, 2, 3])
    cs = [gen_spec.spec_string(rng, op=rng.choice(gen_spec.OPS)) for _ in range(n)]
    cs = [c for c in cs if "," not in c[0]]
    cls = [c[0].strip() for c in cs]
    out = []
    for _ in range(3):
        k = rng.random(); c2 = list(cls)
        if k < 0.3: rng.shuffle(c2)
        elif k < 0.45 and c2: c2 = c2 + [rng.choice(c2)]
        elif k < 0.6 and c2: c2[rng.randrange(len(c2))] = gen_spec.spec_string(rng, op=rng.choice(gen_spec.OPS[:7]))[0].strip()
        elif k < 0.8 and cs:                                             # the same clauses in other spellings, some twice
            c2 = [clause_variant(rng, c) for c in cs] + [clause_variant(rng, c) for c in cs if rng.random() < 0.3]
            rng.shuffle(c2)
            c2 = [c for c in c2 if "," not in c]
        out.append(rng.choice([",", ", ", " ,"]).join(c2))
    if cls and rng.random() < 0.6:
        # the same clauses through the other construction routes: a & b, a & "text", SpecifierSet([Specifier, ...]),
        # the operands holding some clauses twice in different spellings
        k = rng.randrange(len(cls) + 1)
        left = cls[:k] + [clause_variant(rng, c) for c in cs[k:] if rng.random() < 0.3]
        right = [clause_variant(rng, c) if rng.random() < 0.5 else c[0].strip() for c in cs[k:]] + [clause_variant(rng, c) for c in cs[:k] if rng.random() < 0.3]
        left, right = [c for c in left if "," not in c], [c for c in right if "," not in c]
        route = rng.choice(["AND:", "AND:", "ANDS:", "OBJ:"])
        if route == "OBJ:": out[rng.randrange(3)] = "OBJ:" + "|".join(left + right)
        else: out[rng.randrange(3)] = route + ",".join(left) + "|" + ",".join(right)
    return out

NONASCII_ESC = ['"caf\u00e9"', '"caf\\xe9"', '"caf\\\\xe9"', "'caf\u00e9'", '"\u00fcber"', '"\\xfcber"', '"\\\\xfcber"', '"\\u00fcber"', '"\\\\u00fcber"']
ESCAPED = ['"a\\x22b\'c"', '"a\\\\x22b\'c"', "'a\\x27b\"c'", '"a\\\\b"', '"a\\x5cb"', '"a\\x62"', '"ab"', "'a\"b'", '"a\\x22b"']
def fused_pair(rng):
    """D36 class: a literal holding BOTH quote characters (spelled with \\x22 escapes) whose text imitates marker syntax"""
    var = rng.choice(["os_name", "sys_platform", "platform_system"])
    p_, q = rng.choice(["posix", "nt", "linux", "Linux", "win32"]), rng.choice(["b", "x", ""])
    op = rng.choice(["or", "or", "and"])
    B = '%s == "%s" %s \'x"y\' == "%s"' % (var, p_, op, q)
    A = '%s == "%s\\x22 %s \'x\\x22y\' == \\x22%s"' % (var, p_, op, q)
    return [A, B, rng.choice([A, B, "REQ:" + B])]

def marker_triple(rng):
    if rng.random() < 0.04: return fused_pair(rng)
    if rng.random() < 0.1:
        # literals spelled with Python escapes (outside PEP 508, but accepted): equal markers must still evaluate alike
        var = rng.choice(["platform_version", "os_name", "platform_release"])
        pool = ESCAPED if rng.random() < 0.6 else NONASCII_ESC     # a non-ASCII letter, its escape, and the text of that escape as a literal
        return ["%s == %s" % (var, rng.choice(pool)) for _ in range(3)]
    m = gen_misc.marker(rng, 2)
    out = [m, gen_misc.marker_variant(rng, m), rng.choice([gen_misc.marker_variant(rng, m), gen_misc.marker(rng, 2)])]
    if rng.random() < 0.4: out[rng.randrange(3)] = "REQ:" + out[0]        # same text through Requirement(...).marker
    return out

def req_triple(rng):
    r = gen_misc.requirement(rng)
    out = [r]
    for _ in range(2):
        k = rng.random()
        if k < 0.3: out.append(r.replace("foo", "FOO").replace("_", "-"))
        elif k < 0.5: out.append(r.replace("==1", "== 1").replace(",", " , "))
        elif k < 0.7: out.append(r.replace(".0", ".0.0", 1))
        else: out.append(gen_misc.requirement(rng))
    if rng.random() < 0.25:
        nm = rng.choice(["Zed_Pkg", "zed-pkg", "ZED.PKG", "other"])
        out[rng.randrange(3)] = "NAME:" + nm + "|" + r
        if rng.random() < 0.5: out[rng.randrange(3)] = "NAME:" + rng.choice(["Zed_Pkg", "zed-pkg", "zed--pkg"]) + "|" + r
    return out

def tag_triple(rng):
    t = gen_misc.tag(rng)
    return [t, gen_misc.tag_variant(rng, t), rng.choice([gen_misc.tag_variant(rng, t), gen_misc.tag(rng)])]

def streams(rng, tier):
    q = tier == "quick"
    n = 700 if q else 25000
    out = []
    for kind, f in (("version", v_triple), ("specifier", sp_triple), ("set", set_triple), ("marker", marker_triple), ("requirement", req_triple), ("tag", tag_triple)):
        for _ in range(n):
            out.append(Case("law-" + kind, "law.eq", [kind] + f(rng), kind="law"))
    for _ in range(3000 if q else 60000):
        a, b, c = sp_triple(rng)
        out.append(Case("spec-eq", "sp.eq", [a, rng.choice([b, c])]))
    for _ in range(2000 if q else 40000):
        a, b, c = v_triple(rng)
        out.append(Case("version-eq", "v.cmp", [a, b]))
    # SpecifierSet == / hash against the model: the same clauses in other spellings and orders, parsed, combined with & or both
    for _ in range(900 if q else 20000):
        pool = G.pool_of(rng)
        a = [x for x in (G.clause(rng, pool) for _ in range(rng.choice([1, 2, 3]))) if "," not in x]
        if not a: continue
        a2 = [G.respell(rng, x) for x in a]; rng.shuffle(a2)
        k = rng.randrange(len(a) + 1)
        other = a2 if rng.random() < 0.7 else a2[:-1] + [G.clause(rng, pool)]
        prog = rng.choice([
            ["S", "N", G.layout(rng, a), "S", "N", G.layout(rng, other), "eq"],
            ["S", "N", G.layout(rng, a[:k]), "S", "N", G.layout(rng, other), "&", "S", "N", G.layout(rng, a), "eq", "len"],
            ["S", "N", G.layout(rng, a), "S", "N", G.layout(rng, other), "&", "S", "N", G.layout(rng, other + a), "eq", "len"],
            ["S", "N", G.layout(rng, a[:k]), "&s", G.layout(rng, other), "S", "N", G.layout(rng, a), "eq", "len"]])
        out.append(Case("set-eq", "s.run", prog))
    return out

def match_d36(case, impl, model):
    """D36: a marker literal that holds both quote characters (only spellable with a Python escape, outside PEP 508's string
    characters) is printed verbatim inside double quotes, so two markers with different structure share one string form: they
    compare equal and hash alike but evaluate differently.  Input class: some marker text spells a quote as \\x22 / \\x27.
    Expected wrong answer: 'equal but behave differently'."""
    if case.cmd != "law.eq" or case.args[0] != "marker": return False
    import re
    # only the generator's own shape: an escaped quote directly followed by a boolean operator and a literal in the other quote style,
    # i.e. a literal whose text imitates marker syntax (any other equal-but-different pair with escapes is NOT this finding)
    if not any(re.search(r"\\x22 (or|and) '[^']*\\x22[^']*' == \\x22", a) for a in case.args[1:]): return False
    return isinstance(impl, str) and impl.startswith("marker equal but behave differently")

def nontrivial(c, i):
    return c.kind == "law" or i not in ("E",)
