"""C10 Equality is an equivalence, agrees with hash, and implies same behaviour (Version, Specifier, SpecifierSet, Marker, Requirement, Tag)."""
from core import Case
import gen, gen_spec, gen_misc

IMPL_MODULE = "eq_impl"
RULE = ("triples of objects of one type built from inputs that differ only by spelling, trailing zeros, case, clause order, quote style or name normalisation "
        "(plus unrelated ones): reflexive/symmetric/transitive, != consistent, hash and set/dict collapse, and equal => same behaviour "
        "(matches on a candidate battery under every pre-release setting, evaluation on an environment battery, parts, fields), all on the real objects; "
        "Version and Specifier equality also compared with the model; non-trivial = at least two objects constructed")

def v_triple(rng):
    v = gen.rand_v(rng)
    nb = [v, gen.V(v.epoch, v.release + (0,), v.pre, v.post, v.dev, v.local), rng.choice(gen.neighbours(rng, v)), gen.rand_v(rng)]
    return [gen.spell(rng, rng.choice(nb)) for _ in range(3)]

def sp_triple(rng):
    s, op, V, wild = gen_spec.spec_string(rng)
    out = [s]
    for _ in range(2):
        k = rng.random()
        if V is not None and k < 0.6:
            nb = [V, gen.V(V.epoch, V.release + (0,), V.pre, V.post, V.dev, V.local), rng.choice(gen.neighbours(rng, V))]
            out.append(gen_spec.spec_string(rng, op=op if rng.random() < 0.8 else None, v=rng.choice(nb))[0])
        elif k < 0.8: out.append(s.strip())
        else: out.append(gen_spec.spec_string(rng)[0])
    return out

def set_triple(rng):
    n = rng.choice([0, 1, 2, 3])
    cls = [gen_spec.spec_string(rng, op=rng.choice(gen_spec.OPS))[0].strip() for _ in range(n)]
    cls = [c for c in cls if "," not in c]
    out = []
    for _ in range(3):
        k = rng.random(); c2 = list(cls)
        if k < 0.4: rng.shuffle(c2)
        elif k < 0.6 and c2: c2 = c2 + [rng.choice(c2)]
        elif k < 0.75 and c2: c2[rng.randrange(len(c2))] = gen_spec.spec_string(rng, op=rng.choice(gen_spec.OPS[:7]))[0].strip()
        out.append(rng.choice([",", ", ", " ,"]).join(c2))
    if cls and rng.random() < 0.5:
        k = rng.randrange(len(cls) + 1)                                 # the same clauses, combined with &
        out[rng.randrange(3)] = "AND:" + ",".join(cls[:k]) + "|" + ",".join(cls[k:])
    return out

ESCAPED = ['"a\\x22b\'c"', '"a\\\\x22b\'c"', "'a\\x27b\"c'", '"a\\\\b"', '"a\\x5cb"', '"a\\x62"', '"ab"', "'a\"b'", '"a\\x22b"']
def marker_triple(rng):
    if rng.random() < 0.1:
        # literals spelled with Python escapes (outside PEP 508, but accepted): equal markers must still evaluate alike
        var = rng.choice(["platform_version", "os_name", "platform_release"])
        return ["%s == %s" % (var, rng.choice(ESCAPED)) for _ in range(3)]
    m = gen_misc.marker(rng, 2)
    out = [m, gen_misc.marker_variant(rng, m), rng.choice([gen_misc.marker_variant(rng, m), gen_misc.marker(rng, 2)])]
    if rng.random() < 0.4: out[rng.randrange(3)] = "REQ:" + out[0]        # same text through Requirement(...).marker
    return out

def req_triple(rng):
    r = gen_misc.requirement(rng)
    out = [r]
    for _ in range(2):
        k = rng.random()
        if k < 0.3: out.append(r.replace("foo", "FOO").replace("_", "-"))
        elif k < 0.5: out.append(r.replace("==1", "== 1").replace(",", " , "))
        elif k < 0.7: out.append(r.replace(".0", ".0.0", 1))
        else: out.append(gen_misc.requirement(rng))
    return out

def tag_triple(rng):
    t = gen_misc.tag(rng)
    return [t, gen_misc.tag_variant(rng, t), rng.choice([gen_misc.tag_variant(rng, t), gen_misc.tag(rng)])]

def streams(rng, tier):
    q = tier == "quick"
    n = 700 if q else 25000
    out = []
    for kind, f in (("version", v_triple), ("specifier", sp_triple), ("set", set_triple), ("marker", marker_triple), ("requirement", req_triple), ("tag", tag_triple)):
        for _ in range(n):
            out.append(Case("law-" + kind, "law.eq", [kind] + f(rng), kind="law"))
    for _ in range(3000 if q else 60000):
        a, b, c = sp_triple(rng)
        out.append(Case("spec-eq", "sp.eq", [a, rng.choice([b, c])]))
    for _ in range(2000 if q else 40000):
        a, b, c = v_triple(rng)
        out.append(Case("version-eq", "v.cmp", [a, b]))
    return out

def nontrivial(c, i):
    return c.kind == "law" or i not in ("E",)
