"""C07 Marker evaluation follows PEP 508 semantics."""
import json
import core
from core import Case
import gen
import gen_marker as G

IMPL_MODULE = "marker_impl"
RULE = ("random PEP 508 formula trees (or-lists of and-lists of atoms / parenthesised sub-formulas, depth <= 4 quick / <= 9 thorough; "
        "atoms variable|literal op variable|literal over all ten operators; literals from version-like, name-like and arbitrary "
        "PEP 508 character pools incl. the other quote) rendered with random whitespace, quote style, dotted names and redundant "
        "parentheses, each evaluated under environments that spell out all 12 keys (values from the same pools, biased towards the "
        "compared literals; version atoms whose environment value is an order neighbour of the literal, with and without a local label; extra=None; python_full_version ending in '+'); an operator x operand x operand sweep over single atoms; "
        "partial mappings on top of the host's default_environment(); mutated texts; flat formulas of 4..40 atoms; right operands starting with '=' (the operator read back "
        "from op+rhs is not the one written); markers nested 50..300 parentheses deep (redundant, right-, left-nested, zig-zag) with the value "
        "the formula must have; non-ASCII word characters placed next to keywords and variable names; environments with repeated keys, keys "
        "that name no variable, values with backslash / newline / NUL; a DETECTED python_full_version ending in '+' (platform.python_version "
        "patched); markers reached through Requirement(...).marker; operands of 4300 digits (and, with finding D10 registered, 4301 / 5000).  non-trivial = the marker was accepted and "
        "evaluation returned a bool or UndefinedComparison; distinct by (text, environment)")
ASSUMPTIONS = [
    "environment values are str (None only for 'extra'); lone surrogates never occur",
    "quoted strings containing a backslash are outside the modelled domain (ast.literal_eval is an oracle): the model answers '?' and "
    "only 'no foreign exception' is checked there",
    "canonicalize_name beyond ASCII: the name model lowers ASCII letters, U+0130 and U+212A only; generated marker texts keep other non-ASCII "
    "cased letters (UNI_WORD: E-acute, capital sigma ...) out of quoted literals; the law stream law-extra-unicode compares extra names "
    "holding such letters against the harness's own folding, not against the model",
    "the model has no digit limit: operands with a run of more than 4300 digits are generated only in the digit-limit-4301/5000 streams, where "
    "a differing answer is the registered finding D10 (matcher match_c07_d10); every other stream keeps digit runs below 50",
]
TRUSTED_EXTRA = [
    "ast.literal_eval on a quoted token without backslash = its body, failing exactly on NUL/LF/CR (re-checked by the law 'law.k.literaleval': code points below U+3000 in the quick tier, all of them in the thorough tier)",
    "Specifier(...) and Specifier.contains(..., prereleases=True) as modelled in coq/Spec/SpecContains.v (validated by the C03 check)",
    "the PEP 440 right-hand sides of C07_specifier_comparison_is_pep440 / C07_agrees_with_contains_spec / C07_ordering_operators (SpecSem.sem, "
    "SpecOps.le/ge/lt/gt_spec) are the spec functions of the C03 check; no marker stream evaluates them - the marker streams run eval_op only",
    "default_environment(): the 11 detected values are an input of the model (read from the implementation interpreter at generation time)",
]

SWEEP_L = ["3.8", "3.10", "2.7", "1.0a1", "1.0", "1.0.0", "1.0+l", "1.0.post1", "3.8.1", " 3.8 ", "v3.8", "", "a", "ab", "b", "abc", "linux",
           "Foo_Bar", "foo-bar", "5.15.0-generic", "3.8.*", "1", "é", "A", "3.9", "3.12.0+local"]
SWEEP_R = SWEEP_L + ["3.*", "1.0.*", "a b", "#1 SMP", "1.0 ;", "x)", "3.8+l.1", "3", "2!1.0", "1.0.dev0", "1.0+L",
                     "=3.8", "=1.0", "= 3.8", "==3.8", "=a", "=", "=3.8.*", "=1.0+l"]     # a leading '=' is absorbed by '<', '>' and '==' (Specifier(op + rhs))
DETECTED_PFV = ["3.13.0+", "3.13.0a1+", "3.14.0rc2+", "3.9+", "3.12.1", "3.13.0", "x+", "+", "3.13.0 +", "3.13.0+local", "3.13.0+abc+"]
ODD_KEYS = ["foo", "os.name", "sys.platform", "Extra", "EXTRA", "python-version", "", " os_name", "os_name ", "python_implementation", "extras"]
ODD_VALUES = ["a\\b", "a\nb", "\x00", "3.8\n", "\n3.8", "3.8\\", "\t", "a\rb", "=3.8", "3.8\x0c"]
DEEP_MIN = 480        # the implementation is recursive: from somewhere near 490 nested parentheses on CPython's default limit of 1000 it raises RecursionError


def paren_depth(s):
    d = m = 0
    q = None
    for c in s:
        if q: q = None if c == q else q
        elif c in "'\"": q = c
        elif c == "(": d += 1; m = max(m, d)
        elif c == ")": d -= 1
    return m


def match_deep_nesting(case, impl, model):
    """Proposed known finding (C07/C09, 'any nesting'): a well-formed marker nested deeper than the interpreter's recursion limit allows makes
    Marker() / Requirement() raise RecursionError.  Instance = nesting depth >= DEEP_MIN, the implementation raised RecursionError, and the
    model (where there is one) accepted the text."""
    if impl != "!EXC:RecursionError": return False
    if case.cmd not in ("k.eval", "k.str", "k.eq", "law.k.deep", "law.k.roundtrip", "law.k.req"): return False
    if paren_depth(case.args[0]) < DEEP_MIN: return False
    return model is None or model in ("T", "F", "U") or model.startswith("S")


def long_digit_run(s, n=4301):
    run = 0
    for c in s:
        run = run + 1 if c.isdigit() else 0
        if run >= n: return True
    return False


def match_c07_d10(case, impl, model):
    """D10 seen through Marker.evaluate: an operand (literal or environment value) with a run of more than 4300 digits is no Version for the
    real code (int() digit limit -> InvalidVersion since /repo 71d4b23), so _eval_op answers with the string operator / UndefinedComparison,
    while the model (no digit limit) answers by PEP 440 comparison.  Instance = k.eval, a digit run >= 4301 in the marker text or in an
    environment entry, BOTH sides answered (no exception may escape any more), and the answers differ."""
    if case.cmd != "k.eval" or impl == model: return False
    if impl not in ("T", "F", "U") or model not in ("T", "F", "U"): return False
    return any(long_digit_run(a) for a in [case.args[0]] + list(case.args[2:]))


def _registered(name):
    return any(f["matcher"] == name for f in core.load_findings("C07"))


def compare(case, impl, model):
    if model == "?":
        return None if impl in ("T", "F", "U", "I") or impl.startswith("S") else "foreign result outside the modelled domain: %s" % impl
    return None if impl == model else "implementation differs from model"


def nontrivial(case, impl):
    return case.kind == "law" or impl in ("T", "F", "U")


def _defaults():
    d = json.loads(core.run_impl(IMPL_MODULE, [("k.defaults", [])])[0])
    return d


def streams(rng, tier):
    q = tier == "quick"
    maxd = 4 if q else 9
    out = []
    defaults = _defaults()

    # 1. formulas x total environments
    for _ in range(2500 if q else 60000):
        f = G.rand_expr(rng, rng.randrange(maxd + 1) if rng.random() < 0.8 else maxd)
        s = G.render(rng, f, outer=rng.choice([0, 0, 0, 1, 2]))
        for _ in range(rng.choice([1, 2, 3])):
            env = G.env_for(rng, f)
            out.append(Case("formula", "k.eval", [s, "M"] + G.env_args(env)))

    # 2. operator x operand sweep on single atoms: literal/literal, variable/literal, literal/variable, variable/variable; extra on both sides
    n = 0
    for op in G.OPS:
        for l in SWEEP_L:
            for r in SWEEP_R:
                n += 1
                if q and rng.random() > 0.35: continue
                if "'" in l + r: continue
                shape = rng.choice(["ll", "vl", "lv", "vv", "el", "le", "ev", "ve"])
                v1, v2 = rng.sample([v for v in G.VARS if v != "extra"], 2)
                env = G.rand_env(rng)
                if shape == "ll": s = '"%s" %s "%s"' % (l, op, r)
                elif shape == "vl": s = '%s %s "%s"' % (v1, op, r); env[v1] = l
                elif shape == "lv": s = '"%s" %s %s' % (l, op, v1); env[v1] = r
                elif shape == "vv": s = '%s %s %s' % (v1, op, v2); env[v1] = l; env[v2] = r
                elif shape == "el": s = 'extra %s "%s"' % (op, r); env["extra"] = l
                elif shape == "le": s = '"%s" %s extra' % (l, op); env["extra"] = r
                elif shape == "ev": s = 'extra %s %s' % (op, v1); env["extra"] = l; env[v1] = r
                else: s = '%s %s extra' % (v1, op); env[v1] = l; env["extra"] = r
                out.append(Case("atom-sweep", "k.eval", [s, "M"] + G.env_args(env)))

    # 2b. version comparison atoms on ORDER NEIGHBOURS: the environment value is a structured neighbour of the literal's version (same release with
    #     another pre/post/dev suffix, zero padding, release +-1, epoch), half of the time carrying a local label (an untagged build's
    #     python_full_version "3.13.0rc2+"), under every version operator and both operand orders (round 7: seeded change r7-c07-a)
    from dataclasses import replace as _repl
    for _ in range(1500 if q else 40000):
        V = gen.rand_v(rng, local_p=0.1)
        c = rng.choice(gen.neighbours(rng, V))
        if rng.random() < 0.5: c = gen.fix_local(_repl(c, local=(rng.choice(gen.LOCAL_SEGS),)))
        lit, val = gen.spell(rng, V, ws=False, vprefix=False), gen.spell(rng, c, ws=False, vprefix=False)
        if "'" in lit + val or '"' in lit + val: continue
        op = rng.choice(["==", "!=", "<", "<=", ">", ">=", "~=", "==="])
        v1 = rng.choice(["python_version", "python_full_version", "implementation_version", "platform_release", "platform_version"])
        env = G.rand_env(rng); env[v1] = val
        s = ('%s %s "%s"' % (v1, op, lit)) if rng.random() < 0.7 else ('"%s" %s %s' % (lit, op, v1))
        out.append(Case("version-neighbours", "k.eval", [s, "M"] + G.env_args(env)))

    # 3. partial mappings over the host defaults, evaluate() without mapping, and the environment laws
    for _ in range(600 if q else 15000):
        f = G.rand_expr(rng, rng.randrange(3))
        s = G.render(rng, f)
        part = G.env_for(rng, f, total=False)
        if rng.random() < 0.15: part = {}
        out.append(Case("partial-env", "k.eval", [s, "M"] + G.env_args(part, defaults)))
        if rng.random() < 0.1:
            out.append(Case("partial-env", "k.eval", [s, "N"] + G.env_args({}, defaults)))
        # a second environment for the SAME Marker object (purity: nothing learnt under the first may leak into the second)
        out.append(Case("law-env", "law.k.env", [s, json.dumps(part), json.dumps(G.env_for(rng, f, total=False))], kind="law"))
    for k in G.VARS:      # every variable is defined by default; evaluating it never fails with a KeyError
        out.append(Case("partial-env", "k.eval", ['%s == "x" or "x" != %s' % (k, k), "N"] + G.env_args({}, defaults)))
        out.append(Case("partial-env", "k.eval", ['%s in %s' % (k, k), "M"] + G.env_args({}, defaults)))

    # 4. mutated texts (mostly rejected; the accepted ones are evaluated)
    for _ in range(1500 if q else 40000):
        f = G.rand_expr(rng, rng.randrange(3))
        s = gen.mutate(rng, G.render(rng, f), G.MUT_CH)
        out.append(Case("mutated", "k.eval", [s, "M"] + G.env_args(G.env_for(rng, f))))

    # 5. fixed precedence / grouping shapes, all 16 truth assignments through os_name in "..."
    shapes = ["A or B and C or D", "A and B or C and D", "(A or B) and (C or D)", "A or (B and C) or D", "((A or B)) and C", "A and (B or C and D)",
              "((A)) or ((B and (C or D)))", "A or B or C and D", "A and B and C or D", "(A or B and C) and D"]
    for sh in shapes:
        for bits in range(16):
            s = sh
            for i, nm in enumerate("ABCD"):
                s = s.replace(nm, 'os_name %s "xyz"' % ("in" if bits >> i & 1 else "not in"))
            env = G.rand_env(rng); env["os_name"] = "y"
            out.append(Case("precedence", "k.eval", [s, "M"] + G.env_args(env)))
    # 5b. long or-lists / and-lists (4..40 atoms on one level), and the environment laws on deeper formulas
    # extra names with non-ASCII cased letters (the name model covers ASCII and a few look-alikes only: a law with the harness's own folding)
    import re as _re
    fold = lambda x: _re.sub(r"[-_.]+", "-", x).lower()
    BASES = ["\u00fcber-tools", "caf\u00e9", "kelvin-units", "\u0394elta.x", "na\u00efve_pkg", "\u0416uk", "stra\u00dfe", "\u01c5emal", "\u0130stanbul", "a-b"]
    def respell(x):
        y = "".join(ch.upper() if rng.random() < 0.4 and len(ch.upper()) == 1 and ch.upper().lower() == ch else ch for ch in x)
        y = _re.sub(r"[-_.]", lambda m_: rng.choice(["-", "_", ".", "--", "-_"]), y)
        if rng.random() < 0.3 and "k" in y: y = y.replace("k", "\u212a", 1)
        return y
    for _ in range(150 if q else 3000):
        a = rng.choice(BASES); b = respell(a) if rng.random() < 0.7 else respell(rng.choice(BASES))
        a2 = respell(a)
        if "\u03a3" in a2 + b or "\u03c2" in a2 + b: continue                 # final-sigma: position dependent lower-casing, outside this law
        out.append(Case("law-extra-unicode", "law.k.extra", [a2, b, "T" if fold(a2) == fold(b) else "F"], kind="law"))
    for n in ([1300] if q else [1300, 3000, 6000]):
        # very long FLAT formulas: length must not turn into recursion depth
        f = G.long_expr(rng, n); s = G.render(rng, f)
        out.append(Case("very-long-lists", "k.eval", [s, "M"] + G.env_args(G.env_for(rng, f))))
    for _ in range(250 if q else 6000):
        f = G.long_expr(rng, rng.randrange(4, 41))
        s = G.render(rng, f)
        out.append(Case("long-lists", "k.eval", [s, "M"] + G.env_args(G.env_for(rng, f))))
        if rng.random() < 0.3: out.append(Case("law-env", "law.k.env", [s, json.dumps(G.env_for(rng, f, total=False))], kind="law"))
    for _ in range(200 if q else 5000):
        f = G.rand_expr(rng, rng.randrange(3, maxd + 1))
        out.append(Case("law-env", "law.k.env", [G.render(rng, f), json.dumps(G.env_for(rng, f, total=False))], kind="law"))

    # 6. deep nesting, far beyond the generic generator's depth 9 (the model is total; the implementation recurses)
    depths = [50, 100, 150, 200, 250, 300] + [rng.randrange(50, 301) for _ in range(4 if q else 40)]
    env = G.rand_env(rng); env["os_name"] = "b"
    for n in depths:
        for t, v in G.deep_texts(rng, n):
            out.append(Case("deep", "k.eval", [t, "M"] + G.env_args(env)))
            out.append(Case("law-deep", "law.k.deep", [t, "T" if v else "F"], kind="law"))
    if _registered("match_deep_nesting"):
        for n in [DEEP_MIN + 20, 600, 1000, 2000]:
            for t, v in G.deep_texts(rng, n)[:3]:
                out.append(Case("deep-beyond-recursion-limit", "k.eval", [t, "M"] + G.env_args(env)))

    # 7. non-ASCII word characters next to keywords (Python's \b and \w are Unicode-aware, the model's are ASCII)
    for _ in range(1200 if q else 30000):
        f = G.rand_expr(rng, rng.randrange(2))
        s = G.unicode_adjacent(rng, G.render(rng, f))
        out.append(Case("unicode-boundary", "k.eval", [s, "M"] + G.env_args(G.env_for(rng, f))))
    for s in ['os_name == "a" and\u00c9 os_name == "b"', 'os_name in\u017f "a"', '"a" in os_name\u0661', '\u212aos_name == "a"', 'os_name == "a" or\uff11("b" == os_name)',
              'os_name not\u00a0in "a"', 'os_name not \u00e9in "a"', '"\u00c9" in"\u00c9a"', 'os_name=="\u017f"and"\u0661"!=os_name', "extra == '\u212a'", 'extra == "\u017f"']:
        env = G.rand_env(rng); env["os_name"] = "\u017f"; env["extra"] = "k"
        out.append(Case("unicode-boundary", "k.eval", [s, "M"] + G.env_args(env)))

    # 8. environments as dicts are built: repeated keys (last assignment wins), keys naming no variable, odd values
    for _ in range(800 if q else 20000):
        f = G.rand_expr(rng, rng.randrange(3))
        s = G.render(rng, f)
        env = G.env_for(rng, f)
        ents = G.env_args(env)
        for _ in range(rng.choice([1, 1, 2, 3])):
            k = rng.random()
            if k < 0.4:      # a repeated key with another value, somewhere later
                key = rng.choice([x for x in G.VARS])
                v = G.rand_lit(rng) if rng.random() < 0.7 else rng.choice(ODD_VALUES)
                if key == "extra" and rng.random() < 0.2: ents.append("oextra!")
                else: ents.insert(rng.randrange(len(ents) + 1), "o" + key + "=" + v) if rng.random() < 0.3 else ents.append("o" + key + "=" + v)
            elif k < 0.7:    # a key that names no variable
                ents.insert(rng.randrange(len(ents) + 1), "o" + rng.choice(ODD_KEYS) + "=" + G.rand_lit(rng))
            else:            # an odd value for a variable the formula reads
                vs = [a[i][1] for a in G.atoms_of(f) for i in (1, 3) if a[i][0] == "var"] or ["os_name"]
                ents.append("o" + rng.choice(vs) + "=" + rng.choice(ODD_VALUES))
        out.append(Case("env-odd", "k.eval", [s, "M"] + ents))

    # 9. a detected python_full_version ending in '+': the real default_environment() with platform.python_version() patched
    for det in DETECTED_PFV:
        d2 = dict(defaults); d2["python_full_version"] = det
        for rhs in [det + "local", det, det.rstrip("+"), "3.13", "3.13.0+LOCAL", "3.9+local"]:
            for op in ["==", ">=", "<", "===", "in", "~="]:
                if q and rng.random() < 0.5: continue
                s = 'python_full_version %s "%s"' % (op, rhs)
                out.append(Case("detected-plus", "k.eval", [s, "N"] + G.env_args({}, d2)))
                out.append(Case("detected-plus", "k.eval", [s, "M"] + G.env_args({"os_name": "x"}, d2)))
                out.append(Case("law-repair", "law.k.repair", [s, det], kind="law"))
    for _ in range(150 if q else 4000):
        f = G.rand_expr(rng, rng.randrange(2))
        out.append(Case("law-repair", "law.k.repair", [G.render(rng, f), rng.choice(DETECTED_PFV)], kind="law"))

    # 10. markers reached through Requirement(...).marker (the constructor bypass: Marker.__new__ + _markers assignment) evaluate alike
    for _ in range(300 if q else 8000):
        f = G.rand_expr(rng, rng.randrange(3))
        s = G.render(rng, f)
        out.append(Case("law-req-eval", "law.k.reqeval", [s, rng.choice(G.REQ_PREFIXES), json.dumps(G.env_for(rng, f))], kind="law"))

    # 11. operands at and beyond int()'s digit limit (4300): at 4300 digits model and implementation must agree; beyond it the real
    #     Version() rejects the operand and the string operator answers (finding D10, matcher match_c07_d10) - generated once registered
    def big(n):
        return ["9" * n, "1" + "0" * (n - 1), "1." + "0" * n, "1.0.post" + "7" * n, "2!" + "3" * n + ".1", "1.0+" + "5" * n, "1." + "4" * n + ".*"]
    small = ["2", "10", "1.0", "1", "9" * 40, "1.0.post1", "3.8", "1.*"]
    sizes = [4300] + ([4301, 5000] if _registered("match_c07_d10") else [])
    for n in sizes:
        nm = "digit-limit-%d" % n
        combos = [(b, o, op) for b in big(n) for o in small + [b, big(n)[0]] for op in G.OPS]
        # the extracted model needs about half a second per such case (binary arithmetic on 14000-bit numbers): a sample
        for b, o, op in [c for c in rng.sample(combos, 18 if q else 160)]:
            if True:
                if True:
                    l, r = (b, o) if rng.random() < 0.5 else (o, b)
                    env = G.rand_env(rng)
                    shape = rng.choice(["ll", "vl", "lv", "vv", "el"])
                    if shape == "ll": s = '"%s" %s "%s"' % (l, op, r)
                    elif shape == "vl": s = 'python_version %s "%s"' % (op, r); env["python_version"] = l
                    elif shape == "lv": s = '"%s" %s python_full_version' % (l, op); env["python_full_version"] = r
                    elif shape == "vv": s = 'python_version %s implementation_version' % op; env["python_version"] = l; env["implementation_version"] = r
                    else: s = 'extra %s "%s"' % (op, r); env["extra"] = l
                    out.append(Case(nm, "k.eval", [s, "M"] + G.env_args(env)))
        d2 = dict(defaults); d2["python_full_version"] = "3." + "1" * n + "+"          # a detected value needing the repair
        for op in ["==", "<"] if q else ["==", ">=", "<", "~=", "==="]:
            out.append(Case(nm, "k.eval", ['python_full_version %s "3.%s+local"' % (op, "1" * n), "N"] + G.env_args({}, d2)))

    # the literal_eval oracle boundary, per code point
    if q: out.append(Case("law-literal-eval", "law.k.literaleval", ["0", str(0x3000)], kind="law"))
    else: out += [Case("law-literal-eval", "law.k.literaleval", [str(a), str(a + 0x8000)], kind="law") for a in range(0, 0x110000, 0x8000)]
    return out
