"""C07 Marker evaluation follows PEP 508 semantics."""
import json
import core
from core import Case
import gen
import gen_marker as G

IMPL_MODULE = "marker_impl"
RULE = ("random PEP 508 formula trees (or-lists of and-lists of atoms / parenthesised sub-formulas, depth <= 4 quick / <= 9 thorough; "
        "atoms variable|literal op variable|literal over all ten operators; literals from version-like, name-like and arbitrary "
        "PEP 508 character pools incl. the other quote) rendered with random whitespace, quote style, dotted names and redundant "
        "parentheses, each evaluated under environments that spell out all 12 keys (values from the same pools, biased towards the "
        "compared literals; extra=None; python_full_version ending in '+'); an operator x operand x operand sweep over single atoms; "
        "partial mappings on top of the host's default_environment(); mutated texts.  non-trivial = the marker was accepted and "
        "evaluation returned a bool or UndefinedComparison; distinct by (text, environment)")
ASSUMPTIONS = [
    "environment values are str (None only for 'extra'); lone surrogates never occur",
    "quoted strings containing a backslash are outside the modelled domain (ast.literal_eval is an oracle): the model answers '?' and "
    "only 'no foreign exception' is checked there",
    "canonicalize_name on non-ASCII upper-case letters (str.lower beyond ASCII) is not modelled; generators use ASCII plus lower-case e-acute",
]
TRUSTED_EXTRA = [
    "ast.literal_eval on a quoted token without backslash = its body, failing exactly on NUL/LF/CR (re-checked by the law 'law.k.literaleval': code points below U+3000 in the quick tier, all of them in the thorough tier)",
    "Specifier(...) and Specifier.contains(..., prereleases=True) as modelled in coq/Spec/SpecContains.v (validated by the C03 check)",
    "default_environment(): the 11 detected values are an input of the model (read from the implementation interpreter at generation time)",
]

SWEEP_L = ["3.8", "3.10", "2.7", "1.0a1", "1.0", "1.0.0", "1.0+l", "1.0.post1", "3.8.1", " 3.8 ", "v3.8", "", "a", "ab", "b", "abc", "linux",
           "Foo_Bar", "foo-bar", "5.15.0-generic", "3.8.*", "1", "é", "A", "3.9", "3.12.0+local"]
SWEEP_R = SWEEP_L + ["3.*", "1.0.*", "a b", "#1 SMP", "1.0 ;", "x)", "3.8+l.1", "3", "2!1.0", "1.0.dev0", "1.0+L"]


def compare(case, impl, model):
    if model == "?":
        return None if impl in ("T", "F", "U", "I") or impl.startswith("S") else "foreign result outside the modelled domain: %s" % impl
    return None if impl == model else "implementation differs from model"


def nontrivial(case, impl):
    return case.kind == "law" or impl in ("T", "F", "U")


def _defaults():
    d = json.loads(core.run_impl(IMPL_MODULE, [("k.defaults", [])])[0])
    return d


def streams(rng, tier):
    q = tier == "quick"
    maxd = 4 if q else 9
    out = []
    defaults = _defaults()

    # 1. formulas x total environments
    for _ in range(2500 if q else 60000):
        f = G.rand_expr(rng, rng.randrange(maxd + 1) if rng.random() < 0.8 else maxd)
        s = G.render(rng, f, outer=rng.choice([0, 0, 0, 1, 2]))
        for _ in range(rng.choice([1, 2, 3])):
            env = G.env_for(rng, f)
            out.append(Case("formula", "k.eval", [s, "M"] + G.env_args(env)))

    # 2. operator x operand sweep on single atoms: literal/literal, variable/literal, literal/variable, variable/variable; extra on both sides
    n = 0
    for op in G.OPS:
        for l in SWEEP_L:
            for r in SWEEP_R:
                n += 1
                if q and rng.random() > 0.35: continue
                if "'" in l + r: continue
                shape = rng.choice(["ll", "vl", "lv", "vv", "el", "le", "ev", "ve"])
                v1, v2 = rng.sample([v for v in G.VARS if v != "extra"], 2)
                env = G.rand_env(rng)
                if shape == "ll": s = '"%s" %s "%s"' % (l, op, r)
                elif shape == "vl": s = '%s %s "%s"' % (v1, op, r); env[v1] = l
                elif shape == "lv": s = '"%s" %s %s' % (l, op, v1); env[v1] = r
                elif shape == "vv": s = '%s %s %s' % (v1, op, v2); env[v1] = l; env[v2] = r
                elif shape == "el": s = 'extra %s "%s"' % (op, r); env["extra"] = l
                elif shape == "le": s = '"%s" %s extra' % (l, op); env["extra"] = r
                elif shape == "ev": s = 'extra %s %s' % (op, v1); env["extra"] = l; env[v1] = r
                else: s = '%s %s extra' % (v1, op); env[v1] = l; env["extra"] = r
                out.append(Case("atom-sweep", "k.eval", [s, "M"] + G.env_args(env)))

    # 3. partial mappings over the host defaults, evaluate() without mapping, and the environment laws
    for _ in range(600 if q else 15000):
        f = G.rand_expr(rng, rng.randrange(3))
        s = G.render(rng, f)
        part = G.env_for(rng, f, total=False)
        if rng.random() < 0.15: part = {}
        out.append(Case("partial-env", "k.eval", [s, "M"] + G.env_args(part, defaults)))
        if rng.random() < 0.1:
            out.append(Case("partial-env", "k.eval", [s, "N"] + G.env_args({}, defaults)))
        out.append(Case("law-env", "law.k.env", [s, json.dumps(part)], kind="law"))
    for k in G.VARS:      # every variable is defined by default; evaluating it never fails with a KeyError
        out.append(Case("partial-env", "k.eval", ['%s == "x" or "x" != %s' % (k, k), "N"] + G.env_args({}, defaults)))
        out.append(Case("partial-env", "k.eval", ['%s in %s' % (k, k), "M"] + G.env_args({}, defaults)))

    # 4. mutated texts (mostly rejected; the accepted ones are evaluated)
    for _ in range(1500 if q else 40000):
        f = G.rand_expr(rng, rng.randrange(3))
        s = gen.mutate(rng, G.render(rng, f), G.MUT_CH)
        out.append(Case("mutated", "k.eval", [s, "M"] + G.env_args(G.env_for(rng, f))))

    # 5. fixed precedence / grouping shapes, all 16 truth assignments through os_name in "..."
    shapes = ["A or B and C or D", "A and B or C and D", "(A or B) and (C or D)", "A or (B and C) or D", "((A or B)) and C", "A and (B or C and D)",
              "((A)) or ((B and (C or D)))", "A or B or C and D", "A and B and C or D", "(A or B and C) and D"]
    for sh in shapes:
        for bits in range(16):
            s = sh
            for i, nm in enumerate("ABCD"):
                s = s.replace(nm, 'os_name %s "xyz"' % ("in" if bits >> i & 1 else "not in"))
            env = G.rand_env(rng); env["os_name"] = "y"
            out.append(Case("precedence", "k.eval", [s, "M"] + G.env_args(env)))
    # the literal_eval oracle boundary, per code point
    if q: out.append(Case("law-literal-eval", "law.k.literaleval", ["0", str(0x3000)], kind="law"))
    else: out += [Case("law-literal-eval", "law.k.literaleval", [str(a), str(a + 0x8000)], kind="law") for a in range(0, 0x110000, 0x8000)]
    return out
