"""C17 Metadata validation accepts exactly field-valid, version-consistent metadata."""
import json
import core
from core import Case
import gen

IMPL_MODULE = "meta_impl"
RULE = ("random RawMetadata dicts (random subset of the 30 fields in random insertion order, ~80% valid values per field from per-field "
        "pools incl. values with braces / line breaks / non-ASCII, all seven metadata versions and invalid ones, unknown keys incl. names of "
        "Metadata class attributes) x validate True/False x random attribute read sequences with repeats; single-field x version sweeps; "
        "one-value mutations of accepted dicts; RFC 822 documents through from_email; non-trivial = every case (acceptance and the exact "
        "error set are both observations); distinct by (dict, flag, reads); "
        "improvement round: three-valued component oracles (accept / documented rejection / other exception, the last expected to escape), "
        "reads of names that are not fields (AttributeError), dicts holding every field, Requires-Dist markers nested up to 300 deep, "
        "4300-digit versions, documents with repeated and mutated header lines through the composed parse_email+from_email model "
        "(m.from_email_doc); the same dicts with the oracles replaced by the component MODELS (m.from_raw_models); the heap model also on "
        "validated objects and with the dict-valued field changed in place; with the findings registered: 4301-digit numbers and 1000-deep markers (escaping ValueError / RecursionError)")
ASSUMPTIONS = [
    "values are well typed per the RawMetadata TypedDict (str / list[str] / dict[str,str]); None values and lone surrogates are outside the domain",
    "SpecifierSet, Requirement, canonicalize_license_expression, EmailMessage content-type parsing and the pathlib tests are oracles: "
    "the model is given the verdict (accepted / documented exception / other exception) and printed result the real component produced for each string",
    "attribute reads range over the field names and over names that are no attribute of the Metadata class at all (methods and private "
    "attributes such as from_raw, _raw, __dict__ are not attribute reads of the property)",
]
TRUSTED_EXTRA = ["Version (the model's own parser, no digit limit: finding D10), canonicalize_name and the pathlib tests are modelled as total: that they raise "
                 "nothing but their documented exception is not a Coq hypothesis, only sampled by the run",
                 "oracle components (verdict + str() taken from the real component per value): packaging.specifiers.SpecifierSet, "
                 "packaging.requirements.Requirement, packaging.licenses.canonicalize_license_expression, "
                 "email.message.EmailMessage (content-type header parsing), pathlib.PurePosixPath/PureWindowsPath",
                 "str.lower() outside ASCII: only U+212A and U+0130 map into ASCII (checked over all code points on every run)"]

VERS = ["1.0", "1.1", "1.2", "2.1", "2.2", "2.3", "2.4"]
BAD_VERS = ["2.0", "3.0", "", "1", "{x}", "2.4 ", "1.00", "{", "2.1\n"]
STRING_F = ["summary", "description", "home_page", "author", "author_email", "license", "download_url", "maintainer", "maintainer_email",
            "requires_python", "description_content_type", "license_expression"]
LIST_F = ["platforms", "supported_platforms", "classifiers", "requires", "provides", "obsoletes", "requires_dist", "provides_dist",
          "obsoletes_dist", "requires_external", "provides_extra", "dynamic", "license_files", "keywords"]
OPTIONAL = STRING_F + LIST_F + ["project_urls"]
ALL_FIELDS = ["metadata_version", "name", "version"] + OPTIONAL
UNKNOWN = ["bogus", "Name", "from_raw", "_raw", "__doc__", "requires-dist", "metadata-version", "from_email", "{x}", "Summary", "", "license-file",
           "__dict__", "name ", "versions"]

# (valid-ish pool, invalid-ish pool): the implementation/oracle decides what really is valid; the pools only steer the ratio
P = {
    "name": (["a", "A.b_c", "foo-bar", "a1", "x.y.z", "A", "Foo__Bar", "0"], ["", "a b", "-a", "a-", "{", "a{0}", "\u017f", "foo\n", "a.", "{x}", "K"]),
    "summary": (["s", "", "a summary", "\u00fc", "{x}", "line\r", "{"], ["a\nb", "\n", "x\r\n"]),
    "requires_python": ([">=3", "", ">=3,<4", "~=1.0", "==1.*", ">=3.8 , !=3.9.*", "<4,>=3.6"], ["bogus", "{}", "===x{", ">=", "~=1", "{0}"]),
    "license_expression": (["MIT", "mit or apache-2.0", "LicenseRef-x", "MIT  OR  (Apache-2.0)", "GPL-2.0+ WITH Classpath-exception-2.0"],
                           ["bogus", "", "MIT AND", "{0}", "MIT OR {x}", "()"]),
    "description_content_type": (
        ["text/plain", "text/markdown; variant=GFM", "text/x-rst; charset=UTF-8", "TEXT/PLAIN", "text/markdown; variant=CommonMark", "text/markdown",
         "text/plain; charset=\"UTF-8\"", "text/plain; x text/markdown", "text/x-rst", "text/plain\r", "text/markdown; charset=UTF-8; variant=GFM",
         "Text/Markdown; Variant=GFM", "text/plain; variant=X"],
        ["text/html", "text/markdown; variant=X", "text/plain; charset=latin1", "bogus", "text/mar\u212adown", "text/plain\nfoo", "text/markdown;\n variant=GFM",
         "text/plain; charset=utf-8", "a{0}", "{x}", "", "text/plain\u2028x", "text/pla\u0131n", "x text/plain", "text/plain\r\nx", "text/markdown; variant=gfm",
         "text/plain;charset=UTF-8\x0bx", "text/plain {", "text/plain; charset={"]),
}
ITEMS = {
    "requires_dist": (["a>1", "b ; os_name=='x'", "foo[bar]>=1; python_version<'3'", "a @ http://x", "a", "A.b (>=1)"], ["a b", "=", "{x}", "", "a>1 ;", "a{"]),
    "provides_extra": (["a", "A_b", "x.y", "Foo--Bar", "a1"], ["a b", "-", "{", "a\n", "", "\u212a"]),
    "dynamic": (["Requires-Dist", "summary", "PLATFORM", "\u212aeywords", "License-File", "Dynamic", "classifier", "project-url"],
                ["Name", "version", "bogus", "metadata-version", "L\u0130cense", "{field}", "license_file", "", "Metadata-Version", "platforms", "{",
                 "Cla\u00dfifier", "Licen\u017fe", "Require\u017f-Di\u017ft", "provide\u017f-extra", "\u017fummary", "cla\u017f\u017fifier"]),
    "license_files": (["LICENSE", "a/b.txt", "C:a", "a..b".replace("..", "."), "licenses/A B.txt", "a:b", ".", "{x}"],
                      ["../x", "a*", "/abs", "C:\\x", "a\\b", "a//b", "./a", "a/", "", "a..b", "C:/x", "//x/y", "*", "a/../b"]),
}
PLAIN_S = ["x", "", "a b", "{x}", "line1\nline2", "\u00fcn\u00ef", "{", "}{0}"]


CT_ATOMS = ["charset", "variant", "a", "v", "x"]
CT_VALUES = ["UTF-8", "utf-8", "GFM", "CommonMark", "us-ascii'en'GFM", "utf-8''UTF-8", "\"UTF-8\"", "\"GFM", "UTF", "-8", "", "%55TF-8", "=?utf-8?q?GFM?=", "latin1"]
def rand_ctype(rng):
    """a content type with RFC 2231-style parameters (sections *N, extended values *, missing =, stray quotes)"""
    t = rng.choice(["text/plain", "text/markdown", "text/x-rst", "Text/Markdown", "text/html", "text"])
    for _ in range(rng.choice([1, 1, 2, 3])):
        n = rng.choice(CT_ATOMS) + rng.choice(["", "", "*", "*0", "*0*", "*1", "*1*", "**", "*x", "0*"])
        k = rng.random()
        if k < 0.25: t += rng.choice(["; ", ";", " ;"]) + n
        else: t += rng.choice(["; ", ";", " ;"]) + n + rng.choice(["=", "=", " = ", "*="]) + rng.choice(CT_VALUES)
    if rng.random() < 0.1: t = gen.mutate(rng, t, list("*;='\"%0 ") + ["\n"])
    return t

def pick_value(rng, f, p_valid=0.8):
    good = rng.random() < p_valid
    if f == "metadata_version":
        return rng.choice(VERS) if good else rng.choice(BAD_VERS)
    if f == "version":
        s = gen.spell(rng, gen.rand_v(rng)) if rng.random() < 0.7 else rng.choice(["1.0", "1", "2.0a1", "1.0+x"])
        if good: return s
        return rng.choice(["", "x", "{0}", "1.0{", gen.mutate(rng, s), "1.0.*", "{"])
    if f == "description_content_type" and rng.random() < 0.3:
        return rand_ctype(rng)                                         # validity is whatever the email package says (oracle 3)
    if f in P:
        return rng.choice(P[f][0] if good else P[f][1])
    if f in ITEMS:
        n = rng.choice([0, 1, 1, 2, 3])
        items = [rng.choice(ITEMS[f][0]) for _ in range(n)]
        if not good: items.insert(rng.randrange(len(items) + 1), rng.choice(ITEMS[f][1]))
        return items
    if f == "project_urls":
        return {l: rng.choice(["http://x", "", "{x}"]) for l in rng.sample(["Home", "Docs", "", "{", "Bug Tracker"], rng.choice([0, 1, 2]))}
    if f in LIST_F:
        return [rng.choice(PLAIN_S) for _ in range(rng.choice([0, 1, 2, 3]))]
    return rng.choice(PLAIN_S)


def rand_dict(rng, p_valid=0.8):
    d = {}
    mv = pick_value(rng, "metadata_version", 0.8) if rng.random() < 0.95 else None
    if mv is not None: d["metadata_version"] = mv
    for f in ("name", "version"):
        if rng.random() < 0.93: d[f] = pick_value(rng, f, 0.9)
    for f in rng.sample(OPTIONAL, rng.choice([0, 1, 2, 3, 5, 8, 12, 20, len(OPTIONAL)])):
        d[f] = pick_value(rng, f, p_valid)
    if rng.random() < 0.15:
        for k in rng.sample(UNKNOWN, rng.choice([1, 1, 2])): d[k] = rng.choice(["x", ["x"], "", {"a": "b"}, {}, []])
    items = list(d.items()); rng.shuffle(items)
    return dict(items)


def consistent_dict(rng):
    """a dict that is (intended to be) accepted: version new enough for every field, valid values"""
    fs = rng.sample(OPTIONAL, rng.choice([0, 2, 4, 8, 15, 22, len(OPTIONAL)]))
    d = {"metadata_version": "2.4" if rng.random() < 0.6 else rng.choice(VERS), "name": pick_value(rng, "name", 1.0), "version": pick_value(rng, "version", 1.0)}
    for f in fs: d[f] = pick_value(rng, f, 1.0)
    items = list(d.items()); rng.shuffle(items)
    return dict(items)


NON_ATTR = ["bogus", "Name", "requires-dist", "License-File", "summary ", "", "versions", "Summary", "metadata-version", "{x}", "raw", "license_file"]


def rand_reads(rng, d):
    n = rng.choice([0, 1, 3, 6, 12])
    pool = [k for k in d if k in ALL_FIELDS] * 3 + ALL_FIELDS
    return [rng.choice(NON_ATTR) if rng.random() < 0.06 else rng.choice(pool) for _ in range(n)]


def enc_dict(d):
    out = []
    for k, v in d.items():
        out.append("K" + k)
        if isinstance(v, str): out.append("S" + v)
        elif isinstance(v, list): out += ["L"] + ["I" + x for x in v]
        else:
            out.append("D")
            for a, b in v.items(): out += ["P" + a, "Q" + b]
    return out


def oracle_queries(d):
    q = []
    def s(k): return isinstance(d.get(k), str)
    def l(k): return isinstance(d.get(k), list)
    if s("requires_python"): q.append(("0", d["requires_python"]))
    if l("requires_dist"): q += [("1", x) for x in d["requires_dist"]]
    if s("license_expression"): q.append(("2", d["license_expression"]))
    if s("description_content_type"): q.append(("3", d["description_content_type"]))
    if l("license_files"): q += [("4", x) for x in d["license_files"]]
    return q


def dec_tokens(toks):
    d, cur, label = {}, None, None
    for t in toks:
        tag, body = t[:1], t[1:]
        if tag == "K": cur = body; d[cur] = ""
        elif tag == "S": d[cur] = body
        elif tag == "L": d[cur] = []
        elif tag == "I": d[cur].append(body)
        elif tag == "D": d[cur] = {}
        elif tag == "P": label = body
        elif tag == "Q": d[cur][label] = body
    return d


def attach_oracles(protos):
    """protos: list of (stream, cmd, head tokens, dict, tail tokens); asks the implementation side for every oracle verdict in one batch."""
    qs = sorted({q for p in protos for q in oracle_queries(p[3])})
    ans = core.run_impl(IMPL_MODULE, [("m.oracle", [c, s]) for c, s in qs])
    table = {}
    for q, a in zip(qs, ans):
        table[q] = json.loads(a) if not a.startswith("!") else ["x" + a[5:]]      # the component raised something undocumented: ORaise
    out = []
    for stream, cmd, head, d, tail in protos:
        otoks = []
        for q in dict.fromkeys(oracle_queries(d)):
            otoks.append("o" + q[0] + q[1]); otoks += table[q]
        out.append(Case(stream, cmd, head + otoks + tail))
    return out


HEADER = {k: k.replace("_", "-").title() for k in ALL_FIELDS}
HEADER.update(platforms="Platform", supported_platforms="Supported-Platform", classifiers="Classifier", project_urls="Project-URL",
              license_files="License-File")


HDR_ATOMS = ["*", "*0*", "*0", "'", "%", "=?utf-8?q?x?=", "=?", "?=", '"', ";", "=", " ", "\t", "(", ")", "<", ">", "@", ",", "\u00e9"]


def serialise(rng, d):
    """RFC 822 text of a raw dict (not necessarily round-trippable: from_email is observed on whatever parse_email makes of it)."""
    lines = []
    for k, v in d.items():
        h = HEADER.get(k, k)
        if rng.random() < 0.2: h = gen.rand_case(rng, h)
        if k == "keywords": lines.append("%s: %s" % (h, ",".join(v)))
        elif isinstance(v, list): lines += ["%s: %s" % (h, x) for x in v]
        elif isinstance(v, dict): lines += ["%s: %s, %s" % (h, a, b) for a, b in v.items()]
        elif k == "description" and rng.random() < 0.7: continue
        else: lines.append("%s: %s" % (h, v.replace("\n", "\n ")))
    if rng.random() < 0.15:
        lines.insert(rng.randrange(len(lines) + 1), rng.choice(["X-Unknown: 1", "Name: second", "Keywords: a", "Project-URL: Home, http://dup", "Version: 2", "Summary: again"]))
    if lines and rng.random() < 0.15:
        # repeat existing header lines (same or another value, another capitalisation), any number of times
        for _ in range(rng.choice([1, 1, 2, 4])):
            h, _, v = rng.choice(lines).partition(": ")
            if rng.random() < 0.5: v = rng.choice(["x", "1.0", v + "x", "", "a, b"])
            if rng.random() < 0.5: h = gen.rand_case(rng, h.lower())
            lines.insert(rng.randrange(len(lines) + 1), "%s: %s" % (h, v))
    if lines and rng.random() < 0.12:
        # damage one header value with the atoms of the header-value grammar (RFC 2231 / 2047 / quoting)
        i = rng.randrange(len(lines)); h, sep, v = lines[i].partition(": ")
        lines[i] = h + sep + gen.mutate(rng, v, HDR_ATOMS)
    body = d.get("description", "") if isinstance(d.get("description"), str) else ""
    return "\n".join(lines) + "\n" + ("\n" + body if body else "")


def streams(rng, tier):
    q = tier == "quick"
    protos = []
    # 1. random dicts x validate x reads
    for _ in range(2500 if q else 200000):
        d = rand_dict(rng) if rng.random() < 0.6 else consistent_dict(rng)
        validate = rng.random() < 0.65
        protos.append(("random", "m.from_raw", ["T" if validate else "F"] + enc_dict(d), d, ["R" + f for f in rand_reads(rng, d)]))
    # 2. one-value mutations of consistent dicts
    for _ in range(800 if q else 60000):
        d = consistent_dict(rng)
        k = rng.choice(list(d))
        v = d[k]
        if isinstance(v, str): d[k] = gen.mutate(rng, v, gen.MUT_CH + ["{", "}", "\r", "\u2028"]) if v else rng.choice(["{", "x"])
        elif isinstance(v, list) and v:
            i = rng.randrange(len(v)); v = list(v); v[i] = gen.mutate(rng, v[i], gen.MUT_CH + ["{", "}", "/", "\\", ":"]) if v[i] else "{"; d[k] = v
        elif rng.random() < 0.5: del d[k]
        protos.append(("mutation", "m.from_raw", ["T" if rng.random() < 0.8 else "F"] + enc_dict(d), d, ["R" + f for f in rand_reads(rng, d)]))
    # 3. sweep: every optional field alone (valid and invalid value) under every metadata version, plus invalid versions
    for f in OPTIONAL:
        for mv in VERS + ["2.0", ""]:
            for pv in (1.0, 0.0):
                d = {"metadata_version": mv, "name": "n", "version": "1", f: pick_value(rng, f, pv)}
                protos.append(("sweep-field-version", "m.from_raw", ["T"] + enc_dict(d), d, ["R" + f, "R" + f]))
    # 4. sweep: presence/validity of the required fields
    for mvv in [None] + VERS[:2] + ["2.4", "9.9", ""]:
        for nm in [None, "a", "", "a b"]:
            for ver in [None, "1.0", "", "x"]:
                for extra in [None, "bogus", "dynamic"]:
                    d = {}
                    if mvv is not None: d["metadata_version"] = mvv
                    if nm is not None: d["name"] = nm
                    if ver is not None: d["version"] = ver
                    if extra == "bogus": d["bogus"] = "x"
                    if extra == "dynamic": d["dynamic"] = ["summary"]
                    for val in ("T", "F"):
                        protos.append(("sweep-required", "m.from_raw", [val] + enc_dict(d), d, ["Rname", "Rversion", "Rmetadata_version", "Rname", "Rsummary"]))
    # 5. pairs of fields from different "added" classes under every version (thorough: all pairs; quick: a sample)
    pairs = [(a, b) for i, a in enumerate(OPTIONAL) for b in OPTIONAL[i + 1:]]
    if q: pairs = rng.sample(pairs, 60)
    for a, b in pairs:
        for mv in VERS:
            d = {a: pick_value(rng, a, 0.9), "metadata_version": mv, b: pick_value(rng, b, 0.9), "version": "1", "name": "n"}
            protos.append(("sweep-pairs", "m.from_raw", ["T"] + enc_dict(d), d, []))
    # 5b. every pool value of every validated field, alone under the newest metadata version (and one older), eager and lazy
    for f, (good, bad) in list(P.items()) + [("version", (["1.0", " 1.0RC1 ", "1!2.3.post4.dev5+loc.1"], ["", "x", "{0}", "1.0{", "1.0.*", "1..0"]))]:
        for v in good + bad:
            for mv in ("2.4", "1.2"):
                d = {"metadata_version": mv, "name": "n", "version": "1"}; d[f] = v
                for val in ("T", "F"):
                    protos.append(("pool-values", "m.from_raw", [val] + enc_dict(d), d, ["R" + f, "Rname", "R" + f]))
    for f, (good, bad) in ITEMS.items():
        for it in good + bad:
            for lst in ([it], [good[0], it], [it, good[1]]):
                d = {"metadata_version": "2.4", "name": "n", "version": "1", f: lst}
                for val in ("T", "F"):
                    protos.append(("pool-values", "m.from_raw", [val] + enc_dict(d), d, ["R" + f, "R" + f]))
    # 5c. sizes: markers nested 1..300 deep in Requires-Dist (accepted), 4300-digit numbers (the longest CPython converts), every field at once
    base = {"metadata_version": "2.4", "name": "n", "version": "1"}
    for depth in ([1, 30, 120, 300] if q else [1, 2, 5, 30, 60, 120, 200, 250, 300]):
        nested = "a; " + "(" * depth + "os_name=='x'" + ")" * depth
        for lst in ([nested], ["b>1", nested], [nested, "a b"]):
            d = dict(base, requires_dist=lst)
            for val in ("T", "F"):
                protos.append(("sizes", "m.from_raw", [val] + enc_dict(d), d, ["Rrequires_dist", "Rname"]))
    big = "9" * 4300
    for d in (dict(base, version=big), dict(base, version="1." + big), dict(base, requires_python=">=" + big), dict(base, requires_dist=["a==" + big])):
        for val in ("T", "F"):
            protos.append(("sizes", "m.from_raw", [val] + enc_dict(d), d, ["Rversion", "Rrequires_python", "Rrequires_dist"]))
    for _ in range(20 if q else 400):
        d = {"metadata_version": "2.4", "name": pick_value(rng, "name", 1.0), "version": pick_value(rng, "version", 1.0)}
        for f in OPTIONAL: d[f] = pick_value(rng, f, 0.95)
        items = list(d.items()); rng.shuffle(items); d = dict(items)
        protos.append(("sizes", "m.from_raw", ["T" if rng.random() < 0.7 else "F"] + enc_dict(d), d, ["R" + f for f in rand_reads(rng, d)]))
    # 5d. (only once the findings are registered in known_findings.txt) inputs on which a component raises something undocumented
    if _registered("match_c17_d10"):
        over = "9" * 4301
        for d in (dict(base, version=over), dict(base, requires_python=">=" + over), dict(base, requires_dist=["a==" + over]),
                  dict(base, requires_dist=["b", "a>=" + over]), dict(base, requires_dist=["a b", "a>=" + over]), dict(base, version="1!" + over + ".1"),
                  dict(base, metadata_version="1.0", requires_python=">=" + over), dict(base, requires_python=">=" + over, bogus="x")):
            for val in ("T", "F"):
                protos.append(("escape-d10", "m.from_raw", [val] + enc_dict(d), d, ["Rname", "Rrequires_python", "Rrequires_dist", "Rversion"]))
    if _registered("match_c17_deep"):
        for depth in (1000, 3000):
            nested = "a; " + "(" * depth + "os_name=='x'" + ")" * depth
            for d in (dict(base, requires_dist=[nested]), dict(base, requires_dist=["a b", nested]), dict(base, requires_dist=["b", nested], summary="a\nb"),
                      dict(base, metadata_version="1.1", requires_dist=[nested])):
                for val in ("T", "F"):
                    protos.append(("escape-deep", "m.from_raw", [val] + enc_dict(d), d, ["Rname", "Rrequires_dist"]))
    # 5e. the heap model: lazy object, reads interleaved with in-place changes by the caller / the holder of a returned list
    for _ in range(600 if q else 30000):
        d = consistent_dict(rng) if rng.random() < 0.7 else rand_dict(rng)
        d = {k: v for k, v in d.items() if k in ALL_FIELDS}
        lf = [k for k in d if isinstance(d[k], list)] or ["keywords"]
        ops, extra = [], {"requires_dist": [], "license_files": []}
        for _ in range(rng.choice([2, 4, 8, 14])):
            r = rng.random()
            k = rng.choice(lf) if rng.random() < 0.8 else rng.choice(LIST_F)
            items = [rng.choice((ITEMS[k][0] + ITEMS[k][1][:2]) if k in ITEMS else PLAIN_S) for _ in range(rng.choice([0, 1, 2]))]
            if k in extra: extra[k] += items
            if "project_urls" in d and rng.random() < 0.15:          # the dict-valued field: changed in place by the caller / the holder, or read
                pairs = [x for l in rng.sample(["Home", "Docs", "", "{", "Bug Tracker"], rng.choice([0, 1, 2])) for x in (l, rng.choice(["http://x", "", "{x}"]))]
                ops += rng.choice([["Rproject_urls"], ["\x1f".join(["u" + "project_urls"] + pairs)], ["Rproject_urls", "\x1f".join(["g" + "project_urls"] + pairs)]])
            elif r < 0.45: ops.append("R" + (rng.choice(lf) if rng.random() < 0.7 else rng.choice(ALL_FIELDS + NON_ATTR[:3])))
            elif r < 0.6: ops.append("\x1f".join(["a" + k] + items))
            elif r < 0.68: ops.append("d" + k)
            elif r < 0.86: ops.append("\x1f".join(["m" + k] + items))
            else: ops += ["R" + k, "\x1f".join(["h" + k] + items)]          # the holder changes the object a read has just returned
        dq = dict(d)                                       # oracle verdicts also for the items the operations may put into converted lists
        for k, its in extra.items():
            if its: dq[k] = (list(dq[k]) if isinstance(dq.get(k), list) else []) + its
        protos.append(("heap", "m.heap", ["T" if rng.random() < 0.4 else "F"] + enc_dict(d), dq, ops))
    for val in ("F", "T"):          # the dict-valued field, lazy and validated object
        d = {"metadata_version": "2.4", "name": "n", "version": "1", "project_urls": {"Home": "http://x"}}
        J = "\x1f".join
        for ops in (["Rproject_urls", J(["uproject_urls", "Docs", "u"]), "Rproject_urls", J(["gproject_urls", "A", "", "B", "b"]), "Rproject_urls"],
                    [J(["uproject_urls"]), "Rproject_urls", J(["gproject_urls", "Home", "h"])], ["Rproject_urls", J(["gproject_urls", "x", "y"]), "Rproject_urls"]):
            protos.append(("heap", "m.heap", [val] + enc_dict(d), d, ops))
    for k in LIST_F:          # every list field: change in place before / after the first read, by the caller / the holder; rebind; delete
        good = ITEMS[k][0] if k in ITEMS else PLAIN_S
        v0, v1, v2 = [good[0]], [good[0], good[1]], [good[2]]
        d = {"metadata_version": "2.4", "name": "n", "version": "1", k: list(v0)}
        dq = dict(d); dq[k] = v0 + v1 + v2
        J = "\x1f".join
        for ops in (["R" + k, J(["m" + k] + v1), "R" + k, J(["h" + k] + v2), "R" + k, J(["a" + k] + v1), "R" + k, "d" + k, "R" + k],
                    [J(["m" + k] + v1), "R" + k, J(["a" + k] + v2), J(["m" + k] + v0), "R" + k],
                    ["d" + k, "R" + k, J(["h" + k] + v1), "R" + k], [J(["h" + k] + v1), J(["a" + k] + v2), "R" + k]):
            for val in ("F", "T"):
                if val == "T" and ops[0][:1] == "h": continue          # the holder can only change an object that a read returned
                protos.append(("heap", "m.heap", [val] + enc_dict(d), dq, ops))
    # 5f. the oracles instantiated with the component MODELS (the model of C17_accept_iff_models): a sample of the m.from_raw cases again
    mr = [p for p in protos if p[1] == "m.from_raw" and p[0] in ("random", "mutation", "pool-values", "sizes", "sweep-field-version", "escape-deep")]
    sample = mr if not q else rng.sample(mr, min(len(mr), 1500)) + [p for p in mr if p[0] in ("sizes", "escape-deep")]
    protos += [("models", "m.from_raw_models", head, d, tail) for (_, _, head, d, tail) in sample]
    cases = attach_oracles(protos)

    # 6. from_email: documents -> parse_email (implementation) -> (raw, unparsed) tokens -> model of from_email
    docs = []
    for _ in range(800 if q else 40000):
        d = consistent_dict(rng) if rng.random() < 0.7 else rand_dict(rng)
        d = {k: v for k, v in d.items() if not (isinstance(v, list) and not v) and not (isinstance(v, dict) and not v)}
        text = serialise(rng, d)
        kind = "s" if rng.random() < 0.6 else "b"
        if kind == "b":
            data = text.encode("utf-8")
            if rng.random() < 0.1 and data: i = rng.randrange(len(data)); data = data[:i] + b"\xff" + data[i:]
            text = data.decode("latin-1")
        docs.append((kind, text, rng.random() < 0.7, d))
    parsed = core.run_impl(IMPL_MODULE, [("m.parse_email", [k, t]) for k, t, _, _ in docs])
    protos = []
    for (kind, text, validate, d0), ptoks in zip(docs, parsed):
        if ptoks.startswith("!"): continue
        ptoks = json.loads(ptoks)
        d = dec_tokens(ptoks)
        protos.append(("from_email", "m.from_email", ["T" if validate else "F", ("X" if kind == "s" else "B") + text] + ptoks, d, ["R" + f for f in rand_reads(rng, d)]))
    cases += attach_oracles(protos)

    # 6b. Metadata.from_email as a whole: the model composes the C18 model of parse_email (fed with what the email package delivers,
    #     e.extract of email_impl) with the validation; the raw dict the implementation parsed only supplies the oracle queries
    ext = core.run_impl("email_impl", [("e.extract", [k, t]) for k, t, _, _ in docs])
    protos = []
    for (kind, text, validate, d0), ptoks, etoks in zip(docs, parsed, ext):
        if ptoks.startswith("!") or etoks.startswith("!"): continue
        d = dec_tokens(json.loads(ptoks))
        protos.append(("from_email_doc", "m.from_email_doc", ["T" if validate else "F", ("X" if kind == "s" else "B") + text] + json.loads(etoks), d,
                       ["R" + f for f in rand_reads(rng, d)]))
    if _registered("match_c17_d10"):
        text = "Metadata-Version: 2.4\nName: a\nVersion: " + "9" * 4301 + "\n"
        d = {"metadata_version": "2.4", "name": "a", "version": "9" * 4301}
        protos.append(("escape-d10", "m.from_email_doc", ["T", "X" + text, "HMetadata-Version", "V2.4", "HName", "Va", "HVersion", "V" + "9" * 4301, "Y"], d, []))
    cases += attach_oracles(protos)

    # 7. direct laws on the implementation
    for f in OPTIONAL + ["name", "version"]:
        for mv in VERS:
            val = {"name": "n", "version": "1"}.get(f) or pick_valid_spec(f)
            cases.append(Case("law-gating", "law.m.gating", [f, mv, json.dumps(val)], kind="law"))
    for mv in VERS + BAD_VERS + ["0.9", "1.3", "2.5"]:
        cases.append(Case("law-versions", "law.m.versions", [mv], kind="law"))
    cases.append(Case("law-lower-table", "law.m.lower_table", [], kind="law"))
    for _ in range(400 if q else 20000):
        d = rand_dict(rng) if rng.random() < 0.6 else consistent_dict(rng)
        cases.append(Case("law-history", "law.m.history", [str(rng.randrange(10 ** 6))] + enc_dict(d), kind="law"))
    return cases


SPEC_VALID = {"platforms": ["x"], "summary": "s", "description": "d", "keywords": ["k"], "home_page": "h", "author": "a", "author_email": "e", "license": "l",
              "supported_platforms": ["x"], "download_url": "u", "classifiers": ["c"], "requires": ["r"], "provides": ["p"], "obsoletes": ["o"], "maintainer": "m",
              "maintainer_email": "e", "requires_dist": ["a>1"], "provides_dist": ["p"], "obsoletes_dist": ["o"], "requires_python": ">=3", "requires_external": ["x"],
              "project_urls": {"a": "b"}, "description_content_type": "text/plain", "provides_extra": ["x"], "dynamic": ["summary"], "license_expression": "MIT",
              "license_files": ["LICENSE"]}


def pick_valid_spec(f):
    return SPEC_VALID[f]


def _registered(matcher):
    """is a known finding with this matcher listed in known_findings.txt?  (the streams that trigger it are generated only then)"""
    return any(f["matcher"] == matcher for f in core.load_findings("C17"))


def _model_predicts_escape(impl, model):
    """the model, from the oracle table, says that this very exception escapes: from from_raw/from_email, or from a lazy attribute read"""
    return isinstance(model, str) and (model == impl or (model.startswith("OK|") and impl in model.split("|")[1:]))


def _has_run(case, n):
    import re
    return any(re.search(r"[0-9]{%d,}" % n, a) for a in case.args)


def match_c17_d10(case, impl, model):
    """D10 seen through Metadata: a Version value with a component of more than 4300 digits is PEP 440 valid (the model's Version has no
    digit limit) but the code reports the Version field as invalid (InvalidMetadata since fix 71d4b23; a bare ValueError escaped before).
    Instance = such a run in the input AND the implementation names 'version' among the offending fields (or refuses the read) where the
    model does not."""
    if case.cmd not in ("m.from_raw", "m.from_email", "m.from_email_doc", "m.from_raw_models") or not _has_run(case, 4301) or impl == model: return False
    return isinstance(impl, str) and not impl.startswith("!EXC") and "version" in impl and "version" not in str(model).split("|")[0]


def match_c17_deep(case, impl, model):
    """A Requires-Dist marker nested deeper than the interpreter's recursion limit allows: RecursionError escapes instead of InvalidMetadata.
    Instance = a Requires-Dist entry with more than 400 consecutive '(' AND exactly RecursionError escapes AND the model predicts that
    escape from the oracle table (Requirement itself raised RecursionError on that entry)."""
    deep = any(a.startswith("I") and "(" * 401 in a for a in case.args)
    if case.cmd == "m.from_raw_models":          # the Requirement MODEL has no recursion limit: it accepts the entry, so no escape is predicted
        return impl == "!EXC:RecursionError" and deep
    return (case.cmd in ("m.from_raw", "m.from_email", "m.from_email_doc") and impl == "!EXC:RecursionError"
            and deep and _model_predicts_escape(impl, model))


MODEL_OUTSIDE = ("!EXC:outside-ReqModel", "!EXC:interpreter-dependent", "!EXC:KeyError")


def compare(case, impl, model):
    if case.cmd == "m.from_raw_models" and isinstance(model, str) and any(t in model.split("|") for t in MODEL_OUTSIDE):
        return None          # a component MODEL declares the value outside itself (marker literal with a backslash, licence nesting 101..200)
    if impl.startswith("!EXC"):
        return ("an exception other than ExceptionGroup/InvalidMetadata escapes: " + impl +
                ("" if _model_predicts_escape(impl, model) else " (and the model does not predict it from the component verdicts)"))
    if impl.startswith("G!"): return "the group holds a member that is not InvalidMetadata"
    if "CALLER-DICT-MODIFIED" in impl: return "the caller's raw dict was modified"
    return None if impl == model else "implementation differs from model"


def nontrivial(case, impl):
    return not impl.startswith("!")
