"""C11 Every entry point fails only with its documented exception."""
import json, struct
from core import Case
import gen, gen_spec, gen_misc, gen_plat

IMPL_MODULE = "exc_impl"
RULE = ("per entry point: valid inputs from the structured generators, 1-3 character mutations of them (incl. quotes, backslash, newline, NUL, "
        "IGNORECASE confusables, non-ASCII digits/letters/whitespace), arbitrary Unicode text (no lone surrogates) and latin-1 bytes for the byte "
        "entry points; observation = does anything other than the documented exception escape; non-trivial = every case (each is one call battery)")
ASSUMPTIONS = ["lone surrogates are outside the domain (ast.literal_eval and the email package raise UnicodeEncodeError on them)",
               "MemoryError / RecursionError (nesting beyond the interpreter's recursion budget) are excluded by the property's own bound",
               "RawMetadata values have their declared types (str / list of str / dict of str)"]

POOL = [chr(c) for c in range(32, 127)] + list("\t\n\r\x0b\x0c\x00\x1c\x85") + list("ſıİKéß١１²Ⅷ   　ǅ") + ["\U0001F600", "́", "﻿", "\\"]
def arbitrary(rng, maxlen=12):
    return "".join(rng.choice(POOL) for _ in range(rng.randrange(0, maxlen)))
MUT = gen.MUT_CH + list("'\"\\()[];@#{}%") + ["\r", "\x0b", "\x85", " "]

LIC = ["MIT", "Apache-2.0", "GPL-2.0-or-later", "BSD-3-Clause", "LicenseRef-Foo", "LicenseRef-x.1", "mit", "GPL-2.0+", "LLVM-exception", "Classpath-exception-2.0", "LicenseRef-a+"]
def license_expr(rng, depth=2):
    if depth == 0 or rng.random() < 0.4:
        s = rng.choice(LIC)
        if rng.random() < 0.2: s += " WITH " + rng.choice(["LLVM-exception", "Classpath-exception-2.0", "MIT", "(MIT)"])
        return s
    s = (" " + rng.choice(["AND", "OR", "and", "or", "WITH"]) + " ").join(license_expr(rng, depth - 1) for _ in range(rng.choice([2, 2, 3])))
    return "(" + s + ")" if rng.random() < 0.4 else s

HEADERS = ["Metadata-Version", "Name", "Version", "Summary", "Description", "Keywords", "Home-page", "Author", "Author-email", "License", "Classifier",
           "Requires-Dist", "Requires-Python", "Provides-Extra", "Project-URL", "Description-Content-Type", "Dynamic", "License-Expression", "License-File",
           "X-Unknown", "name", "NAME", "Platform", "Supported-Platform", "Obsoletes-Dist", "Content-Type", "Content-Transfer-Encoding", "MIME-Version"]
VALUES = ["2.1", "2.4", "1.0", "9.9", "2.5", "2.10", "3.0", "2.0", "foo", "Foo_Bar", "a b", "1.0", "1.0.0a1", "not a version", "text/markdown", "text/markdown; charset=UTF-8; variant=GFM",
          "text/plain\n foo", "multipart/mixed; boundary=x", "base64", "quoted-printable", "a, b,c", "Home, https://x.org", "Home", "requests>=2 ; extra == 'x'", ">=3.8",
          "bad req !!", "MIT OR Apache-2.0", "{x}", "a{0}", "=?utf-8?q?caf=C3=A9?=", "caf\xe9", "\xff\xfe", "", "name", "version", "LICENSE.txt", "../x", "/abs"]
def email_doc(rng):
    lines = []
    for _ in range(rng.randrange(0, 8)):
        h = rng.choice(HEADERS); v = rng.choice(VALUES)
        if rng.random() < 0.1:
            from props import c17
            h, v = rng.choice(["Description-Content-Type", "Content-Type"]), c17.rand_ctype(rng)
        if rng.random() < 0.1: v = v + "\n  continued"
        lines.append(h + rng.choice([": ", ":", " : "]) + v)
    body = rng.choice(["", "", "\nbody text\n", "\n--x\n\nhi\n--x--\n", "\n\xff\xfe\n", "\ncaf\xe9"])
    return "\n".join(lines) + "\n" + body

RAW_STR = ["metadata_version", "name", "version", "summary", "description", "description_content_type", "home_page", "download_url", "author", "author_email",
           "maintainer", "maintainer_email", "license", "requires_python", "license_expression"]
RAW_LIST = ["platforms", "supported_platforms", "keywords", "classifiers", "requires_dist", "provides_extra", "provides_dist", "obsoletes_dist", "requires",
            "provides", "obsoletes", "requires_external", "dynamic", "license_files"]
def raw_dict(rng):
    d = {}
    if rng.random() < 0.9: d["metadata_version"] = rng.choice(["1.0", "1.1", "1.2", "2.1", "2.2", "2.3", "2.4", "2.4", "9.9", "", "{x}", "2.5", "2.10", "3.0", "2.0", "1.3", "2.04", "2.4.1", " 2.4", "2.4\n", "2", "2.٤"])
    if rng.random() < 0.9: d["name"] = rng.choice(["foo", "Foo_Bar", "a b", "", "{", "-a"])
    if rng.random() < 0.9: d["version"] = rng.choice(["1.0", "1.0a1", "x", "{}", "1.0+local"])
    for _ in range(rng.randrange(0, 5)):
        k = rng.random()
        if k < 0.1:
            from props import c17
            d["description_content_type"] = c17.rand_ctype(rng)
        elif k < 0.4: d[rng.choice(RAW_STR)] = rng.choice(VALUES)
        elif k < 0.8: d[rng.choice(RAW_LIST)] = [rng.choice(VALUES) for _ in range(rng.randrange(0, 3))]
        elif k < 0.9: d["project_urls"] = {rng.choice(["Home", "Docs", "{x}"]): rng.choice(["https://x.org", "{0}", ""])}
        else: d[rng.choice(["bogus", "from_raw", "__doc__", "_raw", "from_email", "Name", "{x}"])] = rng.choice(["x", "{y}"])
    return d

def elf_bytes(rng):
    cls = rng.choice([1, 2, 1, 2, 3, 0]); enc = rng.choice([1, 2, 1, 2, 0, 3])
    ident = bytes([0x7f, 0x45, 0x4c, 0x46, cls, enc]) + bytes(10)
    if rng.random() < 0.1: ident = bytes(rng.randrange(256) for _ in range(rng.randrange(0, 16)))
    e = "<" if enc != 2 else ">"
    big = [0, 1, 52, 58, 64, 2**31, 2**32 - 1, 2**63, 2**64 - 1, 7, 2**62, 2**63 - 1, 2**40, 2**62 + 7]
    try:
        if cls == 2:
            hdr = struct.pack(e + "HHIQQQIHHH", 2, rng.choice([3, 40, 62, 183]), 1, 0, rng.choice(big), 0, rng.choice(big) % 2**32, 64, rng.choice([56, 0, 1, 65535]), rng.choice([0, 1, 2, 7, 65535]))
            ph = struct.pack(e + "IIQQQQQQ", rng.choice([3, 1, 3]), 0, rng.choice(big), 0, 0, rng.choice(big), 0, 0)
        else:
            hdr = struct.pack(e + "HHIIIIIHHH", 2, rng.choice([3, 40, 62, 183]), 1, 0, rng.choice(big) % 2**32, 0, rng.choice(big) % 2**32, 52, rng.choice([32, 0, 1, 65535]), rng.choice([0, 1, 2, 7, 65535]))
            ph = struct.pack(e + "IIIIIIII", rng.choice([3, 1, 3]), rng.choice(big) % 2**32, 0, 0, rng.choice(big) % 2**32, 0, 0, 0)
    except struct.error:
        hdr, ph = b"", b""
    data = ident + hdr + ph * rng.randrange(0, 3) + b"/lib/ld-linux.so.2\x00"
    if rng.random() < 0.3: data = data[: rng.randrange(0, len(data) + 1)]
    return data.decode("latin-1")

URLS = ["https://example.com/a.whl", "file:///tmp/x", "git+https://github.com/a/b.git@main#egg=a", "https://[::1]/x.zip", "https://[example.com/x.zip", "https://a]b/x",
        "https://[not-an-ip]/x", "https://exa\u2100mple.com/x", "http://user:pw@host:99999/p?q=1#f", "//x", ":", "x:y@z", "git+ssh://git@host:repo.git", "https://[v1.fe80::a]/", "HTTP://EXAMPLE.COM",
        "https://xn--nxasmq6b.com/", "https://%zz/", "a" * 300, "ftp://[", "]", "https://[::1", "https://host:port/x", "\\\\unc\\path", "C:\\x.whl", "https://é.com/x"]

def long_flat(rng, tier):
    """long but FLAT inputs (nesting depth 0 or 1): size must not turn into recursion depth, a slice bound or a numeric overflow"""
    N = rng.choice([1200, 2500]) if tier == "quick" else rng.choice([1200, 5000, 20000])
    atom = lambda: rng.choice(['os_name == "a"', "python_version >= '3'", '"x" in sys_platform', 'extra == "e"'])
    marker = (" %s " % rng.choice(["and", "or"])).join(atom() for _ in range(N))
    mixed = " ".join(atom() + rng.choice([" and", " or"]) for _ in range(N)) + " " + atom()
    clauses = ",".join(rng.choice([">=", "!=", "<", "=="]) + "%d.%d" % (i % 97, i % 13) for i in range(N))
    lic = (" %s " % rng.choice(["OR", "AND"])).join(rng.choice(["MIT", "Apache-2.0", "LicenseRef-x", "GPL-2.0+", "mit WITH Classpath-exception-2.0"]) for _ in range(N))
    rel = ".".join(str(i % 10) for i in range(N))
    loc = "1.0+" + ".".join(rng.choice(["a", "1", "b2"]) for _ in range(N))
    tags = "-".join(".".join("t%d" % i for i in range(60)) for _ in range(3))
    return [("Marker", marker), ("Marker", mixed), ("Requirement", "pkg; " + marker), ("Requirement", "pkg[" + ",".join("e%d" % i for i in range(N)) + "]"),
            ("Requirement", "pkg " + clauses), ("SpecifierSet", clauses), ("SpecifierSet.contains", rel), ("canonicalize_license_expression", lic),
            ("Version", rel), ("Version", loc), ("canonicalize_version", rel), ("Specifier", "==" + rel), ("Specifier.contains", loc),
            ("parse_wheel_filename", "p-1.0-" + tags + ".whl"), ("canonicalize_name.validate", "a" + "-b" * N), ("is_normalized_name", "a" + "-b" * N),
            ("parse_email.str", "\n".join("Classifier: c%d" % i for i in range(N)) + "\n"),
            ("Metadata.from_email.str", "Metadata-Version: 2.4\nName: a\nVersion: 1\n" + "\n".join("Requires-Dist: p%d>=1" % i for i in range(N // 4)) + "\n")]


def streams(rng, tier):
    q = tier == "quick"
    n = 500 if q else 12000
    out = []
    def add(stream, entry, s): out.append(Case(stream, "law.exc", [entry, s], kind="law"))
    for _ in range(1 if q else 3):
        for entry, s in long_flat(rng, tier): add("long-flat", entry, s)
    def mut(s): return gen.mutate(rng, s, MUT) if rng.random() < 0.6 else s
    for _ in range(n):
        add("version", "Version", mut(gen.spell(rng, gen.rand_v(rng))))
        add("version", "canonicalize_version", mut(gen.spell(rng, gen.rand_v(rng))))
        add("version", "Specifier.contains", mut(gen.spell(rng, gen.rand_v(rng))))
        add("version", "SpecifierSet.contains", mut(gen.spell(rng, gen.rand_v(rng))))
        add("specifier", "Specifier", mut(gen_spec.spec_string(rng)[0]))
        add("specifier", "Specifier.arbitrary", mut(gen.spell(rng, gen.rand_v(rng), ws=False)))
        add("specifier", "SpecifierSet", mut(gen_misc.spec_set(rng)))
        add("marker", "Marker", mut(gen_misc.marker(rng, 2)))
        add("requirement", "Requirement", mut(gen_misc.requirement(rng)))
        nm = mut(rng.choice(gen_misc.NAMES))
        for e in ("canonicalize_name", "canonicalize_name.validate", "is_normalized_name"): add("name", e, nm)
        fn = "%s-%s%s-%s.whl" % (rng.choice(gen_misc.NAMES).replace("-", "_"), gen.vstr(gen.rand_v(rng, 0.1)), rng.choice(["", "-1", "-12abc", "-x"]), gen_misc.tag(rng))
        add("filename", "parse_wheel_filename", mut(fn))
        add("filename", "parse_sdist_filename", mut("%s-%s%s" % (rng.choice(gen_misc.NAMES), gen.vstr(gen.rand_v(rng, 0.1)), rng.choice([".tar.gz", ".zip", ".tgz"]))))
        add("license", "canonicalize_license_expression", mut(license_expr(rng)))
        doc = email_doc(rng)
        for e in ("parse_email.str", "parse_email.bytes", "Metadata.from_email.str", "Metadata.from_email.bytes"):
            add("email", e, doc if e.endswith("bytes") else doc)
        if rng.random() < 0.5:
            # MIME framing of the document (round 7: seeded change r7c-c11-a decoded the body with the DECLARED charset): a Content-Type with a
            # charset parameter naming a text codec, a non-text codec, or no codec at all, a Content-Transfer-Encoding, and always a body
            cs = rng.choice(["utf-8", "utf8", "latin-1", "ascii", "utf-16", "utf-7", "cp1252", "x-unknown-charset", "unknown-8bit", "", "rot13", "hex", "base64",
                             "idna", "punycode", "undefined", "utf-8 ", "\"utf-8\"", "utf-8\xe9","utf_8_sig", "none", "x" * 40])
            ct = rng.choice(["text/plain", "text/markdown", "text/x-rst", "application/octet-stream", "text", ""]) + rng.choice(["; charset=", ";charset=", "; CHARSET=", "; charset*=utf-8''"]) + cs
            hs = ["Metadata-Version: 2.1", "Name: a", "Version: 1", "Content-Type: " + ct]
            if rng.random() < 0.5: hs.append("Content-Transfer-Encoding: " + rng.choice(["base64", "quoted-printable", "8bit", "7bit", "binary", "x-uuencode", "bogus", ""]))
            if rng.random() < 0.3: hs.append("MIME-Version: 1.0")
            rng.shuffle(hs)
            mdoc = "\n".join(hs) + "\n\n" + rng.choice(["body text\n", "caf\xe9\n", "\xff\xfe\n", "aGVsbG8=\n", "=C3=A9 =ZZ\n", "+AGE-\n", "x"])
            for e in ("parse_email.str", "parse_email.bytes", "Metadata.from_email.str", "Metadata.from_email.bytes"): add("email-mime", e, mdoc)
        add("elf", "ELFFile", elf_bytes(rng))
        if rng.random() < 0.4: add("elf-file", "ELFFile.file", elf_bytes(rng))
        if rng.random() < 0.2: add("elf-file", "ELFFile.file", gen_plat.b2s(gen_plat.rand_elf(rng)[0]))
        add("elf", "ELFFile", gen_plat.b2s(gen_plat.rand_elf(rng)[0]))
        url = rng.choice(URLS)
        if rng.random() < 0.3: url = gen.mutate(rng, url, list("[]:/@#?%\\") + ["\u2100", "\xe9"])
        add("requirement-url", "Requirement", "%s @ %s%s" % (rng.choice(gen_misc.NAMES), url, rng.choice(["", " ; os_name == 'a'", ";os_name=='a'"])))
        out.append(Case("raw-metadata", "law.exc.raw", [json.dumps(raw_dict(rng))], kind="law"))
    entries = ["Version", "Specifier", "Specifier.contains", "Specifier.arbitrary", "SpecifierSet", "SpecifierSet.contains", "Marker", "Requirement",
               "canonicalize_name.validate", "canonicalize_name", "is_normalized_name", "canonicalize_version", "parse_wheel_filename", "parse_sdist_filename",
               "canonicalize_license_expression", "parse_email.str", "Metadata.from_email.str"]
    for _ in range(n):
        s = arbitrary(rng)
        for e in rng.sample(entries, 4): add("arbitrary", e, s)
    for _ in range(n // 2):
        s = "".join(chr(rng.randrange(256)) for _ in range(rng.randrange(0, 40)))
        for e in ("parse_email.bytes", "Metadata.from_email.bytes", "ELFFile"): add("arbitrary-bytes", e, s)
    # the same malformed (ASCII) inputs through the models whose failure points the theorems of Properties/C11.v prove unreachable:
    # the model answers a value or the documented-error token, so an escaping exception on the implementation side shows as a disagreement
    ASCII_MUT = [chr(c) for c in range(32, 127)] + ["\t", "\n", "\r", "\x0b", "\x0c"]
    def amut(s): return gen.mutate(rng, s, ASCII_MUT) if rng.random() < 0.7 else s
    for _ in range(n):
        out.append(Case("model-malformed", "v.parse", [amut(gen.spell(rng, gen.rand_v(rng)))]))
        out.append(Case("model-malformed", "v.canon", [rng.choice("TF"), amut(gen.spell(rng, gen.rand_v(rng)))]))
        out.append(Case("model-malformed", "sp.parse", [amut(gen_spec.spec_string(rng)[0])]))
        out.append(Case("model-malformed", "sp.contains", [gen_spec.spec_string(rng)[0], rng.choice("NTF"), amut(gen.spell(rng, gen.rand_v(rng)))]))
        out.append(Case("model-malformed", "n.name", [amut(rng.choice(gen_misc.NAMES))]))
        fn = "%s-%s%s-%s.whl" % (rng.choice(gen_misc.NAMES).replace("-", "_"), gen.vstr(gen.rand_v(rng, 0.1)), rng.choice(["", "-1", "-12abc", "-x"]), gen_misc.tag(rng))
        out.append(Case("model-malformed", "f.wheel", [amut(fn)]))
        out.append(Case("model-malformed", "f.sdist", [amut("%s-%s%s" % (rng.choice(gen_misc.NAMES), gen.vstr(gen.rand_v(rng, 0.1)), rng.choice([".tar.gz", ".zip"])))]))
        out.append(Case("model-malformed", "l.canon", [amut(license_expr(rng))]))
    # digit-like characters: str.isdigit() / isdecimal() / int() / \d disagree on them
    DIGITLIKE = ["²", "³", "①", "١", "１", "৪", "𝟙", "⁰"]
    for _ in range(n):
        v = gen.V(rng.choice([0, 0, 1]), tuple(rng.choice(gen.SMALL) for _ in range(rng.choice([1, 2, 3]))), None, rng.choice([None, None, 1]), None, None)
        t = list(gen.vstr(v)); i = rng.randrange(len(t) + 1)
        if rng.random() < 0.5 and t: t[min(i, len(t) - 1)] = rng.choice(DIGITLIKE)
        else: t.insert(i, rng.choice(DIGITLIKE))
        t = "".join(t)
        for e in rng.sample(["Version", "canonicalize_version", "Specifier.contains", "SpecifierSet.contains", "Specifier.arbitrary"], 2): add("digit-like", e, t)
        add("digit-like", "Specifier", rng.choice(gen_spec.OPS) + t)
        add("digit-like", "parse_wheel_filename", "foo-%s-%s-py3-none-any.whl" % (gen.vstr(v), rng.choice(DIGITLIKE) + "x"))
        add("digit-like", "Requirement", "foo==" + t)
    # the interpreter's int/str digit limit (D10, repaired by 71d4b23): only the documented exceptions may come out
    big = "9" * 4301
    for e, t in (("Version", big), ("canonicalize_version", "1." + big), ("Specifier.contains", big + ".0"), ("Version", "1.0+" + big),
                 ("parse_wheel_filename", "foo-" + big + "-py3-none-any.whl"), ("parse_wheel_filename", "foo-1.0-" + big + "x-py3-none-any.whl"), ("Requirement", "foo==" + big), ("Version", "9" * 4300),
                 ("Marker", 'python_version >= "%s"' % big), ("SpecifierSet", ">=" + big), ("SpecifierSet.contains", big), ("Specifier", "~=1." + big), ("Version", "1.post" + big), ("Version", big + "!1")):
        add("digit-limit", e, t)
    return out

def match_d10(case, impl, model):
    """D10: CPython's int/str digit limit (default 4300 digits) makes int() raise a plain ValueError inside Version parsing."""
    import re
    return (case.cmd == "law.exc" and case.args[0] in ("Version", "canonicalize_version", "Specifier.contains", "SpecifierSet.contains", "Specifier", "SpecifierSet", "Requirement", "parse_wheel_filename", "parse_sdist_filename")
            and re.search(r"[0-9]{4301,}", case.args[1]) is not None and isinstance(impl, str) and impl.startswith("escaped: ValueError"))
