"""C03 Specifier.contains implements PEP 440 operator semantics (pre-releases enabled)."""
from core import Case
import gen, gen_spec

IMPL_MODULE = "spec_impl"
RULE = ("operator x specifier version spelling (admissible and inadmissible forms, wildcards, arbitrary text) x candidates related to the specifier's "
        "version (equal spellings, locals added/removed, bumped/padded/dropped components, pre/post/dev variants); 'sp.sem' compares the implementation with the "
        "declarative operator semantics, 'sp.contains' with the code model; non-trivial = specifier and candidate both accepted")

def streams(rng, tier):
    q = tier == "quick"
    out = []
    for _ in range(5000 if q else 120000):
        s, op, V, wild = gen_spec.spec_string(rng)
        if rng.random() < 0.05: s = gen.mutate(rng, s)
        for c in gen_spec.related_candidates(rng, V, 2):
            if rng.random() < 0.03: c = gen.mutate(rng, c)
            out.append(Case("sem:" + op, "sp.sem", [s, c]))
            if rng.random() < 0.5: out.append(Case("contains", "sp.contains", [s, "T", c]))
            # the call argument decides, whatever the object's own setting says (constructor keyword or assigned attribute)
            if rng.random() < 0.15: out.append(Case("contains:override", "sp.contains", [s, "T", c, rng.choice("TF"), rng.choice("ca")]))
    return out

def nontrivial(c, i):
    return i in ("T", "F")
