"""C03 Specifier.contains implements PEP 440 operator semantics (pre-releases enabled)."""
from dataclasses import replace
from core import Case
import gen, gen_spec

IMPL_MODULE = "spec_impl"
RULE = ("operator x specifier version spelling (admissible and inadmissible forms, wildcards, zero-tailed and 9-14 component releases, arbitrary text; "
        "all 29 whitespace code points around operator, text and candidate) x candidates related to the specifier's version (equal spellings, locals "
        "added/removed, bumped/padded/dropped components, releases cut back into the zero tail, pre/post/dev variants), passed as str, Version or "
        "Version-subclass objects; 'sp.sem' compares the implementation with the declarative operator semantics, 'sp.sem.obj' the same with pre-releases "
        "enabled by the object's own setting through contains() and `in`, 'sp.contains'/'sp.query' with the code model under every combination of call "
        "argument and object setting; 'law.sp.oracle' compares contains() with an independent structured reading of the statement computed by the "
        "harness from the generated version records (third leg); a === stream substitutes U+212A/U+0130/U+017F into the text; "
        "non-trivial = specifier and candidate both accepted")
KINDS = ["str", "str", "obj", "sub"]
ASSUMPTIONS = ["every number in a generated version has far fewer digits than int()'s 4300-digit conversion limit; the model has no digit limit (finding D10: "
               "beyond it Version() raises InvalidVersion)"]
TRUSTED_EXTRA = ["candidate objects (str / Version / Version subclass) and the way the object's pre-release setting is made (constructor keyword / attribute "
                 "assignment) exist on the implementation side only: the model has one representation of each, the run checks the answers do not depend on them",
                 "gen_spec.oracle (structured third leg) shares gen.rank with the C01 harness and is compared with the implementation only",
                 "=== : the executable model lower-cases with VMeaning.py_lower; SpecArbFull proves it equal to the exact NamesX.lower_full on every text "
                 "(Gen/LowerTable is re-validated against the interpreter by the C13 check)"]


def confusable_cases(rng, out):
    """=== against texts in which k/i/s are replaced by KELVIN SIGN / I WITH DOT / LONG S: model correspondence, and the two that may never match."""
    V3 = gen.fix_local(replace(gen.rand_v(rng, local_p=0.0), local=tuple(rng.choice(["kis", "sk1", "ki", "k", "i1s", "s", "risk", 7]) for _ in range(rng.choice([1, 2, 3])))))
    if rng.random() < 0.5: V3 = replace(V3, post=rng.choice(gen.SMALL))                              # ".post": an s outside the local label
    base = gen.rand_case(rng, gen.vstr(V3)) if rng.random() < 0.5 else gen.vstr(V3)
    txt, used = gen_spec.confuse(rng, base, only=rng.choice([None, None, {"K"}, {"İ"}, {"ſ"}]))
    s = rng.choice(gen_spec.WS_U) + "===" + rng.choice(gen_spec.WS_U) + txt + rng.choice(gen_spec.WS_U)
    for c in [V3] + gen_spec.related_structured(rng, V3, 1):
        ctxt = gen_spec.pad_ws(rng, gen.spell(rng, c, ws=False), 0.3)
        out.append(Case("arb-confusable:sem", "sp.sem", [s, ctxt]))
        out.append(Case("arb-confusable:contains", "sp.query", [s, rng.choice("NTF"), ctxt, rng.choice("NTF"), rng.choice("ca"), rng.choice(["contains", "in"]), rng.choice(KINDS)]))
        # U+0130 lower-cases to "i" + U+0307 and U+017F to itself: a text containing either is never the candidate's (ASCII) string
        if used & {"İ", "ſ"}:
            out.append(Case("arb-confusable:never", "law.sp.oracle", [s, ctxt, "F", rng.choice(KINDS)], kind="law"))


def oracle_cases(rng, out):
    """third leg: structured specifier version and structured candidates -> expected answer from gen_spec.oracle, checked on the real objects"""
    op = rng.choice(gen_spec.OPS)
    v = gen.rand_v(rng, local_p=0.25)
    r = rng.random()
    if r < 0.2: v = gen_spec.zero_tail(rng, v)
    elif r < 0.25: v = gen_spec.long_release(rng, v)
    if op == "===":
        V = gen.fix_local(v)
        s = rng.choice(gen_spec.WS_U) + "===" + rng.choice(gen_spec.WS_U) + gen.rand_case(rng, gen.vstr(V)) + rng.choice(gen_spec.WS_U)
        for c in [V] + gen_spec.related_structured(rng, V, 2):
            want = gen.vstr(c) == gen.vstr(V)                                                       # the candidate's normalised string, case-insensitively
            out.append(Case("oracle:===", "law.sp.oracle", [s, gen_spec.pad_ws(rng, gen.spell(rng, c, ws=False), 0.3), "T" if want else "F", rng.choice(KINDS)], kind="law"))
        return
    s, op, V, wild = gen_spec.spec_string(rng, op=op, v=v, admissible_p=1.0, ws=gen_spec.WS_U)
    for c in gen_spec.related_structured(rng, V, 3):
        want = gen_spec.oracle(op, V, wild, c)
        out.append(Case("oracle:" + op + (".*" if wild else ""), "law.sp.oracle",
                        [s, gen_spec.pad_ws(rng, gen.spell(rng, c, ws=False), 0.3), "T" if want else "F", rng.choice(KINDS)], kind="law"))


def streams(rng, tier):
    q = tier == "quick"
    out = []
    for _ in range(5000 if q else 120000):
        v = None
        r = rng.random()
        if r < 0.15: v = gen_spec.zero_tail(rng, gen.rand_v(rng, local_p=0.25))                    # ==V.* that only a zero-padded candidate matches
        elif r < 0.2: v = gen_spec.long_release(rng, gen.rand_v(rng, local_p=0.25))
        s, op, V, wild = gen_spec.spec_string(rng, v=v, ws=gen_spec.WS_U if rng.random() < 0.6 else None)
        if rng.random() < 0.05: s = gen.mutate(rng, s)
        for cv in gen_spec.related_structured(rng, V, 2):
            c = gen_spec.pad_ws(rng, gen.spell(rng, cv, ws=rng.random() < 0.3), 0.25)
            if rng.random() < 0.03: c = gen.mutate(rng, c)
            out.append(Case("sem:" + op, "sp.sem", [s, c]))
            if rng.random() < 0.5: out.append(Case("contains", "sp.contains", [s, "T", c]))
            # the call argument decides, whatever the object's own setting says (constructor keyword or assigned attribute)
            if rng.random() < 0.15: out.append(Case("contains:override", "sp.contains", [s, "T", c, rng.choice("TF"), rng.choice("ca")]))
            # pre-releases enabled by the object's own setting, no call argument: contains() and `in`, str / Version / subclass candidates
            if rng.random() < 0.3:
                via = rng.choice(["contains", "in"])
                out.append(Case("sem:object-setting:" + via, "sp.sem.obj", [s, c, via, rng.choice(KINDS), rng.choice("ca")]))
            # every combination of call argument x object setting x observation point x candidate object, against the code model
            if rng.random() < 0.4:
                via = rng.choice(["contains", "in"])
                out.append(Case("query:" + via, "sp.query", [s, rng.choice("NTF"), c, rng.choice("NNTF"), rng.choice("ca"), via, rng.choice(KINDS)]))
    for _ in range(1500 if q else 30000): oracle_cases(rng, out)
    for _ in range(600 if q else 12000): confusable_cases(rng, out)
    return out


def nontrivial(c, i):
    return c.kind == "law" or i in ("T", "F")
