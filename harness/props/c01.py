"""C01 Version comparison is the PEP 440 total order."""
from core import Case
import gen

IMPL_MODULE = "version_impl"
RULE = ("pairs/triples/lists of spellings of structured versions and their order neighbours (equal spellings, local added/removed, "
        "bumped/padded/dropped components) plus mutated spellings; non-trivial = both operands accepted; distinct by input text")
ASSUMPTIONS = ["hash(): only 'equal implies equal hash' is observed, CPython's hash function itself is not modelled"]

def pool(rng, n):
    vs = []
    for _ in range(n):
        v = gen.rand_v(rng); vs.append(v)
        if rng.random() < 0.6: vs += rng.sample(gen.neighbours(rng, v), 3)
    return vs

def streams(rng, tier):
    q = tier == "quick"
    vs = pool(rng, 300 if q else 3000)
    sp = [gen.spell(rng, v) for v in vs]
    out = []
    for _ in range(6000 if q else 120000):
        i = rng.randrange(len(vs))
        if rng.random() < 0.5:
            v2 = rng.choice(gen.neighbours(rng, vs[i])); b = gen.spell(rng, v2)
        else:
            b = rng.choice(sp)
        a = sp[i] if rng.random() < 0.7 else gen.spell(rng, vs[i])
        if rng.random() < 0.05: b = gen.mutate(rng, b)
        out.append(Case("pairs", "v.cmp", [a, b]))
    for _ in range(300 if q else 5000):
        k = rng.choice([2, 3, 5, 8, 13])
        base = rng.choice(vs)
        items = [gen.spell(rng, rng.choice(gen.neighbours(rng, base) + [base])) for _ in range(k)]
        out.append(Case("sorted", "v.sort", items))
        out.append(Case("law-sortperm", "law.v.sortperm", [str(rng.randrange(10**6))] + items, kind="law"))
    for _ in range(1500 if q else 30000):
        base = rng.choice(vs); nb = gen.neighbours(rng, base) + [base, rng.choice(vs)]
        out.append(Case("law-triples", "law.v.triple", [gen.spell(rng, rng.choice(nb)) for _ in range(3)], kind="law"))
    return out

def nontrivial(c, i):
    return i not in ("E", "ok") or c.kind == "law"
