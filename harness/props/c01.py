"""C01 Version comparison is the PEP 440 total order."""
from core import Case
import gen

IMPL_MODULE = "version_impl"
RULE = ("pairs/triples/lists of spellings of structured versions and their order neighbours (equal spellings, local added/removed, "
        "bumped/padded/dropped components) plus mutated spellings; wide stream: big epochs, 12/40-component releases, big and random alphanumeric "
        "local segments with one-character perturbations, zero runs up to 50, all 29 whitespace code points; law-rank compares the six operators, "
        "hash, set and sorted() with an independent reference order computed from the generating structure; "
        "non-trivial = both operands accepted; distinct by input text")
ASSUMPTIONS = ["hash(): only 'equal implies equal hash' is observed, CPython's hash function itself is not modelled",
               "the model has no digit limit (finding D10, recorded under C12): numbers of more than 4300 digits, which the real Version() rejects, are "
               "outside the generated domain of this check (largest generated: 4101 digits + a zero run of 50, thorough tier)"]
TRUSTED_EXTRA = ["Version._key is never observed directly (it is private, and harmless re-layouts of it must not raise alarms): Py.key is tied to _cmpkey "
                 "only through the outcomes of the six operators, hash equality, set membership and sorted() on generated pairs"]

def pool(rng, n):
    vs = []
    for _ in range(n):
        v = gen.rand_v(rng); vs.append(v)
        if rng.random() < 0.6: vs += rng.sample(gen.neighbours(rng, v), 3)
    return vs

def streams(rng, tier):
    q = tier == "quick"
    vs = pool(rng, 300 if q else 3000)
    sp = [gen.spell(rng, v) for v in vs]
    out = []
    for _ in range(6000 if q else 120000):
        i = rng.randrange(len(vs))
        if rng.random() < 0.5:
            v2 = rng.choice(gen.neighbours(rng, vs[i])); b = gen.spell(rng, v2)
        else:
            b = rng.choice(sp)
        a = sp[i] if rng.random() < 0.7 else gen.spell(rng, vs[i])
        if rng.random() < 0.05: b = gen.mutate(rng, b)
        out.append(Case("pairs", "v.cmp", [a, b]))
    for _ in range(300 if q else 5000):
        k = rng.choice([2, 3, 5, 8, 13])
        base = rng.choice(vs)
        items = [gen.spell(rng, rng.choice(gen.neighbours(rng, base) + [base])) for _ in range(k)]
        out.append(Case("sorted", "v.sort", items))
        out.append(Case("law-sortperm", "law.v.sortperm", [str(rng.randrange(10**6))] + items, kind="law"))
    for _ in range(1500 if q else 30000):
        base = rng.choice(vs); nb = gen.neighbours(rng, base) + [base, rng.choice(vs)]
        out.append(Case("law-triples", "law.v.triple", [gen.spell(rng, rng.choice(nb)) for _ in range(3)], kind="law"))
    # ---- improvement round: wider generators (big epochs, 12/40-component releases, big / random local segments, all 29 whitespace
    #      code points, zero runs up to 50), hash agreement in the correspondence, and the independent reference order gen.rank ----
    wv = []
    for _ in range(150 if q else 1500):
        v = gen.rand_v_wide(rng); wv.append(v)
        if rng.random() < 0.7: wv += rng.sample(gen.neighbours_wide(rng, v), 2)
    allv = vs + wv
    for _ in range(2500 if q else 50000):
        v1 = rng.choice(wv)
        k = rng.random()
        if k < 0.45: v2 = rng.choice(gen.neighbours_wide(rng, v1))
        elif k < 0.6: v2 = rng.choice(gen.neighbours(rng, v1))
        elif k < 0.7: v2 = v1
        else: v2 = rng.choice(allv)
        a, b = gen.spell_wide(rng, v1), gen.spell_wide(rng, v2)
        out.append(Case("pairs-wide", "v.cmph", [a, b]))
        out.append(Case("law-rank", "law.v.rank", [a, b, gen.rel_of(v1, v2)], kind="law"))
    for _ in range(300 if q else 6000):
        # numbers of DIFFERENT lengths beyond any fixed width (17..60 digits), in one component: numeric order, not text order / padded text order
        n1 = rng.randrange(10 ** rng.randrange(16, 60)); n2 = rng.choice([rng.randrange(10 ** rng.randrange(16, 60)), n1 * 10 + rng.randrange(10), n1 // 10, n1 + 1])
        tpl = rng.choice(["1.0+%d", "1.0+a.%d", "%d", "1.%d", "%d!1", "1.post%d", "1.dev%d", "1rc%d", "1.0+%d.x"])
        v1s, v2s = tpl % n1, tpl % n2
        rel = "<" if n1 < n2 else ">" if n1 > n2 else "="
        out.append(Case("pairs-big-numbers", "v.cmph", [v1s, v2s]))
        out.append(Case("law-rank", "law.v.rank", [v1s, v2s, rel], kind="law"))
    for _ in range(2500 if q else 50000):
        v1 = rng.choice(vs)
        v2 = rng.choice(gen.neighbours(rng, v1) + [v1]) if rng.random() < 0.7 else rng.choice(allv)
        a, b = gen.spell(rng, v1), gen.spell(rng, v2)
        out.append(Case("law-rank", "law.v.rank", [a, b, gen.rel_of(v1, v2)], kind="law"))
        if rng.random() < 0.3: out.append(Case("pairs-hash", "v.cmph", [a, b]))
    for _ in range(100 if q else 2000):
        base = rng.choice(wv)
        items = [gen.spell_wide(rng, rng.choice(gen.neighbours_wide(rng, base) + [base])) for _ in range(rng.choice([2, 3, 5, 8, 13]))]
        out.append(Case("sorted-wide", "v.sort", items))
        out.append(Case("law-sortperm", "law.v.sortperm", [str(rng.randrange(10**6))] + items, kind="law"))
        out.append(Case("law-triples", "law.v.triple", items[:3], kind="law"))
    if not q:       # magnitudes just below CPython's 4300-digit int() limit (the model takes seconds for each, so thorough tier only)
        a, b, c3 = gen.HUGE4K
        for x, y in [(a, b), (b, a), (a, a), (c3, a)]:
            for tpl in ["%d", "1.%d", "%d!1", "1+%d", "1.post%d"]:
                v1, v2 = tpl % x, ("0" * 40 + tpl if tpl[0] == "%" else tpl) % y
                out.append(Case("pairs-4k", "v.cmph", [v1, v2]))
                out.append(Case("law-rank", "law.v.rank", [v1, v2, "<" if x < y else ">" if x > y else "="], kind="law"))
    return out

def compare(c, i, m):
    if i == m: return None
    if c.cmd == "v.cmph" and i[:-1] == m[:-1] and m.endswith("|F") and i.endswith("|T"):
        return None      # different keys may hash alike (e.g. hash(2**61-1) == hash(0)); equal keys must hash alike
    return "implementation differs from model"

def nontrivial(c, i):
    return i not in ("E", "ok") or c.kind == "law"
