"""C08 Requirement parsing decomposes PEP 508 strings faithfully."""
import copy, json, re
from core import Case
import gen, gen_req as G

IMPL_MODULE = "req_impl"
RULE = ("requirements rendered from structures name x extras list x (PEP 440 clause list, parenthesised or not | '@ url') x optional marker tree "
        "x whitespace layout (blanks wherever PEP 508 allows them, and the canonical layout of str()); mutations of them (delete/insert/"
        "swap incl. IGNORECASE confusables, non-ASCII word characters, Unicode whitespace, newline); every string 'a'+t, |t| <= 4/5 over a "
        "class-representative alphabet; related pairs (PEP 503 name spellings, clause order/spelling, extras order) for ==/hash; "
        "law.r.decompose is demanded outside the D7 class and inside it wherever the exact chain condition (gen_req.chain_ok = ReqExactP.rq_chain_okb) holds; "
        "law.r.eq also compares the behaviour of the parts of equal requirements (.specifier contains/filter/prereleases on a version battery, "
        ".marker.evaluate in three environments); non-trivial = accepted by Requirement; distinct by input text")
ASSUMPTIONS = ["r.eqh compares 'hash(a) == hash(b)' with equality of the model's hash key: two unequal requirements with colliding 61-bit "
               "hashes would be a false alarm (probability ~2^-61 per pair)",
               "str.lower() on non-ASCII characters (canonicalize_name of an extra value inside a marker) is outside the model: inputs with such a character after the first ';' are dropped",
               "marker literals containing a backslash are outside the modelled domain (ast.literal_eval is an oracle there); generated "
               "inputs containing a backslash are dropped",
               "hash(): only 'equal implies equal hash' is observed",
               "a non-ASCII word character adjacent to an identifier leads to rejection in both the implementation (\\b fails) and the "
               "model (the character cannot be consumed); the model's \\b is ASCII"]
TRUSTED_EXTRA = ["MText.p_marker / MkModel (marker grammar, literal_eval boundary, str(Marker)) - owned by the marker properties C07/C09",
                 "SpecContains.Specifier (Specifier._regex as a scanner) - owned by C03/C12"]

ALPHA = ["1", ".", "-", "[", "]", ",", "(", ")", "@", ";", "=", "<", " ", "*", "+", "\n", "~", "x"]


def expected_json(R, marker_text, lay=None):
    """the structure the string was rendered from; with a layout also the blanks around every clause and the exact D7 condition"""
    E = {"name": R["name"], "extras": R["extras"], "clauses": [G.clause_text(c) for c in R["clauses"]], "url": R["url"],
         "marker": marker_text, "d7": None}
    if lay is not None:
        E["cw"] = [list(x) for x in lay["cw"]]
        E["ops"] = [[c[0], c[1]] for c in R["clauses"]]
        E["chain_ok"] = G.chain_ok(R, lay)
    return json.dumps(E)


def rendered(rng, R, canonical=False):
    import random
    lay = G.rand_layout(rng, R, canonical)
    mt = None if R["marker"] is None else G.render_marker(random.Random(lay["mseed"]), R["marker"], canonical)
    return G.render(R, lay, mt), lay, mt


def no_d7(rng, R):
    """a layout outside the D7 class: whitespace between every '===' clause and a following comma (the structure is never changed)"""
    s, lay, mt = rendered(rng, R)
    if G.d7_class(R, lay):
        cl = R["clauses"]
        for i in range(len(cl) - 1):
            if cl[i][0] == "===" and lay["cw"][i][1] == "":
                lay["cw"][i] = (lay["cw"][i][0], rng.choice([" ", "\t", "  "]))
        s = G.render(R, lay, mt)
    return s, lay, mt


def eq_pair(rng):
    """two requirement strings and the expected answer of ==, by construction"""
    A = G.rand_req(rng, marker_p=0.3)
    B = copy.deepcopy(A)
    B["name"] = G.name_variant(rng, A["name"])
    if B["extras"]:
        rng.shuffle(B["extras"])
        if rng.random() < 0.3: B["extras"].append(rng.choice(B["extras"]))
    cl = [G.clause_variant(rng, c) for c in B["clauses"]]
    rng.shuffle(cl)
    if cl and rng.random() < 0.3: cl.append(rng.choice(cl))
    B["clauses"] = cl
    B["paren"] = rng.random() < 0.3
    exp = "T"
    k = rng.random()
    raw = [i for i, c in enumerate(cl) if G.raw_key(c)]
    if raw and rng.random() < 0.5:
        # '===' and prefix-match clauses are compared by their raw text: '===1.0' / '===1.0.0', '===X' / '===x', '==1.*' / '==1.0.*' differ
        # (all copies of the chosen clause are respelled, so B's set of raw keys differs from A's unless the new text is there already)
        i = rng.choice(raw)
        old = (cl[i][0], cl[i][2])
        new = G.raw_text_variant(rng, cl[i])
        B["clauses"] = cl = [new if (c[0], c[2]) == old else c for c in cl]
        ka = {(c[0], c[2]) for c in A["clauses"] if G.raw_key(c)}
        kb = {(c[0], c[2]) for c in cl if G.raw_key(c)}
        exp = "T" if ka == kb else "F"
    elif k < 0.5:
        pass
    elif k < 0.6:
        B["name"] += "x"; exp = "F"
    elif k < 0.7:
        e = list(B["extras"] or [])
        j = rng.random()
        if j < 0.4 or not e: e.append("zzz9")
        elif j < 0.7: e[0] = e[0].swapcase()
        else: e[0] = e[0].replace("-", "_").replace(".", "-") if any(c in e[0] for c in "-.") else e[0] + "0"
        B["extras"] = e
        exp = "T" if set(e) == set(A["extras"] or []) else "F"
    elif k < 0.8:
        if B["url"] is not None: B["url"] += "x"
        else:
            c = rng.choice([("!=", "", "99.99.99"), ("~=", "", "99.1"), ("===", "", "zz9")])
            B["clauses"].insert(rng.randrange(len(B["clauses"]) + 1), c)
        exp = "F"
    elif k < 0.9:
        if B["marker"] is None: B["marker"] = [("item", ("var", "os_name"), "==", ("lit", "zz9"))]
        else: B["marker"] = B["marker"] + ["and", ("item", ("var", "os_name"), "==", ("lit", "zz9"))]
        exp = "F"
    else:
        # ~= does not strip trailing zeros: ~=1.0 and ~=1.0.0 are different clauses
        B["clauses"] = list(A["clauses"]) + [("~=", "", "7.0")]
        A["clauses"] = list(A["clauses"]) + [("~=", "", "7.0.0")]
        if A["url"] is not None: A["url"] = B["url"] = None
        exp = "F"
    a, _, _ = no_d7(rng, A)
    b, _, _ = no_d7(rng, B)
    return a, b, exp


def outside_model(s):
    """inputs the model does not cover: a backslash (ast.literal_eval on marker literals), and a non-ASCII character that str.lower()
    changes inside the marker part (canonicalize_name of an extra value; the names model lower-cases ASCII only)"""
    if "\\" in s: return True
    i = s.find(";")
    return i >= 0 and any(ord(c) > 127 and c.lower() != c for c in s[i:])


def streams(rng, tier):
    q = tier == "quick"
    out = []
    pool = []
    for _ in range(6000 if q else 150000):
        R = G.rand_req(rng)
        canonical = rng.random() < 0.15
        s, lay, mt = rendered(rng, R, canonical)
        if outside_model(s): continue
        out.append(Case("structured", "r.parse", [s]))
        pool.append(s)
        # outside the D7 class, and inside it whenever the exact chain condition holds, the decomposition law is demanded
        # (a rejection there is a VIOLATION: match_d7 forgives only layouts where the chain condition fails)
        E = json.loads(expected_json(R, mt, lay))
        if not E["chain_ok"]:
            E["d7"] = [i for i in range(len(R["clauses"]) - 1) if R["clauses"][i][0] == "===" and lay["cw"][i][1] == ""][:1]
        out.append(Case("law-decompose", "law.r.decompose", [s, json.dumps(E)], kind="law"))
        if rng.random() < 0.5:
            out.append(Case("law-roundtrip", "law.r.roundtrip", [s], kind="law"))
        if rng.random() < 0.4:
            out.append(Case("str-roundtrip", "r.rt", [s]))
        if rng.random() < 0.35:
            t = G.mutate(rng, s)
            if not outside_model(t):
                out.append(Case("mutated", "r.parse", [t]))
                if rng.random() < 0.3: out.append(Case("law-roundtrip", "law.r.roundtrip", [t], kind="law"))
                if rng.random() < 0.3: out.append(Case("str-roundtrip", "r.rt", [t]))
    # the D7 class: a '===' clause immediately followed by a comma
    for _ in range(300 if q else 6000):
        R = G.rand_req(rng, url_p=0, marker_p=0.2)
        n = rng.choice([2, 2, 3, 4])
        R["clauses"] = [G.rand_clause(rng, arb_p=0) for _ in range(n)]
        i = rng.randrange(n - 1)
        R["clauses"][i] = ("===", G.ws(rng), rng.choice(["foo", "1.0", "z", "1.0+x", "A.B"]))
        s, lay, mt = rendered(rng, R)
        lay["cw"][i] = (lay["cw"][i][0], "")
        s = G.render(R, lay, mt)
        E = json.loads(expected_json(R, mt, lay))
        E["d7"] = [i] if not E["chain_ok"] else None
        out.append(Case("d7-class", "law.r.decompose", [s, json.dumps(E)], kind="law"))
        out.append(Case("d7-class", "r.parse", [s]))
        out.append(Case("d7-class", "r.rt", [s]))
        out.append(Case("law-roundtrip", "law.r.roundtrip", [s], kind="law"))
    # related pairs for == / hash
    for _ in range(2500 if q else 60000):
        a, b, exp = eq_pair(rng)
        if outside_model(a) or outside_model(b): continue
        out.append(Case("law-eq", "law.r.eq", [a, b, exp], kind="law"))
        out.append(Case("eq-pairs", "r.eq", [a, b]))
        out.append(Case("eq-hash", "r.eqh", [a, b]))
        if rng.random() < 0.2 and pool:
            out.append(Case("law-triple", "law.r.triple", [a, b, rng.choice(pool)], kind="law"))
    for _ in range(600 if q else 10000):
        a, b = rng.choice(pool), rng.choice(pool)
        out.append(Case("eq-pairs", "r.eq", [a, b]))
        out.append(Case("eq-hash", "r.eqh", [a, b]))
    # a marker directly after a URL
    for _ in range(200 if q else 4000):
        import random
        R = G.rand_req(rng, url_p=1, marker_p=1)
        mt = G.render_marker(random.Random(rng.randrange(1 << 30)), R["marker"], rng.random() < 0.3)
        p = R["name"] + G.ws(rng) + "@" + G.ws(rng) + R["url"]
        if outside_model(p + ";" + mt): continue
        out.append(Case("law-urlmarker", "law.r.urlmarker", [p, mt], kind="law"))
        out.append(Case("url-marker", "r.parse", [p + ";" + mt]))
        out.append(Case("url-marker", "r.parse", [p + rng.choice([" ", "\t", "  "]) + ";" + mt]))
    # bounded-exhaustive: an identifier followed by every string over the class-representative alphabet
    L = 3 if q else 4
    for t in gen.exhaustive(ALPHA, L):
        out.append(Case("exhaustive", "r.parse", ["a" + t]))
    for t in gen.exhaustive(["1", ".", "*", "+", "a", ",", " ", "=", "r", "-"], 4 if q else 5):
        out.append(Case("exhaustive-clause", "r.parse", ["a==" + t]))
    for a, b, exp in FIXED_EQ:
        out.append(Case("law-eq", "law.r.eq", [a, b, exp], kind="law"))
        out.append(Case("eq-pairs", "r.eq", [a, b]))
        out.append(Case("eq-hash", "r.eqh", [a, b]))
    for s in FIXED:
        out.append(Case("fixed", "r.parse", [s]))
        out.append(Case("fixed", "r.rt", [s]))
        out.append(Case("law-roundtrip", "law.r.roundtrip", [s], kind="law"))
    return out


# equal requirements that both carry a marker / a clause set, spelled differently (ReqMarkerEqP.meq_a / meq_b, ReqSetsLinkP.link_a / link_b)
FIXED_EQ = [("a; os.name=='x' and extra=='A_b'", "A ;(os_name == \"x\")and( extra == 'a-B')", "T"),
            ("a>=1.0, ==2.0.0", "A ==2.0,>=1", "T"),
            ("a[x,Y]>=1.0rc1,!=1.5.* ; python_version < '3' or extra == 'Foo_Bar'", "A [Y ,x] (!=1.5.*, >=1.0c1);python_version<\"3\" or extra=='foo.bar'", "T"),
            ("a===1.0", "a===1.0.0", "F"), ("a==1.*", "a==1.0.*", "F"), ("a; extra=='A_b'", "a; extra=='A_c'", "F")]

FIXED = ["", " ", "a", " a ", "a\n", "a\n\n", "a \n", "a[]", "a[ ]", "a[x]", "a[x,]", "a[,x]", "a[x y]", "a[x,y]", "a [ x , y ] ", "a[x", "a]", "a()", "a( )",
         "a(>=1)", "a (>=1,<2)", "a(>=1", "a>=1)", "a>=1,", "a,>=1", "a>=1,,<2", "a>=1 <2", "a>=1;", "a;", "a; ", "a@", "a@ ", "a @ u", "a @ u ", "a @ u\n",
         "a @ u ;", "a @ u;os_name=='a'", "a @ u ;os_name=='a'", "a @ u ; os_name=='a' ", "a@u", "a@u;", "a @ u >=1", "a>=1 @ u", "a[x]@u", "a[x] @ u ; extra == 'X_y'",
         "a===", "a=== ", "a===x", "a=== x", "a===x,>=1", "a===x, >=1", "a===x ,>=1", "a=== ,>=1", "a(===x,>=1)", "a(===x)", "a===x)", "a===x;os_name=='a'",
         "a==1.*", "a>=1.*", "a==1.0+local", "a>=1.0+local", "a>=1.0+Local", "a>=1.0+", "a>=1.", "a>=1.0.", "a ~=1", "a~=1.0", "a~=1.0.0,~=1.0", "a==1.0,==1.0.0",
         "a==1.0.0,==1.0", "a>=1.0rc1", "a>=1.0RC1,>=1.0c1", "a== v1.0", "a==\t1.0", "a>=\n1.0", "a>= 1.0", "a>=1.0\n", "a>=1.0 \n", "a (>=1.0)\n",
         "a==1.0.poſt1", "a==1.0.deV1", "a===ſ", "a>=1.0a1ı", "a.b-c_d", "a.", "a-", "a_", "a.-", "a._", ".a", "-a", "_a", "a_b", "a..b", "aé", "éa", "a é",
         "a[x.]", "a[x-,y]", "a[x_]", "a[é]", "a;os_name=='a'", "a ; os_name == 'a'", "a;os_name=='a'\n", "a;(os_name=='a')", "a;os_name=='a' and", "a ; extra == 'Foo_Bar'",
         "a ; 'Foo_Bar' == extra", "a;os_name=='a\nb'", "a;os_name=='a\x00b'", "a ; os_name == \"it's\"", "a ; os_name == 'say \"hi\"'", "A", "A_B ; python_version<'3'",
         "a[b,b,a]", "a[B,b]", "name===foo,bar", "foo === z, >=1", "foo ===1.0, <2", "a<1,>2,!=3,~=4.0,==5,>=6,<=7,===8"]


# ---- known finding D7: a '===' clause swallows a directly following comma ----
def chain_ok_of(E):
    """the exact D7 condition recomputed from the recorded layout (blanks around every clause, operator, operator whitespace)"""
    ops, cw = E["ops"], E["cw"]
    chain = False
    for i, (op, ows) in enumerate(ops):
        a, b = cw[i]
        if chain and (a != "" or ows != ""): return False
        if i == len(ops) - 1: break
        chain = (chain or op == "===") and b == ""
    return True


def layout_of(text, clauses):
    """(ops, cw) read back from the rendered text for a recorded clause list (used when the case carries no layout, e.g. the witness line
    of known_findings.txt): every clause text is located in order; its blanks are the spaces/tabs directly around it"""
    ops, cw, pos = [], [], 0
    for c in clauses:
        k = text.find(c, pos)
        m = re.match(r"(===|~=|==|!=|<=|>=|<|>)(\s*)", c)
        if k < 0 or not m: return None
        i = k
        while i > pos and text[i - 1] in " \t": i -= 1
        j = k + len(c)
        while j < len(text) and text[j] in " \t": j += 1
        ops.append([m.group(1), m.group(2)]); cw.append([text[i:k], text[k + len(c):j]])
        pos = j
    return ops, cw


def match_d7(case, impl_obs, model_obs):
    """input class: the rendered clause list has a '===' clause immediately followed by ',' (recorded in the structure the string was
    rendered from, and visible in the text) AND the exact chain condition of C08_requirement_render_exact fails for the recorded
    layout (a swallowed clause has a blank after its comma or whitespace after its operator) - where the condition holds the theorem
    demands acceptance and a rejection is a violation; observed wrong answer: the valid PEP 508 string is rejected"""
    if case.cmd != "law.r.decompose" or impl_obs != "rejected": return False
    try: E = json.loads(case.args[1])
    except Exception: return False
    if not E.get("d7"): return False
    if "ops" not in E or "cw" not in E:
        lo = layout_of(case.args[0], E.get("clauses") or [])
        if lo is None: return False
        E["ops"], E["cw"] = lo
    if chain_ok_of(E): return False
    i = E["d7"][0]
    cl = E["clauses"]
    if not (0 <= i < len(cl) - 1 and cl[i].startswith("===")): return False
    return (cl[i] + ",") in case.args[0]


def compare(case, impl_obs, model_obs):
    if model_obs == "?":
        return None          # marker literal with a backslash: outside the model
    return None if impl_obs == model_obs else "implementation differs from model"


def nontrivial(case, impl_obs):
    return case.kind == "law" or impl_obs not in ("E", "?")
