"""C14 Wheel and sdist filenames decode to what they encode."""
import itertools
from core import Case
import gen
import gen_names as g

IMPL_MODULE = "files_impl"
RULE = ("file names assembled per the binary-/source-distribution specs from (structured project name, PEP 440 version incl. epochs and local labels, "
        "optional build tag with suffix, 1-3 dotted interpreter / ABI / platform parts in mixed case), structurally damaged variants of them "
        "(extension, number of dash parts, unescaped name, build tag, version), a template sweep over small component pools, tag strings and "
        "case variants of tag triples; non-ASCII cased letters (U+03A3 included), non-ASCII decimal digits and letters in name, build and tag "
        "positions; a per-code-point sweep (samples of 20 Unicode general categories + the boundaries of every range of the generated \\w, \\d "
        "and Final_Sigma tables) in name / build / tag positions; non-trivial = the parser returned a value; distinct by input text")
ASSUMPTIONS = [
    "non-ASCII text: str.lower(), \\w and \\d / int() are tables generated from the running interpreter (coq/Gen/LowerTable.v, WordTable.v) and "
    "re-validated against it for every code point on every run (law.n.lowertable under C13, law.f.tables here); lone surrogates are not generated",
    "build numbers beyond CPython's int/str digit limit are outside the generated domain (known finding D10, reported under C11; the wheel build "
    "call site has the matcher match_d10_build)",
    "round-trip theorem domain: project names over ASCII letters/digits and -_. ; build = non-empty \\d run + suffix without '-' that does not start "
    "with a \\d digit (Unicode decimal digits count: \\d is not ASCII-only); tag parts without '-' and '.' (the encoding is not injective outside it)",
    "'non-escaped project name' is read as the check the code performs ('__' or a character outside \\w and '.', theorem C14_name_check_exact): "
    "'.', upper case (allowed by the spec for consumers), but also the empty name and names of separators only pass it; sdist names are not "
    "checked at all (candidate findings, matchers match_name_empty / match_sdist_name; generated only once registered in known_findings.txt)",
]
TRUSTED_EXTRA = ["Version(): the version model of C01/C02 (SpecModel.Version) is reused unchanged for the version part"]

PYS = ["py3", "py2", "cp312", "PY3", "pp39", "cp39", "Cp313", "py30"]
ABIS = ["none", "abi3", "cp312", "CP312M", "cp313t", "None", "pypy39_pp73"]
PLATS = ["any", "linux_x86_64", "manylinux_2_17_x86_64", "win32", "macosx_10_9_universal2", "Any", "WIN_AMD64", "manylinux2014_aarch64"]
SUFFIXES = ["", "", "", "a", "_x", "b2", "abc", ".post", "_", "a.b", "+x", "ſ", "İ", "É", "aΣ", "x१", "²"]
UNI_PARTS = ["İx", "K", "é", "a١", "É", "Ωmega", "aΣ", "Σa", "aΣb", "ǅ", "ẞ", "中", "१", "a'Σ", "Å"]
UNI_BUILDS = ["१", "7१x", "１2b", "0१", "٣a", "1²", "𝟗", "7𝟗x", "१É"]
UNI_NAMES = ["É", "éa", "aΣ", "Σa", "aΣ.b", "中文", "a१", "Ωmega_x", "ǅ.x", "aΣ_Σ", "x.ẞ", "K", "İ"]


def rand_parts(rng, pool, nonascii=True):
    n = rng.choice([1, 1, 1, 2, 2, 3])
    out = rng.sample(pool, n)
    if rng.random() < 0.1: out.append(out[0].swapcase())          # duplicate up to case: the set collapses it
    if nonascii and rng.random() < 0.06: out.append(rng.choice(UNI_PARTS))
    return ".".join(out)


def rand_version_text(rng):
    v = gen.rand_v(rng)
    if rng.random() < 0.3:
        s = gen.spell(rng, v, ws=False)
        if "-" not in s: return s
    return gen.vstr(v)


def rand_build(rng):
    if rng.random() < 0.5: return ""
    if rng.random() < 0.05: return rng.choice(UNI_BUILDS)
    return rng.choice(["0", "1", "12", "7", "007", "10", "99999999999999999999", "000", "0012", "9" * 60]) + rng.choice(SUFFIXES)


def rand_wheel(rng):
    name = g.rand_name(rng, valid_p=0.97)
    if rng.random() < 0.05: name = rng.choice(UNI_NAMES) if rng.random() < 0.5 else name + rng.choice(["", "_", "."]) + rng.choice(UNI_NAMES)
    return [name, rand_version_text(rng), rand_build(rng), rand_parts(rng, PYS), rand_parts(rng, ABIS), rand_parts(rng, PLATS)]


def law_domain(c):
    """Domain on which the round-trip law is stated: a name of ASCII alphanumerics, separators and the non-ASCII letters/digits of the pools
    (all matched by \\w); a build that is an ASCII digit run followed by a suffix not starting with any \\d digit."""
    import unicodedata
    if not all((ch.isascii() and (ch.isalnum() or ch in "-_.")) or (ch in "".join(UNI_NAMES) and ch != "İ") for ch in c[0]) or not c[0]: return False
    b = c[2].lstrip("0123456789")
    if c[2] and (b == c[2] or (b and unicodedata.category(b[0]) == "Nd")): return False
    return True


def assemble(c, lower):
    name = g_escape(c[0], lower)
    return "-".join([name, c[1]] + ([c[2]] if c[2] else []) + c[3:6]) + ".whl"


def g_escape(name, lower):
    out = []; i = 0
    while i < len(name):
        if name[i] in "-_.":
            while i < len(name) and name[i] in "-_.": i += 1
            out.append("_")
        else: out.append(name[i]); i += 1
    s = "".join(out)
    return s.lower() if lower else s


def damage(rng, c, lower):
    """(class, damaged file name) - every class of the statement; each result must be rejected."""
    fn = assemble(c, lower); k = rng.choice(["ext", "parts+", "parts-", "name", "build", "version"])
    if k == "ext": return k, fn[:-4] + rng.choice([".zip", ".whl2", "", ".WHL", ".whl\n", ".whl ", ".tar.gz", "whl", ".Whl"])
    if k == "parts+":
        extra = rng.choice(["x", "1", "", "py3"])
        i = rng.randrange(6); parts = fn[:-4].split("-")
        parts.insert(min(i, len(parts)), extra)
        if len(parts) == 6 and not c[2]: parts.insert(0, "y")
        return k, "-".join(parts) + ".whl"
    if k == "parts-":
        parts = fn[:-4].split("-")
        while len(parts) > rng.choice([1, 2, 3, 4]): del parts[rng.randrange(len(parts))]
        return k, "-".join(parts) + ".whl"
    if k == "name":
        bad = rng.choice(["foo bar", "foo__bar", "fo/o", "foo!", "a+b", "a@b", "__", "a__", "__a", "x\n", "\nx", "a b", "a\tb", "x:y", "a,b", "(a)", "a~", "a=b", "%41", "a'b", 'a"b', "a*"])
        return k, bad + fn[len(g_escape(c[0], lower)):]
    if k == "build":
        bad = rng.choice(["a1", "_1", "x", "", ".1", "+1", " 1", "a", "v1", "²"])
        return k, "-".join([g_escape(c[0], lower), c[1], bad] + c[3:6]) + ".whl"
    bad = rng.choice(["x", "1.0.x", "1..0", "", "1.0+", "1.0a.b.c", "v", "1,0", "1.0.postx", ".1", "1!", "abc", "1.0+a+b", "١"])
    return k, "-".join([g_escape(c[0], lower), bad] + ([c[2]] if c[2] else []) + c[3:6]) + ".whl"


def streams(rng, tier):
    q = tier == "quick"
    out = []
    for _ in range(4000 if q else 300000):
        c = rand_wheel(rng); lower = rng.random() < 0.6
        fn = assemble(c, lower)
        out.append(Case("wheel", "f.wheel", [fn]))
        # the law is stated on its domain: ASCII valid name, suffix without newline/dash and not starting with a digit, tag parts non-empty
        if law_domain(c):
            out.append(Case("law-wheel", "law.f.wheel", c + ["T" if lower else "F"], kind="law"))
        r = rng.random()
        if r < 0.35:
            k, d = damage(rng, c, lower)
            out.append(Case("wheel-damaged", "f.wheel", [d]))
            out.append(Case("law-reject", "law.f.reject", [k, d], kind="law"))
        elif r < 0.6:
            out.append(Case("wheel-mutated", "f.wheel", [g.mutate(rng, fn, chars=g.MUT + ["-", "-", ".whl", "1"])]))
        if rng.random() < 0.5:
            ext = rng.choice([".tar.gz", ".zip"])
            sn = g_escape(c[0], lower) + "-" + c[1] + ext
            out.append(Case("sdist", "f.sdist", [sn]))
            out.append(Case("law-sdist", "law.f.sdist", [c[0], c[1], ext, "T" if lower else "F"], kind="law"))
            r = rng.random()
            if r < 0.3:
                out.append(Case("sdist-mutated", "f.sdist", [g.mutate(rng, sn, chars=g.MUT + ["-", ".zip", ".tar.gz", "1"])]))
            elif r < 0.5:
                k = rng.choice(["sdist-ext", "sdist-nodash", "sdist-version"])
                if k == "sdist-ext": d = sn[:-len(ext)] + rng.choice([".tar", ".gz", ".tgz", ".ZIP", ".tar.bz2", "", ".zip\n", ".whl", ".tar.gz ", ".Tar.Gz"])
                elif k == "sdist-nodash": d = sn.replace("-", rng.choice(["", "_", "."]))
                else: d = g_escape(c[0], lower) + "-" + rng.choice(["x", "", "1..0", "1.0+", "a-1.0.x", "1.0 0", "١"]) + ext
                out.append(Case("sdist-damaged", "f.sdist", [d])); out.append(Case("law-reject", "law.f.reject", [k, d], kind="law"))
            elif r < 0.6:
                out.append(Case("sdist", "f.sdist", [c[0] + "-" + c[1] + ext]))      # legacy: name not escaped (may contain dashes)
        if rng.random() < 0.3:
            t = "-".join(c[3:6])
            if rng.random() < 0.3: t = g.mutate(rng, t, chars=list("-.-.aZ_ ") + ["İ", "K", "\n", "É", "Σ", "aΣ", "'", "ẞ"])
            out.append(Case("tags", "f.tag", [t])); out.append(Case("law-tags", "law.f.tags", [t], kind="law"))
        if rng.random() < 0.2:
            a = [rng.choice(PYS), rng.choice(ABIS), rng.choice(PLATS)]
            b2 = [x.upper() if rng.random() < 0.5 else x.lower() for x in a] if rng.random() < 0.7 else [rng.choice(PYS), a[1], a[2]]
            if rng.random() < 0.1: a[2] += rng.choice(["İ", "K", "é", "-", "."])
            if rng.random() < 0.15:
                u = rng.choice(UNI_PARTS); k = rng.randrange(3); a[k] += u; b2[k] += rng.choice([u, u.lower(), u.upper(), u.swapcase()])
            out.append(Case("tag-eq", "f.tageq", a + b2))
            if all("-" not in x and "." not in x for x in a): out.append(Case("law-tagstr", "law.f.tagstr", a, kind="law"))
    # template sweep: every combination of small component pools (a sample of it in the quick tier)
    NAMES = ["", "a", "A_b", "a__b", "a.b", "a b", "é", "a_", "_", "a\n"]
    VERS = ["1", "1.0", "x", "", "1_0", " 1", "1.0+a_b", "1!0"]
    BUILDS = [None, "1", "1a", "a", "", "١", "1\nx", "01_", "²"]
    PARTS = ["py3", "a.b", "", "A..b"]
    EXTS = [".whl", ".WHL", ".whl\n", ".zip", ""]
    for n, v, bd, p1, p2, p3, e in itertools.product(NAMES, VERS, BUILDS, PARTS, PARTS, ["any", ".", "x.X"], EXTS):
        if rng.random() < (0.04 if q else 0.5):
            out.append(Case("template", "f.wheel", ["-".join([n, v] + ([bd] if bd is not None else []) + [p1, p2, p3]) + e]))
    for n, v, e in itertools.product(NAMES + ["a-b", "-", "a-"], VERS + ["1-1", "1.0.tar.gz"], [".tar.gz", ".zip", ".tar.gz.zip", ".zip.tar.gz", "", ".tar", ".ZIP"]):
        out.append(Case("template-sdist", "f.sdist", [n + "-" + v + e])); out.append(Case("template-sdist", "f.sdist", [n + v + e]))
    for s in g.exhaustive(["a", "B", "-", "."], 5 if q else 7):
        out.append(Case("tags-exhaustive", "f.tag", [s]))
    for fn in ["foo-1.0-py3-none-any.whl", "foo\n-1.0-py3-none-any.whl", "foo-1.0-py3-none-any.whl\n", ".whl", "whl", "----.whl", "-----.whl", "------.whl", "---.whl",
               "a-1-1-a-b-c.whl", "a-1-a-b-c.whl", "a-1--a-b-c.whl", "-1-a-b-c.whl", "a-1-1x\ny-a-b-c.whl", "a-1-١-a-b-c.whl", "a-1-１2b-a-b-c.whl",
               "A.b_C-1.0.0-1-py2.py3-none-any.whl", "a-v1.0-py3-none-any.whl", "a-1.0 -py3-none-any.whl", "foo-1.0-py3-none-any.WHL", "é-1-a-b-c.whl", "a²-1-a-b-c.whl",
               "a -1-a-b-c.whl", "a-1-a-b-c.whl.whl", "a-1-İ-b-c.whl", "a-1-1İ-K-b-c.whl"]:
        out.append(Case("fixed", "f.wheel", [fn]))
    for fn in ["foo-1.0.tar.gz", "foo-1.0.zip", "-1.0.zip", "foo-.zip", "foo.zip", ".zip", ".tar.gz", "-.zip", "a-b-1.0.tar.gz", "foo-1.0.tar.gz\n", "foo-1.0.tar.gz.zip",
               "foo-1.0.zip.tar.gz", "Foo.Bar-V1.0.zip", "foo-1.0-1.zip", "tar.gz", "a-1.tar.gz", "İ-1.zip", "K_-1.zip"]:
        out.append(Case("fixed", "f.sdist", [fn]))
    # one character of every ASCII code and of the non-ASCII pool in each position class (ties the character tables of the model)
    for ch in [chr(i) for i in range(128)] + g.NONASCII:
        out.append(Case("char-sweep", "f.wheel", [ch + "-1-a-b-c.whl"])); out.append(Case("char-sweep", "f.wheel", ["a" + ch + "b-1-a-b-c.whl"]))
        out.append(Case("char-sweep", "f.wheel", ["a-1-" + ch + "-a-b-c.whl"])); out.append(Case("char-sweep", "f.wheel", ["a-1-1" + ch + "x-a-b-c.whl"]))
        out.append(Case("char-sweep", "f.wheel", ["a-1" + ch + "-a-b-c.whl"])); out.append(Case("char-sweep", "f.wheel", ["a-1-a" + ch + "-B-c.whl"]))
        out.append(Case("char-sweep", "f.wheel", ["a-1-a-b-c.whl" + ch])); out.append(Case("char-sweep", "f.wheel", ["a-1-a-b-c.wh" + ch]))
        out.append(Case("char-sweep", "f.sdist", [ch + "-1.zip"])); out.append(Case("char-sweep", "f.sdist", ["a-1" + ch + ".tar.gz"]))
        out.append(Case("char-sweep", "f.sdist", ["a-1.zip" + ch])); out.append(Case("char-sweep", "f.sdist", ["a-1.tar.g" + ch]))
        out.append(Case("char-sweep", "f.tag", ["a" + ch + "B-c-d"])); out.append(Case("char-sweep", "f.tageq", ["A" + ch, "b", "c", "a" + ch.lower(), "B", "C"]))
    # per-code-point sweep beyond the pool: samples of the Unicode categories + every boundary of the generated tables, in name / build / tag positions
    pts = sorted(set(g.category_sample(rng, 40 if q else 600) + g.table_boundaries() + [rng.randrange(128, 0x110000) for _ in range(200 if q else 5000)]))
    pts = [p for p in pts if p >= 128 and not 0xD800 <= p <= 0xDFFF]
    if q: pts = [p for p in pts if rng.random() < 0.5]
    for p in pts:
        ch = chr(p)
        out.append(Case("uni-sweep", "f.wheel", ["a" + ch + "-1-a-b-c.whl"])); out.append(Case("uni-sweep", "f.wheel", [ch + "A-1-a-b-c.whl"]))
        out.append(Case("uni-sweep", "f.wheel", ["a-1-" + ch + "-a-b-c.whl"])); out.append(Case("uni-sweep", "f.wheel", ["a-1-7" + ch + "x-a-b-c.whl"]))
        out.append(Case("uni-sweep", "f.wheel", ["a-1-a" + ch + "-B-c" + ch + ".whl"]))
        out.append(Case("uni-sweep", "f.sdist", ["A" + ch + "-1.zip"]))
        out.append(Case("uni-sweep", "f.tag", ["a" + ch + "B-c-d"])); out.append(Case("uni-sweep", "f.tageq", ["A" + ch, "b", "c", "a" + ch.lower(), "B", "C"]))
        out.append(Case("uni-sweep", "f.tageq", ["aΣ" + ch, "b", "c", "aσ" + ch, "B", "C"]))
        if rng.random() < 0.3: out.append(Case("law-tagstr", "law.f.tagstr", ["A" + ch, ch, "c" + ch], kind="law"))
    out.append(Case("law-tables", "law.f.tables", [], kind="law"))
    for fn in ["foo-1.0-7१x-py3-none-any.whl", "foo-1.0-१-py3-none-any.whl", "foo-1.0-007x-py3-none-any.whl", "foo-1.0-000-py3-none-any.whl", "foo-1.0-0१٣-py3-none-any.whl",
               "É-1-a-b-c.whl", "aΣ-1-a-b-c.whl", "aΣ.b-1-a-b-c.whl", "Σ-1-Σ-aΣ-Σa.whl", "a-1-É-é-Ω.whl", "foo.bar-1.0-py3-none-any.whl", "._.-1.0-py3-none-any.whl",
               "-1.0-py3-none-any.whl", "_-1.0-py3-none-any.whl", "foo-1.0-py3-none-any\n.whl", "foo-1.0--none-any.whl", "foo-1.0-py3..py2-none-any.whl", "中-1-a-b-c.whl",
               "a-1-1ß-SS-ß-ẞ.whl", "a²-1-²-a-b-c.whl", "a-1-𝟗𝟗-a-b-c.whl"]:
        out.append(Case("fixed-uni", "f.wheel", [fn]))
    for fn in ["foo bar-1.0.tar.gz", "foo/../x-1.0.zip", "\n-1.tar.gz", "É-1.zip", "aΣ.b-1.zip", "aΣ-1.tar.gz", "Σ-1.zip", "ẞ_ǅ-1.zip"]:
        out.append(Case("fixed-uni", "f.sdist", [fn]))
    for a in [["É", "é", "Ω"], ["aΣ", "Σa", "aΣb"], ["ß", "SS", "ẞ"], ["İ", "K", "ǅ"], ["a b", "c\n", " "], ["", "", ""], ["A_b", "c+d", "e:f"]]:
        out.append(Case("fixed-law", "law.f.tagstr", a, kind="law")); out.append(Case("fixed-uni", "f.tageq", a + [x.upper() for x in a]))
        out.append(Case("fixed-uni", "f.tageq", a + [x.lower() for x in a])); out.append(Case("fixed-uni", "f.tag", ["-".join(a)])); out.append(Case("fixed-law", "law.f.tags", ["-".join(a)], kind="law"))
    # candidate findings: generated only when the lead has registered them in known_findings.txt (otherwise they would be reported as violations)
    reg = registered()
    for _ in range(60 if q else 2000):
        c = rand_wheel(rng); rest = "-".join([c[1]] + ([c[2]] if c[2] else []) + c[3:6]) + ".whl"
        if "name-empty" in reg: out.append(Case("law-reject-name-empty", "law.f.reject", ["name-empty", rng.choice(["", "_", ".", "._.", "_._"]) + "-" + rest], kind="law"))
        if "sdist-name" in reg: out.append(Case("law-reject-sdist-name", "law.f.reject", ["sdist-name", rng.choice(["foo bar", "a/b", "\n", "a\tb", "x!", "fo o", "(a)"]) + "-" + c[1] + rng.choice([".zip", ".tar.gz"])], kind="law"))
        if "build-unicode-digit" in reg: out.append(Case("law-reject-build-unicode", "law.f.reject", ["build-unicode-digit", "-".join([g_escape(c[0], True), c[1], rng.choice(["१", "١x", "１2", "𝟗_"])] + c[3:6]) + ".whl"], kind="law"))
        if "tagstr" in reg:
            a = [rng.choice(PYS), rng.choice(ABIS), rng.choice(PLATS)]; a[rng.randrange(3)] += rng.choice([".x", "-x", ".", "-"])
            out.append(Case("law-tagstr-sep", "law.f.tagstr", a, kind="law"))
    for t in ["py3-none-any", "a-b", "a-b-c-d", "", "--", "-", "---", "a.b-c.d-e.f", "A.a-b-c", "..-.-.", "py3-none-any\n", "İ-K-é", "a.A.a-b-c"]:
        out.append(Case("fixed", "f.tag", [t])); out.append(Case("fixed-law", "law.f.tags", [t], kind="law"))
    return out


def compare(case, impl, model):
    if case.cmd == "f.tag" and model == "CRASH":
        # parse_tag documents no exception: a tag without exactly three dash-separated parts fails with a plain ValueError (unpacking)
        return None if impl == "!EXC:ValueError" else "model: tuple-unpacking failure; implementation: %r" % impl
    return None if impl == model else "implementation differs from model"


# ---- candidate findings (none registered: the lines proposed for known_findings.txt are in CANDIDATES; registered() reads the file) ----
def registered():
    """Classes of candidate findings the lead has registered: the first argument of the witness of every C14 finding whose matcher is below."""
    import core
    cls = {"match_name_empty": "name-empty", "match_sdist_name": "sdist-name", "match_build_unicode_digit": "build-unicode-digit", "match_tagstr_sep": "tagstr"}
    return {cls[f["matcher"]] for f in core.load_findings("C14") if f["matcher"] in cls}


def match_name_empty(case, impl, model):
    """A wheel filename whose project-name part is empty or made of '.' and '_' only is accepted (name '' or '-'), although no project name
    escapes to it.  Instance = law.f.reject of class name-empty on such a name, answered with exactly the acceptance."""
    return (case.cmd == "law.f.reject" and len(case.args) == 2 and case.args[0] == "name-empty" and set(case.args[1].split("-")[0]) <= set("._")
            and "__" not in case.args[1].split("-")[0] and impl == "name-empty accepted: %r" % case.args[1])


def match_sdist_name(case, impl, model):
    """parse_sdist_filename performs no check of the name part at all.  Instance = law.f.reject of class sdist-name whose name part (before
    the last dash) contains a character outside letters, digits, '.', '_', '-', answered with exactly the acceptance."""
    import re
    if not (case.cmd == "law.f.reject" and len(case.args) == 2 and case.args[0] == "sdist-name"): return False
    stem = case.args[1][:-7] if case.args[1].endswith(".tar.gz") else case.args[1][:-4]
    return re.fullmatch(r"[\w.-]*", stem.rpartition("-")[0]) is None and impl == "sdist-name accepted: %r" % case.args[1]


def match_build_unicode_digit(case, impl, model):
    """The build-tag pattern uses \\d without re.ASCII: a build tag starting with a non-ASCII decimal digit is accepted and the digit is
    absorbed into the build number.  Instance = law.f.reject of class build-unicode-digit whose third dash part starts with such a digit."""
    import unicodedata
    if not (case.cmd == "law.f.reject" and len(case.args) == 2 and case.args[0] == "build-unicode-digit"): return False
    parts = case.args[1][:-4].split("-")
    return (len(parts) == 6 and parts[2] != "" and not parts[2][0].isascii() and unicodedata.category(parts[2][0]) == "Nd"
            and impl == "build-unicode-digit accepted: %r" % case.args[1])


def match_tagstr_sep(case, impl, model):
    """Tag() does not validate its fields: with a '.' in a field parse_tag(str(t)) has several members, with a '-' it cannot be unpacked.
    Instance = law.f.tagstr on a triple with '.' or '-' in a field, answered with the member-count complaint or the ValueError."""
    if not (case.cmd == "law.f.tagstr" and len(case.args) == 3 and any("." in x or "-" in x for x in case.args)): return False
    if any("-" in x for x in case.args): return impl == "!EXC:ValueError"
    return isinstance(impl, str) and impl.startswith("parse_tag(str(t)) != {t} for ")


def match_d10_build(case, impl, model):
    """D10 at the wheel build tag: a build number of more than 4300 digits is rejected (int() has a digit limit) although the model,
    which has none, decodes the filename."""
    if case.cmd != "f.wheel" or impl != "E" or not (isinstance(model, str) and model.startswith("OK")) or not case.args[0].endswith(".whl"): return False
    parts = case.args[0][:-4].split("-")
    return len(parts) == 6 and len(parts[2]) - len(parts[2].lstrip("0123456789")) > 4300


CANDIDATES = {   # proposed lines for known_findings.txt (property=C14), witness + what fails; not registered by this module
    "match_name_empty": ({"cmd": "law.f.reject", "args": ["name-empty", "._.-1.0-py3-none-any.whl"], "kind": "law"},
                         "parse_wheel_filename accepts an empty or separator-only project-name part ('', '_', '._.'): returns the name '' / '-', which no project name escapes to"),
    "match_sdist_name": ({"cmd": "law.f.reject", "args": ["sdist-name", "foo bar-1.0.tar.gz"], "kind": "law"},
                         "parse_sdist_filename never checks the project-name part: 'foo bar-1.0.tar.gz' -> ('foo bar', 1.0), '\\n-1.tar.gz' -> ('\\n', 1)"),
    "match_build_unicode_digit": ({"cmd": "law.f.reject", "args": ["build-unicode-digit", "foo-1.0-\u0967-py3-none-any.whl"], "kind": "law"},
                                  "the build-tag pattern's \\d is not ASCII-only: 'foo-1.0-7\u0967x-...' has build (71, 'x'), 'foo-1.0-\u0967-...' has build (1, '')"),
    "match_tagstr_sep": ({"cmd": "law.f.tagstr", "args": ["a.b", "c", "d"], "kind": "law"},
                         "Tag() does not validate its fields: parse_tag(str(Tag('a.b','c','d'))) has two members, parse_tag(str(Tag('a-b','c','d'))) raises ValueError"),
    "match_d10_build": ({"cmd": "f.wheel", "args": ["foo-1.0-" + "9" * 4301 + "-py3-none-any.whl"]},
                        "D10 at the wheel build tag (registered by the lead): a build number of more than 4300 digits is rejected with InvalidWheelFilename; the model has no digit limit"),
}


def nontrivial(c, i):
    if c.kind == "law": return True
    return isinstance(i, str) and not (i == "E" or i.startswith("!"))
