"""C14 Wheel and sdist filenames decode to what they encode."""
import itertools
from core import Case
import gen
import gen_names as g

IMPL_MODULE = "files_impl"
RULE = ("file names assembled per the binary-/source-distribution specs from (structured project name, PEP 440 version incl. epochs and local labels, "
        "optional build tag with suffix, 1-3 dotted interpreter / ABI / platform parts in mixed case), structurally damaged variants of them "
        "(extension, number of dash parts, unescaped name, build tag, version), a template sweep over small component pools, tag strings and "
        "case variants of tag triples; non-trivial = the parser returned a value; distinct by input text")
ASSUMPTIONS = [
    "non-ASCII text: the model carries finite tables for str.lower (U+0130, U+212A), \\w and \\d/int() restricted to the pool of non-ASCII code "
    "points the generators use (gen_names.NONASCII); other non-ASCII code points are neither generated nor claimed",
    "build numbers beyond CPython's int/str digit limit are outside the generated domain (known finding D10, reported under C11)",
    "round-trip theorem domain: project names over ASCII letters/digits and -_. ; build suffix without '-' and newline and not starting with a digit; "
    "tag parts without '-' and '.' (the encoding is not injective outside it)",
]
TRUSTED_EXTRA = ["Version(): the version model of C01/C02 (SpecModel.Version) is reused unchanged for the version part"]

PYS = ["py3", "py2", "cp312", "PY3", "pp39", "cp39", "Cp313", "py30"]
ABIS = ["none", "abi3", "cp312", "CP312M", "cp313t", "None", "pypy39_pp73"]
PLATS = ["any", "linux_x86_64", "manylinux_2_17_x86_64", "win32", "macosx_10_9_universal2", "Any", "WIN_AMD64", "manylinux2014_aarch64"]
SUFFIXES = ["", "", "", "a", "_x", "b2", "abc", ".post", "_", "a.b", "+x", "ſ", "İ"]


def rand_parts(rng, pool, nonascii=True):
    n = rng.choice([1, 1, 1, 2, 2, 3])
    out = rng.sample(pool, n)
    if rng.random() < 0.1: out.append(out[0].swapcase())          # duplicate up to case: the set collapses it
    if nonascii and rng.random() < 0.04: out.append(rng.choice(["İx", "K", "é", "a١"]))
    return ".".join(out)


def rand_version_text(rng):
    v = gen.rand_v(rng)
    if rng.random() < 0.3:
        s = gen.spell(rng, v, ws=False)
        if "-" not in s: return s
    return gen.vstr(v)


def rand_build(rng):
    if rng.random() < 0.5: return ""
    return rng.choice(["0", "1", "12", "7", "007", "10", "99999999999999999999"]) + rng.choice(SUFFIXES)


def rand_wheel(rng):
    return [g.rand_name(rng, valid_p=0.97), rand_version_text(rng), rand_build(rng), rand_parts(rng, PYS), rand_parts(rng, ABIS), rand_parts(rng, PLATS)]


def assemble(c, lower):
    name = g_escape(c[0], lower)
    return "-".join([name, c[1]] + ([c[2]] if c[2] else []) + c[3:6]) + ".whl"


def g_escape(name, lower):
    out = []; i = 0
    while i < len(name):
        if name[i] in "-_.":
            while i < len(name) and name[i] in "-_.": i += 1
            out.append("_")
        else: out.append(name[i]); i += 1
    s = "".join(out)
    return s.lower() if lower else s


def damage(rng, c, lower):
    """(class, damaged file name) - every class of the statement; each result must be rejected."""
    fn = assemble(c, lower); k = rng.choice(["ext", "parts+", "parts-", "name", "build", "version"])
    if k == "ext": return k, fn[:-4] + rng.choice([".zip", ".whl2", "", ".WHL", ".whl\n", ".whl ", ".tar.gz", "whl", ".Whl"])
    if k == "parts+":
        extra = rng.choice(["x", "1", "", "py3"])
        i = rng.randrange(6); parts = fn[:-4].split("-")
        parts.insert(min(i, len(parts)), extra)
        if len(parts) == 6 and not c[2]: parts.insert(0, "y")
        return k, "-".join(parts) + ".whl"
    if k == "parts-":
        parts = fn[:-4].split("-")
        while len(parts) > rng.choice([1, 2, 3, 4]): del parts[rng.randrange(len(parts))]
        return k, "-".join(parts) + ".whl"
    if k == "name":
        bad = rng.choice(["foo bar", "foo__bar", "fo/o", "foo!", "a+b", "a@b", "__", "a__", "__a", "x\n", "\nx", "a b", "a\tb", "x:y", "a,b", "(a)", "a~", "a=b", "%41", "a'b", 'a"b', "a*"])
        return k, bad + fn[len(g_escape(c[0], lower)):]
    if k == "build":
        bad = rng.choice(["a1", "_1", "x", "", ".1", "+1", " 1", "a", "v1", "²"])
        return k, "-".join([g_escape(c[0], lower), c[1], bad] + c[3:6]) + ".whl"
    bad = rng.choice(["x", "1.0.x", "1..0", "", "1.0+", "1.0a.b.c", "v", "1,0", "1.0.postx", ".1", "1!", "abc", "1.0+a+b", "١"])
    return k, "-".join([g_escape(c[0], lower), bad] + ([c[2]] if c[2] else []) + c[3:6]) + ".whl"


def streams(rng, tier):
    q = tier == "quick"
    out = []
    for _ in range(4000 if q else 300000):
        c = rand_wheel(rng); lower = rng.random() < 0.6
        fn = assemble(c, lower)
        out.append(Case("wheel", "f.wheel", [fn]))
        # the law is stated on its domain: ASCII valid name, suffix without newline/dash and not starting with a digit, tag parts non-empty
        if all(ch.isascii() and (ch.isalnum() or ch in "-_.") for ch in c[0]) and "ſ" not in c[2] and "İ" not in c[2]:
            out.append(Case("law-wheel", "law.f.wheel", c + ["T" if lower else "F"], kind="law"))
        r = rng.random()
        if r < 0.35:
            k, d = damage(rng, c, lower)
            out.append(Case("wheel-damaged", "f.wheel", [d]))
            out.append(Case("law-reject", "law.f.reject", [k, d], kind="law"))
        elif r < 0.6:
            out.append(Case("wheel-mutated", "f.wheel", [g.mutate(rng, fn, chars=g.MUT + ["-", "-", ".whl", "1"])]))
        if rng.random() < 0.5:
            ext = rng.choice([".tar.gz", ".zip"])
            sn = g_escape(c[0], lower) + "-" + c[1] + ext
            out.append(Case("sdist", "f.sdist", [sn]))
            if all(ch.isascii() for ch in c[0]): out.append(Case("law-sdist", "law.f.sdist", [c[0], c[1], ext, "T" if lower else "F"], kind="law"))
            r = rng.random()
            if r < 0.3:
                out.append(Case("sdist-mutated", "f.sdist", [g.mutate(rng, sn, chars=g.MUT + ["-", ".zip", ".tar.gz", "1"])]))
            elif r < 0.5:
                k = rng.choice(["sdist-ext", "sdist-nodash", "sdist-version"])
                if k == "sdist-ext": d = sn[:-len(ext)] + rng.choice([".tar", ".gz", ".tgz", ".ZIP", ".tar.bz2", "", ".zip\n", ".whl", ".tar.gz ", ".Tar.Gz"])
                elif k == "sdist-nodash": d = sn.replace("-", rng.choice(["", "_", "."]))
                else: d = g_escape(c[0], lower) + "-" + rng.choice(["x", "", "1..0", "1.0+", "a-1.0.x", "1.0 0", "١"]) + ext
                out.append(Case("sdist-damaged", "f.sdist", [d])); out.append(Case("law-reject", "law.f.reject", [k, d], kind="law"))
            elif r < 0.6:
                out.append(Case("sdist", "f.sdist", [c[0] + "-" + c[1] + ext]))      # legacy: name not escaped (may contain dashes)
        if rng.random() < 0.3:
            t = "-".join(c[3:6])
            if rng.random() < 0.3: t = g.mutate(rng, t, chars=list("-.-.aZ_ ") + ["İ", "K", "\n"])
            out.append(Case("tags", "f.tag", [t])); out.append(Case("law-tags", "law.f.tags", [t], kind="law"))
        if rng.random() < 0.2:
            a = [rng.choice(PYS), rng.choice(ABIS), rng.choice(PLATS)]
            b2 = [x.upper() if rng.random() < 0.5 else x.lower() for x in a] if rng.random() < 0.7 else [rng.choice(PYS), a[1], a[2]]
            if rng.random() < 0.1: a[2] += rng.choice(["İ", "K", "é", "-", "."])
            out.append(Case("tag-eq", "f.tageq", a + b2))
    # template sweep: every combination of small component pools (a sample of it in the quick tier)
    NAMES = ["", "a", "A_b", "a__b", "a.b", "a b", "é", "a_", "_", "a\n"]
    VERS = ["1", "1.0", "x", "", "1_0", " 1", "1.0+a_b", "1!0"]
    BUILDS = [None, "1", "1a", "a", "", "١", "1\nx", "01_", "²"]
    PARTS = ["py3", "a.b", "", "A..b"]
    EXTS = [".whl", ".WHL", ".whl\n", ".zip", ""]
    for n, v, bd, p1, p2, p3, e in itertools.product(NAMES, VERS, BUILDS, PARTS, PARTS, ["any", ".", "x.X"], EXTS):
        if rng.random() < (0.04 if q else 0.5):
            out.append(Case("template", "f.wheel", ["-".join([n, v] + ([bd] if bd is not None else []) + [p1, p2, p3]) + e]))
    for n, v, e in itertools.product(NAMES + ["a-b", "-", "a-"], VERS + ["1-1", "1.0.tar.gz"], [".tar.gz", ".zip", ".tar.gz.zip", ".zip.tar.gz", "", ".tar", ".ZIP"]):
        out.append(Case("template-sdist", "f.sdist", [n + "-" + v + e])); out.append(Case("template-sdist", "f.sdist", [n + v + e]))
    for s in g.exhaustive(["a", "B", "-", "."], 5 if q else 7):
        out.append(Case("tags-exhaustive", "f.tag", [s]))
    for fn in ["foo-1.0-py3-none-any.whl", "foo\n-1.0-py3-none-any.whl", "foo-1.0-py3-none-any.whl\n", ".whl", "whl", "----.whl", "-----.whl", "------.whl", "---.whl",
               "a-1-1-a-b-c.whl", "a-1-a-b-c.whl", "a-1--a-b-c.whl", "-1-a-b-c.whl", "a-1-1x\ny-a-b-c.whl", "a-1-١-a-b-c.whl", "a-1-１2b-a-b-c.whl",
               "A.b_C-1.0.0-1-py2.py3-none-any.whl", "a-v1.0-py3-none-any.whl", "a-1.0 -py3-none-any.whl", "foo-1.0-py3-none-any.WHL", "é-1-a-b-c.whl", "a²-1-a-b-c.whl",
               "a -1-a-b-c.whl", "a-1-a-b-c.whl.whl", "a-1-İ-b-c.whl", "a-1-1İ-K-b-c.whl"]:
        out.append(Case("fixed", "f.wheel", [fn]))
    for fn in ["foo-1.0.tar.gz", "foo-1.0.zip", "-1.0.zip", "foo-.zip", "foo.zip", ".zip", ".tar.gz", "-.zip", "a-b-1.0.tar.gz", "foo-1.0.tar.gz\n", "foo-1.0.tar.gz.zip",
               "foo-1.0.zip.tar.gz", "Foo.Bar-V1.0.zip", "foo-1.0-1.zip", "tar.gz", "a-1.tar.gz", "İ-1.zip", "K_-1.zip"]:
        out.append(Case("fixed", "f.sdist", [fn]))
    # one character of every ASCII code and of the non-ASCII pool in each position class (ties the character tables of the model)
    for ch in [chr(i) for i in range(128)] + g.NONASCII:
        out.append(Case("char-sweep", "f.wheel", [ch + "-1-a-b-c.whl"])); out.append(Case("char-sweep", "f.wheel", ["a" + ch + "b-1-a-b-c.whl"]))
        out.append(Case("char-sweep", "f.wheel", ["a-1-" + ch + "-a-b-c.whl"])); out.append(Case("char-sweep", "f.wheel", ["a-1-1" + ch + "x-a-b-c.whl"]))
        out.append(Case("char-sweep", "f.wheel", ["a-1" + ch + "-a-b-c.whl"])); out.append(Case("char-sweep", "f.wheel", ["a-1-a" + ch + "-B-c.whl"]))
        out.append(Case("char-sweep", "f.wheel", ["a-1-a-b-c.whl" + ch])); out.append(Case("char-sweep", "f.wheel", ["a-1-a-b-c.wh" + ch]))
        out.append(Case("char-sweep", "f.sdist", [ch + "-1.zip"])); out.append(Case("char-sweep", "f.sdist", ["a-1" + ch + ".tar.gz"]))
        out.append(Case("char-sweep", "f.sdist", ["a-1.zip" + ch])); out.append(Case("char-sweep", "f.sdist", ["a-1.tar.g" + ch]))
        out.append(Case("char-sweep", "f.tag", ["a" + ch + "B-c-d"])); out.append(Case("char-sweep", "f.tageq", ["A" + ch, "b", "c", "a" + ch.lower(), "B", "C"]))
    for t in ["py3-none-any", "a-b", "a-b-c-d", "", "--", "-", "---", "a.b-c.d-e.f", "A.a-b-c", "..-.-.", "py3-none-any\n", "İ-K-é", "a.A.a-b-c"]:
        out.append(Case("fixed", "f.tag", [t])); out.append(Case("fixed-law", "law.f.tags", [t], kind="law"))
    return out


def compare(case, impl, model):
    if case.cmd == "f.tag" and model == "CRASH":
        # parse_tag documents no exception: a tag without exactly three dash-separated parts fails with a plain ValueError (unpacking)
        return None if impl == "!EXC:ValueError" else "model: tuple-unpacking failure; implementation: %r" % impl
    return None if impl == model else "implementation differs from model"


def match_build_newline(case, impl, model):
    """Proposed known finding (not registered): a build tag whose suffix contains a newline is accepted and silently truncated at the
    newline, because the build-tag pattern is used with .match and '.' stops at a newline.
    Instance = law.f.wheel case whose build argument contains a newline, answered with exactly the truncated-build complaint."""
    return (case.cmd == "law.f.wheel" and len(case.args) == 7 and "\n" in case.args[2] and isinstance(impl, str) and impl.startswith("build (")
            and repr(case.args[2].split("\n")[0][len(case.args[2]) - len(case.args[2].lstrip("0123456789")):]) in impl)


def nontrivial(c, i):
    if c.kind == "law": return True
    return isinstance(i, str) and not (i == "E" or i.startswith("!"))
