"""C04 Specifier operators obey their algebraic laws (checked on the implementation directly; theorems on the model)."""
from core import Case
import gen, gen_spec

IMPL_MODULE = "spec_impl"
RULE = ("version text V x pairs of candidates related by equality (other spellings, trailing zeros), by adding a local label, or by the order; every law of the "
        "statement is evaluated on the real Specifier objects for all seven ordered operators built from V; plus model correspondence of contains(); "
        "non-trivial = all operands accepted")

def streams(rng, tier):
    q = tier == "quick"
    out = []
    for _ in range(5000 if q else 100000):
        V = gen.rand_v(rng, local_p=0.15)
        if rng.random() < 0.5 and len(V.release) < 2: V = gen.V(V.epoch, V.release + (rng.choice(gen.SMALL),), V.pre, V.post, V.dev, V.local)
        vtxt = gen.spell(rng, V, ws=False)
        if rng.random() < 0.1: vtxt = gen.spell(rng, gen.V(V.epoch, V.release, None, None, None, None), ws=False) + ".*"
        nb = gen.neighbours(rng, V) + [V]
        c = rng.choice(nb)
        k = rng.random()
        if k < 0.35:                                                                                                   # equal: zeros appended or stripped
            rel = c.release + (0,) * rng.randrange(0, 3)
            if rng.random() < 0.5:
                while len(rel) > 1 and rel[-1] == 0: rel = rel[:-1]
            c2 = gen.V(c.epoch, rel, c.pre, c.post, c.dev, c.local)
        elif k < 0.6: c2 = gen.fix_local(gen.V(c.epoch, c.release, c.pre, c.post, c.dev, (rng.choice(gen.LOCAL_SEGS),)))   # local added
        else: c2 = rng.choice(nb)
        out.append(Case("laws", "law.sp.pair", [vtxt, gen.spell(rng, c, ws=False), gen.spell(rng, c2, ws=False)], kind="law"))
        if rng.random() < 0.3:
            op = rng.choice(gen_spec.OPS[:7])
            out.append(Case("contains", "sp.contains", [op + vtxt, rng.choice("NTF"), gen.spell(rng, c2)]))
    return out

def nontrivial(c, i):
    return c.kind == "law" or i in ("T", "F")
