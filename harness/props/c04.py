"""C04 Specifier operators obey their algebraic laws (checked on the implementation directly; theorems on the model)."""
from dataclasses import replace
from core import Case
import gen, gen_spec

IMPL_MODULE = "spec_impl"
RULE = ("version text V (plain or V.*) x pairs of candidates related by equality (other spellings, trailing zeros, epoch written 0!/00!, local labels "
        "spelled apart), by adding a local label, or by the order (neighbours of V, and pairs far apart on the same side of V); every law of the statement "
        "is evaluated on the real Specifier objects for all seven ordered operators built from V with prereleases=True, and - where it holds: "
        "equal candidates, local label, complement/closure/cover on candidates that pass the gate - with prereleases None and False; candidates go in as str, "
        "Version or Version-subclass objects; plus model correspondence of contains(); non-trivial = all operands accepted")
KINDS = ["str", "str", "obj", "sub"]
ASSUMPTIONS = ["every number in a generated version has far fewer digits than int()'s 4300-digit conversion limit; the model has no digit limit (finding D10: "
               "beyond it Version() raises InvalidVersion)"]
TRUSTED_EXTRA = ["candidate objects (str / Version / Version subclass) and the way the object's pre-release setting is made (constructor keyword / attribute "
                 "assignment) exist on the implementation side only: the model has one representation of each, the run checks the answers do not depend on them",
                 "the ~= intersection law builds its prefix specifier in the harness; half the time with the exact text SpecLift.prefix_text denotes (epoch written out)"]


def spell_epoch(rng, v, ws):
    """a spelling with the epoch written out even when it is 0 ("0!1.0", "00!1.0")"""
    t = gen.spell(rng, v, ws=False, vprefix=False)
    if v.epoch == 0 and "!" not in t: t = rng.choice(["0!", "00!", "0!"]) + t
    if rng.random() < 0.3: t = rng.choice(["v", "V"]) + t
    return gen_spec.pad_ws(rng, t, 0.3) if ws else t


def streams(rng, tier):
    q = tier == "quick"
    out = []
    for _ in range(6000 if q else 120000):
        V = gen.rand_v(rng, local_p=0.15)
        if rng.random() < 0.5 and len(V.release) < 2: V = gen.V(V.epoch, V.release + (rng.choice(gen.SMALL),), V.pre, V.post, V.dev, V.local)
        if rng.random() < 0.1: V = gen_spec.zero_tail(rng, V)
        vtxt = gen.spell(rng, V, ws=False)
        if rng.random() < 0.15: vtxt = gen.spell(rng, gen.V(V.epoch, V.release, None, None, None, None), ws=False) + ".*"
        nb = gen_spec.related_structured(rng, V, 6) + [V]
        c = rng.choice(nb)
        ws = rng.random() < 0.3
        t1 = t2 = None
        k = rng.random()
        if k < 0.3:                                                                                                    # equal: zeros appended or stripped
            rel = c.release + (0,) * rng.randrange(0, 3)
            if rng.random() < 0.5:
                while len(rel) > 1 and rel[-1] == 0: rel = rel[:-1]
            c2 = gen.V(c.epoch, rel, c.pre, c.post, c.dev, c.local)
        elif k < 0.38:                                                                                                 # equal: only the epoch is spelled differently
            c2 = c; t2 = spell_epoch(rng, c2, ws)
        elif k < 0.46:                                                                                                 # equal: same local label, spelled apart (+1.A / +1-a / +01_a)
            c = gen.fix_local(replace(c, local=tuple(rng.choice(gen.LOCAL_SEGS) for _ in range(rng.choice([2, 3, 4])))))
            c2 = c
        elif k < 0.66: c2 = gen.fix_local(gen.V(c.epoch, c.release, c.pre, c.post, c.dev, (rng.choice(gen.LOCAL_SEGS),)))   # local added
        elif k < 0.8:                                                                                                  # ordered, far apart, same side of V
            up = rng.random() < 0.5
            def far(d):
                r = list(V.release); i = rng.randrange(len(r))
                r[i] = r[i] + d if up else max(0, r[i] - d)
                x = replace(rng.choice([V, gen.rand_v(rng)]), epoch=V.epoch, release=tuple(r[:i + 1]) + tuple(gen.small(rng) for _ in range(rng.randrange(0, 3))))
                return gen.fix_local(x)
            c, c2 = far(rng.randrange(1, 4)), far(rng.randrange(3, 9))
            if rng.random() < 0.2: c2 = replace(c2, epoch=c2.epoch + (1 if up else 0))
        else: c2 = rng.choice(nb)
        t1 = gen.spell(rng, c, ws=ws)
        if t2 is None: t2 = gen.spell(rng, c2, ws=ws)
        setting = rng.choice("TTTNF")
        out.append(Case("laws:" + setting, "law.sp.pair", [vtxt, t1, t2, setting, rng.choice(KINDS), rng.choice("EN")], kind="law"))
        if rng.random() < 0.3:
            op = rng.choice(gen_spec.OPS[:7])
            W = gen_spec.WS_U
            out.append(Case("contains", "sp.query", [rng.choice(W) + op + rng.choice(W) + vtxt + rng.choice(W), rng.choice("NTF"), gen_spec.pad_ws(rng, gen.spell(rng, c2), 0.2), rng.choice("NNTF"), rng.choice("ca"),
                                                     rng.choice(["contains", "in"]), rng.choice(KINDS)]))
    return out


def nontrivial(c, i):
    return c.kind == "law" or i in ("T", "F")
