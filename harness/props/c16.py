"""C16 Platform tag sequences match the platform's real compatibility range."""
import core
from core import Case
import gen_plat as G

IMPL_MODULE = "plat_impl"
RULE = ("glibc version strings (major 0-10, minor 0-70, junk suffixes, malformed) through os.confstr / a stand-in ctypes, x architecture lists "
        "(single, armv8l+armv7l, i686, mixed, unknown, repeated, empty) x `_manylinux` policy modules of the three kinds (function with per-version "
        "rules returning True/False/None/ints, per-tag attributes, absent) x generated ELF images as sys.executable; musl loader outputs; "
        "macOS 9.0-16.17 / 11-26 x 9 architectures; iOS 10-19 x minors x multiarch; ELF images from an encoder for the four class/endianness "
        "layouts with random program-header tables, strides, truncations, damaged identification and extreme offsets; platform_tags() dispatch; "
        "non-trivial = a non-empty sequence / a decodable ELF header; distinct by input")
ASSUMPTIONS = [
    "the `_manylinux` policy module is a pure function of (major, minor, arch) (it is called twice for a legacy tag)",
    "mixed architecture lists get one floor for the whole list, as the code does (2.5 if x86_64 or i686 is anywhere in the list): "
    "the realistic lists are [arch] or [armv8l, armv7l]; the monotonicity/exactness theorems are stated per list",
    "images read through a real file (sys.executable, stream elf-file): where lseek / the read buffer start to refuse is machine dependent "
    "(file system limit, memory); the model takes the two limits as parameters (ElfDisk.v)",
    "subprocess.run for the musl loader is a stand-in that raises what the real one raises for such an argv (ValueError: embedded NUL; "
    "FileNotFoundError: the path is not in the case's list of existing loaders; the code catches both: no musl) and else returns the case's loader output; other failures of a real "
    "exec (PermissionError, ENOEXEC) are not modelled",
    "findings D27/D47/D48 (mixed-list floor, superset across glibc majors, iOS minors above 9): their law cases are "
    "generated only when the id is registered in known_findings.txt; the model-side streams cover the same inputs as agreement model = code",
    "version digits are ASCII; `\\d` and int() also accept other Unicode decimal digits (not modelled, not generated in the musl loader output)",
    "the OUTPUT of subprocess.run (the musl loader's banner, the macOS version re-read) is a parameter of the model; stream musl-real-run runs the "
    "real subprocess.run on generated /bin/sh scripts (needs /bin/sh and cat, a UTF-8 locale for the banner; '\\r' is left out there: universal newlines)",
    "int()'s digit limit is the default 4300 (sys.get_int_max_str_digits(); PYTHONINTMAXSTRDIGITS not set); digit runs between 7 and 4300 digits are "
    "generated only zero-padded (a glibc major of 10**20 makes the code - and the model - enumerate forever)",
    "the seek limit of the temporary directory's file system is probed once (gen_plat.probe_seek_limit: ext4 about 2**44, tmpfs none below 2**63) and "
    "offsets around it are generated; the read limit stays nominal (sizes are below 2**33 or at least 2**50)",
    "os.fsdecode is UTF-8/surrogateescape (checked: it round-trips every byte), so the interpreter path is compared as bytes",
    "platform.mac_ver()/ios_ver() release strings have at least two integer components",
]
TRUSTED_EXTRA = ["struct: the layout is modelled and proved (pack/unpack codec); its error on short reads is assumed",
                 "file seek/read: modelled for io.BytesIO (short reads, OverflowError from 2**63 on) and for a regular file (refusal from the two limits on)"]

# Departures of the code from the TEXT of the statement, confirmed on the real code.  Their law cases are generated only once the
# finding is registered in known_findings.txt (ids below; proposed lines in harness/props/PROPOSED_FINDINGS_tags.txt), so that the
# check is green with and without the registration; the matchers are narrow (input class and the observed wrong answer).
ID_MIXED_FLOOR, ID_CROSS_MAJOR, ID_IOS_MINOR = "D27", "D47", "D48"
REGISTERED = {f["id"] for f in core.load_findings("C16")}
SEEK, READ = str(G.SEEK_LIMIT), str(G.READ_LIMIT)


def plist(s):
    return s.split(",")[1:]


def floor_class(a):
    return a in ("x86_64", "i686")


def mixed_floor(archs):
    return len({floor_class(a) for a in archs}) > 1


def match_d27(case, impl, model):
    return (case.cmd == "law.p.many2" and mixed_floor(plist(case.args[0])) and isinstance(impl, str)
            and impl.startswith("manylinux: tag below the per-architecture floor"))


def match_d42(case, impl, model):
    if case.cmd != "law.p.many2" or not isinstance(impl, str): return False
    M, m, M2 = int(case.args[1]), int(case.args[2]), int(case.args[3])
    return M < M2 and (m > 50 or M < 2) and impl.startswith("manylinux: glibc %d.%d offers a tag that" % (M, m))


def match_d43(case, impl, model):
    if case.cmd != "law.p.ios" or not isinstance(impl, str): return False
    M, m, M2 = int(case.args[0]), int(case.args[1]), int(case.args[2])
    return M < M2 and m > 9 and impl.startswith("iOS: %d.%d offers a tag that" % (M, m))


MAC_ARCHS = ["x86_64", "arm64", "i386", "ppc", "ppc64", "intel", "universal2", "universal", "fat", "riscv"]


def enc_list(l):
    return "".join("," + x for x in l)


def exe_for(rng, archs):
    if "armv7l" in archs or "i686" in archs or rng.random() < 0.1:
        if rng.random() < 0.07: return "X"
        want = "armhf" if "armv7l" in archs else "i686" if "i686" in archs else None
        data, _ = G.rand_elf(rng, clean=rng.random() < 0.8, file_safe=True, want=want)
        return "F" + G.b2s(data)
    return rng.choice(["X", "F", "Fnot an elf"])


def rand_confstr(rng):
    r = rng.random()
    if r < 0.88: return "S" + rng.choice(["glibc ", "glibc ", "glibc  ", "GNU\t", "x "]) + G.rand_glibc_string(rng) + rng.choice(["", "", " ", "\n"])
    if r < 0.91: return "S" + rng.choice(["glibc %s extra", "GNU C Library %s", "GNU libc %s", "glibc stable %s"]) % G.rand_glibc_string(rng)
    if r < 0.95: return "S" + rng.choice(["glibc", "glibc 2.17 extra", "", "  ", "2.17", "glibc 2.28", "glibc 2.30"])
    return rng.choice(["N", "RO", "RV", "RA"])


def rand_ctypes(rng):
    r = rng.random()
    if r < 0.4: return rng.choice(["I", "O", "A"])
    return rng.choice("SB") + "".join(c for c in G.rand_glibc_string(rng) if ord(c) < 128)          # the bytes result is decoded as ASCII


def musl_exe(rng):
    r = rng.random()
    if r < 0.08: return "X"
    # read through a real file: mostly small offsets, sometimes offsets/sizes the file system / memory cannot serve (disk=True)
    safe = rng.random() < 0.7
    data, _ = G.rand_elf(rng, clean=rng.random() < 0.75, file_safe=safe, disk=not safe, want="musl" if rng.random() < 0.8 else None)
    return "F" + G.b2s(data)


def rand_loaders(rng):
    """which loader paths exist for subprocess.run: '*' = all, else an explicit list (the PT_INTERP path may or may not be in it)"""
    r = rng.random()
    if r < 0.55: return "*"
    paths = [G.b2s(x.strip(b"\0")) for x in G.INTERPS if b"musl" in x and b"\0" not in x.strip(b"\0")]
    if r < 0.9: return "".join("," + x for x in rng.sample(paths, rng.randrange(0, len(paths) + 1)))
    return ",/nonexistent"


def linux_args(rng, archs):
    cs = rand_confstr(rng)
    ct = rand_ctypes(rng) if cs[0] != "S" or rng.random() < 0.3 else "I"
    return [cs, ct, exe_for(rng, archs) if rng.random() < 0.6 else musl_exe(rng), G.rand_policy(rng, archs), G.rand_musl_output(rng)]


def tail_args(rng):
    return [rand_loaders(rng), SEEK, READ]


def streams(rng, tier):
    q = tier == "quick"
    out = []
    # ---- ELF decoding
    for _ in range(4000 if q else 60000):
        data, exp = G.rand_elf(rng)
        out.append(Case("elf", "p.elf", [G.b2s(data)]))
        if exp is not None:
            cap, enc, mach, fl, it = exp
            out.append(Case("law-elf", "law.p.elf", [G.b2s(data), str(cap), str(enc), str(mach), str(fl), "N" if it is None else "S" + G.b2s(it)], kind="law"))
    for d in [b"", b"\x7fELF", b"\x7fELF\x01\x01" + b"\0" * 10, b"\x7fELF\x02\x02" + b"\0" * 58, b"\x7fELF\x01\x02" + b"\0" * 46, b"\x7fELF\x03\x01" + b"\0" * 60, b"MZ" + b"\0" * 62]:
        out.append(Case("elf", "p.elf", [G.b2s(d)]))
    # ---- manylinux
    for _ in range(2500 if q else 25000):
        archs = rng.choice(G.ARCH_LISTS if rng.random() < 0.35 else G.GOOD_ARCH_LISTS)
        cs, ct, exe, pol, _ = linux_args(rng, archs)
        if rng.random() < 0.5: exe = exe_for(rng, archs)
        out.append(Case("manylinux", "p.many", [enc_list(archs), cs, ct, exe, pol]))
    for M in ([2, 3] if q else [0, 1, 2, 3, 4]):                      # bounded sweep: every minor around the floors and aliases
        for m in range(0, 53 if not q else 22):
            for archs in (["x86_64"], ["aarch64"]):
                out.append(Case("manylinux-sweep", "p.many", [enc_list(archs), "Sglibc %d.%d" % (M, m), "I", "X", rng.choice(["-", "MFFF", "M---:T;2.17.*=F;2.5.*=N;2.12.*=Z"])]))
    for _ in range(500 if q else 8000):
        archs = rng.choice([a for a in G.ARCH_LISTS if a])
        M = rng.choice([2, 2, 2, 3, 1]); m = rng.randrange(0, 56); m2 = rng.choice([m, m + 1, m + rng.randrange(0, 20), rng.randrange(0, 56)])
        out.append(Case("law-manylinux", "law.p.many", [enc_list(archs), str(M), str(m), str(m2), G.rand_policy(rng, archs), exe_for(rng, archs)], kind="law"))
    for _ in range(30 if q else 500):
        out.append(Case("law-cache", "law.p.cache", [enc_list(rng.choice([["x86_64"], ["aarch64"]])), "2", str(rng.randrange(0, 50)), str(rng.choice([2, 3])), str(rng.randrange(0, 50))], kind="law"))
    # ---- musllinux
    for _ in range(1500 if q else 20000):
        archs = rng.choice(G.ARCH_LISTS if rng.random() < 0.5 else G.GOOD_ARCH_LISTS)
        out.append(Case("musllinux", "p.musl", [enc_list(archs), musl_exe(rng), G.rand_musl_output(rng)] + tail_args(rng)))
    good = "F" + G.b2s(G.rand_elf(rng, clean=True, file_safe=True)[0])
    for _ in range(100 if q else 3000):
        data, exp = G.rand_elf(rng, clean=True, file_safe=True)
        m = rng.randrange(0, 30)
        out.append(Case("law-musllinux", "law.p.musl", [enc_list(rng.choice([a for a in G.ARCH_LISTS if a])), "F" + G.b2s(data), str(rng.choice([0, 1, 1, 2])), str(m),
                                                        str(rng.choice([m, m + 1, rng.randrange(0, 30)]))], kind="law"))
    # ---- macOS: complete sweep of the version grid x architectures (a finite grid; the theorems cover all versions)
    for M in range(9, 17 if q else 28):
        for m in range(0, 18 if q else 22):
            for arch in (MAC_ARCHS if not q else rng.sample(MAC_ARCHS, 4)):
                out.append(Case("macos", "p.mac", [str(M), str(m), arch]))
    for _ in range(300 if q else 6000):
        M = rng.choice([10, 10, 11, 12, 14, 15, 26, 9]); m = rng.choice([rng.randrange(0, 20), rng.randrange(0, 40)])
        M2 = rng.choice([M, M, M + 1, rng.randrange(9, 28)]); m2 = rng.choice([m, m + 1, rng.randrange(0, 20)])
        out.append(Case("law-macos", "law.p.mac", [str(M), str(m), str(M2), str(m2), rng.choice(MAC_ARCHS)], kind="law"))
    for _ in range(150 if q else 3000):
        M = rng.choice([10, 10, 10, 11, 12, 14, 26]); m = rng.choice([0, 4, 9, 15, 16, 16, 16]); p = rng.choice(["", ".0", ".6.1"])
        sub = "%d.%d%s\n" % (rng.choice([11, 12, 13, 26]), rng.randrange(0, 8), rng.choice(["", ".1"]))
        out.append(Case("macos-default", "p.macdef", ["%d.%d%s" % (M, m, p), rng.choice(MAC_ARCHS[:5]), sub]))
    # ---- iOS
    for M in list(range(10, 20)) + ([] if q else [20, 25, 40]):
        for m in range(0, 12 if q else 15):
            out.append(Case("ios", "p.ios", [str(M), str(m), rng.choice(["arm64-iphoneos", "arm64-iphonesimulator", "x86_64-iphonesimulator", "arm64_iphoneos", "a-b-c"])]))
    for _ in range(200 if q else 4000):
        M = rng.randrange(10, 26); m = rng.randrange(0, 14); M2 = rng.choice([M, M + 1, rng.randrange(10, 26)]); m2 = rng.choice([m, m + 1, rng.randrange(0, 14)])
        if M < M2 and m > 9 and ID_IOS_MINOR not in REGISTERED: continue
        out.append(Case("law-ios", "law.p.ios", [str(M), str(m), str(M2), str(m2), "arm64-iphoneos"], kind="law"))
    # ---- _linux_platforms and the platform_tags() dispatch
    PLATS = ["linux-x86_64", "linux-aarch64", "linux-armv7l", "linux-armv8l", "linux-i686", "linux-ppc64le", "linux-s390x", "linux-riscv64", "linux-mips",
             "linux_x86_64", "linux x86_64", "Linux-x86_64", "linux", "linux-", "freebsd-13.2-amd64", "win-amd64", "macosx-11.0-arm64", "linux-x86-64", "linux-loongarch64"]
    for _ in range(1000 if q else 12000):
        plat = rng.choice(PLATS)
        is32 = rng.choice("TFF")
        arch = plat.replace("-", "_").replace(" ", "_").split("_", 1)[-1]
        if is32 == "T": arch = {"x86_64": "i686", "aarch64": "armv8l"}.get(arch, arch)
        archs = ["armv8l", "armv7l"] if arch == "armv8l" else [arch]
        out.append(Case("linux", "p.linux", [is32, plat] + linux_args(rng, archs) + tail_args(rng)))
    for _ in range(800 if q else 10000):
        system = rng.choice(["Linux", "Linux", "Darwin", "iOS", "Windows", "FreeBSD", "", "linux", "Java"])
        plat = rng.choice(PLATS)
        arch = plat.replace("-", "_").replace(" ", "_").split("_", 1)[-1]
        macver = "%d.%d%s" % (rng.choice([10, 10, 11, 13, 15]), rng.choice([0, 9, 15, 16]), rng.choice(["", ".1"]))
        sub = "%d.%d\n" % (rng.choice([11, 12, 14]), rng.randrange(0, 7))
        iosrel = "%d.%d%s" % (rng.randrange(10, 19), rng.randrange(0, 9), rng.choice(["", ".2"]))
        out.append(Case("platform-tags", "p.plat", [system, plat] + linux_args(rng, [arch]) + [macver, rng.choice(MAC_ARCHS[:4]), sub, iosrel, rng.choice(["arm64-iphoneos", "arm64-iphonesimulator"])] + tail_args(rng)))
    # ---- ELF images read through a real file (open(path, "rb")): offsets/sizes beyond what lseek / a read buffer can serve
    for _ in range(1200 if q else 20000):
        data, _ = G.rand_elf(rng, clean=rng.random() < 0.3, disk=True)
        out.append(Case("elf-file", "p.elff", [G.b2s(data), SEEK, READ]))
    # ---- the TEXT of the statement as laws on the real objects: per-architecture floor, superset across majors, exact enumeration
    for _ in range(500 if q else 8000):
        archs = rng.choice([a for a in G.ARCH_LISTS if a])
        if mixed_floor(archs) and ID_MIXED_FLOOR not in REGISTERED: continue
        M = rng.choice([2, 2, 2, 3, 1, 4]); m = rng.choice([rng.randrange(0, 56), 50, 51, 17, 5])
        M2 = rng.choice([M, M, M + 1, M + 2]); m2 = rng.choice([m, m + 1, rng.randrange(0, 56)])
        if M < M2 and (m > 50 or M < 2) and ID_CROSS_MAJOR not in REGISTERED: continue
        out.append(Case("law-manylinux-text", "law.p.many2", [enc_list(archs), str(M), str(m), str(M2), str(m2), G.rand_policy(rng, archs), exe_for(rng, archs)], kind="law"))
    # _musllinux.platform_tags never raises, whatever sys.executable holds and whichever loader paths exist
    for _ in range(150 if q else 3000):
        if True:
            out.append(Case("law-musl-noraise", "law.p.noraise", [enc_list(rng.choice(G.GOOD_ARCH_LISTS)), musl_exe(rng), G.rand_musl_output(rng), rand_loaders(rng)], kind="law"))
    # ---- the musl probe against the REAL subprocess.run: generated loader scripts (runs / not executable / a directory / missing / NUL in the path)
    REAL = [b"./ld-musl-run.sh\0", b"./ld-musl-run.sh", b"./ld-musl-noexec.sh\0", b"./ld-musl-dir.sh\0", b"./ld-musl-missing.sh\0", b"./ld-\0musl-run.sh\0",
            b"./ld-glibc-run.sh\0", b"\0\0./ld-musl-run.sh\0\0"]
    for _ in range(120 if q else 2500):
        data = real_image(rng, rng.choice(REAL))
        banner = "".join(c for c in G.rand_musl_output(rng) if c != "\r")          # text=True reads with universal newlines: "\r" arrives as "\n"
        out.append(Case("musl-real-run", "p.muslreal", [enc_list(rng.choice(G.GOOD_ARCH_LISTS)), "F" + G.b2s(data), banner, ",./ld-musl-run.sh", SEEK, READ]))
    # ---- the memo of _get_musl_version is lru_cache(maxsize=128): 130 different executables, then the first again (evicted: probed anew)
    for _ in range(1 if q else 6):
        args = [",x86_64"]
        first = musl_exe_safe(rng)
        for k in range(130):
            args += ["K%d" % k, "Sglibc 2.17", "I", first if k == 0 else rng.choice(["X", "Fnot an elf", first]), "-", "musl libc\nVersion 1.%d\n" % (k % 7)]
        args += ["K0", "Sglibc 2.17", "I", first, "-", "musl libc\nVersion 1.9\n"]
        args += ["K129", "Sglibc 2.17", "I", first, "-", "musl libc\nVersion 1.8\n"]
        out.append(Case("probe-cache-eviction", "p.probes", args))
    # ---- memoised probes across calls: several executables (keys), changing glibc / loader output, no cache_clear() in between
    for _ in range(250 if q else 5000):
        archs = rng.choice(G.GOOD_ARCH_LISTS if rng.random() < 0.6 else [["i686"], ["armv7l"], ["armv8l", "armv7l"]])
        args = [enc_list(archs)]
        exes = {k: (exe_for(rng, archs) if rng.random() < 0.4 else musl_exe_safe(rng)) for k in "ABC"}
        if rng.random() < 0.5: exes["A"] = rng.choice(["X", "Fnot an elf"])       # the ABI check fails first: the glibc memo must stay empty
        for _ in range(rng.choice([2, 3, 4, 6])):
            k = rng.choice("AAB" if rng.random() < 0.7 else "ABC")
            if rng.random() < 0.15: exes[k] = musl_exe_safe(rng)          # the file behind a path changes: the memo is by path
            args += [k, "Sglibc 2.%d" % rng.choice([17, 17, 20, 28, 5]) if rng.random() < 0.9 else rand_confstr(rng), "I", exes[k],
                     rng.choice(["-", "-", "MFFF"]), G.rand_musl_output(rng)]
        out.append(Case("probe-cache", "p.probes", args))
    return out


def real_image(rng, interp):
    """a clean 64/32-bit image whose only PT_INTERP entry names [interp]"""
    import struct
    cap, enc = rng.choice([1, 2]), rng.choice([1, 2])
    ehsize = 16 + struct.calcsize(G.E_FMT[(cap, enc)]); psize = struct.calcsize(G.P_FMT[(cap, enc)])
    off = ehsize + psize
    fields = [3, 4] + [0] * 6
    io, isz = (1, 4) if cap == 1 else (2, 5)
    fields[io], fields[isz] = off, len(interp)
    hdr = [3, 62, 1, 0, ehsize, 0, 0, ehsize, psize, 1]
    return b"\x7fELF" + bytes([cap, enc]) + bytes(10) + struct.pack(G.E_FMT[(cap, enc)], *hdr) + struct.pack(G.P_FMT[(cap, enc)], *fields) + interp


def musl_exe_safe(rng):
    data, _ = G.rand_elf(rng, clean=rng.random() < 0.85, file_safe=True, want="musl" if rng.random() < 0.85 else None)
    return "F" + G.b2s(data)


def nontrivial(c, i):
    return c.kind == "law" or (isinstance(i, str) and i not in ("", "E", "|-") and not i.startswith("!"))
