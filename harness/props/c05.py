"""C05 SpecifierSet is the conjunction of its specifiers; & is intersection; str round trip."""
import itertools
import os
from core import Case
import gen, gen_sets as G

IMPL_MODULE = "sets_impl"
# the iteration order of the member frozenset depends on the hash seed: vary it with the run seed (every observation must be invariant)
IMPL_ENV = {"PYTHONHASHSEED": str(int(os.environ.get("VERIF_SEED", "0") or 0) % 4294967295)}
RULE = ("stack programs over SpecifierSet objects: clause multisets (operators x admissible/inadmissible version forms drawn from a small pool of "
        "related versions) in shuffled order with duplicates, stray commas and Unicode spacing, overrides None/True/False on either operand and on "
        "the call (also as non-bool 1 / 0 / 'x' / ''), a & b, a & 'text' (also with an invalid text), sets built from Specifier objects with their own "
        "overrides and == spellings, candidates that are neighbours of the clause versions; observations: str, len, prereleases, ==/hash, "
        "set == 'text' / Specifier, `in`, contains(prereleases, installed) also after & and on object-built sets; '===' texts with special "
        "str.lower(); separators U+0085 / U+2028 / U+001C; mutated and bounded-exhaustive set texts; "
        "non-trivial = the set was constructed and something was observed; distinct by program text")
ASSUMPTIONS = ["iteration order of the frozenset is not observed except through str() (sorted) - the model treats it as an arbitrary permutation",
               "hash(): only 'equal sets have equal hashes' is observed",
               "numbers in generated versions stay far below the interpreter's 4300-digit int conversion limit; the model has no digit limit "
               "(beyond it the code raises InvalidVersion since 71d4b23, finding D10) and no theorem is claimed for such inputs"]
TRUSTED_EXTRA = ["CPython set semantics for equal elements: the element already present is kept (frozenset(iterable), a | b) - modelled as first occurrence"]

ALPHA = [",", " ", "=", ">", "1", "0", ".", "*", "a"]


def probes(rng, pool, n, inst=False):
    """contains() probes; now and then `item in top`, and top == "text" / top == Specifier(text) against a clause-like text"""
    out = []
    for _ in range(n):
        k = rng.random()
        if k < 0.1: out += ["in", rng.choice("sv"), G.candidate(rng, pool)]
        elif k < 0.16: out += ["eqs", rng.choice("ssXXn"), G.clause(rng, pool)]
        else: out += ["c", rng.choice(["T", "T", "N", "N", "F"] + G.TRI_ARG), rng.choice(["N", "T", "F", "1", "0", "S", "E"]) if inst else "N", rng.choice("sv"), G.candidate(rng, pool)]
    return out


def rand_set(rng, pool, maxn=4, dup=True):
    n = rng.choice(range(maxn + 1))
    if dup and rng.random() < 0.03: n = rng.choice([8, 12, 20])        # now and then a long clause list
    cl = [G.clause(rng, pool) for _ in range(n)]
    if dup and cl and rng.random() < 0.4: cl += [rng.choice(cl) for _ in range(rng.choice([1, 2]))]
    rng.shuffle(cl)
    return cl


def distinct_only(cl):
    """drop '===' duplicates etc. is not needed: keep literal duplicates (same text), they collapse to the same representative"""
    return cl


def streams(rng, tier):
    q = tier == "quick"
    out = []
    for _ in range(2500 if q else 60000):
        pool = G.pool_of(rng)
        cl = rand_set(rng, pool)
        text = G.layout(rng, cl)
        if rng.random() < 0.08: text = gen.mutate(rng, text)
        prog = ["S", rng.choice(G.TRI_OV), text, "str", "len", "pre"] + probes(rng, pool, rng.choice([2, 4]), inst=rng.random() < 0.3)
        if rng.random() < 0.15: prog += ["eqs", "s", G.layout(rng, [G.respell(rng, x) for x in cl][::-1]) if rng.random() < 0.7 else G.layout(rng, cl[1:])]
        if rng.random() < 0.1: prog += ["P", rng.choice(G.TRI_OV), "pre"] + probes(rng, pool, 2, inst=True)
        out.append(Case("set", "s.run", prog))
    for _ in range(1500 if q else 40000):
        pool = G.pool_of(rng)
        a, b = rand_set(rng, pool, 3), rand_set(rng, pool, 3)
        if rng.random() < 0.3 and a: b = b + [rng.choice(a)]
        ta, tb = G.layout(rng, a), G.layout(rng, b)
        # the right operand is mutated now and then (and also made of inadmissible clauses by G.clause): a & "invalid text" must raise InvalidSpecifier
        if rng.random() < 0.12: tb = gen.mutate(rng, tb)
        oa, ob = rng.choice(G.TRI_OV), rng.choice(G.TRI_OV)
        if rng.random() < 0.6:
            prog = ["S", oa, ta, "S", ob, tb, "&"]
        else:
            prog = ["S", oa, ta, "&s", tb]
        prog += ["str", "len", "pre"] + probes(rng, pool, 3, inst=rng.random() < 0.4)
        if rng.random() < 0.5: prog += ["S", "N", ta + "," + tb, "eq", "str"]
        if rng.random() < 0.2: prog += ["eqs", "s", tb + "," + ta]
        if rng.random() < 0.3:
            c = rand_set(rng, pool, 2)
            prog += ["S", rng.choice(G.TRI_OV), G.layout(rng, c), "&", "str", "pre"] + probes(rng, pool, 2, inst=rng.random() < 0.4)
        out.append(Case("and", "s.run", prog))
    # canonically equal, differently spelled duplicates (D33 territory): compared against the model only, which keeps the first occurrence
    for _ in range(800 if q else 20000):
        pool = G.pool_of(rng)
        a = rand_set(rng, pool, 3, dup=False) or [G.clause(rng, pool)]
        a2 = [G.respell(rng, x) for x in a]
        rng.shuffle(a2)
        if rng.random() < 0.5:
            prog = ["S", "N", G.layout(rng, a + a2), "str", "len", "S", "N", G.layout(rng, a2 + a), "str", "eq"]
        else:
            prog = ["S", "N", G.layout(rng, a), "S", "N", G.layout(rng, a2), "eq", "&", "str", "len"]
        out.append(Case("equal-spellings", "s.run", prog + probes(rng, pool, 2)))
    # sets built from Specifier objects carrying their own overrides
    for _ in range(600 if q else 15000):
        pool = G.pool_of(rng)
        cl = rand_set(rng, pool, 3)
        if rng.random() < 0.3 and cl: cl += [G.respell(rng, rng.choice(cl))]        # == members with different spellings and overrides: the first supplied wins
        prog = ["L", rng.choice(G.TRI_OV), str(len(cl))]
        for x in cl: prog += [rng.choice(G.TRI_OV), x]
        prog += ["str", "len", "pre"] + probes(rng, pool, 2, inst=rng.random() < 0.5)
        if rng.random() < 0.5:
            cl2 = rand_set(rng, pool, 2) + cl[:1]
            prog += ["L", rng.choice(["N", "N", "T", "F"]), str(len(cl2))]
            for x in cl2: prog += [rng.choice(G.TRI_OV), x]
            prog += ["&", "str", "pre"] + probes(rng, pool, 2, inst=rng.random() < 0.5)
        out.append(Case("from-objects", "s.run", prog))
    # bounded-exhaustive set texts over a class-representative alphabet
    L = 4 if q else 6
    for s in gen.exhaustive(ALPHA, L):
        out.append(Case("exhaustive", "s.run", ["S", "N", s, "str", "len", "pre"]))
    for s in ["", ",", " , ", ">=1,<2", "==1.0,==1.0.0", "==1.0.0,==1.0", "===a,b", "===a,===b", ">=1.0,  ,<2,", "~=1.0,~=1.00", "~=1.0,~=1.0.0",
              "===1.0,===1.0.0", ">=1 ,<2", ">=1,　<2", ">=1;<2", "!=1.*,==1.0.*", "==1.0.*,==1.0.0.*", ">=1.0a1,<2", "!=1.0a1"]:
        out.append(Case("fixed", "s.run", ["S", "N", s, "str", "len", "pre", "c", "T", "N", "s", "1.0", "c", "N", "N", "s", "1.5a1", "in", "v", "1.0.0"]))
    # '===' texts whose str.lower() is special (KELVIN SIGN, dotted capital I, long s), upper-case local labels; candidates that differ by case only
    for _ in range(150 if q else 3000):
        cl = ["===" + rng.choice(["", " "]) + rng.choice(G.ARB) for _ in range(rng.choice([1, 1, 2]))]
        if rng.random() < 0.3: cl.append(rng.choice([">=1.0", "==1.0+K", "!=1.0+k", "<2"]))
        prog = ["S", rng.choice(G.TRI), G.layout(rng, cl), "str", "len", "pre"]
        for _ in range(3): prog += ["c", rng.choice("TN"), "N", rng.choice("sv"), rng.choice(G.ARB_CANDS)]
        prog += ["eqs", rng.choice("sX"), rng.choice(cl)]
        out.append(Case("arbitrary-fold", "s.run", prog))
    for t in G.ARB:
        for cnd in G.ARB_CANDS:
            out.append(Case("fixed", "s.run", ["S", "N", "===" + t, "c", "T", "N", "s", cnd, "c", "T", "N", "v", cnd, "str"]))
    for s, t in [(">=1,<2", "<2, >=1.0"), (">=1,<2", "<2"), ("", ""), ("", " , "), (">=1", "foo"), (">=1", ">=1,,bar"), ("===a,b", "===a,b"), ("==1.0", "==1.0.0"),
                 ("===1.0", "===1.0.0"), ("~=1.0", "~=1.0.0"), (">=1", ">= 1")]:
        out.append(Case("fixed", "s.run", ["S", "N", s, "eqs", "s", t, "eqs", "X", t]))
    # laws evaluated on the implementation
    for _ in range(700 if q else 20000):
        pool = G.pool_of(rng)
        A, B, C = rand_set(rng, pool, 3, dup=False), rand_set(rng, pool, 3, dup=False), rand_set(rng, pool, 1, dup=False)
        if rng.random() < 0.3 and A: B = B + [G.respell(rng, rng.choice(A))]
        cands = [G.candidate(rng, pool, 1.0) for _ in range(5)]
        out.append(Case("law", "law.s.c05", [str(rng.randrange(10 ** 6)), rng.choice(G.TRI), rng.choice(G.TRI), rng.choice(G.TRI),
                                            str(len(A)), str(len(B)), str(len(C))] + A + B + C + cands, kind="law"))
    for _ in range(500 if q else 12000):
        pool = G.pool_of(rng)
        cl = rand_set(rng, pool, 3)
        if rng.random() < 0.15: cl.append(rng.choice(["===a,b", "=== 1.0,>=2", "===,", "===1.0,", "===,1.0"]))
        rng.shuffle(cl)
        out.append(Case("law-reparse", "law.s.reparse", cl, kind="law"))
    return out


def nontrivial(c, i):
    return c.kind == "law" or not (i.startswith("!E") or i == "")


def match_d19(case, impl, model):
    """D19: str() of a set with an '===' member whose text contains a comma does not parse back to an equal set.
    Input class: some member clause is '===' + text containing ','.  Expected wrong answer: the reparse fails or gives another set."""
    if case.cmd != "law.s.reparse": return False
    if not any(a.strip().startswith("===") and "," in a for a in case.args): return False
    return isinstance(impl, str) and impl.startswith("str(set) does not parse back")
