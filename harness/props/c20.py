"""C20 Results are deterministic, history-independent and leave inputs untouched."""
import json
from core import Case
import gen, gen_spec, gen_misc

IMPL_MODULE = "det_impl"
RULE = ("(a) one call battery (sets, specifiers, requirements, markers, tags, wheel names, sorting, metadata reads, parse_email, operation sequences on a shared "
        "SpecifierSet) executed in separate processes under several PYTHONHASHSEED values and in shuffled / reversed call order; every call made twice on arguments "
        "that are deep-copied before and compared after; transcripts compared per call; (b) order-insensitive inputs (clauses, extras, tag parts, & operands) "
        "supplied in two orders must give equal objects with the same str/hash/behaviour; non-trivial = the call returned a value")
ASSUMPTIONS = ["PYTHONHASHSEED, aliasing and in-place mutation are properties of the CPython heap: exercised by these runs, not proved",
               "platform probes (sys_tags and the libc caches) are exercised by the C15/C16 checks",
               "this check has no model leg of its own: the call battery and the permutation laws compare runs of the implementation with each other "
               "(hash seeds, call orders, supply orders); the same operations are compared with the models by the C05/C06/C08/C14/C17 checks, "
               "whose permutation / history theorems are restated in Properties/C20.v",
               "members of a set built from Specifier objects with the same clause but different pre-release settings: supply order matters (finding D39)"]
TRUSTED_EXTRA = ["C20: the restated theorems are about the domain models; their tie to the code is the correspondence run of the check of that domain"]
HASHSEEDS = ["0", "1", "4242", "4294967295"]

RAW_FIELDS = ["metadata_version", "name", "version", "summary", "keywords", "requires_dist", "requires_python", "provides_extra", "classifiers", "dynamic", "license_expression", "description_content_type"]
def raw_meta(rng):
    d = {"metadata_version": rng.choice(["2.1", "2.2", "2.4", "1.0", "9"]), "name": rng.choice(["foo", "Foo_Bar", "a b"]), "version": rng.choice(["1.0", "1.0a1", "x"])}
    for _ in range(rng.randrange(0, 5)):
        f = rng.choice(RAW_FIELDS[3:])
        if f in ("keywords", "requires_dist", "provides_extra", "classifiers", "dynamic"):
            d[f] = [rng.choice(["a", "requests>=2", "bad req!", "Foo_Bar", "name", "x; extra=='a'"]) for _ in range(rng.randrange(0, 3))]
        else:
            d[f] = rng.choice(["text", ">=3.8", "MIT", "text/markdown", "bad\nline", "mit or apache-2.0"])
    return d

def items(rng, n):
    out = []
    for _ in range(n):
        v = gen.spell(rng, gen.rand_v(rng), ws=False)
        if rng.random() < 0.05: v = "junk"
        out.append(("V" if rng.random() < 0.4 and v != "junk" else "S") + v)
    return out

def battery(rng, tier):
    q = tier == "quick"
    n = 150 if q else 2500
    out = []
    for _ in range(n):
        out.append(Case("battery", "det.set", [gen_misc.spec_set(rng)] + items(rng, rng.randrange(0, 5))))
        out.append(Case("battery", "det.spec", [gen_spec.spec_string(rng)[0]] + items(rng, rng.randrange(0, 4))))
        out.append(Case("battery", "det.req", [gen_misc.requirement(rng)]))
        env = {k: rng.choice(gen_misc.LITS) for k in gen_misc.VARS}
        env["python_full_version"] = rng.choice(["3.12.1", "3.8.0", "3.13.0+"]); env["python_version"] = rng.choice(["3.12", "3.8"])
        out.append(Case("battery", "det.marker", [gen_misc.marker(rng, 3), json.dumps(env)]))
        # partial mappings and the legacy extra=None: the caller's mapping must come back exactly as it went in
        part = {k: env[k] for k in rng.sample(sorted(env), rng.choice([0, 1, 3]))}
        part["extra"] = rng.choice([None, None, "", "foo_bar", "Foo.Bar"])
        out.append(Case("battery", "det.marker", [rng.choice([gen_misc.marker(rng, 2), 'extra == "foo-bar"', 'extra != "x" or os_name == "a"']), json.dumps(part)]))
        envs = []
        for _ in range(rng.choice([2, 3, 4])):
            e2 = dict(env)
            for k in rng.sample(gen_misc.VARS, 3): e2[k] = rng.choice(gen_misc.LITS)
            e2["python_version"] = rng.choice(["3.8", "3.12", "2.7", "3.10"]); e2["python_full_version"] = e2["python_version"] + rng.choice([".0", ".1", ".9"])
            envs.append(e2)
        out.append(Case("battery", "det.marker.multi", [gen_misc.marker(rng, 2), json.dumps(envs)]))
        # reversed operands with version-valued variables: the right operand is then the environment value
        atoms = []
        for _ in range(rng.choice([1, 2])):
            var = rng.choice(["python_version", "python_full_version", "implementation_version", "platform_release"])
            atoms.append(rng.choice(['"%s" %s %s', "%s %s %s"][:1]) % (rng.choice(["3.8", "3.10", "2.7", "3.12.1", "3"]), rng.choice(["<=", "<", ">=", ">", "==", "!=", "~="]), var))
        for e2 in envs:
            e2["implementation_version"] = e2["python_full_version"]; e2["platform_release"] = rng.choice(["3.8", "5.15", "2.7.1", "3.12"])
        out.append(Case("battery", "det.marker.multi", [rng.choice([" and ", " or "]).join(atoms), json.dumps(envs)]))
        tagtxt = "%s-%s-%s" % (".".join(rng.sample(["py2", "py3", "cp39", "cp312"], rng.choice([1, 2, 3]))),
                               ".".join(rng.sample(gen_misc.ABIS[:4], rng.choice([1, 2]))), ".".join(rng.sample(gen_misc.PLATS, rng.choice([1, 2, 3]))))
        out.append(Case("battery", "det.tags", [tagtxt]))
        out.append(Case("battery", "det.wheel", ["%s-%s-%s.whl" % (rng.choice(gen_misc.NAMES).replace("-", "_"), gen.vstr(gen.rand_v(rng, 0.1)), "py2.py3-none-any")]))
        out.append(Case("battery", "det.sorted", [gen.spell(rng, rng.choice(gen.neighbours(rng, gen.rand_v(rng)))) for _ in range(rng.choice([2, 4, 7]))]))
        d = raw_meta(rng); reads = rng.sample(RAW_FIELDS, rng.randrange(1, 7))
        out.append(Case("battery", "det.meta", [json.dumps(d), json.dumps(reads)]))
        d2 = raw_meta(rng)
        if rng.random() < 0.7:                                          # several invalid fields at once: the order in which they are reported
            d2.update(rng.sample([("name", "a b"), ("version", "x"), ("requires_python", "bad"), ("requires_dist", ["bad req!"]), ("license_expression", "zzz"),
                                  ("provides_extra", ["a b"]), ("dynamic", ["name"]), ("bogus_key", "1"), ("summary", "a\nb")], rng.choice([2, 3, 5])))
        keys = list(d2); rng.shuffle(keys)
        out.append(Case("battery", "det.meta.validate", [json.dumps({k: d2[k] for k in keys})]))
        doc = "\n".join("%s: %s" % (rng.choice(["Name", "Version", "Keywords", "Classifier", "Project-URL", "X-Foo", "name", "Requires-Dist", "Metadata-Version"]),
                                    rng.choice(["a", "1.0", "a,b", "Home, https://x", "caf\xe9", "x; extra == 'y'"])) for _ in range(rng.randrange(0, 7))) + rng.choice(["\n", "\n\nbody\n"])
        out.append(Case("battery", "det.email", [doc, rng.choice("sb")]))
        # plain functions on families of related spellings (a cache keyed on a normalised form would make the answer depend on which came first)
        lic = rng.choice(["Kazlib", "MIT", "Apache-2.0", "GPL-2.0-or-later", "LicenseRef-Foo", "mit OR kazlib", "MIT WITH KiCad-libraries-exception"])
        for t in {lic, lic.lower(), lic.upper(), lic.replace("K", "\u212a").replace("k", "\u212a"), " " + lic + " ", lic.replace(" ", "  ")}:
            out.append(Case("battery", "det.fn", ["license", t]))
        nm = rng.choice(["Foo_Bar", "_private", "pkg-", "a--b", "foo.bar", "x", "A.B_c", "foo\n"])
        for t in {nm, nm.lower(), nm.upper(), nm.replace("_", "-").replace(".", "-")}:
            for fn in rng.sample(["name", "name.validate", "is_normalized"], 3): out.append(Case("battery", "det.fn", [fn, t]))
        v = gen.rand_v(rng)
        for t in {gen.spell(rng, v), gen.spell(rng, v), gen.vstr(v), gen.vstr(v) + ".0"}:
            for fn in ("canon_version", "canon_version.nostrip", "version"): out.append(Case("battery", "det.fn", [fn, t]))
        out.append(Case("battery", "det.fn", ["sdist", "%s-%s%s" % (rng.choice(gen_misc.NAMES), gen.vstr(gen.rand_v(rng, 0.1)), rng.choice([".tar.gz", ".zip"]))]))
        ops = []
        for _ in range(rng.randrange(2, 8)):
            k = rng.choice(["contains", "filter", "str", "hash", "len", "iter", "and", "pre"])
            if k == "contains": ops.append([k, gen.spell(rng, gen.rand_v(rng), ws=False)])
            elif k == "filter": ops.append([k, [gen.spell(rng, gen.rand_v(rng), ws=False) for _ in range(rng.randrange(0, 4))]])
            elif k == "and": ops.append([k, gen_misc.spec_set(rng, 1)])
            else: ops.append([k])
        base = gen_misc.spec_set(rng)
        for _ in range(3):
            rng.shuffle(ops)
            out.append(Case("shared-object", "det.shared", [base, json.dumps(ops)]))
        sops = []
        V = gen.rand_v(rng, local_p=0.2)
        eqs = [V, gen.V(V.epoch, V.release + (0,), V.pre, V.post, V.dev, V.local), gen.V(V.epoch, V.release + (0, 0), V.pre, V.post, V.dev, V.local)]
        def cand(): return gen.spell(rng, rng.choice(eqs + gen.neighbours(rng, V)[:4]), ws=False, vprefix=False)
        for _ in range(rng.randrange(2, 7)):
            k = rng.choice(["contains", "contains", "in", "filter", "filter", "str", "hash", "pre", "eq"])
            if k in ("contains", "in"): sops.append([k, cand()])
            elif k == "filter": sops.append([k, [cand() for _ in range(rng.randrange(0, 4))]])
            else: sops.append([k])
        sbase = gen_spec.spec_string(rng, op=rng.choice(gen_spec.OPS + ["==="]), v=V)[0]
        for _ in range(3):
            rng.shuffle(sops)
            out.append(Case("shared-object", "det.shared.spec", [sbase, json.dumps(sops)]))
    return out

def streams(rng, tier):
    q = tier == "quick"
    out = []
    for _ in range(1500 if q else 30000):
        k = rng.random()
        if k < 0.35:
            cl = [gen_spec.spec_string(rng, op=rng.choice(gen_spec.OPS[:7]))[0].strip() for _ in range(rng.choice([2, 3, 4]))]
            if rng.random() < 0.3:                  # the same operator twice with different (or equal) versions: the law itself skips the D33 class
                o = rng.choice(gen_spec.OPS[:7]); cl += [gen_spec.spec_string(rng, op=o)[0].strip(), gen_spec.spec_string(rng, op=o)[0].strip()]
            cl = [c for c in cl if "," not in c]
            if len(cl) < 2: continue
            out.append(Case("perm-set", "law.det.perm", [rng.choice(["set", "and", "req-clauses"]), str(rng.randrange(10**6))] + cl, kind="law"))
        elif k < 0.6:
            out.append(Case("perm-extras", "law.det.perm", ["req-extras", str(rng.randrange(10**6))] + rng.sample(gen_misc.EXTRAS, rng.choice([2, 3, 4])), kind="law"))
        else:
            parts = ["+".join(rng.sample(["py2", "py3", "cp39", "cp312"], rng.choice([1, 2, 3]))), "+".join(rng.sample(["none", "abi3", "cp312"], rng.choice([1, 2]))),
                     "+".join(rng.sample(["any", "linux_x86_64", "win_amd64"], rng.choice([1, 2, 3])))]
            out.append(Case("perm-tags", "law.det.perm", ["tags", str(rng.randrange(10**6))] + parts, kind="law"))
    for _ in range(300 if q else 6000):
        # sets built from Specifier objects that carry their own pre-release setting, in two supply orders (and a & b against b & a)
        cl = [gen_spec.spec_string(rng, op=rng.choice(gen_spec.OPS[:7]))[0].strip() for _ in range(rng.choice([2, 3]))]
        if has_equal_duplicates(cl): continue
        its = [rng.choice("TFNN") + c for c in cl]
        if rng.random() < 0.3: its.append(rng.choice("TFN") + rng.choice(cl))       # the same clause twice, possibly under another setting (D39 when it differs)
        out.append(Case("perm-set-objects", "law.det.perm", [rng.choice(["set-objects", "and-objects"]), str(rng.randrange(10**6))] + its, kind="law"))
    for a, b in (("T>=1", "F>=1"), ("T>=1", "N>=1"), ("F==1.0", "N==1.0")):
        for kind in ("set-objects", "and-objects"):
            for sd in ("1", "2", "3", "5"):
                out.append(Case("perm-set-objects", "law.det.perm", [kind, sd, a, b], kind="law"))
    for _ in range(150 if q else 3000):
        out.append(Case("fresh-objects", "law.det.fresh", [gen_misc.requirement(rng), gen_misc.requirement(rng)], kind="law"))
    for ta, tb in (("alpha>=1.0", "beta"), ("a", "a"), ("a[x]", "b"), ("b @ http://x", "c; os_name=='a'")):
        out.append(Case("fresh-objects", "law.det.fresh", [ta, tb], kind="law"))
    # known finding D33: canonically equal but differently spelled clauses collapse to whichever was supplied first
    for a, b in (("==1.0", "==1.0.0"), (">=1.0", ">=1"), ("!=2.0.0", "!=2"), ("<=1.0a1", "<=1.0.alpha1"), ("==1.0", "== v1.0")):
        for kind in ("set", "req-clauses", "and"):
            for sd in ("1", "2", "3", "5"):
                out.append(Case("perm-equal-clauses", "law.det.perm", [kind, sd, a, b], kind="law"))
    return out

def canon_key(cl):
    """the canonical key Specifier equality uses, computed with the harness's own version reading (only for the generator's exclusion)"""
    import re
    m = re.match(r"\s*(~=|==|!=|<=|>=|<|>|===)\s*(.*?)\s*$", cl, re.S)
    return m.groups() if m else None

def has_equal_duplicates(cl):
    # conservative: any two clauses with the same operator are treated as potentially canonically equal unless textually identical after lower-casing
    seen = {}
    for c in cl:
        k = canon_key(c)
        if k is None: continue
        if k[0] in seen and seen[k[0]] != k[1].lower(): return True
        seen[k[0]] = k[1].lower()
    return False

def match_d33(case, impl, model):
    """D33: two clauses that are equal as specifiers but spelled differently: the set keeps whichever came first, so str() depends on supply order."""
    if case.cmd != "law.det.perm" or case.args[0] not in ("set", "req-clauses", "and") or len(case.args) != 4: return False
    if not (isinstance(impl, str) and "observable value depends on supply order" in impl): return False
    a, b = case.args[2], case.args[3]
    return a != b and (a, b) in {("==1.0", "==1.0.0"), (">=1.0", ">=1"), ("!=2.0.0", "!=2"), ("<=1.0a1", "<=1.0.alpha1"), ("==1.0", "== v1.0")}

def match_d39(case, impl, model):
    """D39 (same root as D33): two member Specifier objects with the same clause but different pre-release settings are equal, so the set keeps
    whichever was supplied first: .prereleases / contains / filter of the set then depend on supply order.  Input class: two items with the same
    clause text and different setting letters.  Expected wrong answer: 'observable value depends on supply order'."""
    if case.cmd != "law.det.perm" or case.args[0] not in ("set-objects", "and-objects"): return False
    if not (isinstance(impl, str) and "observable value depends on supply order" in impl): return False
    its = case.args[2:]
    return any(x[1:] == y[1:] and x[0] != y[0] for x in its for y in its)

def extra_checks(rng, tier, core, replay=None):
    if replay is not None:
        cases = [Case(c["stream"], c["cmd"], c["args"], c.get("kind", "model")) for c in replay["extra"]["cases"]]
    else:
        cases = battery(rng, tier)
        seen, uniq = set(), []
        for c in cases:
            if c.key() in seen: continue
            seen.add(c.key()); uniq.append(c)
        cases = uniq
    pairs = [(c.cmd, c.args) for c in cases]
    runs = {}
    for h in HASHSEEDS:
        runs["hashseed=" + h] = core.run_impl(IMPL_MODULE, pairs, {"PYTHONHASHSEED": h})
    idx = list(range(len(pairs)))
    import random as _r
    sh = idx[:]; _r.Random(1234).shuffle(sh)
    for name, order in (("reversed-order", idx[::-1]), ("shuffled-order", sh)):
        res = core.run_impl(IMPL_MODULE, [pairs[i] for i in order], {"PYTHONHASHSEED": "77"})
        back = [None] * len(pairs)
        for pos, i in enumerate(order): back[i] = res[pos]
        runs[name] = back
    ref_name = "hashseed=0"; ref = runs[ref_name]
    violations, nontrivial = [], []
    for i, c in enumerate(cases):
        o = ref[i]
        if isinstance(o, str) and (o.startswith("MUTATED-ARGUMENT") or o.startswith("REPEAT-DIFFERS") or o == "OBJECT-CHANGED" or o.startswith("!EXC") or o.startswith("HISTORY-DEPENDENT")):
            violations.append({"kind": "failing-input", "why": "call battery: " + o[:60], "case": c.to_json(), "impl": o, "model": None, "extra": {"cases": [c.to_json()]}})
            continue
        if not (isinstance(o, str) and o.startswith("E")): nontrivial.append(c.key())
        for name, res in runs.items():
            if res[i] != o:
                violations.append({"kind": "failing-input", "why": "result differs between runs (%s vs %s)" % (ref_name, name), "case": c.to_json(), "impl": {ref_name: o, name: res[i]},
                                   "model": None, "extra": {"cases": [c.to_json()]}})
                break
    # operation sequences on a shared object: the same multiset of operations in another order must give the same answers
    groups = {}
    for i, c in enumerate(cases):
        if c.cmd in ("det.shared", "det.shared.spec"):
            k = (c.args[0], json.dumps(sorted(json.loads(c.args[1]), key=json.dumps)))
            groups.setdefault(k, []).append(i)
    for k, ids in groups.items():
        outs = {ref[i] for i in ids}
        if len(outs) > 1:
            violations.append({"kind": "failing-input", "why": "answers of a shared SpecifierSet depend on the order of earlier calls", "case": cases[ids[0]].to_json(),
                               "impl": sorted(outs), "model": None, "extra": {"cases": [cases[i].to_json() for i in ids]}})
    return {"violations": violations, "streams": {"battery x %d process runs" % len(runs): len(cases)}, "evaluations": len(cases) * len(runs), "nontrivial": nontrivial,
            "samples": [{"cmd": c.cmd, "args": c.args, "impl": ref[i]} for i, c in list(enumerate(cases))[:6]]}
