"""C15 Interpreter tag sequences are complete, duplicate-free and priority ordered."""
from core import Case

IMPL_MODULE = "tags_impl"
RULE = ("python_version tuples (1-3 components; 2.x, 3.0-3.40, 4.x, boundary minors 0,1,2,3,7,8,12,13) x ABI lists (0-5 items drawn from "
        "cpXY[t][d][m][u], abi3, none, foreign names; with and without repeats, mixed case, case variants of one name) x platform lists (0-5, with repeats, 'any', case variants; "
        "0 = fall back to the detected platforms of a steered generic / Darwin system); python_version / abis / interpreter not given; "
        "interpreter configurations (Py_DEBUG, Py_GIL_DISABLED, WITH_PYMALLOC, Py_UNICODE_SIZE in {unset,0,1,2,4}, gettotalrefcount, _d.pyd, "
        "maxunicode) for the default ABI; EXT_SUFFIX forms for generic interpreters; whole sys_tags() for steered interpreters on generic, Darwin and "
        "Linux (glibc) systems with many detected platforms, and its decomposition law on the real objects; "
        "non-trivial = a non-empty tag sequence; distinct by input")
ASSUMPTIONS = [
    "Tag() lower-cases with str.lower(): the model uses the exact table (NamesX.lower_full, tied to the interpreter by C13's n.lower stream); the "
    "free-threading test uses the exact Unicode digit class; both tables are generated from the interpreter running the check (harness/tables*.py)",
    "'no repeats in the inputs' is read on the Tag level: the ABI list and the platform list have no repeats AFTER lower-casing (Tag() lower-cases "
    "its parts, so 'P' and 'p' are the same platform), and no explicit ABI is a differently-cased spelling of abi3/none (the code removes / looks "
    "for the exact lower-case text): cpython_tags((3,9),['ABI3'],['p']) does repeat cp39-abi3-p (theorem C15_case_induced_repeats); judgement call, "
    "reported to the lead, not registered as a finding",
    "an empty platform *list* (or None) falls back to the detected platforms; an empty one-shot *iterator* is truthy and yields no tags - not generated",
    "sys_tags() NoDup additionally needs: the interpreter tag <name><version> is not one of the py* tags (sys.implementation.name == 'python' "
    "repeats py312-none-<plat>: theorem C15_sys_tags_python_repeats) and EXT_SUFFIX does not spell the ABI 'none' in another case",
    "'never for free-threaded ABIs' is the code's reading: the FIRST remaining explicit ABI, raw text, any 't' after the digits "
    "(C15_threaded_spec, C15_first_abi_only_counterexample, C15_threaded_raw_text)",
    "the ABI config variables are None or ints (as CPython's sysconfig reports them); py_version_nodot is None, a str or an int; EXT_SUFFIX is a str starting with '.' or None "
    "(the empty string makes _generic_abi fail with IndexError: outside the generated domain, visible as GCrash in the model)",
    "NoDup theorems need: no repeated ABI / platform in the caller's lists, 'any' not a platform, interpreter not one of the py* tags "
    "(with platforms=['any'] the real code repeats py3-none-any; forced by the proof, generators for the law cases respect it)",
    "python_version components are non-negative ints",
]
TRUSTED_EXTRA = ["sysconfig / sys / platform / importlib.machinery are steered by assignment from harness/impl/tags_impl.py; "
                 "the detected platform list (platform_tags()) is a parameter of the sys_tags model"]

VERS = ["2.7", "3", "2", "3.0", "3.1", "3.2", "3.3", "3.4", "3.7", "3.8", "3.9", "3.12", "3.13", "3.14", "3.30", "4.0", "4.2", "4.1", "3.11.4", "3.2.0",
        "3.1.9", "3.13.0", "31.1", "3.111", "0.5", "1", "10", "3.40", "2.0", "3.10", "3.21"]
PLATS = ["linux_x86_64", "manylinux1_x86_64", "manylinux_2_17_x86_64", "win32", "win_amd64", "macosx_10_9_x86_64", "plat_a", "plat_b", "any", "p", "Linux_X86_64"]


def rand_pv(rng):
    if rng.random() < 0.7: return rng.choice(VERS)
    n = rng.choice([1, 2, 2, 2, 3])
    return ".".join(str(rng.choice([0, 1, 2, 3, 3, 3, 4, rng.randrange(0, 45)])) for _ in range(n))


def abi_pool(rng, v):
    parts = v.split(".")
    nd = "".join(parts[:2])
    other = parts[0] + str(rng.randrange(0, 20))
    pool = ["cp" + nd, "cp%sm" % nd, "cp%sd" % nd, "cp%st" % nd, "cp%std" % nd, "cp%sdmu" % nd, "cp%smu" % nd, "abi3", "none", "foo", "cp" + other + "t",
            "cpt", "cp", "CP%sT" % nd, "cp%s\nt" % nd, "cp%s_t" % nd, "tcp%s" % nd, "pypy39_pp73", "ABI3", "None", "cp%sx\nyt" % nd, "", "abi3t", "xcp3t"]
    return pool


def rand_list(rng, pool, sizes, rep_p=0.15):
    n = rng.choice(sizes)
    if rng.random() < rep_p: l = [rng.choice(pool) for _ in range(n)]
    else: l = rng.sample(pool, min(n, len(pool)))
    return l


def enc_list(l):
    return "".join("," + x for x in l)


SYSVERS = ["3.12", "3.7", "3.13", "2.7", "3.8", "3.2", "3.1", "3.14", "3.0", "3.3", "4.1"]


def rand_det(rng, mac_only=False):
    """how the detected platform list is steered: 'G<get_platform>' (one platform) | 'D<mac release>;<cpu>' (many)"""
    if not mac_only and rng.random() < 0.5:
        return "G" + rng.choice(["freebsd-13.2-amd64", "win-amd64", "win32", "solaris-2.11-sun4v.64bit", "generic", "aix 7.2-ppc", "Weird-OS.1"])
    if rng.random() < 0.6: ver = "10.%d" % rng.choice([0, 3, 4, 5, 6, 7, 9])
    else: ver = "%d.%d" % (rng.choice([11, 12, 13]), rng.choice([0, 3]))
    return "D%s%s;%s" % (ver, rng.choice(["", "", ".1"]), rng.choice(["arm64", "arm64", "x86_64", "ppc", "i386", "riscv"]))


def rand_cfg(rng):
    o = lambda vals: rng.choice(vals)
    return ",".join([o(["N", "N", "0", "1", "2"]), o(["N", "0", "1", "1"]), o(["N", "0", "1"]), o(["N", "N", "2", "4", "0", "8", "1"]),
                     o("TF"), o("TFF"), o("TF")])


EXTS = [".cpython-310-x86_64-linux-gnu.so", ".cpython-310-darwin.so", ".cp310-win_amd64.pyd", ".pyd", ".so", ".pypy38-pp73-x86_64-linux-gnu.so",
        ".graalpy-38-native-x86_64-darwin.dylib", ".graalpy-38.so", ".pyston-23-x86_64-linux-gnu.so", ".ironpython 2.7.so", "..so", ".abi3.so",
        ".cpython-313t-x86_64-linux-gnu.so", ".cp313t-win32.pyd", ".pypy310-pp73.so", ".pypy.x.so", ".graalpy.so", ".cpython-3.12-x.y.so", ".cp.so",
        ".cpy-1.so", ".a-b c.d.so", ".a.b.c.d", "so", "x.y.z", ".cpython.so", ".cpython-.so", ".pypy-.so", ".-.so", ". .so"]


def rand_ext(rng):
    r = rng.random()
    if r < 0.08: return "N"
    e = rng.choice(EXTS)
    if rng.random() < 0.15:
        e = list(e); i = rng.randrange(len(e) + 1)
        if rng.random() < 0.5 and e: del e[min(i, len(e) - 1)]
        else: e.insert(i, rng.choice(".-_ cpy3"))
        e = "".join(e)
    if e == "": e = ".so"          # EXT_SUFFIX == "" is outside the domain (IndexError), see ASSUMPTIONS
    return "S" + e


def streams(rng, tier):
    q = tier == "quick"
    out = []
    n = 4000 if q else 60000
    for _ in range(n):
        v = rand_pv(rng)
        abis = rand_list(rng, abi_pool(rng, v), [0, 1, 1, 2, 3, 5])
        ps = rand_list(rng, PLATS, [1, 1, 2, 3, 5] if q else [1, 1, 2, 3, 5, 8, 11])
        out.append(Case("cpython", "t.cpython", [v, enc_list(abis), enc_list(ps), rand_cfg(rng)]))
        interp = rng.choice(["", "", "cp" + "".join(v.split(".")[:2]), "pp3", "ip27", "py3", "py" + "".join(v.split(".")[:2]), "CP39"])
        out.append(Case("compatible", "t.compat", [v, interp, enc_list(ps)]))
        gi = rng.choice(["pp39", "ip27", "jy27", "graalpy240", "PP310", "x"])
        out.append(Case("generic", "t.generic", [gi, enc_list(abis), enc_list(ps)]))
        # law cases: any case (Tag() lower-cases), repeats included; only '-' inside an ABI is excluded (the law splits tag text on '-')
        la = [a for a in abis if "-" not in a]
        out.append(Case("law-shape", "law.t.shape", [v, enc_list(la), enc_list(ps), interp], kind="law"))
    # case variants: the same ABI / platform spelled in two cases, upper-case abi3 / none, upper-case free-threaded ABIs
    for _ in range(400 if q else 8000):
        v = rand_pv(rng); nd = "".join(v.split(".")[:2])
        pool = ["cp" + nd, "CP" + nd, "cp%st" % nd, "CP%sT" % nd, "Cp%sT" % nd, "abi3", "ABI3", "Abi3", "none", "NONE", "None", "foo", "FOO", "cp%sm" % nd,
                "cp\u0663t", "cp%s\u0663t" % nd, "cp\u0663", "cp\uff13t", "\u212a", "k", "K", "cp%s\u212a" % nd, "cp%sk" % nd, "\u03a3", "a\u03a3", "\u0130x", "i\u0307x"]
        abis = rand_list(rng, pool, [1, 2, 2, 3, 4])
        ps = rand_list(rng, ["p", "P", "linux_x86_64", "Linux_X86_64", "LINUX_X86_64", "any", "ANY", "Any", "q", "\u212a", "k", "K", "plat_\u212a", "plat_k",
                             "\u0130", "i\u0307", "\u03a3\u03a3", "stra\u00dfe"], [1, 2, 3])
        interp = rng.choice(["", "cp" + nd, "PY3", "Py" + nd, "py" + nd, "pp3", "PP3", "py" + v.split(".")[0] + "0", "\u212ay3"])
        out.append(Case("case-variants", "t.cpython", [v, enc_list(abis), enc_list(ps), rand_cfg(rng)]))
        out.append(Case("case-variants", "t.generic", [rng.choice(["pp39", "PP39"]), enc_list(abis), enc_list(ps)]))
        out.append(Case("law-shape", "law.t.shape", [v, enc_list(abis), enc_list(ps), interp], kind="law"))
    # the default arguments: python_version / abis / platforms / interpreter not given -> running interpreter and detected platforms
    for _ in range(700 if q else 15000):
        v = rand_pv(rng) if rng.random() < 0.6 else ""
        sv = rng.choice(SYSVERS)
        abis = rand_list(rng, abi_pool(rng, v or sv), [0, 1, 1, 2, 3])
        ps = rand_list(rng, PLATS, [0, 0, 0, 1, 2])
        det = rand_det(rng)
        out.append(Case("cpython-defaults", "t.cpythond", [v, "?" if rng.random() < 0.5 else enc_list(abis), enc_list(ps), rand_cfg(rng), sv, det]))
        interp = rng.choice(["", "", "cp" + "".join((v or sv).split(".")[:2]), "pp3", "py3"])
        out.append(Case("compatible-defaults", "t.compatd", [v, interp, enc_list(ps), sv, det]))
        gi = rng.choice(["", "", "", "pp39", "x"])
        name = rng.choice(["cpython", "pypy", "ironpython", "jython", "python", "graalpy", "pyston"])
        nodot = rng.choice(["N", "N", "S" + sv.replace(".", ""), "S", "S39", "I" + sv.replace(".", ""), "I0", "I27"])
        out.append(Case("generic-defaults", "t.genericd", [gi, enc_list(abis), enc_list(ps), name, nodot, sv, det]))
    # repeated abi3 / none entries (list.remove drops only the first occurrence)
    for _ in range(200 if q else 5000):
        v = rand_pv(rng)
        abis = [rng.choice(["abi3", "none", "abi3", "none", "cp" + "".join(v.split(".")[:2]), "cp%st" % "".join(v.split(".")[:2])]) for _ in range(rng.choice([2, 3, 4]))]
        ps = rand_list(rng, PLATS, [1, 2])
        out.append(Case("cpython-repeats", "t.cpython", [v, enc_list(abis), enc_list(ps), rand_cfg(rng)]))
        out.append(Case("generic-repeats", "t.generic", ["pp310", enc_list(abis), enc_list(ps)]))
    # default ABI: every config combination on boundary versions (bounded-exhaustive in the quick tier over a reduced value set)
    vals3 = ["N", "0", "1"]
    bvers = ["2.7", "3.2", "3.3", "3.7", "3.8", "3.12", "3.13", "3.14", "3", "4.0", "3.2.5", "3.13.1", "3.7.9", "2.7.18"]
    combos = [(d, g, p, u, r, e, w) for d in vals3 for g in vals3 for p in vals3 for u in ["N", "2", "4", "8"] for r in "TF" for e in "TF" for w in "TF"]
    if q: combos = rng.sample(combos, 160)
    for c in combos:
        for v in (bvers if not q else rng.sample(bvers, 5)):
            out.append(Case("default-abi", "t.cpython", [v, "?", ",plat", ",".join(c)]))
    for _ in range(600 if q else 15000):
        out.append(Case("default-abi", "t.cpython", [rand_pv(rng), "?", enc_list(rand_list(rng, PLATS, [1, 2])), rand_cfg(rng)]))
    # generic ABI from EXT_SUFFIX
    for _ in range(800 if q else 20000):
        sv = rng.choice(["3.12", "3.7", "3.13", "2.7", "3.8", "3.2"])
        out.append(Case("generic-abi", "t.gabi", [rand_ext(rng), rand_cfg(rng), sv]))
    for e in EXTS:
        out.append(Case("generic-abi", "t.gabi", ["S" + e, "N,N,N,N,F,F,T", "3.7"]))
    # whole sys_tags() for a steered interpreter on a generic platform
    for _ in range(700 if q else 20000):
        name = rng.choice(["cpython", "cpython", "cpython", "pypy", "ironpython", "jython", "python", "graalpy", "pyston", "cp", "pp"])
        sv = rng.choice(["3.12", "3.7", "3.13", "2.7", "3.8", "3.2", "3.1", "3.14", "3.0", "3.3", "4.1"])
        nodot = rng.choice(["N", "N", "S" + sv.replace(".", ""), "S", "S39", "S313"])
        plat = rng.choice(["freebsd-13.2-amd64", "win-amd64", "win32", "solaris-2.11-sun4v.64bit", "generic", "aix 7.2-ppc", "openbsd-7.4-amd64"])
        out.append(Case("sys-tags", "t.sys", [name, nodot, sv, rand_ext(rng), rand_cfg(rng), plat]))
    # whole sys_tags() over a detected platform list with several entries (Darwin), and its laws on the real objects (Linux, Darwin)
    for _ in range(150 if q else 4000):
        name = rng.choice(["cpython", "cpython", "cpython", "pypy", "ironpython", "python", "graalpy", "pp"])
        sv = rng.choice(SYSVERS)
        nodot = rng.choice(["N", "N", "S" + sv.replace(".", ""), "S", "S39", "I" + sv.replace(".", ""), "I0"])
        out.append(Case("sys-tags-platforms", "t.sysp", [name, nodot, sv, rand_ext(rng), rand_cfg(rng), rand_det(rng, mac_only=True)]))
    for _ in range(120 if q else 3000):
        name = rng.choice(["cpython", "cpython", "cpython", "pypy", "ironpython", "jython", "python", "graalpy", "pyston"])
        sv = rng.choice(SYSVERS)
        nodot = rng.choice(["N", "N", "S" + sv.replace(".", ""), "S", "S39"])
        r = rng.random()
        if r < 0.45: spec = "L%d.%d;%s" % (2, rng.choice([5, 12, 17, 18, 24, 28]), rng.choice(["x86_64", "aarch64", "armv8l", "s390x"]))
        elif r < 0.9: spec = rand_det(rng, mac_only=True)
        else: spec = rand_det(rng)
        out.append(Case("law-sys", "law.t.sys", [name, nodot, sv, rand_ext(rng), rand_cfg(rng), spec], kind="law"))
    return out


def nontrivial(c, i):
    return c.kind == "law" or (isinstance(i, str) and i not in ("", "E") and not i.startswith("!"))
