"""C15 Interpreter tag sequences are complete, duplicate-free and priority ordered."""
from core import Case

IMPL_MODULE = "tags_impl"
RULE = ("python_version tuples (1-3 components; 2.x, 3.0-3.40, 4.x, boundary minors 0,1,2,3,7,8,12,13) x ABI lists (0-5 items drawn from "
        "cpXY[t][d][m][u], abi3, none, foreign names; with and without repeats, mixed case) x platform lists (1-5, with repeats, 'any'); "
        "interpreter configurations (Py_DEBUG, Py_GIL_DISABLED, WITH_PYMALLOC, Py_UNICODE_SIZE in {unset,0,1,2,4}, gettotalrefcount, _d.pyd, "
        "maxunicode) for the default ABI; EXT_SUFFIX forms for generic interpreters; whole sys_tags() for steered interpreters; "
        "non-trivial = a non-empty tag sequence; distinct by input")
ASSUMPTIONS = [
    "inputs are ASCII; Tag() lower-cases with str.lower(), modelled for ASCII only",
    "config variables are None or ints (as CPython's sysconfig reports them); EXT_SUFFIX is a str starting with '.' or None "
    "(the empty string makes _generic_abi fail with IndexError: outside the generated domain, visible as GCrash in the model)",
    "NoDup theorems need: no repeated ABI / platform in the caller's lists, 'any' not a platform, interpreter not one of the py* tags "
    "(with platforms=['any'] the real code repeats py3-none-any; forced by the proof, generators for the law cases respect it)",
    "python_version components are non-negative ints",
]
TRUSTED_EXTRA = ["sysconfig / sys / platform / importlib.machinery are steered by assignment from harness/impl/tags_impl.py; "
                 "the detected platform list (platform_tags()) is a parameter of the sys_tags model"]

VERS = ["2.7", "3", "2", "3.0", "3.1", "3.2", "3.3", "3.4", "3.7", "3.8", "3.9", "3.12", "3.13", "3.14", "3.30", "4.0", "4.2", "4.1", "3.11.4", "3.2.0",
        "3.1.9", "3.13.0", "31.1", "3.111", "0.5", "1", "10", "3.40", "2.0", "3.10", "3.21"]
PLATS = ["linux_x86_64", "manylinux1_x86_64", "manylinux_2_17_x86_64", "win32", "win_amd64", "macosx_10_9_x86_64", "plat_a", "plat_b", "any", "p", "Linux_X86_64"]


def rand_pv(rng):
    if rng.random() < 0.7: return rng.choice(VERS)
    n = rng.choice([1, 2, 2, 2, 3])
    return ".".join(str(rng.choice([0, 1, 2, 3, 3, 3, 4, rng.randrange(0, 45)])) for _ in range(n))


def abi_pool(rng, v):
    parts = v.split(".")
    nd = "".join(parts[:2])
    other = parts[0] + str(rng.randrange(0, 20))
    pool = ["cp" + nd, "cp%sm" % nd, "cp%sd" % nd, "cp%st" % nd, "cp%std" % nd, "cp%sdmu" % nd, "cp%smu" % nd, "abi3", "none", "foo", "cp" + other + "t",
            "cpt", "cp", "CP%sT" % nd, "cp%s\nt" % nd, "cp%s_t" % nd, "tcp%s" % nd, "pypy39_pp73", "ABI3", "None", "cp%sx\nyt" % nd, "", "abi3t", "xcp3t"]
    return pool


def rand_list(rng, pool, sizes, rep_p=0.15):
    n = rng.choice(sizes)
    if rng.random() < rep_p: l = [rng.choice(pool) for _ in range(n)]
    else: l = rng.sample(pool, min(n, len(pool)))
    return l


def enc_list(l):
    return "".join("," + x for x in l)


def rand_cfg(rng):
    o = lambda vals: rng.choice(vals)
    return ",".join([o(["N", "N", "0", "1", "2"]), o(["N", "0", "1", "1"]), o(["N", "0", "1"]), o(["N", "N", "2", "4", "0", "8", "1"]),
                     o("TF"), o("TFF"), o("TF")])


EXTS = [".cpython-310-x86_64-linux-gnu.so", ".cpython-310-darwin.so", ".cp310-win_amd64.pyd", ".pyd", ".so", ".pypy38-pp73-x86_64-linux-gnu.so",
        ".graalpy-38-native-x86_64-darwin.dylib", ".graalpy-38.so", ".pyston-23-x86_64-linux-gnu.so", ".ironpython 2.7.so", "..so", ".abi3.so",
        ".cpython-313t-x86_64-linux-gnu.so", ".cp313t-win32.pyd", ".pypy310-pp73.so", ".pypy.x.so", ".graalpy.so", ".cpython-3.12-x.y.so", ".cp.so",
        ".cpy-1.so", ".a-b c.d.so", ".a.b.c.d", "so", "x.y.z", ".cpython.so", ".cpython-.so", ".pypy-.so", ".-.so", ". .so"]


def rand_ext(rng):
    r = rng.random()
    if r < 0.08: return "N"
    e = rng.choice(EXTS)
    if rng.random() < 0.15:
        e = list(e); i = rng.randrange(len(e) + 1)
        if rng.random() < 0.5 and e: del e[min(i, len(e) - 1)]
        else: e.insert(i, rng.choice(".-_ cpy3"))
        e = "".join(e)
    if e == "": e = ".so"          # EXT_SUFFIX == "" is outside the domain (IndexError), see ASSUMPTIONS
    return "S" + e


def streams(rng, tier):
    q = tier == "quick"
    out = []
    n = 4000 if q else 60000
    for _ in range(n):
        v = rand_pv(rng)
        abis = rand_list(rng, abi_pool(rng, v), [0, 1, 1, 2, 3, 5])
        ps = rand_list(rng, PLATS, [1, 1, 2, 3, 5])
        out.append(Case("cpython", "t.cpython", [v, enc_list(abis), enc_list(ps), rand_cfg(rng)]))
        interp = rng.choice(["", "", "cp" + "".join(v.split(".")[:2]), "pp3", "ip27", "py3", "py" + "".join(v.split(".")[:2]), "CP39"])
        out.append(Case("compatible", "t.compat", [v, interp, enc_list(ps)]))
        gi = rng.choice(["pp39", "ip27", "jy27", "graalpy240", "PP310", "x"])
        out.append(Case("generic", "t.generic", [gi, enc_list(abis), enc_list(ps)]))
        # law cases stay inside the domain of the NoDup theorems' side conditions except for repeats
        la = [a for a in abis if a == a.lower() and "-" not in a]
        lp = [p for p in ps if p == p.lower()]
        if lp:
            out.append(Case("law-shape", "law.t.shape", [v, enc_list(la), enc_list(lp), interp.lower()], kind="law"))
    # repeated abi3 / none entries (list.remove drops only the first occurrence)
    for _ in range(200 if q else 5000):
        v = rand_pv(rng)
        abis = [rng.choice(["abi3", "none", "abi3", "none", "cp" + "".join(v.split(".")[:2]), "cp%st" % "".join(v.split(".")[:2])]) for _ in range(rng.choice([2, 3, 4]))]
        ps = rand_list(rng, PLATS, [1, 2])
        out.append(Case("cpython-repeats", "t.cpython", [v, enc_list(abis), enc_list(ps), rand_cfg(rng)]))
        out.append(Case("generic-repeats", "t.generic", ["pp310", enc_list(abis), enc_list(ps)]))
    # default ABI: every config combination on boundary versions (bounded-exhaustive in the quick tier over a reduced value set)
    vals3 = ["N", "0", "1"]
    bvers = ["2.7", "3.2", "3.3", "3.7", "3.8", "3.12", "3.13", "3.14", "3", "4.0", "3.2.5", "3.13.1", "3.7.9", "2.7.18"]
    combos = [(d, g, p, u, r, e, w) for d in vals3 for g in vals3 for p in vals3 for u in ["N", "2", "4", "8"] for r in "TF" for e in "TF" for w in "TF"]
    if q: combos = rng.sample(combos, 160)
    for c in combos:
        for v in (bvers if not q else rng.sample(bvers, 5)):
            out.append(Case("default-abi", "t.cpython", [v, "?", ",plat", ",".join(c)]))
    for _ in range(600 if q else 15000):
        out.append(Case("default-abi", "t.cpython", [rand_pv(rng), "?", enc_list(rand_list(rng, PLATS, [1, 2])), rand_cfg(rng)]))
    # generic ABI from EXT_SUFFIX
    for _ in range(800 if q else 20000):
        sv = rng.choice(["3.12", "3.7", "3.13", "2.7", "3.8", "3.2"])
        out.append(Case("generic-abi", "t.gabi", [rand_ext(rng), rand_cfg(rng), sv]))
    for e in EXTS:
        out.append(Case("generic-abi", "t.gabi", ["S" + e, "N,N,N,N,F,F,T", "3.7"]))
    # whole sys_tags() for a steered interpreter on a generic platform
    for _ in range(700 if q else 20000):
        name = rng.choice(["cpython", "cpython", "cpython", "pypy", "ironpython", "jython", "python", "graalpy", "pyston", "cp", "pp"])
        sv = rng.choice(["3.12", "3.7", "3.13", "2.7", "3.8", "3.2", "3.1", "3.14", "3.0", "3.3", "4.1"])
        nodot = rng.choice(["N", "N", "S" + sv.replace(".", ""), "S", "S39", "S313"])
        plat = rng.choice(["freebsd-13.2-amd64", "win-amd64", "win32", "solaris-2.11-sun4v.64bit", "generic", "aix 7.2-ppc", "openbsd-7.4-amd64"])
        out.append(Case("sys-tags", "t.sys", [name, nodot, sv, rand_ext(rng), rand_cfg(rng), plat]))
    return out


def nontrivial(c, i):
    return c.kind == "law" or (isinstance(i, str) and i not in ("", "E") and not i.startswith("!"))
