"""C09 Marker string form is canonical and round-trips."""
import copy, json
import core
from core import Case
import gen
import gen_marker as G

IMPL_MODULE = "marker_impl"
RULE = ("random PEP 508 formula trees (depth <= 4 quick / <= 9 thorough; 'extra' comparisons at every position and on either side; literals "
        "containing either quote character; redundant and doubled parentheses) rendered in random layouts: str(Marker) against the model's "
        "canonical text; pairs of layouts / extra-name spellings / outer parentheses of one tree (must be equal, hash alike, print alike, "
        "evaluate alike); pairs of a tree and a structurally perturbed tree (== must be str equality, as the model computes it); the round "
        "trip law Marker(str(m)) == m with equal str, hash and evaluation under sampled environments; Requirement('pkg ; ' + s).marker "
        "against Marker(s) - also behind extras, version clauses (bare / parenthesised), a URL, and with a trailing newline; extra comparisons "
        "placed 1..6 (thorough: ..12) groups deep, respelled (must stay equal) or changed to another name (must become unequal); markers nested "
        "50..300 parentheses deep; a trailing newline; non-ASCII word characters next to keywords; mutated texts.  non-trivial = accepted by Marker; distinct by text (pair)")
ASSUMPTIONS = [
    "quoted strings containing a backslash are outside the modelled domain (ast.literal_eval is an oracle; the backslash is not a PEP 508 "
    "string character): the model answers '?' and only 'no foreign exception' is checked there",
    "a literal holds at most one of the two quote characters (a PEP 508 quoted string cannot contain its own delimiter)",
    "canonicalize_name beyond ASCII: the name model lowers ASCII letters, U+0130 and U+212A only; generated marker texts keep other non-ASCII "
    "cased letters (gen_marker.UNI_WORD: E-acute, capital sigma ...) out of quoted literals, where they would be compared with extra",
    "hash(): only 'equal markers hash alike' is observed",
]
TRUSTED_EXTRA = [
    "ast.literal_eval on a quoted token without backslash = its body, failing exactly on NUL/LF/CR (re-checked by the law 'law.k.literaleval': code points below U+3000 in the quick tier, all of them in the thorough tier)",
    "C09_trailing_newline / C09_requirement_marker_* are stated over the strict parser MText.parse_marker (END at the very end), which the marker "
    "commands do not run (they run parse_marker_nl); it is the parser the requirement model (C08 check) runs. The streams newline and "
    "law-req-prefix sample the statements on the real objects",
]


def compare(case, impl, model):
    if model == "?":
        return None if impl in ("T", "F", "I") or impl.startswith("S") else "foreign result outside the modelled domain: %s" % impl
    return None if impl == model else "implementation differs from model"


def nontrivial(case, impl):
    return case.kind == "law" or impl != "I"


DEEP_MIN = 480        # see c07.DEEP_MIN


def paren_depth(s):
    d = m = 0
    q = None
    for c in s:
        if q: q = None if c == q else q
        elif c in "'\"": q = c
        elif c == "(": d += 1; m = max(m, d)
        elif c == ")": d -= 1
    return m


def match_deep_nesting(case, impl, model):
    """Proposed known finding ('any nesting depth'): a well-formed marker nested deeper than the interpreter's recursion limit allows makes
    Marker() / str() / Requirement() raise RecursionError.  Instance = nesting depth >= DEEP_MIN, the implementation raised RecursionError, and
    the model (where there is one) accepted the text."""
    if impl != "!EXC:RecursionError": return False
    if case.cmd not in ("k.str", "k.eq", "law.k.deep", "law.k.roundtrip", "law.k.req"): return False
    if max(paren_depth(a) for a in case.args[:2 if case.cmd == "k.eq" else 1]) < DEEP_MIN: return False
    return model is None or model in ("T", "F") or model.startswith("S")


def _registered(name):
    return any(f["matcher"] == name for f in core.load_findings("C09"))


def other_name(rng, v):
    """a name with a different PEP 503 normal form, close to v"""
    k = rng.random()
    if k < 0.3: return v + rng.choice(["x", "0", "-a"])
    if k < 0.5 and len(v) > 1: return v[:-1]
    if k < 0.7: return v.replace("-", "").replace("_", "").replace(".", "") + "q"
    return "x" + v


def change_extra_names(rng, f, fn):
    """f with fn applied to the literal of every comparison with extra"""
    if f[0] == "atom":
        _, l, op, r = f
        if ("var", "extra") in (l, r):
            l2 = ("lit", fn(rng, l[1])) if l[0] == "lit" else l
            r2 = ("lit", fn(rng, r[1])) if r[0] == "lit" else r
            return ("atom", l2, op, r2)
        return f
    if f[0] == "paren": return ("paren", change_extra_names(rng, f[1], fn))
    return (f[0], [change_extra_names(rng, g, fn) for g in f[1]])


def perturb(rng, f):
    """a tree that differs from f in one place: connective, operator, operand, literal, or grouping"""
    g = copy.deepcopy(f)
    k = rng.random()
    ats = G.atoms_of(g)

    def to_lists(x):
        if x[0] == "atom": return list(x)
        if x[0] == "paren": return ["paren", to_lists(x[1])]
        return [x[0], [to_lists(y) for y in x[1]]]

    def to_tuples(x):
        if x[0] == "atom": return tuple(x)
        if x[0] == "paren": return ("paren", to_tuples(x[1]))
        return (x[0], [to_tuples(y) for y in x[1]])

    t = to_lists(g)

    def all_atoms(x, acc):
        if x[0] == "atom": acc.append(x)
        elif x[0] == "paren": all_atoms(x[1], acc)
        else:
            for y in x[1]: all_atoms(y, acc)
        return acc

    def all_ors(x, acc):
        if x[0] == "or":
            acc.append(x)
            for c in x[1]:
                for p in c[1]: all_ors(p, acc)
        elif x[0] == "paren": all_ors(x[1], acc)
        return acc

    al = all_atoms(t, [])
    a = rng.choice(al)
    if k < 0.25:
        a[2] = rng.choice([o for o in G.OPS if o != a[2]])
    elif k < 0.45:
        a[1], a[3] = a[3], a[1]
    elif k < 0.7:
        i = rng.choice([1, 3])
        if a[i][0] == "lit": a[i] = ("lit", G.respell_name(rng, a[i][1]) if rng.random() < 0.5 else a[i][1] + rng.choice(["x", "-", " ", "."]))
        else: a[i] = ("var", rng.choice(G.VARS))
    else:
        # regroup: merge two conjunctions of an or-list into one (a or b  ->  a and b), or split one
        o = rng.choice(all_ors(t, []))
        if len(o[1]) > 1 and rng.random() < 0.6:
            i = rng.randrange(len(o[1]) - 1)
            o[1][i][1].extend(o[1][i + 1][1]); del o[1][i + 1]
        else:
            c = rng.choice(o[1])
            if len(c[1]) > 1:
                j = rng.randrange(1, len(c[1]))
                o[1].insert(o[1].index(c) + 1, ["and", c[1][j:]]); del c[1][j:]
            else:
                c[1][0] = ["paren", ["or", [["and", [c[1][0], a]]]]]
    return to_tuples(t)


FIXED = [
    '((os_name == "a" or os_name == "b")) and os_name == "c"',
    '(((os_name == "a")))', '((os_name == "a")) or ((os_name == "b"))', '(os_name == "a" or os_name == "b") and os_name == "c"',
    'os_name == "a" and (os_name == "b" and os_name == "c")', 'os_name == "a" and (os_name == "b" or (os_name == "c"))',
    'os_name == "a" and extra == "Foo_Bar"', 'os_name == "a" and (sys_platform == "b" or "FOO..bar" == extra)',
    "os_name == 'a\"b'", 'os_name == "a\'b"', "os_name == ''", 'extra >= "foo.bar"', '((extra >= \'foo.bar\'))', 'extra == extra', 'extra == os_name',
    'os.name == "a"', 'python_implementation == "CPython" and platform.python_implementation != "x" and platform.machine in "y" and sys.platform not in "z" and platform.version === "1"',
    '"a" == "a"', "'a\"' in os_name", 'os_name  not   in\t"a"', 'os_name == "a"\n', ' os_name == "a" ', 'os_name=="a"and"b"!=os_name', 'os_name == "a"or os_name == "b"',
    'os_name == "a" and', '', '()', '(os_name == "a"', 'os_name == "a")', 'os_name = "a"', 'os_name == a', 'os_nam == "a"', 'os_name == "a" and and os_name == "b"',
    'os_name not "a"', 'os_name notin "a"', 'os_name in"a"', 'os_name in os_name', 'extra == "a\\\\b"', 'extra == "a\\"', 'os_name == "a\x00"', 'os_name == "a\rb"',
    'os_name == "a" or', 'or os_name == "a"', 'os_name == "a" os_name == "b"', 'os_name=="a"andos_name=="b"', 'extra=="A_B"or"C.D"==extra',
]


def streams(rng, tier):
    q = tier == "quick"
    maxd = 4 if q else 9
    out = []
    for s in FIXED:
        out.append(Case("fixed", "k.str", [s]))
        out.append(Case("law-roundtrip", "law.k.roundtrip", [s, json.dumps(G.rand_env(rng))], kind="law"))
        out.append(Case("law-req", "law.k.req", [s], kind="law"))
    for _ in range(4000 if q else 100000):
        f = G.rand_expr(rng, rng.randrange(maxd + 1) if rng.random() < 0.8 else maxd)
        outer = rng.choice([0, 0, 0, 1, 2])
        s = G.render(rng, f, outer=outer)
        out.append(Case("str", "k.str", [s]))
        envs = [json.dumps(G.env_for(rng, f)) for _ in range(rng.choice([1, 2, 3]))]
        if rng.random() < 0.6:
            out.append(Case("law-roundtrip", "law.k.roundtrip", [s] + envs, kind="law"))
        k = rng.random()
        if k < 0.45:
            s2 = G.render(rng, f, extra_spelling=True, outer=rng.choice([0, 1, 3]))
            out.append(Case("eq-variants", "k.eq", [s, s2]))
            out.append(Case("law-variants", "law.k.variants", [s, s2] + envs, kind="law"))
        elif k < 0.55:
            s2 = G.render(rng, f, canonical=True)
            out.append(Case("eq-variants", "k.eq", [s, s2]))
            out.append(Case("law-variants", "law.k.variants", [s, s2] + envs, kind="law"))
        elif k < 0.9:
            s2 = G.render(rng, perturb(rng, f))
            out.append(Case("eq-perturbed", "k.eq", [s, s2]))
            out.append(Case("law-distinct", "law.k.distinct", [s, s2], kind="law"))
        if rng.random() < 0.1:
            out.append(Case("law-req", "law.k.req", [s], kind="law"))
    for _ in range(1500 if q else 40000):
        f = G.rand_expr(rng, rng.randrange(3))
        s = gen.mutate(rng, G.render(rng, f), G.MUT_CH)
        out.append(Case("mutated", "k.str", [s]))
        if rng.random() < 0.3: out.append(Case("law-roundtrip", "law.k.roundtrip", [s, json.dumps(G.env_for(rng, f))], kind="law"))
        if rng.random() < 0.2: out.append(Case("law-req", "law.k.req", [s], kind="law"))
    # extra comparisons deep inside: respelled names (equal markers), changed names (unequal markers)
    for _ in range(700 if q else 15000):
        f = G.extra_at_depth(rng, rng.randrange(1, 7 if q else 13))
        s = G.render(rng, f, outer=rng.choice([0, 0, 1]))
        envs = [json.dumps(G.env_for(rng, f)) for _ in range(2)]
        f2 = change_extra_names(rng, f, G.respell_name)
        s2 = G.render(rng, f2, outer=rng.choice([0, 1, 2]))
        out.append(Case("extra-deep", "k.eq", [s, s2]))
        out.append(Case("extra-deep", "k.str", [s2]))
        out.append(Case("law-extra-deep", "law.k.variants", [s, s2] + envs, kind="law"))
        f3 = change_extra_names(rng, f, other_name)
        s3 = G.render(rng, f3)
        out.append(Case("extra-deep-changed", "k.eq", [s, s3]))
        out.append(Case("law-extra-deep", "law.k.distinct", [s, s3], kind="law"))
    # the marker of a Requirement: behind extras / version clauses / a URL, with a trailing newline
    for _ in range(900 if q else 20000):
        f = G.rand_expr(rng, rng.randrange(3)) if rng.random() < 0.8 else G.extra_at_depth(rng, rng.randrange(1, 4))
        s = G.render(rng, f)
        if rng.random() < 0.1: s = gen.mutate(rng, s, G.MUT_CH)
        out.append(Case("law-req-prefix", "law.k.req", [s, rng.choice(G.REQ_PREFIXES), rng.choice(["", "", "\n"])], kind="law"))
    # long or-lists / and-lists; one very long flat formula (length must not turn into recursion depth)
    for n in ([1300] if q else [1300, 3000, 6000]):
        f = G.long_expr(rng, n); s = G.render(rng, f)
        out.append(Case("very-long-lists", "k.str", [s]))
        out.append(Case("law-very-long-lists", "law.k.roundtrip", [s, json.dumps(G.env_for(rng, f))], kind="law"))
    for _ in range(250 if q else 6000):
        f = G.long_expr(rng, rng.randrange(4, 41))
        s = G.render(rng, f, outer=rng.choice([0, 0, 1]))
        out.append(Case("long-lists", "k.str", [s]))
        out.append(Case("law-long-lists", "law.k.roundtrip", [s, json.dumps(G.env_for(rng, f))], kind="law"))
        out.append(Case("long-lists", "k.eq", [s, G.render(rng, f, extra_spelling=True, outer=rng.choice([0, 2]))]))
    # a trailing newline: END is '$'
    for _ in range(250 if q else 6000):
        f = G.rand_expr(rng, rng.randrange(3))
        s = G.render(rng, f)
        out.append(Case("newline", "k.eq", [s, s + "\n"]))
        out.append(Case("newline", "k.str", [s + rng.choice(["\n", "\n\n", "\n ", "\r\n", " \n", "\t\n"])]))
    # deep nesting
    depths = [50, 100, 150, 200, 250, 300] + [rng.randrange(50, 301) for _ in range(4 if q else 40)]
    for n in depths:
        for t, v in G.deep_texts(rng, n):
            out.append(Case("deep", "k.str", [t]))
            out.append(Case("law-deep", "law.k.deep", [t, "T" if v else "F"], kind="law"))
            out.append(Case("law-deep", "law.k.roundtrip", [t, json.dumps({"os_name": "b"})], kind="law"))
        t = G.deep_texts(rng, n)[0][0]
        out.append(Case("law-deep", "law.k.req", [t, rng.choice(G.REQ_PREFIXES), ""], kind="law"))
    if _registered("match_deep_nesting"):
        for n in [DEEP_MIN + 20, 600, 1000, 2000]:
            for t, v in G.deep_texts(rng, n)[:3]:
                out.append(Case("deep-beyond-recursion-limit", "k.str", [t]))
                out.append(Case("deep-beyond-recursion-limit", "law.k.roundtrip", [t, json.dumps({"os_name": "b"})], kind="law"))
            out.append(Case("deep-beyond-recursion-limit", "law.k.req", [G.deep_texts(rng, n)[0][0], "pkg", ""], kind="law"))
    # non-ASCII word characters next to keywords
    for _ in range(400 if q else 10000):
        f = G.rand_expr(rng, rng.randrange(2))
        out.append(Case("unicode-boundary", "k.str", [G.unicode_adjacent(rng, G.render(rng, f))]))
    # the literal_eval oracle boundary, per code point
    if q: out.append(Case("law-literal-eval", "law.k.literaleval", ["0", str(0x3000)], kind="law"))
    else: out += [Case("law-literal-eval", "law.k.literaleval", [str(a), str(a + 0x8000)], kind="law") for a in range(0, 0x110000, 0x8000)]
    return out
