"""C06 Pre-release gating and filter() follow the PEP 440 policy."""
import os, json
from dataclasses import replace
from core import Case
import gen, gen_sets as G

IMPL_MODULE = "sets_impl"
# the iteration order of the member frozenset depends on the hash seed: vary it with the run seed (every observation must be invariant)
IMPL_ENV = {"PYTHONHASHSEED": str(int(os.environ.get("VERIF_SEED", "0") or 0) % 4294967295)}
RULE = ("operation histories on one Specifier / SpecifierSet / empty SpecifierSet object: constructor override x later assignments to "
        ".prereleases (True/False/None, also the non-bool 1 / 0) interleaved with contains / `in` / filter / .prereleases reads, call argument "
        "None/True/False/1/0/'x'/'', installed likewise; sets built from Specifier objects with their own overrides and == spellings; candidate lists of mixed str / Version items (related to the clause versions, with and without final "
        "releases, shuffled, occasional invalid strings); filter results observed as positions (identity by `is`) and kinds of the returned "
        "objects; non-trivial = the object was constructed; distinct by program text")
ASSUMPTIONS = ["filter() is observed through list(...): the laziness of the generator (when an InvalidVersion surfaces relative to items already "
               "yielded) is not observed",
               "numbers in generated versions stay far below the interpreter's 4300-digit int conversion limit; the model has no digit limit "
               "(beyond it the code raises InvalidVersion since 71d4b23, finding D10) and no theorem is claimed for such inputs"]


OPTOK = {"d", "S", "X", "L", "&", "&s", "P", "c", "in", "f", "str", "len", "pre", "eq", "eqs", "T", "F", "N", "s", "v", "1", "0", "E"}


def item_list(rng, pool, n=None, valid=0.985):
    n = rng.choice([0, 1, 2, 3, 3, 4, 6]) if n is None else n
    k = rng.random()
    its = []
    for _ in range(n):
        c = G.candidate(rng, pool, valid)
        its += [rng.choice("sv"), c]
    if k < 0.25:
        # only pre-releases: the fall-back case
        its = []
        for _ in range(n):
            v = rng.choice(pool)
            from dataclasses import replace
            v = replace(v, pre=rng.choice([("a", 1), ("rc", 0), None]), dev=rng.choice([None, 0]), local=None)
            if v.pre is None and v.dev is None: v = replace(v, dev=1)
            its += [rng.choice("sv"), gen.vstr(v)]
    if its and rng.random() < 0.12:
        # the same object twice in the list (kind d repeats the previous item's text; the implementation side passes the previous object again)
        j = 2 * rng.randrange(len(its) // 2)
        its[j + 2:j + 2] = ["d", its[j + 1]]
    return its


def obj_prog(rng, pool):
    kind = rng.choice(["X", "X", "S", "S", "S0", "L", "L"])
    o = rng.choice(G.TRI_OV)
    if kind == "X":
        return ["X", o, G.clause(rng, pool)], kind
    if kind == "S0":
        return ["S", o, rng.choice(["", " ", ",", ", ,"])], kind
    cl = [G.clause(rng, pool) for _ in range(rng.choice([1, 1, 2, 3]))]
    if kind == "S":
        return ["S", o, G.layout(rng, cl)], kind
    if rng.random() < 0.3: cl += [G.respell(rng, rng.choice(cl))]       # an == member in another spelling, with its own override: the first supplied wins
    prog = ["L", o, str(len(cl))]
    for x in cl: prog += [rng.choice(G.TRI_OV), x]
    return prog, kind


def streams(rng, tier):
    q = tier == "quick"
    out = []
    for n in ([1100, 2600] if tier == "quick" else [1100, 2600, 6000, 20000]):
        out.append(Case("large-set", "law.s.large", [str(n), str(rng.randrange(10 ** 6))], kind="law"))
    for _ in range(4500 if q else 110000):
        pool = G.pool_of(rng)
        prog, kind = obj_prog(rng, pool)
        isset = kind != "X"
        for _ in range(rng.choice([1, 2, 3, 5, 8])):
            k = rng.random()
            if k < 0.25: prog += ["P", rng.choice(["T", "F", "N", "T", "F", "N", "1", "0"])]
            elif k < 0.5:
                prog += ["c", rng.choice(G.TRI_ARG), rng.choice(["N", "N", "T", "F", "1", "0", "S", "E"]) if isset else "N", rng.choice("sv"), G.candidate(rng, pool, 0.97)]
            elif k < 0.58: prog += ["in", rng.choice("sv"), G.candidate(rng, pool, 0.97)]
            elif k < 0.68: prog += ["pre"]
            else:
                its = item_list(rng, pool)
                prog += ["f", rng.choice(G.TRI_ARG), str(len(its) // 2)] + its
        if rng.random() < 0.08:
            data = [j for j, t in enumerate(prog) if t not in OPTOK and not t.isdigit()]
            if data:
                j = rng.choice(data); prog[j] = gen.mutate(rng, prog[j])
                if prog[j] in OPTOK or prog[j].isdigit(): prog[j] += "x"
        out.append(Case("history:" + kind, "s.run", prog))
    # a & b then the policy on the result
    for _ in range(500 if q else 12000):
        pool = G.pool_of(rng)
        p1, _ = obj_prog(rng, pool)
        while p1[0] == "X": p1, _ = obj_prog(rng, pool)
        p2, _ = obj_prog(rng, pool)
        while p2[0] == "X": p2, _ = obj_prog(rng, pool)
        its = item_list(rng, pool)
        prog = p1 + p2 + ["&", "pre", "f", rng.choice(G.TRI_ARG), str(len(its) // 2)] + its
        prog += ["c", rng.choice(G.TRI_ARG), rng.choice(["N", "T", "F", "1", "E"]), rng.choice("sv"), G.candidate(rng, pool, 0.97)]
        prog += ["P", rng.choice("TFN10"), "pre", "f", "N", str(len(its) // 2)] + its
        out.append(Case("history:and", "s.run", prog))
    # objects with identity: Specifier objects shared between a set, a second set and their intersection; assignments to a member's
    # .prereleases through the harness's own reference, interleaved with assignments to the sets and reads of every set and object
    for _ in range(1200 if q else 30000):
        pool = G.pool_of(rng)
        ncell = rng.choice([1, 2, 2, 3, 4])
        cl = [G.clause(rng, pool) for _ in range(ncell)]
        if rng.random() < 0.4: cl.append(G.respell(rng, rng.choice(cl)))
        prog = []
        for x in cl: prog += ["X", rng.choice(G.TRI_OV), x]
        n = len(cl)
        def subset():
            k = rng.choice([0, 1, 1, 2, 2, 3])
            return [str(rng.randrange(n)) for _ in range(k)]
        members = []
        for _ in range(2):
            a = subset(); prog += ["L", rng.choice(["N", "N", "N", "N", "N", "N", "T", "F", "1", "0"]), str(len(a))] + a; members.append(set(a))
        if rng.random() < 0.85: prog += ["&", "0", "1"]; members.append(members[0] | members[1])
        def pre_cand():
            c = G.candidate(rng, pool, 1.0)
            return c if rng.random() < 0.3 else gen.vstr(replace(rng.choice(pool), pre=rng.choice([("a", 1), ("rc", 0)]), dev=None, local=None))
        for _ in range(rng.choice([2, 4, 6, 9])):
            k = rng.random(); nsets = len(members); si = str(rng.randrange(nsets)); ci = str(rng.randrange(n))
            if k < 0.25:
                held = sorted(set().union(*members))
                if held and rng.random() < 0.8: ci = rng.choice(held)
                holders = [j for j in range(nsets) if ci in members[j]]
                # the assignment goes through the harness's own reference, or (Mi) through the alias obtained by iterating a set that may hold
                # the object - a set that does not hold it (an == object supplied earlier took its place, or it was never a member) answers !noalias
                if rng.random() < 0.4 and (holders or rng.random() < 0.3):
                    prog += ["Mi", str(rng.choice(holders) if holders and rng.random() < 0.85 else rng.randrange(nsets)), ci, rng.choice(["T", "F", "N", "T", "F", "N", "1", "0"])]
                else:
                    prog += ["M", ci, rng.choice(["T", "F", "N", "T", "F", "N", "1", "0"])]
                # look at the assignment through a set that holds this object (the intersection by preference)
                if holders and rng.random() < 0.8:
                    h = str(max(holders) if rng.random() < 0.6 else rng.choice(holders))
                    prog += ["pre", h, "c", h, "N", rng.choice(["N", "N", "T"]), rng.choice("sv"), pre_cand()]
                    if rng.random() < 0.3:
                        its = item_list(rng, pool); prog += ["f", h, "N", str(len(its) // 2)] + its
            elif k < 0.35: prog += ["P", si, rng.choice(["T", "F", "N", "N", "1", "0"])]
            elif k < 0.55: prog += ["c", si, rng.choice(G.TRI_ARG), rng.choice(["N", "N", "T", "F"]), rng.choice("sv"), G.candidate(rng, pool, 0.97)]
            elif k < 0.6: prog += ["in", si, rng.choice("sv"), G.candidate(rng, pool, 0.97)]
            elif k < 0.75: prog += ["pre", si]
            elif k < 0.8: prog += ["str", si]
            elif k < 0.85: prog += ["xpre", ci]
            elif k < 0.9: prog += ["xc", ci, rng.choice(G.TRI_ARG), rng.choice("sv"), G.candidate(rng, pool, 0.97)]
            elif k < 0.93 and nsets < 5:
                sj = rng.randrange(nsets); prog += ["&", si, str(sj)]; members.append(members[int(si)] | members[sj])
            else:
                its = item_list(rng, pool)
                prog += (["f", si] if rng.random() < 0.8 else ["xf", ci]) + [rng.choice(G.TRI_ARG), str(len(its) // 2)] + its
        out.append(Case("history:world", "s.world", prog))
    for text, its in [(">=1.0", ["1.5a1"]), (">=1.0", ["1.0", "1.5a1"]), (">=1.0a1", ["1.5a1", "2.0"]), ("", ["1.0a1"]), ("", ["1.0a1", "1.0"]),
                      ("!=1.0a1", ["1.0a1", "2.0a1"]), ("===foo", ["1.0", "foo"]), ("==1.0.*", ["1.0.dev1", "1.0.1"]), ("<2", ["2.0.dev1", "1.0"])]:
        for o in "NTF":
            for a in "NTF":
                for kind in ("X", "S"):
                    if kind == "X" and not text: continue
                    pr = []
                    for x in its: pr += ["s", x]
                    out.append(Case("fixed", "s.run", [kind, o, text, "pre", "f", a, str(len(its))] + pr + ["c", a, "N", "s", its[0], "P", "F", "f", a, str(len(its))] + pr))
    for _ in range(900 if q else 25000):
        pool = G.pool_of(rng)
        kind = rng.choice(["X", "S", "S", "L", "L"])
        if kind == "X": text = G.clause(rng, pool)
        elif kind == "S": text = G.layout(rng, [G.clause(rng, pool) for _ in range(rng.choice([0, 0, 1, 1, 2, 3]))])
        else:
            # a set built from Specifier objects with their own overrides: the text field is a JSON list of [override, clause]
            cl = [G.clause(rng, pool) for _ in range(rng.choice([0, 1, 1, 2, 3]))]
            if cl and rng.random() < 0.3: cl.append(G.respell(rng, rng.choice(cl)))
            text = json.dumps([[rng.choice(G.TRI_OV), x] for x in cl])
        its = item_list(rng, pool, valid=1.0)
        out.append(Case("law", "law.s.c06", [kind, rng.choice(G.TRI_OV), rng.choice(["keep", "keep", "N", "T", "F", "1", "0"]), text] + its, kind="law"))
    return out


def nontrivial(c, i):
    return c.kind == "law" or not (i.startswith("!E") or i == "")
