#!/bin/bash
# import7.sh <tag> <id> <checks...>: take a round-7 agent's output from /tmp/seed_<tag>_out into seeded/<id>, drop its worktree, confirm + run checks
T=$1; ID=$2; shift; shift
mkdir -p /verif/seeded/$ID
cp /tmp/seed_${T}_out/patch.diff /tmp/seed_${T}_out/demo.py /tmp/seed_${T}_out/meta.json /verif/seeded/$ID/ || exit 1
git -C /repo worktree remove --force /tmp/seed_$T 2>/dev/null; rm -rf /tmp/seed_${T}_out /tmp/seed_$T
/verif/harness/confirm.sh $ID "$@"
