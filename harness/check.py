#!/usr/bin/env python3
import argparse, os, sys
sys.path.insert(0, os.path.dirname(os.path.abspath(__file__)))
import core
ap = argparse.ArgumentParser()
ap.add_argument("pid"); ap.add_argument("--tier", default=os.environ.get("VERIF_TIER") or "quick"); ap.add_argument("--replay")
a = ap.parse_args()
if a.tier not in ("quick", "thorough"): a.tier = "quick"
try: seed = int(os.environ.get("VERIF_SEED", "0"))
except ValueError: seed = 0
sys.exit(core.run_check(a.pid.upper(), a.tier, seed, a.replay))
