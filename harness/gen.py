"""Structured generators shared by the property modules.  Every random choice comes from the rng passed in."""
import itertools
from dataclasses import dataclass, replace
from typing import Optional, Tuple, Union


@dataclass(frozen=True)
class V:
    epoch: int
    release: Tuple[int, ...]
    pre: Optional[Tuple[str, int]]      # ('a'|'b'|'rc', n)
    post: Optional[int]
    dev: Optional[int]
    local: Optional[Tuple[Union[int, str], ...]]


def vstr(v):
    s = ""
    if v.epoch: s += f"{v.epoch}!"
    s += ".".join(map(str, v.release))
    if v.pre: s += f"{v.pre[0]}{v.pre[1]}"
    if v.post is not None: s += f".post{v.post}"
    if v.dev is not None: s += f".dev{v.dev}"
    if v.local is not None: s += "+" + ".".join(map(str, v.local))
    return s


def rand_case(rng, w):
    return "".join(c.upper() if rng.random() < 0.3 else c for c in w)


def rand_num(rng, n, allow_implicit):
    if n == 0 and allow_implicit and rng.random() < 0.5: return ""
    return ("0" * rng.choice([0, 0, 0, 1, 2])) + str(n)


SEPS = ["", ".", "-", "_"]
WS_L = ["", "", "", " ", "\t", "\n", "\x0b", " ", " \r\n"]
WS_R = ["", "", "", " ", "\n", " ", "\t "]


def spell(rng, v, ws=True, vprefix=True):
    s = rng.choice(WS_L) if ws else ""
    if vprefix: s += rng.choice(["", "", "", "v", "V"])
    if v.epoch or rng.random() < 0.1: s += rand_num(rng, v.epoch, False) + "!"
    s += ".".join(rand_num(rng, x, False) for x in v.release)
    if v.pre:
        l, n = v.pre
        w = rng.choice({"a": ["a", "alpha"], "b": ["b", "beta"], "rc": ["rc", "c", "pre", "preview"]}[l])
        s += rng.choice(SEPS) + rand_case(rng, w) + rng.choice(SEPS) + rand_num(rng, n, True)
    if v.post is not None:
        # implicit form "-N" only where it cannot be read as the number of the preceding letter
        if rng.random() < 0.25 and not (v.pre and s[-1].isalpha()):
            s += "-" + rand_num(rng, v.post, False)
        else:
            w = rng.choice(["post", "rev", "r"])
            s += rng.choice(SEPS) + rand_case(rng, w) + rng.choice(SEPS) + rand_num(rng, v.post, True)
    if v.dev is not None:
        s += rng.choice(SEPS) + rand_case(rng, "dev") + rng.choice(SEPS) + rand_num(rng, v.dev, True)
    if v.local is not None:
        segs = [rand_num(rng, x, False) if isinstance(x, int) else rand_case(rng, x) for x in v.local]
        s += "+" + segs[0] + "".join(rng.choice([".", "-", "_"]) + g for g in segs[1:])
    if ws: s += rng.choice(WS_R)
    return s


SMALL = [0, 0, 1, 1, 2, 3, 10]
BIG = [2 ** 70, 10 ** 25 + 7, 4294967296, 99999999999999999999, 2 ** 63 - 1, 2 ** 63, 2 ** 64, 2 ** 31 - 1, 2 ** 31, 2 ** 32 - 1, 2 ** 64 - 1, 2 ** 63 + 1]
LOCAL_SEGS = [0, 1, 2, 10, "a", "b", "abc", "1a", "a1", "ubuntu", "z", "00a"]


def small(rng):
    return rng.choice(SMALL) if rng.random() < 0.94 else rng.choice(BIG)


def rand_v(rng, local_p=0.3):
    rel = tuple(small(rng) for _ in range(rng.choice([1, 1, 2, 2, 2, 3, 3, 4, 6])))
    pre = rng.choice([None, None, ("a", small(rng)), ("b", small(rng)), ("rc", small(rng))])
    post = rng.choice([None, None, small(rng)])
    dev = rng.choice([None, None, small(rng)])
    loc = None
    if rng.random() < local_p:
        loc = tuple(rng.choice(LOCAL_SEGS) for _ in range(rng.choice([1, 1, 2, 3, 4, 5])))
        loc = tuple(int(x) if isinstance(x, str) and x.isdigit() else x for x in loc)
    return V(rng.choice([0, 0, 0, 1, 2]), rel, pre, post, dev, loc)


def neighbours(rng, v):
    """Versions related to v: equal spellings of another shape, local added/removed, order neighbours."""
    out = [replace(v, release=v.release + (0,)), replace(v, release=v.release + (0, 0))]
    if len(v.release) > 1 and v.release[-1] == 0: out.append(replace(v, release=v.release[:-1]))
    out.append(replace(v, local=None))
    out.append(replace(v, local=(rng.choice(LOCAL_SEGS),)))
    r = list(v.release); i = rng.randrange(len(r)); r[i] += 1
    out.append(replace(v, release=tuple(r)))
    out.append(replace(v, release=tuple(r), pre=("a", 1), post=None, dev=None))      # a pre-release / dev release of a later release
    out.append(replace(v, release=v.release[:-1] + (v.release[-1] + 1,), pre=None, post=None, dev=1))
    if r[i] > 1:
        r2 = list(v.release); r2[i] -= 1; out.append(replace(v, release=tuple(r2)))
    out.append(replace(v, release=v.release[:-1] or (0,)))
    out.append(replace(v, pre=None)); out.append(replace(v, post=None)); out.append(replace(v, dev=None))
    out.append(replace(v, pre=("a", 0))); out.append(replace(v, pre=("rc", 1)))
    out.append(replace(v, post=0)); out.append(replace(v, post=(v.post or 0) + 1))
    out.append(replace(v, dev=0)); out.append(replace(v, dev=(v.dev or 0) + 1))
    out.append(replace(v, epoch=v.epoch + 1))
    out.append(V(v.epoch, v.release, None, None, None, None))
    return [fix_local(x) for x in out]


def fix_local(v):
    if v.local is None: return v
    return replace(v, local=tuple(int(x) if isinstance(x, str) and x.isdigit() else x for x in v.local))


MUT_CH = list("0123456789abcrpostdevlvx.-_+!*=<>~, \n") + ["ſ", "ı", "İ", "K", "é", "١", "１", " ", "\x00"]
MUT_CH = MUT_CH + ["(", ")"]       # follow-up round: parentheses (the === text excludes ')', requirement clauses may be parenthesised)


def mutate(rng, s, chars=MUT_CH):
    s = list(s)
    for _ in range(rng.choice([1, 1, 2])):
        k = rng.random(); i = rng.randrange(len(s) + 1)
        if k < 0.35 and s: del s[min(i, len(s) - 1)]
        elif k < 0.7: s.insert(i, rng.choice(chars))
        elif k < 0.8 and s: s.insert(i, s[min(i, len(s) - 1)])
        elif k < 0.9 and len(s) > 1:
            j = min(i, len(s) - 2); s[j], s[j + 1] = s[j + 1], s[j]
        elif s: s[min(i, len(s) - 1)] = rng.choice(chars)
    return "".join(s)


def exhaustive(alphabet, maxlen):
    for n in range(maxlen + 1):
        for t in itertools.product(alphabet, repeat=n):
            yield "".join(t)


# ---- independent reference order on structured versions (the PEP 440 reading, used only by harness-side sanity checks) ----
def rank(v):
    rel = list(v.release)
    while rel and rel[-1] == 0: rel.pop()
    if v.pre is None and v.post is None and v.dev is not None: pre = (0, 0)
    elif v.pre is None: pre = (4, 0)
    else: pre = ({"a": 1, "b": 2, "rc": 3}[v.pre[0]], v.pre[1])
    post = (0, 0) if v.post is None else (1, v.post)
    dev = (1, 0) if v.dev is None else (0, v.dev)
    loc = (0, ()) if v.local is None else (1, tuple((1, x, "") if isinstance(x, int) else (0, 0, x) for x in v.local))
    return (v.epoch, tuple(rel), pre, post, dev, loc)


# ---- wider generators (improvement round; additive: nothing above this line changed) --------------------------------------------
# all 29 code points that \s matches in a str pattern (the (?a:...) group of Version._regex does not cover the surrounding \s*)
WS_ALL = [chr(c) for c in (9, 10, 11, 12, 13, 28, 29, 30, 31, 32, 133, 160, 5760, 8192, 8193, 8194, 8195, 8196, 8197, 8198, 8199,
                           8200, 8201, 8202, 8232, 8233, 8239, 8287, 12288)]
BIG_WIDE = BIG + [2 ** 61 - 1, 2 ** 61, 2 * (2 ** 61 - 1), 10 ** 40, 10 ** 100 + 1, 2 ** 128, 9 * 10 ** 59]
ALNUM36 = "0123456789abcdefghijklmnopqrstuvwxyz"


def rand_ws(rng, p_empty=0.5):
    if rng.random() < p_empty: return ""
    return "".join(rng.choice(WS_ALL) for _ in range(rng.choice([1, 1, 2, 3])))


def rand_num_wide(rng, n, allow_implicit, max_zeros=50):
    if n == 0 and allow_implicit and rng.random() < 0.5: return ""
    z = rng.choice([0, 0, 0, 1, 2, 3, 7, 20, max_zeros]) if rng.random() < 0.5 else rng.randrange(max_zeros + 1)
    return ("0" * z) + str(n)


HUGE = [10 ** 1000 + 3, 10 ** 1000 + 4, 7 * 10 ** 1100]      # ~1000 digits (the extracted model needs ~0.1 s for each; 4000 digits: seconds)
HUGE4K = [10 ** 4000 + 3, 10 ** 4000 + 4, 7 * 10 ** 4100]   # with a zero run of 50 still below CPython's 4300-digit int() limit; thorough tier only


def wide_int(rng):
    k = rng.random()
    if k < 0.002: return rng.choice(HUGE)
    if k < 0.55: return rng.choice(SMALL)
    if k < 0.75: return rng.choice(BIG_WIDE)
    if k < 0.9: return rng.randrange(10 ** rng.choice([1, 2, 5, 12, 19, 20, 30]))
    return rng.choice(BIG_WIDE) + rng.choice([-1, 1])


def rand_local_seg(rng):
    """one local segment: an int (small / big) or a random lower-case alphanumeric token of length 1..4 (never all digits)"""
    k = rng.random()
    if k < 0.25: return wide_int(rng)
    if k < 0.4: return rng.choice(LOCAL_SEGS)
    s = "".join(rng.choice(ALNUM36) for _ in range(rng.choice([1, 1, 2, 3, 4])))
    return int(s) if s.isdigit() else s


def perturb_seg(rng, x):
    """a near miss of a local segment: int +-1 / int <-> token, one character changed / appended / dropped"""
    if isinstance(x, int):
        return rng.choice([x + 1, max(0, x - 1), str(x) + rng.choice("abz"), rng.choice("az") + str(x)])
    k = rng.randrange(3); i = rng.randrange(len(x))
    if k == 0: y = x[:i] + rng.choice(ALNUM36) + x[i + 1:]
    elif k == 1: y = x + rng.choice(ALNUM36)
    else: y = x[:i] + x[i + 1:]
    if not y: y = rng.choice("az")
    return int(y) if y.isdigit() else y


def rand_v_wide(rng, local_p=0.4):
    """like rand_v, but: big epochs, releases of up to 40 components, big numbers everywhere, random alphanumeric and big numeric local
    segments, up to 8 of them"""
    n = rng.choice([1, 1, 2, 2, 3, 3, 4, 6, 8, 12, 12, 40])
    rel = tuple(wide_int(rng) if rng.random() < (0.9 if n <= 8 else 0.3) else 0 for _ in range(n))
    pre = rng.choice([None, None, ("a", wide_int(rng)), ("b", wide_int(rng)), ("rc", wide_int(rng))])
    post = rng.choice([None, None, wide_int(rng)])
    dev = rng.choice([None, None, wide_int(rng)])
    loc = None
    if rng.random() < local_p:
        loc = tuple(rand_local_seg(rng) for _ in range(rng.choice([1, 1, 2, 3, 4, 5, 8])))
    ep = rng.choice([0, 0, 0, 1, 2, 3, 4, 7]) if rng.random() < 0.8 else rng.choice(BIG_WIDE)
    return V(ep, rel, pre, post, dev, loc)


def neighbours_wide(rng, v):
    """order neighbours that the narrow `neighbours` cannot reach: perturbed local segments, prefix / extension of the local label,
    a bump deep inside a long release, long zero tails, epoch +-1"""
    out = []
    if v.local is not None:
        l = list(v.local); i = rng.randrange(len(l))
        out.append(replace(v, local=tuple(l[:i] + [perturb_seg(rng, l[i])] + l[i + 1:])))
        out.append(replace(v, local=tuple(l + [rand_local_seg(rng)])))
        if len(l) > 1: out.append(replace(v, local=tuple(l[:-1])))
        out.append(replace(v, local=tuple(l[:i] + [perturb_seg(rng, l[i])])))
        for _ in range(2):      # another segment of any kind in the same position: small vs big integers, integer vs token
            out.append(replace(v, local=tuple(l[:i] + [rand_local_seg(rng)] + l[i + 1:])))
        out.append(replace(v, local=tuple(l[:i] + [rng.choice(BIG_WIDE)] + l[i + 1:])))
    else:
        out.append(replace(v, local=(rand_local_seg(rng),)))
    r = list(v.release); i = rng.randrange(len(r)); r[i] += 1
    out.append(replace(v, release=tuple(r)))
    out.append(replace(v, release=v.release + (0,) * rng.choice([1, 5, 30])))
    out.append(replace(v, release=v.release + (0,) * rng.choice([1, 5, 30]) + (1,)))
    out.append(replace(v, epoch=v.epoch + 1))
    if v.epoch: out.append(replace(v, epoch=v.epoch - 1))
    if v.pre: out.append(replace(v, pre=(v.pre[0], v.pre[1] + 1)))
    if v.post is not None: out.append(replace(v, post=v.post + 1, dev=None)); out.append(replace(v, dev=0))
    if v.dev is not None: out.append(replace(v, dev=v.dev + 1)); out.append(replace(v, dev=None))
    else: out.append(replace(v, dev=rng.choice([0, 1, 2 ** 64])))
    if v.post is None: out.append(replace(v, post=rng.choice([0, 1, 2 ** 64])))
    return [fix_local(x) for x in out]


def spell_wide(rng, v, ws=True, vprefix=True, max_zeros=50):
    """`spell` with zero runs of up to max_zeros, surrounding whitespace drawn from all 29 \\s code points, and every word alternative"""
    num = lambda n, imp: rand_num_wide(rng, n, imp, max_zeros)
    s = rand_ws(rng) if ws else ""
    if vprefix: s += rng.choice(["", "", "", "v", "V"])
    if v.epoch or rng.random() < 0.1: s += num(v.epoch, False) + "!"
    s += ".".join(num(x, False) for x in v.release)
    if v.pre:
        l, n = v.pre
        w = rng.choice({"a": ["a", "alpha"], "b": ["b", "beta"], "rc": ["rc", "c", "pre", "preview"]}[l])
        s += rng.choice(SEPS) + rand_case(rng, w) + rng.choice(SEPS) + num(n, True)
    if v.post is not None:
        if rng.random() < 0.25 and not (v.pre and s[-1].isalpha()):
            s += "-" + num(v.post, False)
        else:
            w = rng.choice(["post", "rev", "r"])
            s += rng.choice(SEPS) + rand_case(rng, w) + rng.choice(SEPS) + num(v.post, True)
    if v.dev is not None:
        s += rng.choice(SEPS) + rand_case(rng, "dev") + rng.choice(SEPS) + num(v.dev, True)
    if v.local is not None:
        segs = [num(x, False) if isinstance(x, int) else rand_case(rng, x) for x in v.local]
        s += "+" + segs[0] + "".join(rng.choice([".", "-", "_"]) + g for g in segs[1:])
    if ws: s += rand_ws(rng)
    return s


def rel_of(v1, v2):
    """'<', '=' or '>' by the independent reference order `rank`"""
    a, b = rank(v1), rank(v2)
    return "<" if a < b else ">" if a > b else "="


def reading(v):
    """the PEP 440 reading of the structured version, as JSON-able dict (oracle for law.v.reading; independent of model and implementation)"""
    rel = list(v.release)
    pub = replace(v, local=None)
    return {"str": vstr(v), "epoch": v.epoch, "release": rel, "pre": list(v.pre) if v.pre else None, "post": v.post, "dev": v.dev,
            "local": None if v.local is None else ".".join(map(str, v.local)),
            "public": vstr(pub), "base": vstr(V(v.epoch, v.release, None, None, None, None)),
            "is_pre": v.pre is not None or v.dev is not None, "is_post": v.post is not None, "is_dev": v.dev is not None,
            "major": rel[0], "minor": rel[1] if len(rel) > 1 else 0, "micro": rel[2] if len(rel) > 2 else 0}


# ---- look-alike letters: characters whose str.lower() / str.upper() / casefold() lands on an ASCII letter ----
CONFUSABLE = {"k": ["\u212a"], "s": ["\u017f"], "i": ["\u0131", "\u0130"], "a": ["\uff41", "\u0430"], "e": ["\u0435"], "o": ["\u043e", "\uff4f"],
              "c": ["\u0441"], "p": ["\u0440"], "r": ["\u0280"], "b": ["\uff42"], "v": ["\u2174"], "d": ["\u217e"]}
K_TOKENS = ["k", "kernel", "1k", "k1", "rc1k", "ok", "K"]


def confuse_letter(rng, s):
    """s with one ASCII letter replaced by a look-alike (None when s has no such letter)"""
    pos = [i for i, ch in enumerate(s) if ch.lower() in CONFUSABLE]
    if not pos: return None
    i = rng.choice(pos)
    return s[:i] + rng.choice(CONFUSABLE[s[i].lower()]) + s[i + 1:]


def rand_v_with_k(rng):
    """a version whose local label holds a token with the letter k (the only ASCII letter another character lower-cases to)"""
    v = rand_v(rng, local_p=0)
    toks = tuple(rng.choice(K_TOKENS) for _ in range(rng.choice([1, 1, 2])))
    if rng.random() < 0.5: toks = toks + (rng.choice(LOCAL_SEGS),)
    return replace(v, local=toks)
